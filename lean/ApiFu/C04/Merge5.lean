/-
  C04 — part 5: the single-root-subscription rule (validate_operations.go:36-43 = §5.2.3.1).
-/
import ApiFu.C04.Merge4

namespace ApiFu.C04
open Spec Model
set_option linter.unusedSimpArgs false
set_option linter.unusedVariables false

theorem responseNames_eq (fs : List FRef) : Model.responseNames fs = Spec.dedup (fs.map (·.rname)) := by
  unfold Model.responseNames Spec.dedup
  rw [List.foldl_map]

theorem dedup_length_congr (l1 l2 : List String) (h : ∀ x, x ∈ l1 ↔ x ∈ l2) :
    (Spec.dedup l1).length = (Spec.dedup l2).length := by
  apply Nat.le_antisymm
  · exact length_le_of_nodup_subset _ _ (nodup_dedup l1)
      (fun x hx => (mem_dedup l2 x).2 ((h x).1 ((mem_dedup l1 x).1 hx)))
  · exact length_le_of_nodup_subset _ _ (nodup_dedup l2)
      (fun x hx => (mem_dedup l1 x).2 ((h x).2 ((mem_dedup l2 x).1 hx)))

/-- On the selection sets of the table the model's collection and the specification's reach the
    same response names. -/
theorem root_names_agree {S : Schema} {D : Document} (h : MergeHyp S D) {scope : Option String} {ss : SelSet}
    (hroot : (⟨scope, ss.pos, ss.sels⟩ : SetRef) ∈ allSets S D) {fs : List FRef}
    (hfs : addFieldSelections S D (Model.fuelFor D) scope (some ss) [] = .ok fs) (x : String) :
    x ∈ fs.map (·.rname) ↔ x ∈ (Spec.rootNames D (Spec.fuelFor D) [] ss.sels).1 := by
  rw [rootNames_eq_collect S D (Spec.fuelFor D) scope [] ss.sels]
  simp only [List.mem_map]
  have hfuel := spec_fuel_ok (S := S) h.names hroot
  constructor
  · rintro ⟨f, hf, rfl⟩
    have hc := (addFieldSelections_mem h.posU hroot hfs f).1 hf
    simp only [List.not_mem_nil, false_or] at hc
    obtain ⟨c, hcs, hrel⟩ := collects_to_S h.ws h.names hc hroot
    exact ⟨c, (collect_mem (by simpa [Spec.fragmentNamesUnique] using h.names) hfuel c).2 hcs, hrel.rname⟩
  · rintro ⟨c, hc, rfl⟩
    have hcs := (collect_mem (by simpa [Spec.fragmentNamesUnique] using h.names) hfuel c).1 hc
    obtain ⟨f, hf, hrel⟩ := collectsS_to_M h.ws h.names hcs ss.pos hroot
    exact ⟨f, (addFieldSelections_mem h.posU hroot hfs f).2 (Or.inr hf), hrel.rname.symm⟩

theorem subscriptionErrors_spec {S : Schema} {D : Document} (h : MergeHyp S D) :
    ∀ (ds : List Definition), (∀ d ∈ ds, d ∈ D) →
      ∃ errs, subscriptionErrors S D (Model.fuelFor D) ds = (errs, false) ∧
        (errs = [] ↔ ds.all (fun d => match d with
            | .op (some (.subscription, _)) _ _ _ sel =>
              decide ((Spec.dedup (Spec.rootNames D (Spec.fuelFor D) [] sel.sels).1).length = 1)
            | _ => true) = true)
  | [], _ => ⟨[], rfl, by simp⟩
  | d :: rest, hm => by
    obtain ⟨r, hr, hiff⟩ := subscriptionErrors_spec h rest (fun x hx => hm x (List.mem_cons_of_mem _ hx))
    have hdD : d ∈ D := hm d (List.mem_cons_self ..)
    cases d with
    | frag n np tc tcp dirs sel p =>
      refine ⟨r, by simp [subscriptionErrors, hr], ?_⟩
      simpa using hiff
    | op kind name vars dirs sel =>
      cases kind with
      | none =>
        refine ⟨r, by simp [subscriptionErrors, hr], ?_⟩
        simpa using hiff
      | some kp =>
        obtain ⟨k, kpos⟩ := kp
        cases k with
        | query =>
          refine ⟨r, by simp [subscriptionErrors, hr], ?_⟩
          simpa using hiff
        | mutation =>
          refine ⟨r, by simp [subscriptionErrors, hr], ?_⟩
          simpa using hiff
        | subscription =>
          have hroot : (⟨Model.opScope S (some (OpKind.subscription, kpos)), sel.pos, sel.sels⟩ : SetRef) ∈ allSets S D := by
            have := allSets_def (S := S) hdD
            simpa [Model.defScope, Model.defSel] using this
          obtain ⟨fs, hfs⟩ := addFieldSelections_ok h.posU (spreadsDefinedT_of_spec h.spreads) hroot []
          have hnames := root_names_agree h hroot hfs
          have hlen : (Model.responseNames fs).length =
              (Spec.dedup (Spec.rootNames D (Spec.fuelFor D) [] sel.sels).1).length := by
            rw [responseNames_eq]
            exact dedup_length_congr _ _ hnames
          simp only [subscriptionErrors, hr, hfs]
          by_cases h1 : (Spec.dedup (Spec.rootNames D (Spec.fuelFor D) [] sel.sels).1).length = 1
          · refine ⟨r, by simp [hlen, h1], ?_⟩
            simp only [List.all_cons, h1, decide_true, Bool.true_and]
            exact hiff
          · refine ⟨_, by simp [hlen, h1]; rfl, ?_⟩
            simp [h1]

theorem singleRoot_unfold (D : Document) :
    Spec.singleRootSubscription D = D.all (fun d => match d with
      | .op (some (.subscription, _)) _ _ _ sel =>
        decide ((Spec.dedup (Spec.rootNames D (Spec.fuelFor D) [] sel.sels).1).length = 1)
      | _ => true) := by
  unfold Spec.singleRootSubscription
  apply all_congr_mem
  intro d _
  cases d with
  | frag => rfl
  | op kind name vars dirs sel =>
    cases kind with
    | none => rfl
    | some kp =>
      obtain ⟨k, kpos⟩ := kp
      cases k <;> rfl

/-- **Single-root subscription** (validate_operations.go:36-43 = §5.2.3.1), documents that are
    well-scoped, have distinct positions for distinct selection sets, unique fragment names and
    defined spread targets: the collection of the root fields succeeds within the pipeline's fuel
    for every subscription (no secondary error, flag `false`) and "subscriptions may only have one
    root field" is reported iff the specification counts a number of response names other than one. -/
theorem model_single_root_eq_spec {S : Schema} {D : Document} (h : MergeHyp S D) :
    ∃ errs, subscriptionErrors S D (Model.fuelFor D) D = (errs, false) ∧
      (errs = [] ↔ Spec.singleRootSubscription D = true) := by
  obtain ⟨errs, he, hiff⟩ := subscriptionErrors_spec h D (fun _ hd => hd)
  exact ⟨errs, he, by rw [singleRoot_unfold]; exact hiff⟩

end ApiFu.C04
