/-
  C04 — part 14: the specification's SameResponseShape / FieldsInSetCanMerge against the witnesses.
-/
import ApiFu.C04.Merge13

namespace ApiFu.C04
open Spec Model
set_option linter.unusedSimpArgs false
set_option linter.unusedVariables false

/-! ## `pairsOk` -/

theorem pairsOk_false_elim {α : Type} (p : α → α → Bool) : ∀ (l : List α), Spec.pairsOk p l = false →
    ∃ x ∈ l, ∃ y ∈ l, p x y = false
  | [], h => by simp [Spec.pairsOk] at h
  | z :: rest, h => by
    simp only [Spec.pairsOk, Bool.and_eq_false_iff] at h
    rcases h with h | h
    · have hex : ∃ y ∈ rest, p z y = false := by
        apply Classical.byContradiction
        intro hne
        have hall : rest.all (p z) = true := by
          rw [List.all_eq_true]
          intro y hy
          cases hp : p z y with
          | true => rfl
          | false => exact absurd ⟨y, hy, hp⟩ hne
        rw [hall] at h
        simp at h
      obtain ⟨y, hy, hp⟩ := hex
      exact ⟨z, by simp, y, by simp [hy], hp⟩
    · obtain ⟨x, hx, y, hy, hp⟩ := pairsOk_false_elim p rest h
      exact ⟨x, by simp [hx], y, by simp [hy], hp⟩

theorem pairsOk_false_intro {α : Type} (p : α → α → Bool) : ∀ (l : List α) (x y : α), x ∈ l → y ∈ l → x ≠ y →
    p x y = false → p y x = false → Spec.pairsOk p l = false
  | [], x, y, hx, _, _, _, _ => by simp at hx
  | z :: rest, x, y, hx, hy, hne, h1, h2 => by
    simp only [List.mem_cons] at hx hy
    simp only [Spec.pairsOk, Bool.and_eq_false_iff]
    rcases hx with rfl | hx
    · rcases hy with rfl | hy
      · exact absurd rfl hne
      · left
        apply Bool.eq_false_iff.2
        intro hall
        rw [List.all_eq_true] at hall
        rw [hall y hy] at h1
        simp at h1
    · rcases hy with rfl | hy
      · left
        apply Bool.eq_false_iff.2
        intro hall
        rw [List.all_eq_true] at hall
        rw [hall x hx] at h2
        simp at h2
      · exact Or.inr (pairsOk_false_intro p rest x y hx hy hne h1 h2)

/-! ## Types -/

theorem cfType_eq {S : Schema} {D : Document} (h : MergeHyp S D) {f : FRef} {c : CF} (hf : TField S D f)
    (hc : CFRel f c) : Spec.cfType S c = some (typeOf f) := by
  obtain ⟨r, hr, al, n, np, args, dirs, sub, hm, rfl⟩ := hf
  have hg := good_allSets h.ws r hr
  obtain ⟨p, hp', hp, ⟨d, hd⟩, _⟩ := hg.field h.ws.wf hm
  unfold Spec.cfType typeOf
  rw [hc.parent, hc.name]
  simp only [mkRef, hp']
  have hagree := fieldDef_agree h.ws.wf hp n
  by_cases hn : n = "__typename"
  · simp only [hn, if_true] at hagree ⊢
    rw [hagree]
    rfl
  · simp only [hn, if_false] at hagree ⊢
    rw [hagree] at hd
    rw [hagree, hd]
    rfl

theorem cf_parent {S : Schema} {D : Document} (h : MergeHyp S D) {f : FRef} {c : CF} (hf : TField S D f)
    (hc : CFRel f c) : ∃ p, c.parent = some p ∧ f.setType = some p := by
  obtain ⟨p, hp⟩ := (hf.hasType h).2
  exact ⟨p, hc.parent.trans hp, hp⟩

/-! ## The merged set of two fields -/

/-- The collected sub-selections of two fields (§5.3.2: "the merged set"). -/
def subL (S : Schema) (D : Document) (ca cb : CF) : List CF :=
  (Spec.collect S D (Spec.fuelFor D) ca.inner [] (Spec.subsel ca)).1 ++
  (Spec.collect S D (Spec.fuelFor D) cb.inner
    (Spec.collect S D (Spec.fuelFor D) ca.inner [] (Spec.subsel ca)).2 (Spec.subsel cb)).1

theorem near_nil {S : Schema} {parent sc : Option String} {s : Selection} (h : Near S parent [] sc s) : False := by
  cases h with
  | here hm => simp at hm
  | inline hm _ => simp at hm

theorem collectsS_nil {S : Schema} {D : Document} {parent : Option String} {c : CF}
    (h : CollectsS S D parent [] c) : False := by
  cases h with
  | field hn => exact near_nil hn
  | spread hn _ _ => exact near_nil hn

theorem subsel_fuel {S : Schema} {D : Document} (h : MergeHyp S D) {f : FRef} {c : CF} (hf : TField S D f)
    (hc : CFRel f c) :
    Model.sizeSels (Spec.subsel c) + 1 + npot (fragWeight D) (Spec.fragNames D) [] ≤ Spec.fuelFor D := by
  unfold Spec.subsel
  rw [hc.sel]
  cases hs : f.sel with
  | none =>
    have := npot_initial h.names
    rw [specFuel_eq]
    simp only [Model.sizeSels, Model.fuelFor]
    omega
  | some ss => exact spec_fuel_ok h.names (hf.subSet hs)

/-- The specification's sub-fields of one field are the model's. -/
theorem collectsS_sub {S : Schema} {D : Document} (h : MergeHyp S D) {f : FRef} {c : CF} (hf : TField S D f)
    (hc : CFRel f c) :
    (∀ x, CollectsS S D c.inner (Spec.subsel c) x → ∃ g, Sub S D f g ∧ CFRel g x) ∧
    (∀ g, Sub S D f g → ∃ x, CollectsS S D c.inner (Spec.subsel c) x ∧ CFRel g x) := by
  unfold Spec.subsel
  rw [hc.sel]
  cases hs : f.sel with
  | none =>
    refine ⟨fun x hx => (collectsS_nil hx).elim, fun g hg => ?_⟩
    obtain ⟨ss, hss, _⟩ := hg
    rw [hs] at hss
    simp at hss
  | some ss =>
    have hin : c.inner = f.inner := hc.inner (by simp [hs])
    have hroot := hf.subSet hs
    rw [hin]
    constructor
    · intro x hx
      obtain ⟨g, hg, hrel⟩ := collectsS_to_M h.ws h.names hx ss.pos hroot
      exact ⟨g, ⟨ss, hs, hg⟩, hrel⟩
    · intro g hg
      obtain ⟨ss', hss', hcol⟩ := hg
      rw [hs] at hss'
      have : ss' = ss := (Option.some.inj hss').symm
      subst this
      exact collects_to_S h.ws h.names hcol hroot

theorem subL_mem {S : Schema} {D : Document} (h : MergeHyp S D) {a b : FRef} {ca cb : CF} (ta : TField S D a)
    (tb : TField S D b) (ha : CFRel a ca) (hb : CFRel b cb) :
    (∀ x ∈ subL S D ca cb, ∃ g, SubU S D a b g ∧ CFRel g x) ∧
    (∀ g, SubU S D a b g → ∃ x ∈ subL S D ca cb, CFRel g x) := by
  have hu : Spec.nodup (Spec.fragNames D) = true := h.names
  have hmem := collect2_mem (S := S) hu (p1 := ca.inner) (p2 := cb.inner) (subsel_fuel h ta ha) (subsel_fuel h tb hb)
  constructor
  · intro x hx
    rcases (hmem x).1 hx with hx | hx
    · obtain ⟨g, hg, hrel⟩ := (collectsS_sub h ta ha).1 x hx
      exact ⟨g, Or.inl hg, hrel⟩
    · obtain ⟨g, hg, hrel⟩ := (collectsS_sub h tb hb).1 x hx
      exact ⟨g, Or.inr hg, hrel⟩
  · intro g hg
    rcases hg with hg | hg
    · obtain ⟨x, hx, hrel⟩ := (collectsS_sub h ta ha).2 g hg
      exact ⟨x, (hmem x).2 (Or.inl hx), hrel⟩
    · obtain ⟨x, hx, hrel⟩ := (collectsS_sub h tb hb).2 g hg
      exact ⟨x, (hmem x).2 (Or.inr hx), hrel⟩

/-! ## One step of the specification's two functions -/

theorem spec_shape_step {S : Schema} {D : Document} (h : MergeHyp S D) {a b : FRef} {ca cb : CF}
    (ta : TField S D a) (tb : TField S D b) (ha : CFRel a ca) (hb : CFRel b cb) (fuel : Nat) :
    Spec.sameResponseShape S D (fuel + 1) ca cb =
      (specShapeLocal S (typeOf a) (typeOf b) &&
        (!specShapeDeep S (typeOf a) (typeOf b) ||
          Spec.pairsOk (fun x y => x.rname != y.rname || Spec.sameResponseShape S D fuel x y) (subL S D ca cb))) := by
  rw [Spec.sameResponseShape]
  rw [cfType_eq h ta ha, cfType_eq h tb hb]
  simp only [specShapeLocal, specShapeDeep, subL]
  cases hw : Spec.sameWrappers (typeOf a) (typeOf b) with
  | none => simp
  | some pr =>
    obtain ⟨na, nb⟩ := pr
    simp only
    by_cases hl : (Spec.isLeaf S na || Spec.isLeaf S nb) = true
    · simp [hl]
    · simp only [hl, if_false, Bool.false_eq_true, Bool.not_false, Bool.true_and, Bool.not_true, Bool.false_or]

/-- The condition FieldsInSetCanMerge puts on one pair. -/
def specQ (S : Schema) (D : Document) (fuel : Nat) (a b : CF) : Bool :=
  a.rname != b.rname ||
    (Spec.sameResponseShape S D (Spec.pairFuel D) a b &&
      (match a.parent, b.parent with
       | some pa, some pb =>
         if pa = pb || !Spec.isObject S pa || !Spec.isObject S pb then
           a.name = b.name && Spec.sameArguments a.args b.args && Spec.fieldsCanMerge S D fuel (subL S D a b)
         else true
       | _, _ => true))

theorem fieldsCanMerge_succ (S : Schema) (D : Document) (fuel : Nat) (cs : List CF) :
    Spec.fieldsCanMerge S D (fuel + 1) cs = Spec.pairsOk (specQ S D fuel) cs := by
  rw [Spec.fieldsCanMerge]
  rfl

theorem isObjectName_eq (S : Schema) (n : String) : Model.isObjectName S n = Spec.isObject S n := rfl

theorem specQ_eq {S : Schema} {D : Document} (h : MergeHyp S D) {a b : FRef} {ca cb : CF}
    (ta : TField S D a) (tb : TField S D b) (ha : CFRel a ca) (hb : CFRel b cb) (fuel : Nat) :
    specQ S D fuel ca cb =
      (a.rname != b.rname ||
        (Spec.sameResponseShape S D (Spec.pairFuel D) ca cb &&
          (!parentsCond S a b ||
            (decide (a.name = b.name) && Spec.sameArguments a.args b.args &&
              Spec.fieldsCanMerge S D fuel (subL S D ca cb))))) := by
  obtain ⟨pa, hpa, hpa'⟩ := cf_parent h ta ha
  obtain ⟨pb, hpb, hpb'⟩ := cf_parent h tb hb
  unfold specQ parentsCond
  rw [hpa, hpb, hpa', hpb', ha.rname, hb.rname, ha.name, hb.name, ha.args, hb.args]
  simp only [isObjectName_eq]
  by_cases hc : (decide (pa = pb) || !Spec.isObject S pa || !Spec.isObject S pb) = true
  · simp [hc]
  · simp [hc]

/-! ## The specification fails: there is a witness -/

theorem spec_shape_false {S : Schema} {D : Document} (h : MergeHyp2 S D) :
    ∀ (fuel : Nat) (a b : FRef) (ca cb : CF), TField S D a → TField S D b → CFRel a ca → CFRel b cb →
      Spec.sameResponseShape S D fuel ca cb = false → ShapeBad S D Loose a b := by
  intro fuel
  induction fuel with
  | zero => intro a b ca cb _ _ _ _ hf; simp [Spec.sameResponseShape] at hf
  | succ fuel ih =>
    intro a b ca cb ta tb ha hb hf
    rw [spec_shape_step h.toMergeHyp ta tb ha hb] at hf
    obtain ⟨e1, e2⟩ := shapeLocal_spec (S := S) (typeOf_proper h.proper ta) (typeOf_proper h.proper tb)
    rw [← e1, ← e2] at hf
    cases hl : shapeLocalOk S a b with
    | false => exact .loc hl
    | true =>
      rw [hl] at hf
      simp only [Bool.true_and, Bool.or_eq_false_iff, Bool.not_eq_false'] at hf
      obtain ⟨hd, hp⟩ := hf
      obtain ⟨x, hx, y, hy, hxy⟩ := pairsOk_false_elim _ _ hp
      simp only [Bool.or_eq_false_iff, bne_eq_false_iff_eq] at hxy
      obtain ⟨gx, sx, rx⟩ := (subL_mem h.toMergeHyp ta tb ha hb).1 x hx
      obtain ⟨gy, sy, ry⟩ := (subL_mem h.toMergeHyp ta tb ha hb).1 y hy
      have hbad := ih gx gy x y (sx.tfield ta tb) (sy.tfield ta tb) rx ry hxy.2
      exact .deep hd sx sy (by rw [← rx.rname, ← ry.rname, hxy.1]) trivial hbad

theorem spec_merge_false {S : Schema} {D : Document} (h : MergeHyp2 S D) :
    ∀ (fuel : Nat) (Src : FRef → Prop) (cs : List CF), (∀ c ∈ cs, ∃ f, Src f ∧ TField S D f ∧ CFRel f c) →
      Spec.fieldsCanMerge S D fuel cs = false →
      ∃ x y, Src x ∧ Src y ∧ x.rname = y.rname ∧ MergeBad S D Loose x y := by
  intro fuel
  induction fuel with
  | zero => intro Src cs _ hf; simp [Spec.fieldsCanMerge] at hf
  | succ fuel ih =>
    intro Src cs hsrc hf
    rw [fieldsCanMerge_succ] at hf
    obtain ⟨ca, hca, cb, hcb, hq⟩ := pairsOk_false_elim _ _ hf
    obtain ⟨a, sa, ta, ha⟩ := hsrc ca hca
    obtain ⟨b, sb, tb, hb⟩ := hsrc cb hcb
    rw [specQ_eq h.toMergeHyp ta tb ha hb] at hq
    simp only [Bool.or_eq_false_iff, bne_eq_false_iff_eq, Bool.and_eq_false_iff, Bool.not_eq_false'] at hq
    obtain ⟨hr, hq⟩ := hq
    refine ⟨a, b, sa, sb, hr, ?_⟩
    rcases hq with hq | ⟨hpc, hq⟩
    · exact .shape (spec_shape_false h _ a b ca cb ta tb ha hb hq)
    · rcases hq with hq | hq
      · apply MergeBad.loc hpc
        rw [mergeLocal_spec h ta tb]
        simp only [Bool.and_eq_false_iff, decide_eq_false_iff_not]
        simpa using hq
      · obtain ⟨x, y, sx, sy, hxy, hbad⟩ := ih (SubU S D a b) (subL S D ca cb)
          (fun c hc => by
            obtain ⟨g, sg, rg⟩ := (subL_mem h.toMergeHyp ta tb ha hb).1 c hc
            exact ⟨g, sg, sg.tfield ta tb, rg⟩) hq
        exact .deep hpc sx sy hxy trivial hbad

end ApiFu.C04
