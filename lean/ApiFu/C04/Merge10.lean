/-
  C04 — part 10: from the closed memo to the absence of witnesses: when the model's check of a
  selection set comes back with `ok`, no two distinct fields of the set conflict.
-/
import ApiFu.C04.Merge9

namespace ApiFu.C04
open Spec Model
set_option linter.unusedSimpArgs false
set_option linter.unusedVariables false

/-! ## Field entries and their positions -/

def entryOf (S : Schema) (r : SetRef) : Selection → Option FRef
  | .field al n np args _ sub => some (mkRef S r.scope r.pos al n np args sub)
  | _ => none

/-- Every field written in the document, with the selection set it is written in. -/
def fieldEntries (S : Schema) (D : Document) : List FRef :=
  (allSets S D).flatMap fun r => r.sels.filterMap (entryOf S r)

/-- Field nodes have distinct positions (the parser's positions do). -/
def FPosUnique (S : Schema) (D : Document) : Prop := ((fieldEntries S D).map FRef.pos).Nodup

theorem tfield_iff {S : Schema} {D : Document} (f : FRef) : TField S D f ↔ f ∈ fieldEntries S D := by
  unfold TField fieldEntries
  simp only [List.mem_flatMap, List.mem_filterMap]
  constructor
  · rintro ⟨r, hr, al, n, np, args, dirs, sub, hm, rfl⟩
    exact ⟨r, hr, _, hm, rfl⟩
  · rintro ⟨r, hr, s, hs, he⟩
    cases s with
    | field al n np args dirs sub =>
      simp only [entryOf, Option.some.injEq] at he
      exact ⟨r, hr, al, n, np, args, dirs, sub, hs, he.symm⟩
    | spread n np dirs p => simp [entryOf] at he
    | inline tc dirs ss p => simp [entryOf] at he

theorem inj_of_nodup_map {α β : Type} (f : α → β) : ∀ (l : List α), (l.map f).Nodup →
    ∀ {a b : α}, a ∈ l → b ∈ l → f a = f b → a = b
  | [], _, a, b, ha, _, _ => by simp at ha
  | x :: rest, h, a, b, ha, hb, he => by
    simp only [List.map_cons, List.nodup_cons, List.mem_map, not_exists, not_and] at h
    simp only [List.mem_cons] at ha hb
    rcases ha with rfl | ha
    · rcases hb with rfl | hb
      · rfl
      · exact absurd he.symm (h.1 b hb)
    · rcases hb with rfl | hb
      · exact absurd he (h.1 a ha)
      · exact inj_of_nodup_map f rest h.2 ha hb he

theorem field_of_pos {S : Schema} {D : Document} (hu : FPosUnique S D) {a b : FRef} (ta : TField S D a)
    (tb : TField S D b) (hp : a.pos = b.pos) : a = b :=
  inj_of_nodup_map FRef.pos _ hu ((tfield_iff a).1 ta) ((tfield_iff b).1 tb) hp

/-! ## Symmetry of the local conditions -/

theorem parentsCond_symm (S : Schema) (a b : FRef) : parentsCond S a b = parentsCond S b a := by
  unfold parentsCond
  cases a.setType <;> cases b.setType <;> simp only
  rename_i pa pb
  by_cases he : pa = pb
  · subst he; simp [Bool.or_comm, Bool.or_assoc]
  · have he' : ¬ pb = pa := fun h => he h.symm
    simp only [he, he', decide_false, Bool.false_or]
    exact Bool.or_comm _ _

/-- The local conditions do not depend on the order of the two fields. -/
structure LocalSymm (S : Schema) (D : Document) : Prop where
  shapeLocal : ∀ a b, TField S D a → TField S D b → shapeLocalOk S a b = shapeLocalOk S b a
  shapeDeep : ∀ a b, TField S D a → TField S D b → shapeDeep S a b = shapeDeep S b a
  mergeLocal : ∀ a b, TField S D a → TField S D b → mergeLocalOk a b = mergeLocalOk b a

theorem SubU.symm {S : Schema} {D : Document} {a b x : FRef} (h : SubU S D a b x) : SubU S D b a x := Or.symm h

/-! ## Closed memos -/

structure ClosedMemo (S : Schema) (D : Document) (m : Memo) : Prop where
  shape : ∀ p ∈ m.shape, ∃ a b, TField S D a ∧ TField S D b ∧ p = (a.pos, b.pos) ∧ LCs S D m.shape a b
  merge : ∀ p ∈ m.merge, ∃ a b, TField S D a ∧ TField S D b ∧ p = (a.pos, b.pos) ∧ LCm S D m.shape m.merge a b

theorem closed_of_ext {S : Schema} {D : Document} {m : Memo} (h : MemoExt S D {} m) : ClosedMemo S D m := by
  constructor
  · intro p hp
    rcases h.1.2 p hp with h' | h'
    · simp at h'
    · exact h'
  · intro p hp
    rcases h.2.2 p hp with h' | h'
    · simp at h'
    · exact h'

theorem lcs_of_inM {S : Schema} {D : Document} (hu : FPosUnique S D) {m : Memo} (hc : ClosedMemo S D m) {a b : FRef}
    (ta : TField S D a) (tb : TField S D b) (h : InM m.shape a b) : LCs S D m.shape a b ∨ LCs S D m.shape b a := by
  rcases h with h | h
  · obtain ⟨a', b', ta', tb', he, hl⟩ := hc.shape _ h
    simp only [Prod.mk.injEq] at he
    have h1 := field_of_pos hu ta ta' he.1
    have h2 := field_of_pos hu tb tb' he.2
    subst h1 h2
    exact Or.inl hl
  · obtain ⟨a', b', ta', tb', he, hl⟩ := hc.shape _ h
    simp only [Prod.mk.injEq] at he
    have h1 := field_of_pos hu tb ta' he.1
    have h2 := field_of_pos hu ta tb' he.2
    subst h1 h2
    exact Or.inr hl

theorem lcm_of_inM {S : Schema} {D : Document} (hu : FPosUnique S D) {m : Memo} (hc : ClosedMemo S D m) {a b : FRef}
    (ta : TField S D a) (tb : TField S D b) (h : InM m.merge a b) :
    LCm S D m.shape m.merge a b ∨ LCm S D m.shape m.merge b a := by
  rcases h with h | h
  · obtain ⟨a', b', ta', tb', he, hl⟩ := hc.merge _ h
    simp only [Prod.mk.injEq] at he
    have h1 := field_of_pos hu ta ta' he.1
    have h2 := field_of_pos hu tb tb' he.2
    subst h1 h2
    exact Or.inl hl
  · obtain ⟨a', b', ta', tb', he, hl⟩ := hc.merge _ h
    simp only [Prod.mk.injEq] at he
    have h1 := field_of_pos hu tb ta' he.1
    have h2 := field_of_pos hu ta tb' he.2
    subst h1 h2
    exact Or.inr hl

/-- Distinct field nodes. -/
def Distinct : FRef → FRef → Prop := fun x y => x ≠ y

theorem closed_shape {S : Schema} {D : Document} (hu : FPosUnique S D) (hs : LocalSymm S D) {m : Memo}
    (hc : ClosedMemo S D m) {a b : FRef} (hb : ShapeBad S D Distinct a b) :
    TField S D a → TField S D b → ¬ InM m.shape a b := by
  induction hb with
  | @loc a b hl =>
    intro ta tb hin
    rcases lcs_of_inM hu hc ta tb hin with h | h
    · rw [h.1] at hl; simp at hl
    · rw [hs.shapeLocal a b ta tb, h.1] at hl; simp at hl
  | @deep a b x y hd hx hy hr hp _ ih =>
    intro ta tb hin
    have tx : TField S D x := SubU.tfield ta tb hx
    have ty : TField S D y := SubU.tfield ta tb hy
    rcases lcs_of_inM hu hc ta tb hin with h | h
    · exact ih tx ty (h.2 hd x y hx hy hr hp)
    · exact ih tx ty (h.2 (hs.shapeDeep a b ta tb ▸ hd) x y (SubU.symm hx) (SubU.symm hy) hr hp)

theorem closed_merge {S : Schema} {D : Document} (hu : FPosUnique S D) (hs : LocalSymm S D) {m : Memo}
    (hc : ClosedMemo S D m) {a b : FRef} (hb : MergeBad S D Distinct a b) :
    TField S D a → TField S D b → ¬ InM m.merge a b := by
  induction hb with
  | @shape a b hsb =>
    intro ta tb hin
    rcases lcm_of_inM hu hc ta tb hin with h | h
    · exact closed_shape hu hs hc hsb ta tb h.1
    · exact closed_shape hu hs hc hsb ta tb h.1.symm
  | @loc a b hp hl =>
    intro ta tb hin
    rcases lcm_of_inM hu hc ta tb hin with h | h
    · rw [(h.2 hp).1] at hl; simp at hl
    · rw [hs.mergeLocal a b ta tb, (h.2 (parentsCond_symm S a b ▸ hp)).1] at hl; simp at hl
  | @deep a b x y hp hx hy hr hpp _ ih =>
    intro ta tb hin
    have tx : TField S D x := SubU.tfield ta tb hx
    have ty : TField S D y := SubU.tfield ta tb hy
    rcases lcm_of_inM hu hc ta tb hin with h | h
    · exact ih tx ty ((h.2 hp).2 x y hx hy hr hpp)
    · exact ih tx ty ((h.2 (parentsCond_symm S a b ▸ hp)).2 x y (SubU.symm hx) (SubU.symm hy) hr hpp)

/-- Soundness for one selection set: the check passes, so no two distinct fields of it conflict. -/
theorem mergeCheckSet_sound {S : Schema} {D : Document} (h : MergeHyp S D) (hu : FPosUnique S D)
    (hs : LocalSymm S D) {r : SetRef} (hr : r ∈ allSets S D) {fuel : Nat}
    (hok : mergeCheckSet S D (Model.fuelFor D) fuel r.scope (.mk r.sels r.pos) = .ok) :
    ¬ SetBad S D Distinct r := by
  unfold mergeCheckSet at hok
  have hroot : (⟨r.scope, (SelSet.mk r.sels r.pos).pos, (SelSet.mk r.sels r.pos).sels⟩ : SetRef) ∈ allSets S D := hr
  obtain ⟨fs, hfs⟩ := addFieldSelections_ok h.posU (spreadsDefinedT_of_spec h.spreads) hroot []
  have hmem := addFieldSelections_mem h.posU hroot hfs
  rw [hfs] at hok
  simp only at hok
  have hcol : ∀ f, f ∈ fs ↔ Collects S D r.scope r.pos r.sels f := by
    intro f
    rw [hmem f]
    simp only [List.not_mem_nil, false_or]
    exact Iff.rfl
  cases hF : fieldsInSetCanMerge S D (Model.fuelFor D) fuel {} fs with
  | mk alt m' =>
    rw [hF] at hok
    simp only at hok
    subst hok
    obtain ⟨hE, hP⟩ := merge_sound h fuel {} m' fs (fun f hf => ((hcol f).1 hf).tfield hr) hF
    have hc := closed_of_ext hE
    rintro ⟨x, y, hx, hy, hxy, hne, hbad⟩
    exact closed_merge hu hs hc hbad (hx.tfield hr) (hy.tfield hr) (hP x ((hcol x).2 hx) y ((hcol y).2 hy) hxy hne)

end ApiFu.C04
