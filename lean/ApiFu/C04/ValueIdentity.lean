/-
  C04 — what "identical arguments" (§5.3.2) means in the specification: `Spec.sameValue` is
  equality of the two literals up to source positions. In particular it distinguishes literal
  kinds: the Int literal `1`, the String literal `"1"` and the enum / variable names spelt the same
  are four different values (seed C04-24 compared the texts only).
-/
import ApiFu.C04.MergeLocal

namespace ApiFu.C04
open Spec

mutual
/-- A value with every source position forgotten. -/
def eraseV : Value → Value
  | .var n _ => .var n default
  | .int l _ => .int l default
  | .float l _ => .float l default
  | .str s _ => .str s default
  | .bool b _ => .bool b default
  | .null _ => .null default
  | .enum n _ => .enum n default
  | .list xs _ => .list (eraseVs xs) default
  | .obj fs _ => .obj (eraseFs fs) default
def eraseVs : List Value → List Value
  | [] => []
  | x :: xs => eraseV x :: eraseVs xs
def eraseFs : List ObjField → List ObjField
  | [] => []
  | .mk n _ v :: fs => .mk n default (eraseV v) :: eraseFs fs
end

/-- The literal kind of a value. -/
def Value.kindTag : Value → Nat
  | .var _ _ => 0 | .int _ _ => 1 | .float _ _ => 2 | .str _ _ => 3 | .bool _ _ => 4
  | .null _ => 5 | .enum _ _ => 6 | .list _ _ => 7 | .obj _ _ => 8

mutual
theorem sv_erase : ∀ (a b : Value), Spec.sameValue a b = true ↔ eraseV a = eraseV b
  | .var _ _, b => by cases b <;> simp [Spec.sameValue, eraseV]
  | .int _ _, b => by cases b <;> simp [Spec.sameValue, eraseV]
  | .float _ _, b => by cases b <;> simp [Spec.sameValue, eraseV]
  | .str _ _, b => by cases b <;> simp [Spec.sameValue, eraseV]
  | .bool _ _, b => by cases b <;> simp [Spec.sameValue, eraseV]
  | .null _, b => by cases b <;> simp [Spec.sameValue, eraseV]
  | .enum _ _, b => by cases b <;> simp [Spec.sameValue, eraseV]
  | .list xs _, b => by
    cases b <;> simp [Spec.sameValue, eraseV]
    exact svs_erase xs _
  | .obj xs _, b => by
    cases b <;> simp [Spec.sameValue, eraseV]
    exact sfs_erase xs _
theorem svs_erase : ∀ (xs ys : List Value), Spec.sameValues xs ys = true ↔ eraseVs xs = eraseVs ys
  | [], ys => by cases ys <;> simp [Spec.sameValues, eraseVs]
  | x :: xs, [] => by simp [Spec.sameValues, eraseVs]
  | x :: xs, y :: ys => by
    simp [Spec.sameValues, eraseVs, svs_erase xs ys, sv_erase x y]
theorem sfs_erase : ∀ (xs ys : List ObjField), Spec.sameFields xs ys = true ↔ eraseFs xs = eraseFs ys
  | [], ys => by
    cases ys with
    | nil => simp [Spec.sameFields, eraseFs]
    | cons y ys => cases y; simp [Spec.sameFields, eraseFs]
  | x :: xs, [] => by cases x; simp [Spec.sameFields, eraseFs]
  | .mk n _ x :: xs, .mk m _ y :: ys => by
    simp [Spec.sameFields, eraseFs, sfs_erase xs ys, sv_erase x y, and_assoc]
end

theorem eraseV_kindTag (a : Value) : (eraseV a).kindTag = a.kindTag := by
  cases a <;> rfl

end ApiFu.C04
