/-
  C04 — `schema.New` (graphql/schema/schema.go and the `shallowValidate` methods it calls), as a
  verdict on a schema *definition*, and the schema description a request sees when the definition
  is accepted (`describe`). Core Lean (linked into the driver).

  A definition is a graph of Go objects. Here every named type object carries a `key` (the
  identity of the Go object: two objects may have one `name`), references are keys; `types` lists
  the named type objects `schema.Inspect` reaches from the definition (the harness enumerates them
  with its own traversal). `schema.New` walks that graph, stops at the first error and returns it:
  it accepts exactly when no node it can reach has an error, so the verdict is a conjunction over
  the nodes and does not depend on Go's map iteration order (which error is returned does).

  Modelled as written (file:line of /repo/graphql/schema):
    schema.go:53-110   New: query root required, directive names, per named type: name legal, one
                       object per name, built-in names only for the built-in objects; then
                       shallowValidate of every node
    object_type.go:74-136 (satisfyInterface, shallowValidate), interface_type.go:53-78,
    union_type.go:43-62, enum_type.go:54-65, input_object_type.go:136-152,
    field_definition.go:74-87, input_value_definition.go:21-33, directive.go:83-95,
    nonnull_type.go:49-54; IsInputType / IsOutputType / IsSameType / IsSubTypeOf of every type.
  RequiredFeatures of types and fields are modelled (`feats`), with the inclusions the
  shallowValidate methods demand, and `describe` takes the feature set of the request.
  Not modelled (the generated definitions of this stream have none): directives applied to scalar /
  enum types (so `referencesDirective` is false),
  nil `Type` pointers (ObjectType.shallowValidate dereferences a nil field type before
  FieldDefinition.shallowValidate could report it).
-/
import ApiFu.C04.Hyp2
import ApiFu.C04.Wire

namespace ApiFu.C04.SchemaNew
open ApiFu ApiFu.C04

/-! ## Definitions -/

/-- `*FieldDefinition` with its map key and its `RequiredFeatures`. Types refer to type objects by
    *key* (also in `InputDef`). -/
structure SField where
  name : String
  type : TRef
  args : List InputDef
  feats : List String
  deriving Repr, Inhabited

/-- A named type object. -/
inductive SKind where
  /-- `builtin`: the object is the library's own (`BuiltInTypes[name] == this`). -/
  | scalar (builtin : Bool) (spec : ScalarSpec)
  | object (fields : List SField) (ifaces : List String) (isTypeOf : Bool)
  | interface (fields : List SField)
  | union (members : List String)
  | enum (values : List String)
  /-- `resultCoercion`: `ResultCoercion != nil`. -/
  | input (fields : List InputDef) (resultCoercion : Bool)
  deriving Repr, Inhabited

structure SType where
  key : String
  name : String
  kind : SKind
  /-- `RequiredFeatures` -/
  feats : List String
  deriving Repr, Inhabited

structure SDef where
  types : List SType
  directives : List DirDef
  query : Option String
  mutation : Option String
  subscription : Option String
  deriving Repr, Inhabited

def SDef.find (D : SDef) (k : String) : Option SType := D.types.find? (fun t => t.key = k)

def SKind.isObject : SKind → Bool
  | .object _ _ _ => true
  | _ => false
def SKind.isInterface : SKind → Bool
  | .interface _ => true
  | _ => false

/-! ## Names -/

def nameStart (c : Char) : Bool := c == '_' || ('A' ≤ c && c ≤ 'Z') || ('a' ≤ c && c ≤ 'z')
def nameCont (c : Char) : Bool := nameStart c || ('0' ≤ c && c ≤ '9')

/-- `isName`: `^[_A-Za-z][_0-9A-Za-z]*$`. -/
def isName (s : String) : Bool :=
  match s.toList with
  | [] => false
  | c :: cs => nameStart c && cs.all nameCont

/-- `strings.HasPrefix(s, "__")`. -/
def reserved (s : String) : Bool :=
  match s.toList with
  | '_' :: '_' :: _ => true
  | _ => false

def nameOk (s : String) : Bool := isName s && !reserved s

def builtinNames : List String := ["Int", "Float", "String", "Boolean", "ID"]

/-- `FeatureSet.IsSubsetOf`. -/
def subset (a b : List String) : Bool := a.all b.contains

/-! ## Type predicates -/

def kindOfKey (D : SDef) (k : String) : Option SKind := (D.find k).map (·.kind)

/-- `Type.TypeRequiredFeatures()`. -/
def typeFeats (D : SDef) (t : TRef) : List String :=
  match D.find t.base with
  | some n => n.feats
  | none => []

/-- `Type.IsOutputType()`. -/
def isOutput (D : SDef) : TRef → Bool
  | .named k => match kindOfKey D k with
    | some (.input _ _) => false
    | some _ => true
    | none => false
  | .list t => isOutput D t
  | .nonNull t => isOutput D t

/-- `Type.IsInputType()`. -/
def isInput (D : SDef) : TRef → Bool
  | .named k => match kindOfKey D k with
    | some (.scalar _ _) => true
    | some (.enum _) => true
    | some (.input _ _) => true
    | _ => false
  | .list t => isInput D t
  | .nonNull t => isInput D t

/-- `Type.IsSameType(other)` (named types: the same object). -/
def sameType : TRef → TRef → Bool
  | .named a, .named b => a == b
  | .list a, .list b => sameType a b
  | .nonNull a, .nonNull b => sameType a b
  | _, _ => false

/-- `Type.IsSubTypeOf(other)`, as written (list_type.go:31, nonnull_type.go:27, object_type.go:43). -/
def subType (D : SDef) : TRef → TRef → Bool
  | .named a, o =>
    sameType (.named a) o ||
    (match kindOfKey D a, o with
     | some (.object _ ifaces _), .named b =>
       (match kindOfKey D b with
        | some (.union ms) => ms.contains a
        | _ => ifaces.contains b)
     | _, _ => false)
  | .list a, .list b => sameType (.list a) b || subType D a b
  | .list _, _ => false
  | .nonNull a, .nonNull b => sameType (.nonNull a) b || subType D a b
  | .nonNull a, o => subType D a o

/-! ## shallowValidate -/

/-- `(*InputValueDefinition).shallowValidate` + the `NonNullType`s inside its type. -/
def inputOk (D : SDef) (a : InputDef) : Bool :=
  isInput D a.type && a.type.proper &&
  (match a.dflt, a.type with
   | .value, .named k => (match kindOfKey D k with
                          | some (.input _ rc) => rc
                          | _ => true)
   | _, _ => true)

/-- `(*FieldDefinition).shallowValidate`, its type and its arguments. -/
def fieldOk (D : SDef) (f : SField) : Bool :=
  isOutput D f.type && f.type.proper && f.args.all (fun a => nameOk a.name) && f.args.all (inputOk D)

/-- `satisfyInterface` against the fields `ifs` of one interface. -/
def satisfies (D : SDef) (fields ifs : List SField) : Bool :=
  ifs.all fun i =>
    match fields.find? (fun f => f.name = i.name) with
    | none => false
    | some f =>
      subType D f.type i.type && subset f.feats i.feats &&
      i.args.all (fun ia => match findInput f.args ia.name with
                            | none => false
                            | some a => sameType a.type ia.type) &&
      f.args.all (fun a => (findInput i.args a.name).isSome || !a.type.isNonNull)

def ifaceFields (D : SDef) (k : String) : List SField :=
  match kindOfKey D k with
  | some (.interface fs) => fs
  | _ => []

def hasIsTypeOf (D : SDef) (k : String) : Bool :=
  match kindOfKey D k with
  | some (.object _ _ b) => b
  | _ => false

def featsOfKey (D : SDef) (k : String) : List String :=
  match D.find k with
  | some t => t.feats
  | none => []

/-- The feature inclusions of object / interface fields (object_type.go:109-122). -/
def fieldFeatsOk (D : SDef) (tf : List String) (f : SField) : Bool :=
  subset (typeFeats D f.type) (f.feats ++ tf) && f.args.all (fun a => subset (typeFeats D a.type) (f.feats ++ tf))

def nameOfKey (D : SDef) (k : String) : String :=
  match D.find k with
  | some t => t.name
  | none => k

/-- shallowValidate of a named type and of everything `Inspect` visits beneath it up to the next
    named types. -/
def kindOk (D : SDef) (tf : List String) : SKind → Bool
  | .scalar _ _ => true
  | .object fields ifaces isTypeOf =>
    fields.all (fun f => nameOk f.name && isOutput D f.type) && fields.any (fun f => subset f.feats tf) &&
    fields.all (fieldFeatsOk D tf) &&
    ifaces.all (fun i => satisfies D fields (ifaceFields D i)) && (ifaces.isEmpty || isTypeOf) &&
    fields.all (fieldOk D)
  | .interface fields =>
    fields.all (fun f => nameOk f.name) && fields.any (fun f => subset f.feats tf) &&
    fields.all (fieldFeatsOk D tf) && fields.all (fieldOk D)
  | .union members =>
    !members.isEmpty && members.all (fun m => subset (featsOfKey D m) tf) &&
    Spec.nodup (members.map (nameOfKey D)) && members.all (hasIsTypeOf D)
  | .enum values =>
    !values.isEmpty && values.all (fun v => isName v && v != "true" && v != "false" && v != "null")
  | .input fields _ =>
    !fields.isEmpty && fields.all (fun f => nameOk f.name && isInput D f.type && subset (typeFeats D f.type) tf) &&
    fields.all (inputOk D)

def isBuiltinObject : SKind → Bool
  | .scalar b _ => b
  | _ => false

/-- The checks of `New`'s callback on a named type. -/
def typeNameOk (D : SDef) (t : SType) : Bool :=
  nameOk t.name && D.types.all (fun u => u.name != t.name || u.key == t.key) &&
  (!builtinNames.contains t.name || isBuiltinObject t.kind)

def dirOk (D : SDef) (d : DirDef) : Bool :=
  nameOk d.name && d.args.all (fun a => nameOk a.name) && !d.locs.isEmpty && d.args.all (inputOk D)

/-- `schema.New(def)` returns no error. -/
def schemaNew (D : SDef) : Bool :=
  D.query.isSome && D.directives.all (dirOk D) && D.types.all (fun t => typeNameOk D t && kindOk D t.feats t.kind)

/-! ## What Go's type system and map types guarantee of a definition (not checked by `New`) -/

def refsOf : SKind → List TRef
  | .object fs _ _ => fs.flatMap (fun f => f.type :: f.args.map (·.type))
  | .interface fs => fs.flatMap (fun f => f.type :: f.args.map (·.type))
  | .input fs _ => fs.map (·.type)
  | _ => []

def resolvesTo (D : SDef) (p : SKind → Bool) (k : String) : Bool :=
  D.types.any (fun u => u.key == k) && D.types.all (fun u => u.key != k || p u.kind)

def rootTyped (D : SDef) (r : Option String) : Bool :=
  match r with
  | none => true
  | some k => resolvesTo D SKind.isObject k

def fieldKeysOk (fs : List SField) : Bool :=
  Spec.nodup (fs.map (·.name)) && fs.all (fun f => Spec.nodup (f.args.map (·.name)))

def kindTyped (D : SDef) : SKind → Bool
  | .scalar _ _ => true
  | .object fs ifaces _ => fieldKeysOk fs && ifaces.all (resolvesTo D SKind.isInterface)
  | .interface fs => fieldKeysOk fs
  | .union ms => ms.all (resolvesTo D SKind.isObject)
  | .enum vs => Spec.nodup vs
  | .input fs _ => Spec.nodup (fs.map (·.name))

/-- Invariants of the Go representation: object identities are distinct, every pointer points at
    an object of the static type the field has (`Query *ObjectType`, `ImplementedInterfaces
    []*InterfaceType`, `MemberTypes []*ObjectType`), every type reference resolves (`types` is
    closed), map keys are distinct. -/
def SDef.goTyped (D : SDef) : Bool :=
  Spec.nodup (D.types.map (·.key)) &&
  rootTyped D D.query && rootTyped D D.mutation && rootTyped D D.subscription &&
  D.types.all (fun t => kindTyped D t.kind && (refsOf t.kind).all (fun r => (D.find r.base).isSome)) &&
  Spec.nodup (D.directives.map (·.name)) &&
  D.directives.all (fun d => Spec.nodup (d.args.map (·.name)) && d.args.all (fun a => (D.find a.type.base).isSome))

/-- The root types are visible to a request with the features `rf` (a premise about definition and
    request: `New` accepts a gated root type). -/
def rootVisible (D : SDef) (rf : List String) (r : Option String) : Bool :=
  match r with
  | none => true
  | some k => D.types.all (fun u => u.key != k || subset u.feats rf)

def SDef.rootsVisible (D : SDef) (rf : List String) : Bool :=
  rootVisible D rf D.query && rootVisible D rf D.mutation && rootVisible D rf D.subscription

/-- No `schema.Null` default on a non-null input field / directive argument. `New` does not look
    at this (it accepts `x: Int! = null`). -/
def SDef.nullDefaultsOk (D : SDef) : Bool :=
  D.types.all (fun t => match t.kind with
                        | .input fs _ => fs.all defaultOkDef
                        | _ => true) &&
  D.directives.all (fun d => d.args.all defaultOkDef)

/-! ## The description of an accepted definition -/

def mapRef (D : SDef) : TRef → TRef
  | .named k => .named (nameOfKey D k)
  | .list t => .list (mapRef D t)
  | .nonNull t => .nonNull (mapRef D t)

def toInput (D : SDef) (a : InputDef) : InputDef := { a with type := mapRef D a.type }
def toField (D : SDef) (f : SField) : FieldDef :=
  { name := f.name, type := mapRef D f.type, args := f.args.map (toInput D) }

/-- The fields a request with features `rf` sees (`GetField`). -/
def visFields (D : SDef) (rf : List String) (fs : List SField) : List FieldDef :=
  (fs.filter (fun f => subset f.feats rf)).map (toField D)

def toKind (D : SDef) (rf : List String) : SKind → TypeKind
  | .scalar _ spec => .scalar spec
  | .object fs ifaces _ => .object (visFields D rf fs) (ifaces.map (nameOfKey D))
  | .interface fs => .interface (visFields D rf fs)
  | .union ms => .union (ms.map (nameOfKey D))
  | .enum vs => .enum vs
  | .input fs _ => .input (fs.map (toInput D))

def toType (D : SDef) (rf : List String) (t : SType) : TypeDef := { name := t.name, kind := toKind D rf t.kind }
def toDir (D : SDef) (d : DirDef) : DirDef := { d with args := d.args.map (toInput D) }

/-- The introspection part of every description: the `__…` types and the meta fields
    (`introspection.NamedTypes`, `introspection.MetaFields`); a constant of the library, taken
    from the real schema object. -/
structure Intro where
  types : List TypeDef
  metas : List FieldDef
  deriving Repr, Inhabited

/-- The types a request with features `rf` sees (`namedType`). -/
def visTypes (D : SDef) (rf : List String) : List SType := D.types.filter (fun t => subset t.feats rf)

/-- The schema description a request with the features `rf` sees: the visible named types of the
    definition with their visible fields, then the introspection types. -/
def describe (I : Intro) (D : SDef) (rf : List String) : Schema :=
  { types := (visTypes D rf).map (toType D rf) ++ I.types
    query := (D.query.map (nameOfKey D)).getD ""
    mutation := D.mutation.map (nameOfKey D)
    subscription := D.subscription.map (nameOfKey D)
    directives := D.directives.map (toDir D)
    metaFields := I.metas }

def introSchema (I : Intro) : Schema :=
  { types := I.types, query := "", mutation := none, subscription := none, directives := [], metaFields := I.metas }

/-- What the theorems need of the introspection constants (decidable; evaluated by the driver on
    the introspection types of the real schema object for every case). -/
def Intro.ok (I : Intro) : Bool :=
  I.types.all typeNoTypename && fieldsNoTypename I.metas && I.types.all (fun t => t.name != "String") &&
  (introSchema I).typesProper && Schema.argDefsUnique (introSchema I) && Schema.wfDefaults (introSchema I)

/-! ## Comparing a description with the exported one (up to the order of map-backed lists) -/

deriving instance BEq for Dflt, InputDef, FieldDef, ScalarSpec, TypeKind, TypeDef, DirDef

def sortBy {α : Type} (key : α → String) (xs : List α) : List α :=
  xs.mergeSort (fun a b => decide (key a ≤ key b))

def normInputs (xs : List InputDef) : List InputDef := sortBy (·.name) xs
def normField (f : FieldDef) : FieldDef := { f with args := normInputs f.args }
def normFields (fs : List FieldDef) : List FieldDef := sortBy (·.name) (fs.map normField)
def normKind : TypeKind → TypeKind
  | .scalar (.custom ks) => .scalar (.custom (sortBy id ks))
  | .scalar s => .scalar s
  | .object fs is => .object (normFields fs) (sortBy id is)
  | .interface fs => .interface (normFields fs)
  | .union ms => .union (sortBy id ms)
  | .enum vs => .enum (sortBy id vs)
  | .input fs => .input (normInputs fs)
def normTypes (ts : List TypeDef) : List TypeDef := sortBy (·.name) (ts.map fun t => { t with kind := normKind t.kind })
def normDirs (ds : List DirDef) : List DirDef :=
  sortBy (·.name) (ds.map fun d => { d with locs := sortBy id d.locs, args := normInputs d.args })

/-- Equal up to the order of types, fields, arguments, members, values, directives, locations. -/
def sameDescription (a b : Schema) : Bool :=
  a.query == b.query && a.mutation == b.mutation && a.subscription == b.subscription &&
  normTypes a.types == normTypes b.types && normDirs a.directives == normDirs b.directives &&
  normFields a.metaFields == normFields b.metaFields

/-- The introspection part of an exported description: the types `New` would refuse by name. -/
def introOf (S : Schema) : Intro :=
  { types := S.types.filter (fun t => reserved t.name), metas := S.metaFields }

/-! ## Wire: `(sdef q m s (type…) (directive…))`, type := `(type key name (feature…) kind)`, field := `(name type (arg…) (feature…))` -/

def flag? : Sexp → Option Bool
  | .atom "1" => some true
  | .atom "0" => some false
  | _ => none

def sfield? : Sexp → Option SField
  | .list [.atom n, t, .list args, .list feats] =>
    match Wire.tref? t, Wire.mapM? Wire.inputdef? args, Wire.atoms? feats with
    | some t, some args, some feats => some { name := n, type := t, args := args, feats := feats }
    | _, _, _ => none
  | _ => none

def skind? : Sexp → Option SKind
  | .list [.atom "scalar", b, s] =>
    match flag? b, Wire.scalarSpec? s with
    | some b, some s => some (.scalar b s)
    | _, _ => none
  | .list [.atom "object", .list fs, .list ifs, b] =>
    match Wire.mapM? sfield? fs, Wire.atoms? ifs, flag? b with
    | some fs, some ifs, some b => some (.object fs ifs b)
    | _, _, _ => none
  | .list [.atom "interface", .list fs] => (Wire.mapM? sfield? fs).map .interface
  | .list [.atom "union", .list ms] => (Wire.atoms? ms).map .union
  | .list [.atom "enum", .list vs] => (Wire.atoms? vs).map .enum
  | .list [.atom "input", .list fs, b] =>
    match Wire.mapM? Wire.inputdef? fs, flag? b with
    | some fs, some b => some (.input fs b)
    | _, _ => none
  | _ => none

/-- `(type key name (feature…) kind)` -/
def stype? : Sexp → Option SType
  | .list [.atom "type", .atom k, .atom n, .list feats, kd] =>
    match Wire.atoms? feats, skind? kd with
    | some feats, some kd => some { key := k, name := n, kind := kd, feats := feats }
    | _, _ => none
  | _ => none

def sdef? : Sexp → Option SDef
  | .list [.atom "sdef", q, m, s, .list types, .list dirs] =>
    match Wire.optName? q, Wire.optName? m, Wire.optName? s, Wire.mapM? stype? types, Wire.mapM? Wire.dirdef? dirs with
    | some q, some m, some s, some types, some dirs =>
      some { types := types, directives := dirs, query := q, mutation := m, subscription := s }
    | _, _, _, _, _ => none
  | _ => none

/-- The driver's answer to `(schemanew (sdef …))` / `(schemanew (sdef …) (feature…) (schema …))`:
    `(sn accept|reject (typed ok|bad) (nulldefaults ok|bad) (intro ok|bad|-) (desc same|differs|-) (roots ok|bad|-))`. -/
def answer (D : SDef) (S : Option (List String × Schema)) : Sexp :=
  let okBad (b : Bool) := Sexp.atom (if b then "ok" else "bad")
  let acc := schemaNew D
  let (intro, desc, roots) := match S with
    | none => (Sexp.atom "-", Sexp.atom "-", Sexp.atom "-")
    | some (rf, S) =>
      let I := introOf S
      (okBad I.ok, Sexp.atom (if sameDescription (describe I D rf) S then "same" else "differs"), okBad (D.rootsVisible rf))
  Sexp.node "sn" [Sexp.atom (if acc then "accept" else "reject"), Sexp.node "typed" [okBad D.goTyped],
    Sexp.node "nulldefaults" [okBad D.nullDefaultsOk], Sexp.node "intro" [intro], Sexp.node "desc" [desc], Sexp.node "roots" [roots]]

end ApiFu.C04.SchemaNew
