/-
  C04 — towards the overlapping-fields group, part 2: what the specification's `collect` collects
  (visited fragments by name, explicit fuel), relationally.
-/
import ApiFu.C04.Merge1

namespace ApiFu.C04
open Spec Model
set_option linter.unusedSimpArgs false
set_option linter.unusedVariables false

/-! ## A potential over names -/

def npot (w : String → Nat) (names vis : List String) : Nat :=
  ((names.filter (fun n => !vis.contains n)).map w).sum

theorem npot_skip (w : String → Nat) (names vis : List String) (n : String) (hn : n ∉ names) :
    npot w names (n :: vis) = npot w names vis := by
  unfold npot
  congr 2
  apply List.filter_congr
  intro m hm
  have : m ≠ n := fun he => hn (he ▸ hm)
  simp [this]

theorem npot_take (w : String → Nat) : ∀ (names vis : List String) (n : String), Spec.nodup names = true →
    n ∈ names → n ∉ vis → npot w names (n :: vis) + w n = npot w names vis
  | [], _, _, _, h, _ => by simp at h
  | m :: rest, vis, n, hnd, hmem, hnv => by
    simp only [nodup_cons, Bool.and_eq_true, Bool.not_eq_true', List.contains_eq_mem, decide_eq_false_iff_not] at hnd
    simp only [List.mem_cons] at hmem
    unfold npot
    simp only [List.filter_cons, List.contains_eq_mem, List.mem_cons]
    by_cases hmn : m = n
    · subst hmn
      have hrest : m ∉ rest := hnd.1
      have := npot_skip w rest vis m hrest
      unfold npot at this
      simp only [List.contains_eq_mem, List.mem_cons] at this
      simp only [true_or, decide_true, Bool.not_true, Bool.false_eq_true, if_false, hnv, decide_false,
        Bool.not_false, if_true, List.map_cons, List.sum_cons, this]
      omega
    · have hin : n ∈ rest := by
        rcases hmem with h | h
        · exact absurd h.symm hmn
        · exact h
      have ih := npot_take w rest vis n hnd.2 hin hnv
      unfold npot at ih
      simp only [List.contains_eq_mem, List.mem_cons] at ih
      by_cases hmv : m ∈ vis
      · simp only [hmn, hmv, or_true, decide_true, Bool.not_true, Bool.false_eq_true, if_false]
        exact ih
      · simp only [hmn, hmv, or_self, decide_false, Bool.not_false, if_true, List.map_cons, List.sum_cons]
        omega

theorem npot_mono (w : String → Nat) (names : List String) {vis vis' : List String} (h : ∀ p ∈ vis, p ∈ vis') :
    npot w names vis' ≤ npot w names vis := by
  unfold npot
  induction names with
  | nil => simp
  | cons r rest ih =>
    simp only [List.filter_cons]
    by_cases h1 : r ∈ vis
    · have h2 := h _ h1
      simpa [h1, h2] using ih
    · by_cases h2 : r ∈ vis'
      · simp only [List.contains_eq_mem, h1, h2, decide_false, decide_true, Bool.not_false, Bool.not_true, if_true,
          Bool.false_eq_true, if_false, List.map_cons, List.sum_cons]
        simp only [List.contains_eq_mem] at ih
        omega
      · simp only [List.contains_eq_mem, h1, h2, decide_false, Bool.not_false, if_true, List.map_cons, List.sum_cons]
        simp only [List.contains_eq_mem] at ih
        omega

/-! ## Relational reading of `Spec.collect` -/

def mkCF (S : Schema) (parent : Option String) (al : Option (String × Pos)) (n : String) (args : List Argument)
    (sel : Option SelSet) : CF :=
  { rname := responseName al n, name := n, args := args, sel := sel, parent := parent,
    inner := Spec.fieldScope S parent n }

/-- Selections reachable through inline fragments only, with the type in scope. -/
inductive Near (S : Schema) : Option String → List Selection → Option String → Selection → Prop where
  | here {parent sels s} : s ∈ sels → Near S parent sels parent s
  | inline {parent sels tc dirs ss p sc s} :
      Selection.inline tc dirs ss p ∈ sels → Near S (Spec.inlineScope S parent tc) ss.sels sc s → Near S parent sels sc s

theorem Near.mono {S : Schema} {parent : Option String} {l1 l2 : List Selection} (h : ∀ s ∈ l1, s ∈ l2)
    {sc : Option String} {s : Selection} (hn : Near S parent l1 sc s) : Near S parent l2 sc s := by
  cases hn with
  | here hm => exact .here (h _ hm)
  | inline hm hr => exact .inline (h _ hm) hr

/-- The fields the specification's collection reaches. -/
inductive CollectsS (S : Schema) (D : Document) : Option String → List Selection → CF → Prop where
  | field {parent sels sc al n np args dirs sub} :
      Near S parent sels sc (.field al n np args dirs sub) → CollectsS S D parent sels (mkCF S sc al n args sub)
  | spread {parent sels sc n np dirs p tc ss cf} :
      Near S parent sels sc (.spread n np dirs p) → Spec.findFrag D n = some (tc, ss) →
      CollectsS S D (Spec.condScope S tc) ss.sels cf → CollectsS S D parent sels cf

theorem CollectsS.mono {S : Schema} {D : Document} {parent : Option String} {l1 l2 : List Selection}
    (h : ∀ s ∈ l1, s ∈ l2) {cf : CF} (hc : CollectsS S D parent l1 cf) : CollectsS S D parent l2 cf := by
  cases hc with
  | field hn => exact .field (hn.mono h)
  | spread hn hf hr => exact .spread (hn.mono h) hf hr

theorem CollectsS.ofInline {S : Schema} {D : Document} {parent : Option String} {sels : List Selection}
    {tc dirs ss p} (hm : Selection.inline tc dirs ss p ∈ sels) {cf : CF}
    (hc : CollectsS S D (Spec.inlineScope S parent tc) ss.sels cf) : CollectsS S D parent sels cf := by
  cases hc with
  | field hn => exact .field (.inline hm hn)
  | spread hn hf hr => exact .spread (.inline hm hn) hf hr

def HandledNear (S : Schema) (out : List CF) (vis : List String) (sc : Option String) : Selection → Prop
  | .field al n _ args _ sub => mkCF S sc al n args sub ∈ out
  | .spread n _ _ _ => n ∈ vis
  | .inline .. => True

def HandledS (S : Schema) (out : List CF) (vis : List String) (parent : Option String) (sels : List Selection) : Prop :=
  ∀ sc s, Near S parent sels sc s → HandledNear S out vis sc s

theorem HandledNear.mono {S : Schema} {out out' : List CF} {vis vis' : List String}
    (ho : ∀ c ∈ out, c ∈ out') (hv : ∀ n ∈ vis, n ∈ vis') {sc : Option String} {s : Selection}
    (h : HandledNear S out vis sc s) : HandledNear S out' vis' sc s := by
  cases s with
  | field al n np args dirs sub => exact ho _ h
  | spread n np dirs p => exact hv _ h
  | inline tc dirs ss p => trivial

theorem HandledS.mono {S : Schema} {out out' : List CF} {vis vis' : List String}
    (ho : ∀ c ∈ out, c ∈ out') (hv : ∀ n ∈ vis, n ∈ vis') {parent : Option String} {sels : List Selection}
    (h : HandledS S out vis parent sels) : HandledS S out' vis' parent sels :=
  fun sc s hn => (h sc s hn).mono ho hv

theorem HandledS.cons {S : Schema} {out : List CF} {vis : List String} {parent : Option String} {s : Selection}
    {rest : List Selection} (hs : HandledNear S out vis parent s)
    (hin : ∀ tc dirs ss p, s = .inline tc dirs ss p → HandledS S out vis (Spec.inlineScope S parent tc) ss.sels)
    (hr : HandledS S out vis parent rest) : HandledS S out vis parent (s :: rest) := by
  intro sc x hn
  cases hn with
  | here hm =>
    simp only [List.mem_cons] at hm
    rcases hm with rfl | hm
    · exact hs
    · exact hr _ _ (.here hm)
  | inline hm hrn =>
    simp only [List.mem_cons] at hm
    rcases hm with h | hm
    · exact hin _ _ _ _ h.symm _ _ hrn
    · exact hr _ _ (.inline hm hrn)

/-- Weight of a fragment name: the size of its selection set. -/
def fragWeight (D : Document) (n : String) : Nat :=
  match Spec.findFrag D n with
  | some (_, ss) => Model.sizeSet ss
  | none => 0

structure CollectInv (S : Schema) (D : Document) (parent : Option String) (sels : List Selection)
    (vis : List String) (out : List CF) (vis' : List String) : Prop where
  visMono : ∀ n ∈ vis, n ∈ vis'
  sound : ∀ c ∈ out, CollectsS S D parent sels c
  handled : HandledS S out vis' parent sels
  entered : ∀ n ∈ vis', n ∈ vis ∨ ∀ tc ss, Spec.findFrag D n = some (tc, ss) → HandledS S out vis' (Spec.condScope S tc) ss.sels

theorem findFrag_none_iff (D : Document) (n : String) : Spec.findFrag D n = none ↔ n ∉ Spec.fragNames D := by
  unfold Spec.findFrag Spec.fragNames
  simp only [Option.map_eq_none_iff, List.find?_eq_none, decide_eq_true_eq, List.mem_map, not_exists, not_and]

theorem collect_inv (S : Schema) (D : Document) (hu : Spec.nodup (Spec.fragNames D) = true) :
    ∀ (fuel : Nat) (parent : Option String) (vis : List String) (sels : List Selection),
      Model.sizeSels sels + 1 + npot (fragWeight D) (Spec.fragNames D) vis ≤ fuel →
      CollectInv S D parent sels vis (Spec.collect S D fuel parent vis sels).1 (Spec.collect S D fuel parent vis sels).2 := by
  intro fuel
  induction fuel with
  | zero => intro parent vis sels h; omega
  | succ fuel ih =>
    intro parent vis sels hf
    cases sels with
    | nil =>
      simp only [Spec.collect]
      exact ⟨fun _ h => h, by simp, fun sc s hn => by cases hn <;> simp at *, fun n hn => Or.inl hn⟩
    | cons s rest =>
      simp only [Model.sizeSels] at hf
      cases s with
      | field al n np args dirs sub =>
        have hs1 : 1 ≤ Model.sizeSel (.field al n np args dirs sub) := by
          cases sub <;> simp [Model.sizeSel] <;> omega
        have inv := ih parent vis rest (by omega)
        simp only [Spec.collect]
        refine ⟨inv.visMono, ?_, ?_, ?_⟩
        · intro c hc
          simp only [List.mem_cons] at hc
          rcases hc with rfl | hc
          · exact .field (.here (List.mem_cons_self ..))
          · exact (inv.sound c hc).mono (fun x hx => List.mem_cons_of_mem _ hx)
        · apply HandledS.cons
          · exact List.mem_cons_self ..
          · intro tc dirs' ss p h; cases h
          · exact inv.handled.mono (fun c hc => List.mem_cons_of_mem _ hc) (fun _ h => h)
        · intro m hm
          rcases inv.entered m hm with h1 | h1
          · exact Or.inl h1
          · exact Or.inr (fun tc ss hfr => (h1 tc ss hfr).mono (fun c hc => List.mem_cons_of_mem _ hc) (fun _ h => h))
      | inline tc dirs ss q =>
        have hsz : Model.sizeSel (.inline tc dirs ss q) = 2 + Model.sizeSels ss.sels := by
          cases ss with
          | mk sl pp => simp [Model.sizeSel, Model.sizeSet, SelSet.sels]; omega
        have inv1 := ih (Spec.inlineScope S parent tc) vis ss.sels (by omega)
        have hm1 := npot_mono (fragWeight D) (Spec.fragNames D) inv1.visMono
        have inv2 := ih parent (Spec.collect S D fuel (Spec.inlineScope S parent tc) vis ss.sels).2 rest (by omega)
        simp only [Spec.collect]
        refine ⟨fun m hm => inv2.visMono _ (inv1.visMono _ hm), ?_, ?_, ?_⟩
        · intro c hc
          simp only [List.mem_append] at hc
          rcases hc with hc | hc
          · exact (inv1.sound c hc).ofInline (List.mem_cons_self ..)
          · exact (inv2.sound c hc).mono (fun x hx => List.mem_cons_of_mem _ hx)
        · apply HandledS.cons
          · trivial
          · intro tc' dirs' ss' p h
            cases h
            exact inv1.handled.mono (fun c hc => List.mem_append_left _ hc) inv2.visMono
          · exact inv2.handled.mono (fun c hc => List.mem_append_right _ hc) (fun _ h => h)
        · intro m hm
          rcases inv2.entered m hm with h1 | h1
          · rcases inv1.entered m h1 with h2 | h2
            · exact Or.inl h2
            · exact Or.inr (fun tc' ss' hfr => (h2 tc' ss' hfr).mono (fun c hc => List.mem_append_left _ hc) inv2.visMono)
          · exact Or.inr (fun tc' ss' hfr => (h1 tc' ss' hfr).mono (fun c hc => List.mem_append_right _ hc) (fun _ h => h))
      | spread n np dirs q =>
        have hs1 : Model.sizeSel (.spread n np dirs q) = 1 := by simp [Model.sizeSel]
        simp only [Spec.collect]
        by_cases hv : n ∈ vis
        · simp only [List.contains_eq_mem, hv, decide_true, if_true]
          have inv := ih parent vis rest (by omega)
          refine ⟨inv.visMono, ?_, ?_, inv.entered⟩
          · intro c hc
            exact (inv.sound c hc).mono (fun x hx => List.mem_cons_of_mem _ hx)
          · apply HandledS.cons
            · exact inv.visMono _ hv
            · intro tc dirs' ss p h; cases h
            · exact inv.handled
        · simp only [List.contains_eq_mem, hv, decide_false, Bool.false_eq_true, if_false]
          cases hfr : Spec.findFrag D n with
          | none =>
            simp only
            have hn : n ∉ Spec.fragNames D := (findFrag_none_iff D n).1 hfr
            have hp := npot_skip (fragWeight D) (Spec.fragNames D) vis n hn
            have inv := ih parent (n :: vis) rest (by omega)
            refine ⟨fun m hm => inv.visMono _ (List.mem_cons_of_mem _ hm), ?_, ?_, ?_⟩
            · intro c hc
              exact (inv.sound c hc).mono (fun x hx => List.mem_cons_of_mem _ hx)
            · apply HandledS.cons
              · exact inv.visMono _ (List.mem_cons_self ..)
              · intro tc dirs' ss p h; cases h
              · exact inv.handled
            · intro m hm
              rcases inv.entered m hm with h1 | h1
              · simp only [List.mem_cons] at h1
                rcases h1 with rfl | h1
                · exact Or.inr (fun tc ss h => by rw [hfr] at h; simp at h)
                · exact Or.inl h1
              · exact Or.inr h1
          | some pr =>
            obtain ⟨tc, ss⟩ := pr
            simp only
            have hn : n ∈ Spec.fragNames D := by
              by_cases hm : n ∈ Spec.fragNames D
              · exact hm
              · rw [(findFrag_none_iff D n).2 hm] at hfr; simp at hfr
            have hp := npot_take (fragWeight D) (Spec.fragNames D) vis n hu hn hv
            have hw : fragWeight D n = 1 + Model.sizeSels ss.sels := by
              simp only [fragWeight, hfr]
              cases ss with
              | mk sl pp => simp [Model.sizeSet, SelSet.sels]
            have inv1 := ih (Spec.condScope S tc) (n :: vis) ss.sels (by omega)
            have hm1 := npot_mono (fragWeight D) (Spec.fragNames D) (vis := vis)
              (vis' := (Spec.collect S D fuel (Spec.condScope S tc) (n :: vis) ss.sels).2)
              (fun m hm => inv1.visMono _ (List.mem_cons_of_mem _ hm))
            have inv2 := ih parent (Spec.collect S D fuel (Spec.condScope S tc) (n :: vis) ss.sels).2 rest (by omega)
            have hnvis : n ∈ (Spec.collect S D fuel (Spec.condScope S tc) (n :: vis) ss.sels).2 :=
              inv1.visMono _ (List.mem_cons_self ..)
            refine ⟨fun m hm => inv2.visMono _ (inv1.visMono _ (List.mem_cons_of_mem _ hm)), ?_, ?_, ?_⟩
            · intro c hc
              simp only [List.mem_append] at hc
              rcases hc with hc | hc
              · exact .spread (.here (List.mem_cons_self ..)) hfr (inv1.sound c hc)
              · exact (inv2.sound c hc).mono (fun x hx => List.mem_cons_of_mem _ hx)
            · apply HandledS.cons
              · exact inv2.visMono _ hnvis
              · intro tc' dirs' ss' p h; cases h
              · exact inv2.handled.mono (fun c hc => List.mem_append_right _ hc) (fun _ h => h)
            · intro m hm
              rcases inv2.entered m hm with h1 | h1
              · rcases inv1.entered m h1 with h2 | h2
                · simp only [List.mem_cons] at h2
                  rcases h2 with rfl | h2
                  · refine Or.inr (fun tc' ss' h => ?_)
                    rw [hfr] at h
                    simp only [Option.some.injEq, Prod.mk.injEq] at h
                    obtain ⟨rfl, rfl⟩ := h
                    exact inv1.handled.mono (fun c hc => List.mem_append_left _ hc) inv2.visMono
                  · exact Or.inl h2
                · exact Or.inr (fun tc' ss' hfr' => (h2 tc' ss' hfr').mono (fun c hc => List.mem_append_left _ hc) inv2.visMono)
              · exact Or.inr (fun tc' ss' hfr' => (h1 tc' ss' hfr').mono (fun c hc => List.mem_append_right _ hc) (fun _ h => h))

/-- Closure: when every visited fragment is handled, everything collectable from a handled list is
    in the output. -/
theorem closure_S {S : Schema} {D : Document} {out : List CF} {vis : List String}
    (hall : ∀ n ∈ vis, ∀ tc ss, Spec.findFrag D n = some (tc, ss) → HandledS S out vis (Spec.condScope S tc) ss.sels) :
    ∀ {parent : Option String} {sels : List Selection} {cf : CF},
      CollectsS S D parent sels cf → HandledS S out vis parent sels → cf ∈ out := by
  intro parent sels cf hc
  induction hc with
  | field hn => intro hh; exact hh _ _ hn
  | spread hn hfr _ ih =>
    intro hh
    have hv := hh _ _ hn
    exact ih (hall _ hv _ _ hfr)

/-- One collection from an empty visited set, with enough fuel, collects exactly `CollectsS`. -/
theorem collect_mem {S : Schema} {D : Document} (hu : Spec.nodup (Spec.fragNames D) = true) {fuel : Nat}
    {parent : Option String} {sels : List Selection}
    (hf : Model.sizeSels sels + 1 + npot (fragWeight D) (Spec.fragNames D) [] ≤ fuel) (cf : CF) :
    cf ∈ (Spec.collect S D fuel parent [] sels).1 ↔ CollectsS S D parent sels cf := by
  have inv := collect_inv S D hu fuel parent [] sels hf
  constructor
  · exact inv.sound cf
  · intro hc
    apply closure_S _ hc inv.handled
    intro n hn tc ss hfr
    rcases inv.entered n hn with h | h
    · simp at h
    · exact h tc ss hfr

/-- Two collections sharing the visited set (the merged set of §5.3.2) collect the union. -/
theorem collect2_mem {S : Schema} {D : Document} (hu : Spec.nodup (Spec.fragNames D) = true) {fuel : Nat}
    {p1 p2 : Option String} {l1 l2 : List Selection}
    (hf1 : Model.sizeSels l1 + 1 + npot (fragWeight D) (Spec.fragNames D) [] ≤ fuel)
    (hf2 : Model.sizeSels l2 + 1 + npot (fragWeight D) (Spec.fragNames D) [] ≤ fuel) (cf : CF) :
    cf ∈ (Spec.collect S D fuel p1 [] l1).1 ++ (Spec.collect S D fuel p2 (Spec.collect S D fuel p1 [] l1).2 l2).1 ↔
      (CollectsS S D p1 l1 cf ∨ CollectsS S D p2 l2 cf) := by
  have inv1 := collect_inv S D hu fuel p1 [] l1 hf1
  have hm := npot_mono (fragWeight D) (Spec.fragNames D) (vis := []) (vis' := (Spec.collect S D fuel p1 [] l1).2)
    (by simp)
  have inv2 := collect_inv S D hu fuel p2 (Spec.collect S D fuel p1 [] l1).2 l2 (by omega)
  have hall : ∀ n ∈ (Spec.collect S D fuel p2 (Spec.collect S D fuel p1 [] l1).2 l2).2, ∀ tc ss,
      Spec.findFrag D n = some (tc, ss) →
      HandledS S ((Spec.collect S D fuel p1 [] l1).1 ++ (Spec.collect S D fuel p2 (Spec.collect S D fuel p1 [] l1).2 l2).1)
        (Spec.collect S D fuel p2 (Spec.collect S D fuel p1 [] l1).2 l2).2 (Spec.condScope S tc) ss.sels := by
    intro n hn tc ss hfr
    rcases inv2.entered n hn with h | h
    · rcases inv1.entered n h with h' | h'
      · simp at h'
      · exact (h' tc ss hfr).mono (fun c hc => List.mem_append_left _ hc) inv2.visMono
    · exact (h tc ss hfr).mono (fun c hc => List.mem_append_right _ hc) (fun _ h => h)
  constructor
  · intro h
    simp only [List.mem_append] at h
    rcases h with h | h
    · exact Or.inl (inv1.sound cf h)
    · exact Or.inr (inv2.sound cf h)
  · rintro (h | h)
    · exact closure_S hall h (inv1.handled.mono (fun c hc => List.mem_append_left _ hc) inv2.visMono)
    · exact closure_S hall h (inv2.handled.mono (fun c hc => List.mem_append_right _ hc) (fun _ h => h))

/-- `rootNames` is the projection of `collect` on response names (same traversal). -/
theorem rootNames_eq_collect (S : Schema) (D : Document) :
    ∀ (fuel : Nat) (parent : Option String) (vis : List String) (sels : List Selection),
      Spec.rootNames D fuel vis sels =
        (((Spec.collect S D fuel parent vis sels).1).map (·.rname), (Spec.collect S D fuel parent vis sels).2) := by
  intro fuel
  induction fuel with
  | zero => intro parent vis sels; simp [Spec.rootNames, Spec.collect]
  | succ fuel ih =>
    intro parent vis sels
    cases sels with
    | nil => simp [Spec.rootNames, Spec.collect]
    | cons s rest =>
      cases s with
      | field al n np args dirs sub =>
        simp only [Spec.rootNames, Spec.collect, ih parent vis rest, List.map_cons]
      | inline tc dirs ss q =>
        simp only [Spec.rootNames, Spec.collect, ih (Spec.inlineScope S parent tc) vis ss.sels,
          ih parent _ rest, List.map_append]
      | spread n np dirs q =>
        simp only [Spec.rootNames, Spec.collect]
        split
        · exact ih parent vis rest
        · cases hfr : Spec.findFrag D n with
          | none => simp only; exact ih parent (n :: vis) rest
          | some pr =>
            obtain ⟨tc, ss⟩ := pr
            simp only [ih (Spec.condScope S tc) (n :: vis) ss.sels, ih parent _ rest, List.map_append]

end ApiFu.C04
