/-
  C04 — lemmas for PropsSchemaNew.lean: each schema-side hypothesis of the verdict theorems, for the
  description of a definition the model of `schema.New` accepts.
-/
import ApiFu.C04.SchemaNew
import ApiFu.C04.PropsVerdict

namespace ApiFu.C04.SchemaNew
open ApiFu ApiFu.C04
set_option linter.unusedSimpArgs false
set_option linter.unusedVariables false

/-! ## Small facts -/

theorem mapRef_proper (D : SDef) : ∀ t : TRef, (mapRef D t).proper = t.proper
  | .named _ => rfl
  | .list t => by simp [mapRef, TRef.proper, mapRef_proper D t]
  | .nonNull (.named _) => rfl
  | .nonNull (.list t) => by simp [mapRef, TRef.proper, mapRef_proper D t]
  | .nonNull (.nonNull _) => rfl

theorem mapRef_isNonNull (D : SDef) (t : TRef) : (mapRef D t).isNonNull = t.isNonNull := by
  cases t <;> rfl

theorem toInput_name (D : SDef) (a : InputDef) : (toInput D a).name = a.name := rfl

theorem toInputs_names (D : SDef) (as : List InputDef) :
    (as.map (toInput D)).map (·.name) = as.map (·.name) := by
  simp [List.map_map, Function.comp_def, toInput]


theorem defaultOk_toInput (D : SDef) (a : InputDef) : defaultOkDef (toInput D a) = defaultOkDef a := by
  simp [defaultOkDef, toInput, mapRef_isNonNull]

theorem schemaNew_type {D : SDef} (h : schemaNew D = true) {t : SType} (ht : t ∈ D.types) :
    typeNameOk D t = true ∧ kindOk D t.feats t.kind = true := by
  unfold schemaNew at h
  simp only [Bool.and_eq_true, List.all_eq_true] at h
  exact h.2 t ht

theorem schemaNew_dir {D : SDef} (h : schemaNew D = true) {d : DirDef} (hd : d ∈ D.directives) :
    dirOk D d = true := by
  unfold schemaNew at h
  simp only [Bool.and_eq_true, List.all_eq_true] at h
  exact h.1.2 d hd

theorem reserved_typename : reserved "__typename" = true := by decide

theorem nameOk_ne_typename {s : String} (h : nameOk s = true) : s ≠ "__typename" := by
  intro he
  subst he
  unfold nameOk at h
  simp [reserved_typename] at h

/-- Fields with legal names: none is called `__typename`. -/
theorem noTypename_of_names {D : SDef} {rf : List String} {fs : List SField} (h : ∀ f ∈ fs, nameOk f.name = true) :
    fieldsNoTypename (visFields D rf fs) = true := by
  unfold fieldsNoTypename findField visFields
  rw [Option.isNone_iff_eq_none, List.find?_eq_none]
  intro x hx
  simp only [List.mem_map, List.mem_filter] at hx
  obtain ⟨f, ⟨hf, _⟩, rfl⟩ := hx
  simp only [decide_eq_true_eq]
  exact nameOk_ne_typename (h f hf)

/-! ## Lookup by name in the description -/

theorem describe_find (I : Intro) (D : SDef) (rf : List String) (n : String) :
    (describe I D rf).find n =
      match (visTypes D rf).find? (fun t => t.name = n) with
      | some t => some (toType D rf t)
      | none => I.types.find? (fun t => t.name = n) := by
  unfold Schema.find describe
  simp only [List.find?_append, List.find?_map]
  have hc : ((fun t : TypeDef => decide (t.name = n)) ∘ toType D rf) = fun t : SType => decide (t.name = n) := by
    funext t
    rfl
  rw [hc]
  cases (visTypes D rf).find? (fun t => decide (t.name = n)) <;> rfl

theorem mem_visTypes {D : SDef} {rf : List String} {t : SType} (h : t ∈ visTypes D rf) : t ∈ D.types := by
  unfold visTypes at h
  exact (List.mem_filter.mp h).1

/-- A key that resolves to object types only names a composite type of the description. -/
theorem root_composite {I : Intro} {D : SDef} {rf : List String} (h : schemaNew D = true) {k : String}
    (hr : resolvesTo D SKind.isObject k = true) (hv : rootVisible D rf (some k) = true) :
    Spec.isComposite (describe I D rf) (nameOfKey D k) = true := by
  unfold resolvesTo at hr
  simp only [Bool.and_eq_true, List.any_eq_true, List.all_eq_true, Bool.or_eq_true, bne_iff_ne, ne_eq,
    beq_iff_eq] at hr
  obtain ⟨⟨t, ht, htk⟩, hall⟩ := hr
  -- the object found by key
  have hsome : (D.types.find? (fun u => u.key = k)).isSome = true := by
    rw [List.find?_isSome]
    exact ⟨t, ht, by simpa using htk⟩
  obtain ⟨t0, ht0⟩ := Option.isSome_iff_exists.mp hsome
  have ht0m : t0 ∈ D.types := List.mem_of_find?_eq_some ht0
  have ht0k : t0.key = k := by simpa using List.find?_some ht0
  have hname : nameOfKey D k = t0.name := by
    unfold nameOfKey SDef.find
    rw [ht0]
  rw [hname]
  -- the root type is visible
  have ht0v : t0 ∈ visTypes D rf := by
    unfold rootVisible at hv
    simp only [List.all_eq_true, Bool.or_eq_true, bne_iff_ne, ne_eq] at hv
    unfold visTypes
    rw [List.mem_filter]
    refine ⟨ht0m, ?_⟩
    rcases hv t0 ht0m with hne | hs
    · exact absurd ht0k hne
    · exact hs
  -- the type found by that name
  have hsome2 : ((visTypes D rf).find? (fun u => u.name = t0.name)).isSome = true := by
    rw [List.find?_isSome]
    exact ⟨t0, ht0v, by simp⟩
  obtain ⟨u, hu⟩ := Option.isSome_iff_exists.mp hsome2
  have hum : u ∈ D.types := mem_visTypes (List.mem_of_find?_eq_some hu)
  have hun : u.name = t0.name := by simpa using List.find?_some hu
  have hok := (schemaNew_type h hum).1
  unfold typeNameOk at hok
  simp only [Bool.and_eq_true, List.all_eq_true, Bool.or_eq_true, bne_iff_ne, ne_eq, beq_iff_eq] at hok
  have hkey : t0.key = u.key := by
    rcases hok.1.2 t0 ht0m with hne | he
    · exact absurd hun.symm hne
    · exact he
  have huobj : u.kind.isObject = true := by
    rcases hall u hum with hne | ho
    · exact absurd (hkey ▸ ht0k) hne
    · exact ho
  unfold Spec.isComposite Spec.kindOf
  rw [describe_find, hu]
  simp only [Option.map_some, toType]
  cases hk : u.kind <;> simp [hk, SKind.isObject] at huobj <;> simp [toKind, TypeKind.isComposite]

theorem rootOk_describe {I : Intro} {D : SDef} {rf : List String} (h : schemaNew D = true) {r : Option String}
    (hr : rootTyped D r = true) (hv : rootVisible D rf r = true) :
    rootOk (describe I D rf) (r.map (nameOfKey D)) = true := by
  cases r with
  | none => rfl
  | some k => exact root_composite h hr hv

/-- `String` is the built-in scalar or absent. -/
theorem string_not_composite {I : Intro} {D : SDef} {rf : List String} (h : schemaNew D = true) (hi : I.ok = true) :
    Spec.isComposite (describe I D rf) "String" = false := by
  unfold Spec.isComposite Spec.kindOf
  rw [describe_find]
  cases hf : (visTypes D rf).find? (fun t => t.name = "String") with
  | some t =>
    have htm : t ∈ D.types := mem_visTypes (List.mem_of_find?_eq_some hf)
    have htn : t.name = "String" := by simpa using List.find?_some hf
    have hok := (schemaNew_type h htm).1
    unfold typeNameOk at hok
    simp only [Bool.and_eq_true, Bool.or_eq_true, Bool.not_eq_true'] at hok
    have hb : isBuiltinObject t.kind = true := by
      rcases hok.2 with hc | hb
      · rw [htn] at hc
        simp [builtinNames] at hc
      · exact hb
    simp only [Option.map_some, toType]
    cases hk : t.kind <;> simp [hk, isBuiltinObject] at hb <;> simp [toKind, TypeKind.isComposite]
  | none =>
    simp only
    unfold Intro.ok at hi
    simp only [Bool.and_eq_true, List.all_eq_true, bne_iff_ne, ne_eq] at hi
    have hn : I.types.find? (fun t => t.name = "String") = none := by
      rw [List.find?_eq_none]
      intro x hx
      simpa using hi.1.1.1.2 x hx
    rw [hn]
    rfl

/-! ## The four hypotheses -/

theorem describe_typesProper {I : Intro} {D : SDef} {rf : List String} (h : schemaNew D = true) (hi : I.ok = true) :
    (describe I D rf).typesProper = true := by
  unfold Intro.ok at hi
  simp only [Bool.and_eq_true] at hi
  have hip := hi.1.1.2
  unfold Schema.typesProper introSchema at hip
  simp only [Bool.and_eq_true] at hip
  unfold Schema.typesProper describe
  simp only [List.all_append, Bool.and_eq_true, List.all_map]
  refine ⟨⟨?_, hip.1⟩, hip.2⟩
  rw [List.all_eq_true]
  intro t ht
  have hk := (schemaNew_type h (mem_visTypes ht)).2
  have hfs : ∀ fs : List SField, fs.all (fieldOk D) = true → fieldsProper (visFields D rf fs) = true := by
    intro fs hfs
    unfold fieldsProper visFields
    rw [List.all_map, List.all_eq_true]
    intro f hf
    have := List.all_eq_true.mp hfs f (List.mem_filter.mp hf).1
    unfold fieldOk at this
    simp only [Bool.and_eq_true] at this
    simp only [Function.comp, toField, mapRef_proper]
    exact this.1.1.2
  simp only [Function.comp, toType]
  cases hkd : t.kind with
  | scalar b s => rfl
  | object fs ifs b =>
    rw [hkd] at hk
    unfold kindOk at hk
    simp only [Bool.and_eq_true] at hk
    exact hfs fs hk.2
  | interface fs =>
    rw [hkd] at hk
    unfold kindOk at hk
    simp only [Bool.and_eq_true] at hk
    exact hfs fs hk.2
  | union ms => rfl
  | enum vs => rfl
  | input fs b => rfl

theorem describe_argDefsUnique {I : Intro} {D : SDef} {rf : List String} (hg : D.goTyped = true) (hi : I.ok = true) :
    Schema.argDefsUnique (describe I D rf) = true := by
  unfold Intro.ok at hi
  simp only [Bool.and_eq_true] at hi
  have hia := hi.1.2
  unfold Schema.argDefsUnique introSchema at hia
  simp only [Bool.and_eq_true, List.all_nil] at hia
  unfold SDef.goTyped at hg
  simp only [Bool.and_eq_true] at hg
  obtain ⟨⟨⟨_, htypes⟩, _⟩, hdirs⟩ := hg
  unfold Schema.argDefsUnique describe
  simp only [List.all_append, Bool.and_eq_true, List.all_map]
  refine ⟨⟨⟨?_, hia.1.1⟩, hia.1.2⟩, ?_⟩
  · rw [List.all_eq_true]
    intro t ht
    have hk := List.all_eq_true.mp htypes t (mem_visTypes ht)
    simp only [Bool.and_eq_true] at hk
    have hkt := hk.1
    have hfs : ∀ fs : List SField, fieldKeysOk fs = true →
        (visFields D rf fs).all (fun f => Spec.nodup (f.args.map (·.name))) = true := by
      intro fs hfs
      unfold fieldKeysOk at hfs
      simp only [Bool.and_eq_true] at hfs
      unfold visFields
      rw [List.all_map, List.all_eq_true]
      intro f hf
      have := List.all_eq_true.mp hfs.2 f (List.mem_filter.mp hf).1
      simp only [Function.comp, toField, toInputs_names]
      exact this
    simp only [Function.comp, toType]
    cases hkd : t.kind with
    | scalar b s => rfl
    | object fs ifs b =>
      rw [hkd] at hkt
      unfold kindTyped at hkt
      simp only [Bool.and_eq_true] at hkt
      exact hfs fs hkt.1
    | interface fs =>
      rw [hkd] at hkt
      unfold kindTyped at hkt
      exact hfs fs hkt
    | union ms => rfl
    | enum vs => rfl
    | input fs b => rfl
  · rw [List.all_eq_true]
    intro d hd
    have := List.all_eq_true.mp hdirs d hd
    simp only [Bool.and_eq_true] at this
    simp only [Function.comp, toDir, toInputs_names]
    exact this.1

theorem describe_wfDefaults {I : Intro} {D : SDef} {rf : List String} (hn : D.nullDefaultsOk = true) (hi : I.ok = true) :
    Schema.wfDefaults (describe I D rf) = true := by
  unfold Intro.ok at hi
  simp only [Bool.and_eq_true] at hi
  have hid := hi.2
  unfold Schema.wfDefaults introSchema at hid
  simp only [Bool.and_eq_true, List.all_nil] at hid
  unfold SDef.nullDefaultsOk at hn
  simp only [Bool.and_eq_true] at hn
  unfold Schema.wfDefaults describe
  simp only [List.all_append, Bool.and_eq_true, List.all_map]
  have hins : ∀ fs : List InputDef, fs.all defaultOkDef = true → (fs.map (toInput D)).all defaultOkDef = true := by
    intro fs hfs
    rw [List.all_map, List.all_eq_true]
    intro a ha
    simp only [Function.comp, defaultOk_toInput]
    exact List.all_eq_true.mp hfs a ha
  refine ⟨⟨?_, hid.1⟩, ?_⟩
  · rw [List.all_eq_true]
    intro t ht
    have hk := List.all_eq_true.mp hn.1 t (mem_visTypes ht)
    simp only [Function.comp, toType]
    cases hkd : t.kind with
    | input fs b =>
      rw [hkd] at hk
      exact hins fs hk
    | scalar b s => rfl
    | object fs ifs b => rfl
    | interface fs => rfl
    | union ms => rfl
    | enum vs => rfl
  · rw [List.all_eq_true]
    intro d hd
    have := List.all_eq_true.mp hn.2 d hd
    simp only [Function.comp, toDir]
    exact hins d.args this

theorem describe_wf {I : Intro} {D : SDef} {rf : List String} (h : schemaNew D = true) (hg : D.goTyped = true)
    (hi : I.ok = true) (hv : D.rootsVisible rf = true) : (describe I D rf).wf = true := by
  have hstr := string_not_composite (I := I) (rf := rf) h hi
  unfold SDef.rootsVisible at hv
  simp only [Bool.and_eq_true] at hv
  unfold Intro.ok at hi
  simp only [Bool.and_eq_true] at hi
  unfold SDef.goTyped at hg
  simp only [Bool.and_eq_true] at hg
  obtain ⟨⟨⟨⟨⟨⟨_, hq⟩, hm⟩, hs⟩, _⟩, _⟩, _⟩ := hg
  have hqs : D.query.isSome = true := by
    unfold schemaNew at h
    simp only [Bool.and_eq_true] at h
    exact h.1.1
  unfold Schema.wf
  simp only [Bool.and_eq_true, Bool.not_eq_true']
  refine ⟨⟨⟨⟨⟨?_, ?_⟩, hstr⟩, ?_⟩, ?_⟩, ?_⟩
  · -- no field called __typename
    show (describe I D rf).types.all typeNoTypename = true
    unfold describe
    simp only [List.all_append, Bool.and_eq_true, List.all_map]
    refine ⟨?_, hi.1.1.1.1.1⟩
    rw [List.all_eq_true]
    intro t ht
    have hk := (schemaNew_type h (mem_visTypes ht)).2
    simp only [Function.comp, toType, typeNoTypename]
    cases hkd : t.kind with
    | scalar b s => rfl
    | object fs ifs b =>
      rw [hkd] at hk
      unfold kindOk at hk
      simp only [Bool.and_eq_true, List.all_eq_true] at hk
      exact noTypename_of_names (fun f hf => (hk.1.1.1.1.1 f hf).1)
    | interface fs =>
      rw [hkd] at hk
      unfold kindOk at hk
      simp only [Bool.and_eq_true, List.all_eq_true] at hk
      exact noTypename_of_names (fun f hf => hk.1.1.1 f hf)
    | union ms => rfl
    | enum vs => rfl
    | input fs b => rfl
  · exact hi.1.1.1.1.2
  · -- the query root
    cases hqd : D.query with
    | none => simp [hqd] at hqs
    | some k =>
      rw [hqd] at hq
      have hvq := hv.1.1
      rw [hqd] at hvq
      have := root_composite (I := I) h hq hvq
      simpa [describe, hqd] using this
  · exact rootOk_describe h hm hv.1.2
  · exact rootOk_describe h hs hv.2

end ApiFu.C04.SchemaNew
