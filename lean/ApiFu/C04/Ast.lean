/-
  C04 — data types shared by the specification (`Spec.lean`) and the model (`Model.lean`).

  * the executable-document AST of `graphql/ast/ast.go`, with the positions the validator
    reports (`Position()` of every node kind that an error can point at);
  * the *description of a schema as visible to one request*: named types with their fields,
    arguments, input fields, enum values, interfaces, union members; directives with locations
    and arguments; the two meta fields of the query root. Go pointers become names
    (`schema.New` guarantees that names are unique and that user names never start with `__`,
    so pointer identity of named types is name equality).

  Core Lean only: linked into the driver `c04model`.
-/
namespace ApiFu.C04

/-- `token.Position` (1-based line and column). -/
structure Pos where
  line : Nat
  col : Nat
  deriving DecidableEq, Repr, Inhabited

/-! ## Document AST (graphql/ast/ast.go) -/

/-- `ast.Type`. `pos` is what `Position()` returns for that node. -/
inductive TypeExpr where
  | named (name : String) (pos : Pos)
  | list (inner : TypeExpr) (pos : Pos)
  | nonNull (inner : TypeExpr)
  deriving Repr, Inhabited

def TypeExpr.pos : TypeExpr → Pos
  | .named _ p => p
  | .list _ p => p
  | .nonNull t => t.pos

mutual
/-- `ast.Value`. Every constructor carries the position `Position()` returns. -/
inductive Value where
  | var (name : String) (pos : Pos)
  | int (lit : String) (pos : Pos)
  | float (lit : String) (pos : Pos)
  | str (val : String) (pos : Pos)
  | bool (b : Bool) (pos : Pos)
  | null (pos : Pos)
  | enum (name : String) (pos : Pos)
  | list (items : List Value) (pos : Pos)
  | obj (fields : List ObjField) (pos : Pos)
/-- `ast.ObjectField` (`pos` = position of its name). -/
inductive ObjField where
  | mk (name : String) (pos : Pos) (value : Value)
end

instance : Inhabited Value := ⟨.null default⟩

def Value.pos : Value → Pos
  | .var _ p | .int _ p | .float _ p | .str _ p | .bool _ p | .null p | .enum _ p
  | .list _ p | .obj _ p => p

def Value.isNull : Value → Bool
  | .null _ => true
  | _ => false

def Value.isVar : Value → Bool
  | .var _ _ => true
  | _ => false

def ObjField.name : ObjField → String
  | .mk n _ _ => n
def ObjField.pos : ObjField → Pos
  | .mk _ p _ => p
def ObjField.value : ObjField → Value
  | .mk _ _ v => v

/-- `ast.Argument` (`pos` = position of its name). -/
structure Argument where
  name : String
  pos : Pos
  value : Value
  deriving Inhabited

/-- `ast.Directive` (`pos` = position of the `@`). -/
structure Directive where
  name : String
  pos : Pos
  args : List Argument
  deriving Inhabited

mutual
/-- `ast.Selection`. -/
inductive Selection where
  /-- `ast.Field`; `Position()` is the alias position when there is an alias, else `npos`. -/
  | field (alias : Option (String × Pos)) (name : String) (npos : Pos)
      (args : List Argument) (dirs : List Directive) (sel : Option SelSet)
  /-- `ast.FragmentSpread`; `npos` = position of the fragment name, `pos` = the ellipsis. -/
  | spread (name : String) (npos : Pos) (dirs : List Directive) (pos : Pos)
  /-- `ast.InlineFragment`; `tc` = type condition (name, position), `pos` = the ellipsis. -/
  | inline (tc : Option (String × Pos)) (dirs : List Directive) (sel : SelSet) (pos : Pos)
/-- `ast.SelectionSet`; `pos` = position of the opening brace. -/
inductive SelSet where
  | mk (sels : List Selection) (pos : Pos)
end

instance : Inhabited SelSet := ⟨.mk [] default⟩
instance : Inhabited Selection := ⟨.spread "" default [] default⟩

def SelSet.sels : SelSet → List Selection
  | .mk s _ => s
def SelSet.pos : SelSet → Pos
  | .mk _ p => p

/-- `(*ast.Field).Position()`. -/
def fieldPos (alias : Option (String × Pos)) (npos : Pos) : Pos :=
  match alias with
  | some (_, p) => p
  | none => npos

/-- Response name of a field (alias if present). -/
def responseName (alias : Option (String × Pos)) (name : String) : String :=
  match alias with
  | some (a, _) => a
  | none => name

inductive OpKind where
  | query | mutation | subscription
  deriving DecidableEq, Repr, Inhabited

/-- `ast.VariableDefinition`: `pos` = the `$` (= `Position()` of the definition and of its
    `Variable`), `npos` = position of the variable's name. -/
structure VarDef where
  name : String
  pos : Pos
  npos : Pos
  type : TypeExpr
  dflt : Option Value
  deriving Inhabited

/-- `ast.OperationDefinition` / `ast.FragmentDefinition`. -/
inductive Definition where
  | op (kind : Option (OpKind × Pos)) (name : Option (String × Pos)) (vars : List VarDef)
      (dirs : List Directive) (sel : SelSet)
  /-- `pos` = the `fragment` keyword, `npos` = the name, `tcpos` = the type condition's name. -/
  | frag (name : String) (npos : Pos) (tc : String) (tcpos : Pos) (dirs : List Directive)
      (sel : SelSet) (pos : Pos)
  deriving Inhabited

abbrev Document := List Definition

/-- `(*ast.OperationDefinition).Position()`. -/
def opPos (kind : Option (OpKind × Pos)) (sel : SelSet) : Pos :=
  match kind with
  | some (_, p) => p
  | none => sel.pos

/-- Operation kind with the default `query`. -/
def opKindOf (kind : Option (OpKind × Pos)) : OpKind :=
  match kind with
  | some (k, _) => k
  | none => .query

/-! ## Schema description -/

/-- `schema.Type` with pointers replaced by names. -/
inductive TRef where
  | named (name : String)
  | list (inner : TRef)
  | nonNull (inner : TRef)
  deriving DecidableEq, Repr, Inhabited

/-- `schema.UnwrappedType(t).TypeName()`. -/
def TRef.base : TRef → String
  | .named n => n
  | .list t => t.base
  | .nonNull t => t.base

def TRef.isNonNull : TRef → Bool
  | .nonNull _ => true
  | _ => false

/-- `schema.NullableType`. -/
def TRef.nullable : TRef → TRef
  | .nonNull t => t.nullable
  | t => t

/-- `Type.String()`. -/
def TRef.toString : TRef → String
  | .named n => n
  | .list t => "[" ++ t.toString ++ "]"
  | .nonNull t => t.toString ++ "!"

/-- `InputValueDefinition.DefaultValue`: `nil`, `schema.Null`, or a value. -/
inductive Dflt where
  | none | null | value
  deriving DecidableEq, Repr, Inhabited

/-- `schema.InputValueDefinition` with its name. -/
structure InputDef where
  name : String
  type : TRef
  dflt : Dflt
  deriving Repr, Inhabited

/-- `schema.FieldDefinition` with its name. -/
structure FieldDef where
  name : String
  type : TRef
  args : List InputDef
  deriving Repr, Inhabited

/-- Which literal a scalar's `LiteralCoercion` accepts. The five built-ins are fixed by
    `schema/builtins.go`; a custom scalar of the harness accepts a set of literal kinds
    (`"int" "float" "string" "bool" "enum" "list" "object"`). -/
inductive ScalarSpec where
  | int | float | string | boolean | id
  | custom (kinds : List String)
  deriving Repr, Inhabited

inductive TypeKind where
  | scalar (spec : ScalarSpec)
  | object (fields : List FieldDef) (ifaces : List String)
  | interface (fields : List FieldDef)
  | union (members : List String)
  | enum (values : List String)
  | input (fields : List InputDef)
  deriving Repr, Inhabited

structure TypeDef where
  name : String
  kind : TypeKind
  deriving Repr, Inhabited

/-- `schema.DirectiveDefinition` with its name. -/
structure DirDef where
  name : String
  locs : List String
  args : List InputDef
  deriving Repr, Inhabited

/-- The schema as visible to the request (`namedType`, `GetField` already applied for the
    request's feature set; introspection types included). -/
structure Schema where
  types : List TypeDef
  query : String
  mutation : Option String
  subscription : Option String
  directives : List DirDef
  /-- `introspection.MetaFields` (`__schema`, `__type`): selectable on the query root only. -/
  metaFields : List FieldDef
  deriving Repr, Inhabited

def Schema.find (S : Schema) (n : String) : Option TypeDef :=
  S.types.find? (fun t => t.name = n)

def Schema.findDirective (S : Schema) (n : String) : Option DirDef :=
  S.directives.find? (fun d => d.name = n)

def findInput (ds : List InputDef) (n : String) : Option InputDef :=
  ds.find? (fun d => d.name = n)

def findField (fs : List FieldDef) (n : String) : Option FieldDef :=
  fs.find? (fun d => d.name = n)

/-- Root type name for an operation kind (`none` = the schema does not support it). -/
def Schema.root (S : Schema) : OpKind → Option String
  | .query => some S.query
  | .mutation => S.mutation
  | .subscription => S.subscription

def TypeKind.isComposite : TypeKind → Bool
  | .object _ _ | .interface _ | .union _ => true
  | _ => false

def TypeKind.isInput : TypeKind → Bool
  | .scalar _ | .enum _ | .input _ => true
  | _ => false

def TypeKind.isLeaf : TypeKind → Bool
  | .scalar _ | .enum _ => true
  | _ => false

def TypeKind.isObject : TypeKind → Bool
  | .object _ _ => true
  | _ => false

/-- A reported location. -/
abbrev Loc := Pos

/-- A validation error: message, locations, and the `isSecondary` flag of validator.go:14-24. -/
structure Err where
  msg : String
  locs : List Loc
  secondary : Bool := false
  deriving DecidableEq, Repr, Inhabited

end ApiFu.C04
