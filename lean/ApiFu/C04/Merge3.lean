/-
  C04 — towards the overlapping-fields group, part 3: on well-scoped documents the model's
  collection (`Collects`, TypeInfo scopes, positions) and the specification's (`CollectsS`) reach
  the same fields.
-/
import ApiFu.C04.Merge2

namespace ApiFu.C04
open Spec Model
set_option linter.unusedSimpArgs false
set_option linter.unusedVariables false

/-- A set of the table whose scope is composite and whose selections obey the scoping rules. -/
structure GoodSet (S : Schema) (r : SetRef) : Prop where
  inv : Inv S r.scope
  okAll : (occSels S r.scope r.sels).all (scopedAt S) = true

theorem occSels_mem (S : Schema) (scope : Option String) :
    ∀ (sels : List Selection) (s : Selection), s ∈ sels → ∀ o ∈ occSel S scope s, o ∈ occSels S scope sels
  | [], s, h, _, _ => by simp at h
  | x :: rest, s, h, o, ho => by
    simp only [List.mem_cons] at h
    simp only [occSels, List.mem_append]
    rcases h with rfl | h
    · exact Or.inl ho
    · exact Or.inr (occSels_mem S scope rest s h o ho)

mutual
theorem good_sel {S : Schema} (hwf : S.wf = true) : ∀ (scope : Option String) (sel : Selection),
    Inv S scope → (occSel S scope sel).all (scopedAt S) = true → ∀ r ∈ setsOfSel S scope sel, GoodSet S r
  | scope, .field al n np args dirs none, _, _, r, hr => by simp [setsOfSel] at hr
  | scope, .field al n np args dirs (some ss), hinv, h, r, hr => by
    obtain ⟨p, rfl, hp⟩ := hinv
    simp only [occSel, List.all_cons, Bool.and_eq_true] at h
    obtain ⟨d, hm, hs, hc⟩ := field_with_sel hwf hp h.1
    have e1 : Model.innerScope S (some p) n = some d.type.base := by simp [Model.innerScope, hm]
    have e2 : Spec.fieldScope S (some p) n = some d.type.base := by simp [Spec.fieldScope, hs]
    simp only [setsOfSel, e1] at hr
    exact good_set hwf (some d.type.base) ss ⟨_, rfl, hc⟩ (by simpa [e2] using h.2) r hr
  | scope, .spread n np dirs p, _, _, r, hr => by simp [setsOfSel] at hr
  | scope, .inline tc dirs ss p, hinv, h, r, hr => by
    simp only [occSel, List.all_cons, Bool.and_eq_true] at h
    have hc : condOkAt S (.inline scope tc dirs p) = true := by
      have := h.1
      simp only [scopedAt, Bool.and_eq_true] at this
      simp [condOkAt, this.1.2, this.2]
    obtain ⟨e, hinv'⟩ := inline_scope hinv hc
    simp only [setsOfSel, e] at hr
    exact good_set hwf _ ss hinv' h.2 r hr
theorem good_set {S : Schema} (hwf : S.wf = true) : ∀ (scope : Option String) (ss : SelSet),
    Inv S scope → (occSet S scope ss).all (scopedAt S) = true → ∀ r ∈ setsOfSet S scope ss, GoodSet S r
  | scope, .mk sels p, hinv, h, r, hr => by
    simp only [setsOfSet, List.mem_cons] at hr
    simp only [occSet] at h
    rcases hr with rfl | hr
    · exact ⟨hinv, h⟩
    · exact good_sels hwf scope sels hinv h r hr
theorem good_sels {S : Schema} (hwf : S.wf = true) : ∀ (scope : Option String) (sels : List Selection),
    Inv S scope → (occSels S scope sels).all (scopedAt S) = true → ∀ r ∈ setsOfSels S scope sels, GoodSet S r
  | scope, [], _, _, r, hr => by simp [setsOfSels] at hr
  | scope, s :: rest, hinv, h, r, hr => by
    simp only [occSels, List.all_append, Bool.and_eq_true] at h
    simp only [setsOfSels, List.mem_append] at hr
    rcases hr with hr | hr
    · exact good_sel hwf scope s hinv h.1 r hr
    · exact good_sels hwf scope rest hinv h.2 r hr
end

/-- On a well-scoped document every selection set of the table is good. -/
theorem good_allSets {S : Schema} {D : Document} (h : WellScoped S D) : ∀ r ∈ allSets S D, GoodSet S r := by
  intro r hr
  unfold allSets at hr
  simp only [List.mem_flatMap] at hr
  obtain ⟨d, hd, hrd⟩ := hr
  obtain ⟨e, hinv, _⟩ := def_scope h.toScopeRules hd
  obtain ⟨_, hocc⟩ := def_occs h hd
  have hsc : (occSet S (specDefScope S d) (Model.defSel d)).all (scopedAt S) = true := by
    rw [← occDef_eq, List.all_eq_true]
    intro o ho
    exact (hocc o ho).2
  rw [e] at hrd
  exact good_set h.wf _ _ hinv hsc r hrd

/-- What goodness says about one inline fragment of the set. -/
theorem GoodSet.inline {S : Schema} {r : SetRef} (hg : GoodSet S r) {tc dirs ss p}
    (hm : Selection.inline tc dirs ss p ∈ r.sels) :
    Model.inlineScope S r.scope tc = Spec.inlineScope S r.scope tc := by
  have hall := hg.okAll
  rw [List.all_eq_true] at hall
  have ho : Occ.inline r.scope tc dirs p ∈ occSels S r.scope r.sels :=
    occSels_mem S r.scope r.sels _ hm _ (by simp [occSel])
  have := hall _ ho
  have hc : condOkAt S (.inline r.scope tc dirs p) = true := by
    simp only [scopedAt, Bool.and_eq_true] at this
    simp [condOkAt, this.1.2, this.2]
  exact (inline_scope hg.inv hc).1

/-- What goodness says about one field of the set: it is defined, TypeInfo's entry is the
    specification's definition (none for `__typename`), and with a sub-selection the scopes of that
    sub-selection agree. -/
theorem GoodSet.field {S : Schema} (hwf : S.wf = true) {r : SetRef} (hg : GoodSet S r) {al n np args dirs sub}
    (hm : Selection.field al n np args dirs sub ∈ r.sels) :
    ∃ p, r.scope = some p ∧ Spec.isComposite S p = true ∧ (∃ d, Spec.fieldDef? S p n = some d) ∧
      (sub.isSome = true → Model.innerScope S r.scope n = Spec.fieldScope S r.scope n) := by
  have hall := hg.okAll
  rw [List.all_eq_true] at hall
  have ho : Occ.field r.scope al n np args dirs sub ∈ occSels S r.scope r.sels :=
    occSels_mem S r.scope r.sels _ hm _ (by cases sub <;> simp [occSel])
  have hsc := hall _ ho
  obtain ⟨p, hp', hp⟩ := hg.inv
  refine ⟨p, hp', hp, ?_, ?_⟩
  · rw [hp'] at hsc
    simp only [scopedAt, Bool.and_eq_true, fieldDefinedAt, hp, Bool.not_true, Bool.false_or] at hsc
    cases hd : Spec.fieldDef? S p n with
    | none => simp [hd] at hsc
    | some d => exact ⟨d, rfl⟩
  · intro hsome
    cases sub with
    | none => simp at hsome
    | some ss =>
      rw [hp'] at hsc ⊢
      obtain ⟨d, hm', hs, _⟩ := field_with_sel hwf hp hsc
      simp [Model.innerScope, Spec.fieldScope, hm', hs]

/-- How a collected model entry and a collected specification entry correspond. -/
structure CFRel (f : FRef) (c : CF) : Prop where
  rname : c.rname = f.rname
  name : c.name = f.name
  args : c.args = f.args
  sel : c.sel = f.sel
  parent : c.parent = f.setType
  inner : f.sel.isSome = true → c.inner = f.inner

theorem findFrag_fragLast {D : Document} (hu : Spec.fragmentNamesUnique D = true) (n : String) :
    Spec.findFrag D n = (Model.fragLast D n).map (fun f => (f.tc, f.sel)) := by
  rw [fragLast_eq_first hu, fragFirst_findFrag]

/-- Model to specification. -/
theorem collects_to_S {S : Schema} {D : Document} (h : WellScoped S D) (hu : Spec.fragmentNamesUnique D = true) :
    ∀ {scope : Option String} {sp : Pos} {sels : List Selection} {f : FRef},
      Collects S D scope sp sels f → (⟨scope, sp, sels⟩ : SetRef) ∈ allSets S D →
      ∃ c, CollectsS S D scope sels c ∧ CFRel f c := by
  intro scope sp sels f hc
  induction hc with
  | @field scope sp sels al n np args dirs sub hm =>
    intro hr
    have hg := good_allSets h _ hr
    obtain ⟨p, hp', hp, _, hin⟩ := hg.field h.wf hm
    refine ⟨mkCF S scope al n args sub, .field (.here hm), ⟨rfl, rfl, rfl, rfl, rfl, ?_⟩⟩
    intro hs
    simp only [mkRef] at hs
    simp only [mkCF, mkRef]
    exact (hin hs).symm
  | @inline scope sp sels tc dirs ss p f hm _ ih =>
    intro hr
    have hg := good_allSets h _ hr
    have e := hg.inline hm
    simp only at e
    have hchild := (allSets_children S D _ hr).2 tc dirs ss p hm
    obtain ⟨c, hc, hrel⟩ := ih hchild
    rw [e] at hc
    exact ⟨c, hc.ofInline hm, hrel⟩
  | @spread scope sp sels n np dirs p F f hm hF _ ih =>
    intro hr
    obtain ⟨c, hc, hrel⟩ := ih (allSets_frag hF)
    rw [namedType_eq_condScope] at hc
    have hfr : Spec.findFrag D n = some (F.tc, F.sel) := by rw [findFrag_fragLast hu, hF]; rfl
    exact ⟨c, .spread (.here hm) hfr hc, hrel⟩

/-- Through inline fragments only: the specification's `Near` stays inside the table. -/
theorem near_in_table {S : Schema} {D : Document} (h : WellScoped S D) :
    ∀ {parent : Option String} {sels : List Selection} {sc : Option String} {s : Selection},
      Near S parent sels sc s → ∀ (sp : Pos), (⟨parent, sp, sels⟩ : SetRef) ∈ allSets S D →
      ∃ r ∈ allSets S D, r.scope = sc ∧ s ∈ r.sels ∧
        ∀ f, Collects S D r.scope r.pos r.sels f → Collects S D parent sp sels f := by
  intro parent sels sc s hn
  induction hn with
  | @here parent sels s hm =>
    intro sp hr
    exact ⟨_, hr, rfl, hm, fun f hf => hf⟩
  | @inline parent sels tc dirs ss p sc s hm _ ih =>
    intro sp hr
    have hg := good_allSets h _ hr
    have e := hg.inline hm
    simp only at e
    have hchild := (allSets_children S D _ hr).2 tc dirs ss p hm
    simp only at hchild
    rw [e] at hchild
    obtain ⟨r', hr', hsc, hs, hcol⟩ := ih ss.pos hchild
    refine ⟨r', hr', hsc, hs, fun f hf => ?_⟩
    have := hcol f hf
    rw [← e] at this
    exact .inline hm this

/-- Specification to model. -/
theorem collectsS_to_M {S : Schema} {D : Document} (h : WellScoped S D) (hu : Spec.fragmentNamesUnique D = true) :
    ∀ {parent : Option String} {sels : List Selection} {c : CF},
      CollectsS S D parent sels c → ∀ (sp : Pos), (⟨parent, sp, sels⟩ : SetRef) ∈ allSets S D →
      ∃ f, Collects S D parent sp sels f ∧ CFRel f c := by
  intro parent sels c hc
  induction hc with
  | @field parent sels sc al n np args dirs sub hn =>
    intro sp hr
    obtain ⟨r', hr', hsc, hs, hcol⟩ := near_in_table h hn sp hr
    have hg := good_allSets h _ hr'
    obtain ⟨p, hp', hp, _, hin⟩ := hg.field h.wf hs
    refine ⟨mkRef S r'.scope r'.pos al n np args sub, hcol _ (.field hs), ⟨by simp [mkCF, mkRef], rfl, rfl, rfl, ?_, ?_⟩⟩
    · simp [mkCF, mkRef, hsc]
    · intro hsub
      simp only [mkRef] at hsub
      simp only [mkCF, mkRef, ← hsc]
      exact (hin hsub).symm
  | @spread parent sels sc n np dirs p tc ss cf hn hfr _ ih =>
    intro sp hr
    obtain ⟨r', hr', hsc, hs, hcol⟩ := near_in_table h hn sp hr
    rw [findFrag_fragLast hu] at hfr
    cases hF : Model.fragLast D n with
    | none => simp [hF] at hfr
    | some F =>
      simp only [hF, Option.map_some, Option.some.injEq, Prod.mk.injEq] at hfr
      obtain ⟨rfl, rfl⟩ := hfr
      have hroot := allSets_frag (S := S) hF
      rw [namedType_eq_condScope] at hroot
      obtain ⟨f, hf, hrel⟩ := ih F.sel.pos hroot
      rw [← namedType_eq_condScope] at hf
      exact ⟨f, hcol _ (.spread hs hF hf), hrel⟩

end ApiFu.C04
