/-
  C04 — the values pass is silent (no error at all, primary or secondary) on well-scoped documents
  whose arguments are known, whose directives are defined, whose values have the expected types and
  whose variables have input types.

  `model_values_eq_spec` says when the pass reports no PRIMARY error. The pass has one secondary
  error, "no type info for value", reported at a top-level literal whose expected type TypeInfo does
  not know. That happens only for an argument that is not defined (§5.4.1), a directive that is not
  defined (§5.7.1), a field that is not defined (excluded by well-scopedness; `__typename` has no
  arguments, so an argument there is unknown), and a default value of a variable whose type does
  not resolve (§5.8.2).
-/
import ApiFu.C04.Props

namespace ApiFu.C04
open Spec Model
set_option linter.unusedSimpArgs false
set_option linter.unusedVariables false

/-- One argument value whose argument is defined and whose value has the argument's type. -/
theorem valueNode_nil (S : Schema) (defs : List InputDef) (locd : Bool) (a : Argument) (args : List Argument)
    (hk : (findInput defs a.name).isSome = true)
    (hv : Spec.argValueOk S { defs := defs, args := args } a = true) :
    valueNode S { exp := (findInput defs a.name).map (·.type), locDefault := locd } a.value = [] := by
  unfold Spec.argValueOk at hv
  cases hfi : findInput defs a.name with
  | none => simp [hfi] at hk
  | some d =>
    simp only [hfi] at hv
    unfold valueNode
    cases hvar : a.value.isVar with
    | true => simp
    | false =>
      simp only [Bool.false_eq_true, if_false, Option.map_some]
      exact (coercion_nil S a.value d.type true).2 hv

theorem valuesArgs_field_nil (S : Schema) (defs : List InputDef) (args : List Argument)
    (hk : Spec.argsKnownAt { defs := defs, args := args } = true)
    (hv : Spec.siteValuesOk S { defs := defs, args := args } = true) :
    valuesArgs S (fieldArgCtx (some defs)) args = [] := by
  unfold valuesArgs
  unfold Spec.argsKnownAt at hk
  unfold Spec.siteValuesOk at hv
  simp only [List.all_eq_true] at hk hv
  rw [List.flatMap_eq_nil_iff]
  intro a ha
  rw [valueNode_exp S _ { exp := (findInput defs a.name).map (·.type), locDefault := false } _ (fieldArgCtx_exp defs a.name)]
  exact valueNode_nil S defs false a args (hk a ha) (hv a ha)

theorem valuesArgs_input_nil (S : Schema) (defs : List InputDef) (args : List Argument)
    (hk : Spec.argsKnownAt { defs := defs, args := args } = true)
    (hv : Spec.siteValuesOk S { defs := defs, args := args } = true) :
    valuesArgs S (inputCtx (some defs)) args = [] := by
  unfold valuesArgs
  unfold Spec.argsKnownAt at hk
  unfold Spec.siteValuesOk at hv
  simp only [List.all_eq_true] at hk hv
  rw [List.flatMap_eq_nil_iff]
  intro a ha
  rw [valueNode_exp S _ { exp := (findInput defs a.name).map (·.type), locDefault := false } _ (inputCtx_exp defs a.name)]
  exact valueNode_nil S defs false a args (hk a ha) (hv a ha)

/-- A directive list: every directive defined, every argument known, every value of the right type. -/
theorem valuesDirectives_nil (S : Schema) (dirs : List Directive)
    (hd : ∀ d ∈ dirs, (S.findDirective d.name).isSome = true)
    (hk : ∀ s ∈ Spec.dirArgSites S dirs, Spec.argsKnownAt s = true)
    (hv : ∀ s ∈ Spec.dirArgSites S dirs, Spec.siteValuesOk S s = true) :
    valuesDirectives S dirs = [] := by
  unfold valuesDirectives
  rw [List.flatMap_eq_nil_iff]
  intro d hdm
  have hdef := hd d hdm
  cases hf : S.findDirective d.name with
  | none => simp [hf] at hdef
  | some dd =>
    have hmem : ({ defs := dd.args, args := d.args } : Spec.ArgSite) ∈ Spec.dirArgSites S dirs := by
      unfold Spec.dirArgSites
      rw [List.mem_filterMap]
      exact ⟨d, hdm, by simp [hf]⟩
    simp only [Option.map_some]
    exact valuesArgs_input_nil S dd.args d.args (hk _ hmem) (hv _ hmem)

theorem argsKnownAt_nil_defs {args : List Argument}
    (h : Spec.argsKnownAt { defs := [], args := args } = true) : args = [] := by
  cases args with
  | nil => rfl
  | cons a rest => simp [Spec.argsKnownAt, findInput] at h

/-- One occurrence of a well-scoped document. -/
theorem valuesOcc_nil {S : Schema} (hwf : S.wf = true) {o : Occ} (hinv : Inv S (occParent o))
    (hs : scopedAt S o = true)
    (hd : ∀ d ∈ Spec.occDirs o, (S.findDirective d.name).isSome = true)
    (hk : ∀ s ∈ Spec.occArgSites S o, Spec.argsKnownAt s = true)
    (hv : ∀ s ∈ Spec.occArgSites S o, Spec.siteValuesOk S s = true) :
    valuesOcc S o = [] := by
  have hdirs : valuesDirectives S (Spec.occDirs o) = [] := by
    apply valuesDirectives_nil S _ hd
    · intro s hs'
      exact hk s (by unfold Spec.occArgSites; exact List.mem_append.2 (Or.inr hs'))
    · intro s hs'
      exact hv s (by unfold Spec.occArgSites; exact List.mem_append.2 (Or.inr hs'))
  cases o with
  | field parent al n np args dirs sel =>
    obtain ⟨p, hp', hp⟩ := hinv
    simp only [occParent] at hp'
    subst hp'
    simp only [scopedAt, Bool.and_eq_true, fieldDefinedAt, hp, Bool.not_true, Bool.false_or] at hs
    have hdef := hs.1.1.1
    have hagree := fieldDef_agree hwf hp n
    have htn := fieldDefinition_typename hwf (some p)
    simp only [Spec.occDirs] at hdirs
    simp only [valuesOcc, hdirs, List.append_nil]
    cases hfd : Spec.fieldDef? S p n with
    | none => simp [hfd] at hdef
    | some d =>
      have hmem : ({ defs := d.args, args := args } : Spec.ArgSite) ∈
          Spec.occArgSites S (.field (some p) al n np args dirs sel) := by
        simp [Spec.occArgSites, hfd]
      have hk' := hk _ hmem
      have hv' := hv _ hmem
      by_cases hn : n = "__typename"
      · subst hn
        simp only [if_true] at hagree
        rw [hfd] at hagree
        simp only [Option.some.injEq] at hagree
        subst hagree
        have : args = [] := argsKnownAt_nil_defs (by simpa [Spec.typenameField] using hk')
        subst this
        simp [valuesArgs]
      · simp only [hn, if_false] at hagree
        rw [hfd] at hagree
        rw [← hagree]
        simp only [Option.map_some]
        exact valuesArgs_field_nil S d.args args hk' hv'
  | spread parent n np dirs p =>
    simpa [valuesOcc, Spec.occDirs] using hdirs
  | inline parent tc dirs p =>
    simpa [valuesOcc, Spec.occDirs] using hdirs

/-- Default values: the variable's type resolves (§5.8.2) and the value has it (§5.6.1). -/
theorem defaultValueErrors_nil (S : Schema) (vars : List VarDef)
    (hv : vars.all (Spec.defaultOk S) = true) (ht : vars.all (Spec.variableTypeOk S) = true) :
    defaultValueErrors S vars = [] := by
  unfold defaultValueErrors
  simp only [List.all_eq_true] at hv ht
  rw [List.flatMap_eq_nil_iff]
  intro vd hvd
  have a := hv vd hvd
  have b := ht vd hvd
  unfold Spec.defaultOk at a
  unfold Spec.variableTypeOk at b
  cases hdf : vd.dflt with
  | none => rfl
  | some v =>
    simp only [schemaType_eq_resolveType]
    cases hr : Spec.resolveType S vd.type with
    | none => simp [hr] at b
    | some t =>
      simp only [hdf, hr] at a
      unfold valueNode
      cases hvar : v.isVar with
      | true => simp
      | false =>
        simp only [Bool.false_eq_true, if_false]
        exact (coercion_nil S v t true).2 a

/-- **The values pass is silent** on a well-scoped document in which every argument is known
    (§5.4.1), every directive is defined (§5.7.1), every value has the expected type (§5.6.1 –
    §5.6.4) and every variable has an input type (§5.8.2): it reports no error, not even the
    secondary "no type info for value". -/
theorem values_silent {S : Schema} {D : Document} (h : WellScoped S D)
    (hk : Spec.argumentsKnown S D = true) (hd : Spec.directivesDefined S D = true)
    (hv : Spec.valuesCorrect S D = true) (hvt : Spec.variablesAreInputTypes S D = true) :
    Model.validateValues S D = [] := by
  -- the hypotheses, per definition and per occurrence
  unfold Spec.argumentsKnown Spec.argSites Spec.selOccs at hk
  unfold Spec.valuesCorrect Spec.argSites Spec.selOccs at hv
  unfold Spec.variablesAreInputTypes at hvt
  rw [List.all_append, all_flatMap, all_flatMap, all_flatMap, Bool.and_eq_true] at hk
  rw [List.all_append, all_flatMap, all_flatMap, all_flatMap, Bool.and_eq_true, Bool.and_eq_true] at hv
  obtain ⟨hkO, hkD⟩ := hk
  obtain ⟨⟨hvO, hvD⟩, hvV⟩ := hv
  simp only [List.all_eq_true] at hkO hkD hvO hvD hvV hvt
  have hdd : ∀ loc dirs, (loc, dirs) ∈ Spec.dirSites S D →
      ∀ x ∈ dirs, (S.findDirective x.name).isSome = true := by
    intro loc dirs hm
    unfold Spec.directivesDefined at hd
    have := List.all_eq_true.1 hd (loc, dirs) hm
    exact List.all_eq_true.1 this
  unfold Model.validateValues
  rw [List.flatMap_eq_nil_iff]
  intro d hdm
  obtain ⟨e, hocc⟩ := def_occs h hdm
  have h1 : defaultValueErrors S (Model.varDefsOf d) = [] := by
    rw [varDefsOf_eq]
    exact defaultValueErrors_nil S _ (List.all_eq_true.2 (hvV d hdm)) (List.all_eq_true.2 (hvt d hdm))
  have h2 : valuesDirectives S (Model.defDirs d) = [] := by
    rw [defDirs_eq]
    apply valuesDirectives_nil S _ _ (hkD d hdm) (hvD d hdm)
    apply hdd (Spec.defLocation d) (Spec.defDirs d)
    unfold Spec.dirSites
    exact List.mem_append.2 (Or.inl (List.mem_map.2 ⟨d, hdm, rfl⟩))
  have h3 : valuesSet S (Model.defScope S d) (Model.defSel d) = [] := by
    rw [values_set_flat, e, List.flatMap_eq_nil_iff]
    intro o ho
    apply valuesOcc_nil h.wf (hocc o ho).1 (hocc o ho).2 _ (hkO d hdm o ho) (hvO d hdm o ho)
    apply hdd (Spec.occLocation o) (Spec.occDirs o)
    unfold Spec.dirSites Spec.selOccs
    exact List.mem_append.2 (Or.inr (List.mem_map.2 ⟨o, List.mem_flatMap.2 ⟨d, hdm, ho⟩, rfl⟩))
  rw [h1, h2, h3]
  rfl
