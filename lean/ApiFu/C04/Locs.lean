/-
  C04 — "locations_in_document": every location of every error the model can report is the
  position of a node of the document.

  * `docPositions D`: every `Pos` stored anywhere in the AST of `D` (with the sub-tree position
    functions `valuePositions`, `argPositions`, `dirPositions`, `selPositions`, `setPositions`, …);
  * one theorem `<pass>_locs` per rule file of `Model.lean`;
  * `locations_in_document` for the whole pipeline `Model.allErrors`.

  No hypothesis about the schema or the document is needed.

  Core Lean only.
-/
import ApiFu.C04.Lemmas
namespace ApiFu.C04.LocsProof
open Spec Model
set_option linter.unusedSimpArgs false
set_option linter.unusedVariables false

/-! ## Positions of the AST -/

def typePositions : TypeExpr → List Pos
  | .named _ p => [p]
  | .list t p => p :: typePositions t
  | .nonNull t => typePositions t

mutual
def valuePositions : Value → List Pos
  | .var _ p => [p]
  | .int _ p => [p]
  | .float _ p => [p]
  | .str _ p => [p]
  | .bool _ p => [p]
  | .null p => [p]
  | .enum _ p => [p]
  | .list items p => p :: valuesPositions items
  | .obj fields p => p :: objFieldsPositions fields
def valuesPositions : List Value → List Pos
  | [] => []
  | v :: rest => valuePositions v ++ valuesPositions rest
def objFieldsPositions : List ObjField → List Pos
  | [] => []
  | .mk _ p v :: rest => p :: (valuePositions v ++ objFieldsPositions rest)
end

def argPositions (a : Argument) : List Pos := a.pos :: valuePositions a.value

def argsPositions (args : List Argument) : List Pos := args.flatMap argPositions

def dirPositions (d : Directive) : List Pos := d.pos :: argsPositions d.args

def dirsPositions (ds : List Directive) : List Pos := ds.flatMap dirPositions

/-- Position of an optional (name, position) pair (alias, type condition, operation keyword). -/
def optPos {α : Type} : Option (α × Pos) → List Pos
  | none => []
  | some (_, p) => [p]

mutual
def selPositions : Selection → List Pos
  | .field al _ np args dirs none => optPos al ++ np :: (argsPositions args ++ dirsPositions dirs)
  | .field al _ np args dirs (some ss) =>
    optPos al ++ np :: (argsPositions args ++ dirsPositions dirs ++ setPositions ss)
  | .spread _ np dirs p => np :: p :: dirsPositions dirs
  | .inline tc dirs ss p => optPos tc ++ p :: (dirsPositions dirs ++ setPositions ss)
def setPositions : SelSet → List Pos
  | .mk sels p => p :: selsPositions sels
def selsPositions : List Selection → List Pos
  | [] => []
  | s :: rest => selPositions s ++ selsPositions rest
end

def optSetPositions : Option SelSet → List Pos
  | none => []
  | some ss => setPositions ss

def varDefPositions (vd : VarDef) : List Pos :=
  vd.pos :: vd.npos :: (typePositions vd.type ++
    (match vd.dflt with
     | none => []
     | some v => valuePositions v))

def varDefsPositions (vars : List VarDef) : List Pos := vars.flatMap varDefPositions

def defPositions : Definition → List Pos
  | .op kind name vars dirs sel =>
    optPos kind ++ optPos name ++ varDefsPositions vars ++ dirsPositions dirs ++ setPositions sel
  | .frag _ np _ tcp dirs sel p => np :: tcp :: p :: (dirsPositions dirs ++ setPositions sel)

/-- Every position stored anywhere in the document. -/
def docPositions (D : Document) : List Pos := D.flatMap defPositions

/-! ## Basic facts about positions -/

theorem selPositions_field (al : Option (String × Pos)) (n : String) (np : Pos) (args : List Argument)
    (dirs : List Directive) (sel : Option SelSet) :
    selPositions (.field al n np args dirs sel) =
      optPos al ++ np :: (argsPositions args ++ dirsPositions dirs ++ optSetPositions sel) := by
  cases sel <;> simp [selPositions, optSetPositions]

theorem argsPositions_cons (a : Argument) (rest : List Argument) :
    argsPositions (a :: rest) = a.pos :: (valuePositions a.value ++ argsPositions rest) := by
  simp [argsPositions, argPositions]

theorem dirsPositions_cons (d : Directive) (rest : List Directive) :
    dirsPositions (d :: rest) = d.pos :: (argsPositions d.args ++ dirsPositions rest) := by
  simp [dirsPositions, dirPositions]

theorem varDefsPositions_cons (vd : VarDef) (rest : List VarDef) :
    varDefsPositions (vd :: rest) = varDefPositions vd ++ varDefsPositions rest := by
  simp [varDefsPositions]

theorem typePos_mem (t : TypeExpr) : t.pos ∈ typePositions t := by
  induction t with
  | named n p => simp [TypeExpr.pos, typePositions]
  | list t p ih => simp [TypeExpr.pos, typePositions]
  | nonNull t ih => simpa [TypeExpr.pos, typePositions] using ih

theorem valuePos_mem (v : Value) : v.pos ∈ valuePositions v := by
  cases v <;> simp [Value.pos, valuePositions]

theorem setPos_mem (ss : SelSet) : ss.pos ∈ setPositions ss := by
  cases ss; simp [SelSet.pos, setPositions]

theorem selsPositions_sub (ss : SelSet) : selsPositions ss.sels ⊆ setPositions ss := by
  cases ss; simp [SelSet.sels, setPositions]

theorem fieldPos_mem (al : Option (String × Pos)) (np : Pos) : fieldPos al np ∈ optPos al ++ [np] := by
  cases al with
  | none => simp [fieldPos, optPos]
  | some a => obtain ⟨a, p⟩ := a; simp [fieldPos, optPos]

theorem arg_mem_positions {args : List Argument} {a : Argument} (h : a ∈ args) :
    argPositions a ⊆ argsPositions args := by
  intro p hp
  simp only [argsPositions, List.mem_flatMap]
  exact ⟨a, h, hp⟩

theorem dir_mem_positions {dirs : List Directive} {d : Directive} (h : d ∈ dirs) :
    dirPositions d ⊆ dirsPositions dirs := by
  intro p hp
  simp only [dirsPositions, List.mem_flatMap]
  exact ⟨d, h, hp⟩

theorem varDef_mem_positions {vars : List VarDef} {vd : VarDef} (h : vd ∈ vars) :
    varDefPositions vd ⊆ varDefsPositions vars := by
  intro p hp
  simp only [varDefsPositions, List.mem_flatMap]
  exact ⟨vd, h, hp⟩

theorem def_mem_positions {D : Document} {d : Definition} (h : d ∈ D) :
    defPositions d ⊆ docPositions D := by
  intro p hp
  simp only [docPositions, List.mem_flatMap]
  exact ⟨d, h, hp⟩

theorem opPos_mem (kind : Option (OpKind × Pos)) (sel : SelSet) :
    opPos kind sel ∈ optPos kind ++ setPositions sel := by
  cases kind with
  | none => simpa [opPos, optPos] using setPos_mem sel
  | some k => obtain ⟨k, p⟩ := k; simp [opPos, optPos]

/-! ## Error lists whose locations lie in a set of positions -/

def LocsP (P : List Pos) (es : List Err) : Prop := ∀ e ∈ es, ∀ l ∈ e.locs, l ∈ P

def LocsIn (D : Document) (es : List Err) : Prop := ∀ e ∈ es, ∀ l ∈ e.locs, l ∈ docPositions D

theorem LocsIn_iff (D : Document) (es : List Err) : LocsIn D es ↔ LocsP (docPositions D) es := Iff.rfl

@[simp] theorem LocsP_nil (P : List Pos) : LocsP P [] := by simp [LocsP]

@[simp] theorem LocsP_cons (P : List Pos) (e : Err) (es : List Err) :
    LocsP P (e :: es) ↔ e.locs ⊆ P ∧ LocsP P es := by
  simp only [LocsP, List.mem_cons, forall_eq_or_imp]
  rfl

@[simp] theorem LocsP_append (P : List Pos) (a b : List Err) :
    LocsP P (a ++ b) ↔ LocsP P a ∧ LocsP P b := by
  simp only [LocsP, List.mem_append]
  constructor
  · intro h; exact ⟨fun e he => h e (Or.inl he), fun e he => h e (Or.inr he)⟩
  · rintro ⟨h1, h2⟩ e (he | he)
    · exact h1 e he
    · exact h2 e he

theorem LocsP_flatMap {α : Type} (P : List Pos) (xs : List α) (f : α → List Err)
    (h : ∀ x ∈ xs, LocsP P (f x)) : LocsP P (xs.flatMap f) := by
  intro e he
  simp only [List.mem_flatMap] at he
  obtain ⟨x, hx, hex⟩ := he
  exact h x hx e hex

@[simp] theorem newError_locs (p : Pos) (m : String) : (newError p m).locs = [p] := rfl
@[simp] theorem newSecondaryError_locs (p : Pos) (m : String) : (newSecondaryError p m).locs = [p] := rfl
@[simp] theorem newErrorWithNodes_locs (ps : List Pos) (m : String) : (newErrorWithNodes ps m).locs = ps := rfl

theorem LocsP_single (P : List Pos) (e : Err) : LocsP P [e] ↔ e.locs ⊆ P := by simp

theorem LocsP_mono {P Q : List Pos} (h : P ⊆ Q) {es : List Err} (he : LocsP P es) : LocsP Q es :=
  fun e hm l hl => h (he e hm l hl)

theorem LocsIn_append {D : Document} {a b : List Err} (ha : LocsIn D a) (hb : LocsIn D b) : LocsIn D (a ++ b) :=
  (LocsP_append _ a b).2 ⟨ha, hb⟩

theorem LocsIn_flatMap {α : Type} (D : Document) (xs : List α) (f : α → List Err)
    (h : ∀ x ∈ xs, LocsIn D (f x)) : LocsIn D (xs.flatMap f) :=
  LocsP_flatMap _ xs f h

theorem LocsIn_single {D : Document} {e : Err} (h : e.locs ⊆ docPositions D) : LocsIn D [e] :=
  (LocsP_single _ e).2 h

/-! ## validate_directives.go -/

theorem checkDirectivesFrom_locs (S : Schema) (loc : String) (P : List Pos) (seen : List String)
    (dirs : List Directive) (h : dirsPositions dirs ⊆ P) :
    LocsP P (checkDirectivesFrom S loc seen dirs) := by
  induction dirs generalizing seen with
  | nil => simp [checkDirectivesFrom]
  | cons d rest ih =>
    simp only [dirsPositions_cons, List.cons_subset, List.append_subset] at h
    simp only [checkDirectivesFrom, LocsP_append]
    refine ⟨⟨?_, ?_⟩, ih _ h.2.2⟩
    · split
      · simp [h.1]
      · split <;> simp [h.1]
    · split <;> simp [h.1]

theorem checkDirectives_locs (S : Schema) (loc : String) (P : List Pos)
    (dirs : List Directive) (h : dirsPositions dirs ⊆ P) :
    LocsP P (checkDirectives S loc dirs) :=
  checkDirectivesFrom_locs S loc P [] dirs h

mutual
theorem dirsSel_locs (S : Schema) (P : List Pos) : ∀ (sel : Selection),
    selPositions sel ⊆ P → LocsP P (dirsSel S sel)
  | .field al n np args dirs none, h => by
    simp only [selPositions, List.cons_subset, List.append_subset] at h
    simp only [dirsSel, LocsP_append, LocsP_nil, and_true]
    exact checkDirectives_locs S _ P dirs h.2.2.2
  | .field al n np args dirs (some ss), h => by
    simp only [selPositions, List.cons_subset, List.append_subset] at h
    simp only [dirsSel, LocsP_append]
    exact ⟨checkDirectives_locs S _ P dirs h.2.2.1.2, dirsSet_locs S P ss h.2.2.2⟩
  | .spread n np dirs p, h => by
    simp only [selPositions, List.cons_subset, List.append_subset] at h
    simp only [dirsSel]
    exact checkDirectives_locs S _ P dirs h.2.2
  | .inline tc dirs ss p, h => by
    simp only [selPositions, List.cons_subset, List.append_subset] at h
    simp only [dirsSel, LocsP_append]
    exact ⟨checkDirectives_locs S _ P dirs h.2.2.1, dirsSet_locs S P ss h.2.2.2⟩
theorem dirsSet_locs (S : Schema) (P : List Pos) : ∀ (ss : SelSet),
    setPositions ss ⊆ P → LocsP P (dirsSet S ss)
  | .mk sels p, h => by
    simp only [setPositions, List.cons_subset] at h
    simp only [dirsSet]
    exact dirsSels_locs S P sels h.2
theorem dirsSels_locs (S : Schema) (P : List Pos) : ∀ (sels : List Selection),
    selsPositions sels ⊆ P → LocsP P (dirsSels S sels)
  | [], _ => by simp [dirsSels]
  | s :: rest, h => by
    simp only [selsPositions, List.append_subset] at h
    simp only [dirsSels, LocsP_append]
    exact ⟨dirsSel_locs S P s h.1, dirsSels_locs S P rest h.2⟩
end

theorem validateDirectives_locs (S : Schema) (D : Document) : LocsIn D (Model.validateDirectives S D) := by
  unfold Model.validateDirectives
  apply LocsIn_flatMap
  intro d hd
  have hsub := def_mem_positions hd
  cases d with
  | op kind name vars dirs sel =>
    simp only [defPositions, List.append_subset] at hsub
    exact LocsIn_append (checkDirectives_locs S _ _ dirs hsub.1.2) (dirsSet_locs S _ sel hsub.2)
  | frag n np tc tcp dirs sel p =>
    simp only [defPositions, List.cons_subset, List.append_subset] at hsub
    exact LocsIn_append (checkDirectives_locs S _ _ dirs hsub.2.2.2.1) (dirsSet_locs S _ sel hsub.2.2.2.2)

/-- Closes goals `LocsP P (f …)` for leaf functions: split every `if`/`match`, then simplify. -/
macro "locs_cases" : tactic =>
  `(tactic| ((repeat' (first | split | (dsimp only; split))) <;> simp_all))

/-! ## validate_fields.go — first pass -/

theorem missingFieldErrors_locs (S : Schema) (scope : Option String) (name : String) (npos : Pos)
    (P : List Pos) (h : npos ∈ P) : LocsP P (missingFieldErrors S scope name npos) := by
  unfold missingFieldErrors
  simp only
  locs_cases

theorem subselectionErrors_locs (b : Bool) (name : String) (fp : Pos) (sel : Option SelSet)
    (P : List Pos) (h : fp ∈ P) : LocsP P (subselectionErrors b name fp sel) := by
  unfold subselectionErrors
  locs_cases

theorem fieldNodeErrors_locs (S : Schema) (scope : Option String) (al : Option (String × Pos))
    (name : String) (npos : Pos) (sel : Option SelSet) (P : List Pos)
    (h1 : fieldPos al npos ∈ P) (h2 : npos ∈ P) : LocsP P (fieldNodeErrors S scope al name npos sel) := by
  unfold fieldNodeErrors
  simp only [LocsP_append]
  refine ⟨⟨?_, missingFieldErrors_locs S scope name npos P h2⟩, ?_⟩
  · split <;> simp [h1]
  · split
    · exact subselectionErrors_locs _ _ _ _ P h1
    · simp

theorem fieldPos_in {al : Option (String × Pos)} {np : Pos} {P : List Pos}
    (h1 : optPos al ⊆ P) (h2 : np ∈ P) : fieldPos al np ∈ P := by
  have := fieldPos_mem al np
  simp only [List.mem_append, List.mem_singleton] at this
  rcases this with h | h
  · exact h1 h
  · rw [h]; exact h2

mutual
theorem fields1Sel_locs (S : Schema) (P : List Pos) : ∀ (scope : Option String) (sel : Selection),
    selPositions sel ⊆ P → LocsP P (fields1Sel S scope sel)
  | scope, .field al n np args dirs none, h => by
    simp only [selPositions, List.cons_subset, List.append_subset] at h
    simp only [fields1Sel, LocsP_append, LocsP_nil, and_true]
    exact fieldNodeErrors_locs S scope al n np none P (fieldPos_in h.1 h.2.1) h.2.1
  | scope, .field al n np args dirs (some ss), h => by
    simp only [selPositions, List.cons_subset, List.append_subset] at h
    simp only [fields1Sel, LocsP_append]
    exact ⟨fieldNodeErrors_locs S scope al n np _ P (fieldPos_in h.1 h.2.1) h.2.1,
      fields1Set_locs S P _ ss h.2.2.2⟩
  | scope, .spread n np dirs p, h => by simp [fields1Sel]
  | scope, .inline tc dirs ss p, h => by
    simp only [selPositions, List.cons_subset, List.append_subset] at h
    simp only [fields1Sel]
    exact fields1Set_locs S P _ ss h.2.2.2
theorem fields1Set_locs (S : Schema) (P : List Pos) : ∀ (scope : Option String) (ss : SelSet),
    setPositions ss ⊆ P → LocsP P (fields1Set S scope ss)
  | scope, .mk sels p, h => by
    simp only [setPositions, List.cons_subset] at h
    simp only [fields1Set]
    exact fields1Sels_locs S P scope sels h.2
theorem fields1Sels_locs (S : Schema) (P : List Pos) : ∀ (scope : Option String) (sels : List Selection),
    selsPositions sels ⊆ P → LocsP P (fields1Sels S scope sels)
  | scope, [], _ => by simp [fields1Sels]
  | scope, s :: rest, h => by
    simp only [selsPositions, List.append_subset] at h
    simp only [fields1Sels, LocsP_append]
    exact ⟨fields1Sel_locs S P scope s h.1, fields1Sels_locs S P scope rest h.2⟩
end

theorem defSel_sub (d : Definition) : setPositions (Model.defSel d) ⊆ defPositions d := by
  intro p hp
  cases d <;> simp_all [Model.defSel, defPositions]

theorem defDirs_sub (d : Definition) : dirsPositions (Model.defDirs d) ⊆ defPositions d := by
  intro p hp
  cases d <;> simp_all [Model.defDirs, defPositions]

theorem defSel_in {D : Document} {d : Definition} (hd : d ∈ D) :
    setPositions (Model.defSel d) ⊆ docPositions D :=
  fun _ hp => def_mem_positions hd (defSel_sub d hp)

theorem defDirs_in {D : Document} {d : Definition} (hd : d ∈ D) :
    dirsPositions (Model.defDirs d) ⊆ docPositions D :=
  fun _ hp => def_mem_positions hd (defDirs_sub d hp)

theorem validateFields1_locs (S : Schema) (D : Document) : LocsIn D (Model.validateFields1 S D) := by
  unfold Model.validateFields1
  apply LocsIn_flatMap
  intro d hd
  exact fields1Set_locs S _ _ _ (defSel_in hd)

/-! ## validate_arguments.go -/

theorem argumentLoopErrors_locs (defs : List InputDef) (P : List Pos) (byName args : List Argument)
    (h : argsPositions args ⊆ P) : LocsP P (argumentLoopErrors defs byName args) := by
  induction args generalizing byName with
  | nil => simp [argumentLoopErrors]
  | cons a rest ih =>
    simp only [argsPositions_cons, List.cons_subset, List.append_subset] at h
    unfold argumentLoopErrors
    split
    · simp [h.1, ih _ h.2.2]
    · split
      · simp [h.1, ih _ h.2.2]
      · exact ih _ h.2.2

theorem argumentsByName_mem (defs : List InputDef) (byName args : List Argument) :
    ∀ x ∈ argumentsByName defs byName args, x ∈ byName ∨ x ∈ args := by
  induction args generalizing byName with
  | nil => intro x hx; simp only [argumentsByName] at hx; exact Or.inl hx
  | cons a rest ih =>
    intro x hx
    unfold argumentsByName at hx
    split at hx
    · rcases ih _ x hx with h | h
      · exact Or.inl h
      · exact Or.inr (List.mem_cons_of_mem _ h)
    · split at hx
      · rcases ih _ x hx with h | h
        · exact Or.inl h
        · exact Or.inr (List.mem_cons_of_mem _ h)
      · rcases ih _ x hx with h | h
        · simp only [List.mem_append, List.mem_singleton] at h
          rcases h with h | h
          · exact Or.inl h
          · exact Or.inr (by simp [h])
        · exact Or.inr (List.mem_cons_of_mem _ h)

theorem requiredErrors_locs (nodePos : Pos) (byName : List Argument) (defs : List InputDef) (P : List Pos)
    (h1 : nodePos ∈ P) (h2 : ∀ a ∈ byName, a.value.pos ∈ P) : LocsP P (requiredErrors nodePos byName defs) := by
  unfold requiredErrors
  apply LocsP_flatMap
  intro d _
  split
  · split
    · simp [h1]
    · rename_i a ha
      have := h2 a (List.mem_of_find?_eq_some ha)
      split <;> simp [this]
  · simp

theorem argValuePos_in {args : List Argument} {P : List Pos} (h : argsPositions args ⊆ P) :
    ∀ a ∈ args, a.value.pos ∈ P := by
  intro a ha
  apply h
  apply arg_mem_positions ha
  simp [argPositions, valuePos_mem]

theorem argPos_in {args : List Argument} {P : List Pos} (h : argsPositions args ⊆ P) :
    ∀ a ∈ args, a.pos ∈ P := by
  intro a ha
  apply h
  apply arg_mem_positions ha
  simp [argPositions]

theorem checkArguments_locs (nodePos : Pos) (args : List Argument) (defs : List InputDef) (P : List Pos)
    (h1 : nodePos ∈ P) (h2 : argsPositions args ⊆ P) : LocsP P (checkArguments nodePos args defs) := by
  unfold checkArguments
  split
  · simp
  · simp only [LocsP_append]
    refine ⟨argumentLoopErrors_locs defs P [] args h2, requiredErrors_locs _ _ _ P h1 ?_⟩
    intro a ha
    rcases argumentsByName_mem defs [] args a ha with h | h
    · simp at h
    · exact argValuePos_in h2 a h

theorem argsDirectives_locs (S : Schema) (P : List Pos) (dirs : List Directive)
    (h : dirsPositions dirs ⊆ P) : LocsP P (argsDirectives S dirs) := by
  unfold argsDirectives
  apply LocsP_flatMap
  intro d hd
  have hs : dirPositions d ⊆ P := fun _ hp => h (dir_mem_positions hd hp)
  simp only [dirPositions, List.cons_subset] at hs
  unfold argsDirective
  split
  · simp [hs.1]
  · exact checkArguments_locs _ _ _ P hs.1 hs.2

mutual
theorem argsSel_locs (S : Schema) (P : List Pos) : ∀ (scope : Option String) (sel : Selection),
    selPositions sel ⊆ P → LocsP P (argsSel S scope sel)
  | scope, .field al n np args dirs none, h => by
    simp only [selPositions, List.cons_subset, List.append_subset] at h
    have hf := fieldPos_in h.1 h.2.1
    simp only [argsSel]
    split
    · simp only [LocsP_append, LocsP_nil, and_true]
      exact ⟨checkArguments_locs _ _ _ P hf h.2.2.1, argsDirectives_locs S P dirs h.2.2.2⟩
    · split
      · simp [hf]
      · simp only [LocsP_append, LocsP_nil, and_true]
        exact ⟨checkArguments_locs _ _ _ P hf h.2.2.1, argsDirectives_locs S P dirs h.2.2.2⟩
  | scope, .field al n np args dirs (some ss), h => by
    simp only [selPositions, List.cons_subset, List.append_subset] at h
    have hf := fieldPos_in h.1 h.2.1
    simp only [argsSel]
    split
    · simp only [LocsP_append]
      exact ⟨⟨checkArguments_locs _ _ _ P hf h.2.2.1.1, argsDirectives_locs S P dirs h.2.2.1.2⟩,
        argsSet_locs S P _ ss h.2.2.2⟩
    · split
      · simp [hf]
      · simp only [LocsP_append]
        exact ⟨⟨checkArguments_locs _ _ _ P hf h.2.2.1.1, argsDirectives_locs S P dirs h.2.2.1.2⟩,
          argsSet_locs S P _ ss h.2.2.2⟩
  | scope, .spread n np dirs p, h => by
    simp only [selPositions, List.cons_subset, List.append_subset] at h
    simp only [argsSel]
    exact argsDirectives_locs S P dirs h.2.2
  | scope, .inline tc dirs ss p, h => by
    simp only [selPositions, List.cons_subset, List.append_subset] at h
    simp only [argsSel, LocsP_append]
    exact ⟨argsDirectives_locs S P dirs h.2.2.1, argsSet_locs S P _ ss h.2.2.2⟩
theorem argsSet_locs (S : Schema) (P : List Pos) : ∀ (scope : Option String) (ss : SelSet),
    setPositions ss ⊆ P → LocsP P (argsSet S scope ss)
  | scope, .mk sels p, h => by
    simp only [setPositions, List.cons_subset] at h
    simp only [argsSet]
    exact argsSels_locs S P scope sels h.2
theorem argsSels_locs (S : Schema) (P : List Pos) : ∀ (scope : Option String) (sels : List Selection),
    selsPositions sels ⊆ P → LocsP P (argsSels S scope sels)
  | scope, [], _ => by simp [argsSels]
  | scope, s :: rest, h => by
    simp only [selsPositions, List.append_subset] at h
    simp only [argsSels, LocsP_append]
    exact ⟨argsSel_locs S P scope s h.1, argsSels_locs S P scope rest h.2⟩
end

theorem validateArguments_locs (S : Schema) (D : Document) : LocsIn D (Model.validateArguments S D) := by
  unfold Model.validateArguments
  apply LocsIn_flatMap
  intro d hd
  exact LocsIn_append (argsDirectives_locs S _ _ (defDirs_in hd)) (argsSet_locs S _ _ _ (defSel_in hd))

/-! ## fragment lookups return nodes of the document -/

/-- All positions of a fragment definition (as a `FragInfo`) lie in `P`. -/
def FragIn (P : List Pos) (f : FragInfo) : Prop :=
  f.npos ∈ P ∧ f.tcpos ∈ P ∧ f.pos ∈ P ∧ dirsPositions f.dirs ⊆ P ∧ setPositions f.sel ⊆ P

theorem fragDef_in {D : Document} {f : FragInfo}
    (h : Definition.frag f.name f.npos f.tc f.tcpos f.dirs f.sel f.pos ∈ D) : FragIn (docPositions D) f := by
  have hs := def_mem_positions h
  simp only [defPositions, List.cons_subset, List.append_subset] at hs
  exact ⟨hs.1, hs.2.1, hs.2.2.1, hs.2.2.2.1, hs.2.2.2.2⟩

theorem fragsOf_mem {D : Document} {f : FragInfo} (h : f ∈ Model.fragsOf D) :
    Definition.frag f.name f.npos f.tc f.tcpos f.dirs f.sel f.pos ∈ D := by
  unfold Model.fragsOf at h
  simp only [List.mem_filterMap] at h
  obtain ⟨d, hd, hdf⟩ := h
  cases d with
  | op => simp at hdf
  | frag n' np tc tcp dirs sel p =>
    simp only [Option.some.injEq] at hdf
    subst hdf
    exact hd

theorem fragsOf_in {D : Document} {f : FragInfo} (h : f ∈ Model.fragsOf D) : FragIn (docPositions D) f :=
  fragDef_in (fragsOf_mem h)

theorem fragLast_in {D : Document} {n : String} {f : FragInfo} (h : Model.fragLast D n = some f) :
    FragIn (docPositions D) f :=
  fragDef_in (fragLast_def h).1

/-! ## validate_fragments.go — declarations -/

theorem typeConditionErrors_locs (S : Schema) (tc : String) (p : Pos) (P : List Pos) (h : p ∈ P) :
    LocsP P (typeConditionErrors S tc p) := by
  unfold typeConditionErrors
  locs_cases

theorem fragDeclLoop_locs (S : Schema) (P : List Pos) (seen : List String) (fs : List FragInfo)
    (h : ∀ f ∈ fs, FragIn P f) : LocsP P (fragDeclLoop S seen fs) := by
  induction fs generalizing seen with
  | nil => simp [fragDeclLoop]
  | cons f rest ih =>
    have hf := h f (by simp)
    simp only [fragDeclLoop, LocsP_append]
    refine ⟨⟨?_, typeConditionErrors_locs S _ _ P hf.2.1⟩, ih _ (fun g hg => h g (List.mem_cons_of_mem _ hg))⟩
    split <;> simp [hf.1]

theorem firstDefs_mem (seen : List String) (fs : List FragInfo) :
    ∀ f ∈ firstDefs seen fs, f ∈ fs := by
  induction fs generalizing seen with
  | nil => simp [firstDefs]
  | cons g rest ih =>
    intro f hf
    unfold firstDefs at hf
    split at hf
    · exact List.mem_cons_of_mem _ (ih _ f hf)
    · simp only [List.mem_cons] at hf
      rcases hf with hf | hf
      · simp [hf]
      · exact List.mem_cons_of_mem _ (ih _ f hf)

mutual
theorem inlineCondSel_locs (S : Schema) (P : List Pos) : ∀ (sel : Selection),
    selPositions sel ⊆ P → LocsP P (inlineCondSel S sel)
  | .field al n np args dirs none, h => by simp [inlineCondSel]
  | .field al n np args dirs (some ss), h => by
    simp only [selPositions, List.cons_subset, List.append_subset] at h
    simp only [inlineCondSel]
    exact inlineCondSet_locs S P ss h.2.2.2
  | .spread n np dirs p, h => by simp [inlineCondSel]
  | .inline none dirs ss p, h => by
    simp only [selPositions, List.cons_subset, List.append_subset] at h
    simp only [inlineCondSel]
    exact inlineCondSet_locs S P ss h.2.2.2
  | .inline (some (t, tp)) dirs ss p, h => by
    simp only [selPositions, optPos, List.cons_subset, List.append_subset] at h
    simp only [inlineCondSel, LocsP_append]
    exact ⟨typeConditionErrors_locs S t tp P h.1.1, inlineCondSet_locs S P ss h.2.2.2⟩
theorem inlineCondSet_locs (S : Schema) (P : List Pos) : ∀ (ss : SelSet),
    setPositions ss ⊆ P → LocsP P (inlineCondSet S ss)
  | .mk sels p, h => by
    simp only [setPositions, List.cons_subset] at h
    simp only [inlineCondSet]
    exact inlineCondSels_locs S P sels h.2
theorem inlineCondSels_locs (S : Schema) (P : List Pos) : ∀ (sels : List Selection),
    selsPositions sels ⊆ P → LocsP P (inlineCondSels S sels)
  | [], _ => by simp [inlineCondSels]
  | s :: rest, h => by
    simp only [selsPositions, List.append_subset] at h
    simp only [inlineCondSels, LocsP_append]
    exact ⟨inlineCondSel_locs S P s h.1, inlineCondSels_locs S P rest h.2⟩
end

theorem validateFragmentDeclarations_locs (S : Schema) (D : Document) :
    LocsIn D (Model.validateFragmentDeclarations S D) := by
  unfold Model.validateFragmentDeclarations
  refine LocsIn_append (LocsIn_append ?_ ?_) ?_
  · exact fragDeclLoop_locs S _ [] _ (fun f hf => fragsOf_in hf)
  · apply LocsIn_flatMap
    intro d hd
    exact inlineCondSet_locs S _ _ (defSel_in hd)
  · apply LocsIn_flatMap
    intro f hf
    have := fragsOf_in (firstDefs_mem _ _ f hf)
    split
    · exact LocsP_nil _
    · exact LocsIn_single (by simp [this.2.2.1])

/-! ## validate_fragments.go — spreads and cycles -/

theorem validateSpread_locs (S : Schema) (tc : String) (tcpos : Pos) (parent : Option String)
    (P : List Pos) (h : tcpos ∈ P) : LocsP P (validateSpread S tc tcpos parent) := by
  unfold validateSpread
  locs_cases

theorem spreadTargetErrors_locs (S : Schema) (D : Document) (scope : Option String) (n : String) (np : Pos)
    (h : np ∈ docPositions D) : LocsP (docPositions D) (spreadTargetErrors S D scope n np) := by
  unfold spreadTargetErrors
  split
  · simp [h]
  · rename_i f hf
    exact validateSpread_locs S _ _ _ _ (fragLast_in hf).2.1

mutual
theorem spreadsSel_locs (S : Schema) (D : Document) : ∀ (scope : Option String) (sel : Selection),
    selPositions sel ⊆ docPositions D → LocsP (docPositions D) (spreadsSel S D scope sel)
  | scope, .field al n np args dirs none, h => by simp [spreadsSel]
  | scope, .field al n np args dirs (some ss), h => by
    simp only [selPositions, List.cons_subset, List.append_subset] at h
    simp only [spreadsSel]
    exact spreadsSet_locs S D _ ss h.2.2.2
  | scope, .spread n np dirs p, h => by
    simp only [selPositions, List.cons_subset, List.append_subset] at h
    simp only [spreadsSel]
    exact spreadTargetErrors_locs S D scope n np h.1
  | scope, .inline none dirs ss p, h => by
    simp only [selPositions, List.cons_subset, List.append_subset] at h
    simp only [spreadsSel]
    exact spreadsSet_locs S D _ ss h.2.2.2
  | scope, .inline (some (t, tp)) dirs ss p, h => by
    simp only [selPositions, optPos, List.cons_subset, List.append_subset] at h
    simp only [spreadsSel, LocsP_append]
    exact ⟨validateSpread_locs S t tp scope _ h.1.1, spreadsSet_locs S D _ ss h.2.2.2⟩
theorem spreadsSet_locs (S : Schema) (D : Document) : ∀ (scope : Option String) (ss : SelSet),
    setPositions ss ⊆ docPositions D → LocsP (docPositions D) (spreadsSet S D scope ss)
  | scope, .mk sels p, h => by
    simp only [setPositions, List.cons_subset] at h
    simp only [spreadsSet]
    exact spreadsSels_locs S D scope sels h.2
theorem spreadsSels_locs (S : Schema) (D : Document) : ∀ (scope : Option String) (sels : List Selection),
    selsPositions sels ⊆ docPositions D → LocsP (docPositions D) (spreadsSels S D scope sels)
  | scope, [], _ => by simp [spreadsSels]
  | scope, s :: rest, h => by
    simp only [selsPositions, List.append_subset] at h
    simp only [spreadsSels, LocsP_append]
    exact ⟨spreadsSel_locs S D scope s h.1, spreadsSels_locs S D scope rest h.2⟩
end

theorem cycleLoop_locs (D : Document) : ∀ (names : List String), LocsIn D (cycleLoop D names).1
  | [] => by simp [cycleLoop, LocsIn]
  | n :: rest => by
    have ih := cycleLoop_locs D rest
    unfold cycleLoop
    cases hr : cycleLoop D rest with
    | mk r fo =>
      rw [hr] at ih
      simp only at ih ⊢
      split
      · exact ih
      · split
        · rename_i f hf
          exact (LocsP_cons _ _ _).2 ⟨by simp [(fragLast_in hf).2.2.1], ih⟩
        · exact ih
      · exact ih

theorem spreadChecks_locs (S : Schema) (D : Document) : LocsIn D (spreadChecks S D) := by
  unfold spreadChecks
  apply LocsIn_flatMap
  intro d hd
  exact spreadsSet_locs S D _ _ (defSel_in hd)

theorem validateFragmentSpreads_locs (S : Schema) (D : Document) :
    LocsIn D (Model.validateFragmentSpreads S D).1 := by
  unfold Model.validateFragmentSpreads fragmentCycleErrors
  have h := cycleLoop_locs D (Model.dedup ((Model.fragsOf D).map (·.name)))
  cases hr : cycleLoop D (Model.dedup ((Model.fragsOf D).map (·.name))) with
  | mk cyc fo =>
    rw [hr] at h
    exact LocsIn_append h (spreadChecks_locs S D)

/-! ## validate_values.go -/

theorem coerceNamed_locs (S : Schema) (n : String) (v : Value) (P : List Pos) (h : v.pos ∈ P) :
    LocsP P (coerceNamed S n v) := by
  unfold coerceNamed
  cases Model.kindOf S n with
  | none => simp [h]
  | some k =>
    cases k with
    | scalar sp =>
      simp only
      split <;> simp [h]
    | enum vs =>
      simp only
      split
      · split <;> simp [h]
      · simp [h]
    | input => simp [h]
    | object => simp [h]
    | interface => simp [h]
    | union => simp [h]

theorem targetCase_locs (S : Schema) (t : TRef) (allow : Bool) (v : Value) (P : List Pos) (h : v.pos ∈ P) :
    LocsP P (match Model.namedTarget t allow with
      | .error lt => [newError v.pos ("cannot coerce to " ++ lt.toString)]
      | .ok n => coerceNamed S n v) := by
  cases Model.namedTarget t allow with
  | error lt => simp [h]
  | ok n => exact coerceNamed_locs S n v P h

mutual
theorem coercion_locs (S : Schema) (P : List Pos) : ∀ (v : Value) (t : TRef) (allow : Bool),
    valuePositions v ⊆ P → LocsP P (validateCoercion S t allow v)
  | .var n p, t, allow, h => by simp [validateCoercion]
  | .null p, t, allow, h => by
    simp only [valuePositions, List.cons_subset] at h
    unfold validateCoercion
    split <;> simp [h.1]
  | .list items p, t, allow, h => by
    simp only [valuePositions, List.cons_subset] at h
    unfold validateCoercion
    cases t.nullable with
    | list inner => exact coerceItems_locs S P items inner h.2
    | named n => exact coerceNamed_locs S n _ P (by simp [Value.pos, h.1])
    | nonNull x => simp [h.1]
  | .obj fields p, t, allow, h => by
    simp only [valuePositions, List.cons_subset] at h
    unfold validateCoercion
    cases Model.namedTarget t allow with
    | error lt => simp [h.1]
    | ok n =>
      simp only
      cases hk : Model.kindOf S n with
      | none => simp only [hk]; exact coerceNamed_locs S n _ P (by simp [Value.pos, h.1])
      | some k =>
        cases k with
        | input defs =>
          simp only
          have := coerceFields_locs S P fields n defs [] [] h.2 (LocsP_nil _)
          cases hr : coerceFields S n defs fields [] [] with
          | inl nested => rw [hr] at this; exact this
          | inr pr =>
            obtain ⟨errs', seen'⟩ := pr
            rw [hr] at this
            simp only [LocsP_append]
            refine ⟨this, ?_⟩
            apply LocsP_flatMap
            intro d _
            split <;> simp [h.1]
        | scalar sp => exact coerceNamed_locs S n _ P (by simp [Value.pos, h.1])
        | enum vs => exact coerceNamed_locs S n _ P (by simp [Value.pos, h.1])
        | object => exact coerceNamed_locs S n _ P (by simp [Value.pos, h.1])
        | interface => exact coerceNamed_locs S n _ P (by simp [Value.pos, h.1])
        | union => exact coerceNamed_locs S n _ P (by simp [Value.pos, h.1])
  | .enum e p, t, allow, h => by
    simp only [valuePositions, List.cons_subset] at h
    unfold validateCoercion; exact targetCase_locs S t allow _ P (by simp [Value.pos, h.1])
  | .int lit p, t, allow, h => by
    simp only [valuePositions, List.cons_subset] at h
    unfold validateCoercion; exact targetCase_locs S t allow _ P (by simp [Value.pos, h.1])
  | .float lit p, t, allow, h => by
    simp only [valuePositions, List.cons_subset] at h
    unfold validateCoercion; exact targetCase_locs S t allow _ P (by simp [Value.pos, h.1])
  | .str s p, t, allow, h => by
    simp only [valuePositions, List.cons_subset] at h
    unfold validateCoercion; exact targetCase_locs S t allow _ P (by simp [Value.pos, h.1])
  | .bool b p, t, allow, h => by
    simp only [valuePositions, List.cons_subset] at h
    unfold validateCoercion; exact targetCase_locs S t allow _ P (by simp [Value.pos, h.1])
theorem coerceItems_locs (S : Schema) (P : List Pos) : ∀ (items : List Value) (t : TRef),
    valuesPositions items ⊆ P → LocsP P (coerceItems S t items)
  | [], t, _ => by simp [coerceItems]
  | v :: rest, t, h => by
    simp only [valuesPositions, List.append_subset] at h
    unfold coerceItems
    have hv := coercion_locs S P v t false h.1
    cases hc : validateCoercion S t false v with
    | nil => exact coerceItems_locs S P rest t h.2
    | cons e es => rw [hc] at hv; exact hv
theorem coerceFields_locs (S : Schema) (P : List Pos) : ∀ (fields : List ObjField) (tn : String)
    (defs : List InputDef) (errs : List Err) (seen : List String),
    objFieldsPositions fields ⊆ P → LocsP P errs →
    (match coerceFields S tn defs fields errs seen with
     | .inl nested => LocsP P nested
     | .inr (errs', _) => LocsP P errs')
  | [], tn, defs, errs, seen, _, h => by simpa [coerceFields] using h
  | .mk n p v :: rest, tn, defs, errs, seen, hp, h => by
    simp only [objFieldsPositions, List.cons_subset, List.append_subset] at hp
    unfold coerceFields
    have herrs : LocsP P (if seen.contains n then errs ++ [newError p "duplicate field"] else errs) := by
      split
      · simp [h, hp.1]
      · exact h
    cases hfi : findInput defs n with
    | none =>
      exact coerceFields_locs S P rest tn defs _ _ hp.2.2 ((LocsP_append _ _ _).2 ⟨herrs, by simp [hp.1]⟩)
    | some d =>
      simp only
      have hv := coercion_locs S P v d.type true hp.2.1
      cases hc : validateCoercion S d.type true v with
      | nil => exact coerceFields_locs S P rest tn defs _ _ hp.2.2 herrs
      | cons e es => rw [hc] at hv; exact hv
end

theorem valueNode_locs (S : Schema) (c : VCtx) (v : Value) (P : List Pos) (h : valuePositions v ⊆ P) :
    LocsP P (valueNode S c v) := by
  unfold valueNode
  split
  · simp
  · split
    · exact coercion_locs S P v _ true h
    · simp [h (valuePos_mem v)]

theorem valuesArgs_locs (S : Schema) (ctxOf : String → VCtx) (args : List Argument) (P : List Pos)
    (h : argsPositions args ⊆ P) : LocsP P (valuesArgs S ctxOf args) := by
  unfold valuesArgs
  apply LocsP_flatMap
  intro a ha
  apply valueNode_locs
  intro p hp
  exact h (arg_mem_positions ha (by simp [argPositions, hp]))

theorem valuesDirectives_locs (S : Schema) (dirs : List Directive) (P : List Pos)
    (h : dirsPositions dirs ⊆ P) : LocsP P (valuesDirectives S dirs) := by
  unfold valuesDirectives
  apply LocsP_flatMap
  intro d hd
  apply valuesArgs_locs
  intro p hp
  exact h (dir_mem_positions hd (by simp [dirPositions, hp]))

mutual
theorem valuesSel_locs (S : Schema) (P : List Pos) : ∀ (scope : Option String) (sel : Selection),
    selPositions sel ⊆ P → LocsP P (valuesSel S scope sel)
  | scope, .field al n np args dirs none, h => by
    simp only [selPositions, List.cons_subset, List.append_subset] at h
    simp only [valuesSel, LocsP_append, LocsP_nil, and_true]
    exact ⟨valuesArgs_locs S _ args P h.2.2.1, valuesDirectives_locs S dirs P h.2.2.2⟩
  | scope, .field al n np args dirs (some ss), h => by
    simp only [selPositions, List.cons_subset, List.append_subset] at h
    simp only [valuesSel, LocsP_append]
    exact ⟨⟨valuesArgs_locs S _ args P h.2.2.1.1, valuesDirectives_locs S dirs P h.2.2.1.2⟩,
      valuesSet_locs S P _ ss h.2.2.2⟩
  | scope, .spread n np dirs p, h => by
    simp only [selPositions, List.cons_subset, List.append_subset] at h
    simp only [valuesSel]
    exact valuesDirectives_locs S dirs P h.2.2
  | scope, .inline tc dirs ss p, h => by
    simp only [selPositions, List.cons_subset, List.append_subset] at h
    simp only [valuesSel, LocsP_append]
    exact ⟨valuesDirectives_locs S dirs P h.2.2.1, valuesSet_locs S P _ ss h.2.2.2⟩
theorem valuesSet_locs (S : Schema) (P : List Pos) : ∀ (scope : Option String) (ss : SelSet),
    setPositions ss ⊆ P → LocsP P (valuesSet S scope ss)
  | scope, .mk sels p, h => by
    simp only [setPositions, List.cons_subset] at h
    simp only [valuesSet]
    exact valuesSels_locs S P scope sels h.2
theorem valuesSels_locs (S : Schema) (P : List Pos) : ∀ (scope : Option String) (sels : List Selection),
    selsPositions sels ⊆ P → LocsP P (valuesSels S scope sels)
  | scope, [], _ => by simp [valuesSels]
  | scope, s :: rest, h => by
    simp only [selsPositions, List.append_subset] at h
    simp only [valuesSels, LocsP_append]
    exact ⟨valuesSel_locs S P scope s h.1, valuesSels_locs S P scope rest h.2⟩
end

theorem defaultValueErrors_locs (S : Schema) (vars : List VarDef) (P : List Pos)
    (h : varDefsPositions vars ⊆ P) : LocsP P (defaultValueErrors S vars) := by
  unfold defaultValueErrors
  apply LocsP_flatMap
  intro vd hvd
  have hs : varDefPositions vd ⊆ P := fun _ hp => h (varDef_mem_positions hvd hp)
  split
  · simp
  · rename_i v hv
    apply valueNode_locs
    intro p hp
    apply hs
    simp [varDefPositions, hv, hp]

theorem varDefsOf_sub (d : Definition) : varDefsPositions (Model.varDefsOf d) ⊆ defPositions d := by
  intro p hp
  cases d <;> simp_all [Model.varDefsOf, defPositions, varDefsPositions]

theorem varDefsOf_in {D : Document} {d : Definition} (hd : d ∈ D) :
    varDefsPositions (Model.varDefsOf d) ⊆ docPositions D :=
  fun _ hp => def_mem_positions hd (varDefsOf_sub d hp)

theorem validateValues_locs (S : Schema) (D : Document) : LocsIn D (Model.validateValues S D) := by
  unfold Model.validateValues
  apply LocsIn_flatMap
  intro d hd
  exact LocsIn_append (LocsIn_append (defaultValueErrors_locs S _ _ (varDefsOf_in hd))
    (valuesDirectives_locs S _ _ (defDirs_in hd))) (valuesSet_locs S _ _ _ (defSel_in hd))

/-! ## validate_operations.go — names, operation types, lone anonymous operation -/

theorem operationLoopErrors_locs (S : Schema) (P : List Pos) (seen : List String) (ds : List Definition)
    (h : ∀ d ∈ ds, defPositions d ⊆ P) : LocsP P (operationLoopErrors S seen ds) := by
  induction ds generalizing seen with
  | nil => simp [operationLoopErrors]
  | cons d rest ih =>
    have hrest : ∀ d ∈ rest, defPositions d ⊆ P := fun d hd => h d (List.mem_cons_of_mem _ hd)
    have hd := h d (by simp)
    cases d with
    | frag => simp only [operationLoopErrors]; exact ih _ hrest
    | op kind name vars dirs sel =>
      simp only [defPositions, List.append_subset] at hd
      simp only [operationLoopErrors, LocsP_append]
      refine ⟨⟨?_, ?_⟩, ih _ hrest⟩
      · cases name with
        | none => simp
        | some np =>
          obtain ⟨n, p⟩ := np
          simp only [optPos, List.cons_subset] at hd
          simp only
          split <;> simp [hd.1.1.1.2.1]
      · have hp : opPos kind sel ∈ P := by
          have := opPos_mem kind sel
          simp only [List.mem_append] at this
          rcases this with h1 | h1
          · exact hd.1.1.1.1 h1
          · exact hd.2 h1
        split <;> simp [hp]

theorem opDef_pos_in {D : Document} {kind : Option (OpKind × Pos)} {name : Option (String × Pos)}
    {vars : List VarDef} {dirs : List Directive} {sel : SelSet}
    (h : Definition.op kind name vars dirs sel ∈ D) : opPos kind sel ∈ docPositions D := by
  have hd := def_mem_positions h
  simp only [defPositions, List.append_subset] at hd
  have := opPos_mem kind sel
  simp only [List.mem_append] at this
  rcases this with h1 | h1
  · exact hd.1.1.1.1 h1
  · exact hd.2 h1

theorem loneAnonymousErrors_locs (D : Document) : LocsIn D (loneAnonymousErrors D) := by
  unfold loneAnonymousErrors
  split
  · split
    · rename_i kind n vs ds sel rest heq
      have hm : Definition.op kind n vs ds sel ∈ (Model.opDefs D).drop 1 := by rw [heq]; simp
      have hm2 := List.mem_of_mem_drop hm
      unfold Model.opDefs at hm2
      have hm3 := (List.mem_filter.1 hm2).1
      exact LocsIn_single (by simp [opDef_pos_in hm3])
    · exact LocsP_nil _
  · exact LocsP_nil _

/-! ## validate_variables.go -/

@[simp] theorem varAcc_errs_append (a b : VarAcc) : (a ++ b).errs = a.errs ++ b.errs := rfl
@[simp] theorem varAcc_errs_empty : ({} : VarAcc).errs = [] := rfl

theorem validateVariableUsage_locs (S : Schema) (vd : VarDef) (usagePos : Pos) (c : VCtx) (P : List Pos)
    (h1 : vd.pos ∈ P) (h2 : usagePos ∈ P) : LocsP P (validateVariableUsage S vd usagePos c) := by
  unfold validateVariableUsage
  locs_cases

mutual
theorem varsValue_locs (S : Schema) (vars : List VarDef) (P : List Pos) (hv : ∀ vd ∈ vars, vd.pos ∈ P) :
    ∀ (v : Value) (c : VCtx), valuePositions v ⊆ P → LocsP P (varsValue S vars c v).errs
  | .var n p, c, h => by
    simp only [valuePositions, List.cons_subset] at h
    unfold varsValue
    split
    · simp [h.1]
    · rename_i vd hf
      exact validateVariableUsage_locs S vd p c P (hv vd (List.mem_of_find?_eq_some hf)) h.1
  | .list items p, c, h => by
    simp only [valuePositions, List.cons_subset] at h
    unfold varsValue
    exact varsItems_locs S vars P hv items _ _ h.2
  | .obj fields p, c, h => by
    simp only [valuePositions, List.cons_subset] at h
    unfold varsValue
    exact varsFields_locs S vars P hv fields _ _ h.2
  | .int _ _, c, h => by simp [varsValue]
  | .float _ _, c, h => by simp [varsValue]
  | .str _ _, c, h => by simp [varsValue]
  | .bool _ _, c, h => by simp [varsValue]
  | .null _, c, h => by simp [varsValue]
  | .enum _ _, c, h => by simp [varsValue]
theorem varsItems_locs (S : Schema) (vars : List VarDef) (P : List Pos) (hv : ∀ vd ∈ vars, vd.pos ∈ P) :
    ∀ (items : List Value) (t : Option TRef) (sc : Bool), valuesPositions items ⊆ P →
      LocsP P (varsItems S vars t sc items).errs
  | [], t, sc, _ => by simp [varsItems]
  | v :: rest, t, sc, h => by
    simp only [valuesPositions, List.append_subset] at h
    simp only [varsItems, varAcc_errs_append, LocsP_append]
    exact ⟨varsValue_locs S vars P hv v _ h.1, varsItems_locs S vars P hv rest t sc h.2⟩
theorem varsFields_locs (S : Schema) (vars : List VarDef) (P : List Pos) (hv : ∀ vd ∈ vars, vd.pos ∈ P) :
    ∀ (fields : List ObjField) (defs : Option (List InputDef)) (sc : Bool), objFieldsPositions fields ⊆ P →
      LocsP P (varsFields S vars defs sc fields).errs
  | [], defs, sc, _ => by simp [varsFields]
  | .mk n p v :: rest, defs, sc, h => by
    simp only [objFieldsPositions, List.cons_subset, List.append_subset] at h
    simp only [varsFields, varAcc_errs_append, LocsP_append]
    exact ⟨varsValue_locs S vars P hv v _ h.2.1, varsFields_locs S vars P hv rest defs sc h.2.2⟩
end

theorem varsArgs_locs (S : Schema) (vars : List VarDef) (P : List Pos) (hv : ∀ vd ∈ vars, vd.pos ∈ P)
    (ctxOf : String → VCtx) (args : List Argument) (h : argsPositions args ⊆ P) :
    LocsP P (varsArgs S vars ctxOf args).errs := by
  induction args with
  | nil => simp [varsArgs]
  | cons a rest ih =>
    simp only [argsPositions_cons, List.cons_subset, List.append_subset] at h
    simp only [varsArgs, varAcc_errs_append, LocsP_append]
    exact ⟨varsValue_locs S vars P hv a.value _ h.2.1, ih h.2.2⟩

theorem varsDirectives_locs (S : Schema) (vars : List VarDef) (P : List Pos) (hv : ∀ vd ∈ vars, vd.pos ∈ P)
    (dirs : List Directive) (h : dirsPositions dirs ⊆ P) :
    LocsP P (varsDirectives S vars dirs).errs := by
  induction dirs with
  | nil => simp [varsDirectives]
  | cons d rest ih =>
    simp only [dirsPositions_cons, List.cons_subset, List.append_subset] at h
    simp only [varsDirectives, varAcc_errs_append, LocsP_append]
    exact ⟨varsArgs_locs S vars P hv _ d.args h.2.1, ih h.2.2⟩

mutual
theorem varsSel_locs (S : Schema) (vars : List VarDef) (P : List Pos) (hv : ∀ vd ∈ vars, vd.pos ∈ P) :
    ∀ (scope : Option String) (sel : Selection), selPositions sel ⊆ P → LocsP P (varsSel S vars scope sel).errs
  | scope, .field al n np args dirs none, h => by
    simp only [selPositions, List.cons_subset, List.append_subset] at h
    simp only [varsSel, varAcc_errs_append, varAcc_errs_empty, LocsP_append, LocsP_nil, and_true]
    exact ⟨varsArgs_locs S vars P hv _ args h.2.2.1, varsDirectives_locs S vars P hv dirs h.2.2.2⟩
  | scope, .field al n np args dirs (some ss), h => by
    simp only [selPositions, List.cons_subset, List.append_subset] at h
    simp only [varsSel, varAcc_errs_append, LocsP_append]
    exact ⟨⟨varsArgs_locs S vars P hv _ args h.2.2.1.1, varsDirectives_locs S vars P hv dirs h.2.2.1.2⟩,
      varsSet_locs S vars P hv _ ss h.2.2.2⟩
  | scope, .spread n np dirs p, h => by
    simp only [selPositions, List.cons_subset, List.append_subset] at h
    simp only [varsSel, varAcc_errs_append, LocsP_append]
    exact ⟨LocsP_nil _, varsDirectives_locs S vars P hv dirs h.2.2⟩
  | scope, .inline tc dirs ss p, h => by
    simp only [selPositions, List.cons_subset, List.append_subset] at h
    simp only [varsSel, varAcc_errs_append, LocsP_append]
    exact ⟨varsDirectives_locs S vars P hv dirs h.2.2.1, varsSet_locs S vars P hv _ ss h.2.2.2⟩
theorem varsSet_locs (S : Schema) (vars : List VarDef) (P : List Pos) (hv : ∀ vd ∈ vars, vd.pos ∈ P) :
    ∀ (scope : Option String) (ss : SelSet), setPositions ss ⊆ P → LocsP P (varsSet S vars scope ss).errs
  | scope, .mk sels p, h => by
    simp only [setPositions, List.cons_subset] at h
    simp only [varsSet]
    exact varsSels_locs S vars P hv scope sels h.2
theorem varsSels_locs (S : Schema) (vars : List VarDef) (P : List Pos) (hv : ∀ vd ∈ vars, vd.pos ∈ P) :
    ∀ (scope : Option String) (sels : List Selection), selsPositions sels ⊆ P →
      LocsP P (varsSels S vars scope sels).errs
  | scope, [], _ => by simp [varsSels]
  | scope, s :: rest, h => by
    simp only [selsPositions, List.append_subset] at h
    simp only [varsSels, varAcc_errs_append, LocsP_append]
    exact ⟨varsSel_locs S vars P hv scope s h.1, varsSels_locs S vars P hv scope rest h.2⟩
end

theorem varsFragments_locs (S : Schema) (D : Document) (vars : List VarDef)
    (hv : ∀ vd ∈ vars, vd.pos ∈ docPositions D) :
    ∀ (fuel : Nat) (todo validated : List String) (acc r : VarAcc), LocsP (docPositions D) acc.errs →
      varsFragments S D vars fuel todo validated acc = some r → LocsP (docPositions D) r.errs
  | 0, _, _, _, _, _, h => by simp [varsFragments] at h
  | fuel + 1, [], validated, acc, r, hacc, h => by
    simp only [varsFragments, Option.some.injEq] at h
    subst h; exact hacc
  | fuel + 1, n :: todo, validated, acc, r, hacc, h => by
    unfold varsFragments at h
    split at h
    · exact varsFragments_locs S D vars hv fuel _ _ _ r hacc h
    · split at h
      · exact varsFragments_locs S D vars hv fuel _ _ _ r hacc h
      · rename_i f hf
        have hfi := fragLast_in hf
        refine varsFragments_locs S D vars hv fuel _ _ _ r ?_ h
        simp only [varAcc_errs_append, LocsP_append]
        exact ⟨hacc, varsDirectives_locs S vars _ hv f.dirs hfi.2.2.2.1,
          varsSet_locs S vars _ hv _ f.sel hfi.2.2.2.2⟩

theorem variableTypeErrors_locs (S : Schema) (vd : VarDef) (P : List Pos) (h : vd.type.pos ∈ P) :
    LocsP P (variableTypeErrors S vd) := by
  unfold variableTypeErrors
  locs_cases

theorem varDef_pos_in {vars : List VarDef} {P : List Pos} (h : varDefsPositions vars ⊆ P) :
    ∀ vd ∈ vars, vd.pos ∈ P ∧ vd.npos ∈ P ∧ vd.type.pos ∈ P := by
  intro vd hvd
  have hs : varDefPositions vd ⊆ P := fun _ hp => h (varDef_mem_positions hvd hp)
  simp only [varDefPositions, List.cons_subset, List.append_subset] at hs
  exact ⟨hs.1, hs.2.1, hs.2.2.1 (typePos_mem _)⟩

theorem variableDefErrors_locs (S : Schema) (P : List Pos) (seen : List String) (vars : List VarDef)
    (h : ∀ vd ∈ vars, vd.pos ∈ P ∧ vd.npos ∈ P ∧ vd.type.pos ∈ P) : LocsP P (variableDefErrors S seen vars) := by
  induction vars generalizing seen with
  | nil => simp [variableDefErrors]
  | cons vd rest ih =>
    have hvd := h vd (by simp)
    simp only [variableDefErrors, LocsP_append]
    refine ⟨⟨?_, variableTypeErrors_locs S vd P hvd.2.2⟩, ih _ (fun x hx => h x (List.mem_cons_of_mem _ hx))⟩
    split <;> simp [hvd.2.1]

theorem unusedVariableErrors_locs (enc : List String) (vars : List VarDef) (P : List Pos)
    (h : ∀ vd ∈ vars, vd.pos ∈ P) : LocsP P (unusedVariableErrors enc vars) := by
  unfold unusedVariableErrors
  apply LocsP_flatMap
  intro vd hvd
  split <;> simp [h vd hvd]

theorem validateVariablesOp_locs (S : Schema) (D : Document) (fuel : Nat) (kind : Option (OpKind × Pos))
    (vars : List VarDef) (dirs : List Directive) (sel : SelSet)
    (h1 : varDefsPositions vars ⊆ docPositions D) (h2 : dirsPositions dirs ⊆ docPositions D)
    (h3 : setPositions sel ⊆ docPositions D) :
    LocsIn D (validateVariablesOp S D fuel kind vars dirs sel).1 := by
  have hvd := varDef_pos_in h1
  have hv : ∀ vd ∈ vars, vd.pos ∈ docPositions D := fun vd h => (hvd vd h).1
  unfold validateVariablesOp
  simp only
  split
  · exact variableDefErrors_locs S _ [] vars hvd
  · rename_i acc hacc
    have := varsFragments_locs S D vars hv _ _ _ _ acc (by
      simp only [varAcc_errs_append, LocsP_append]
      exact ⟨varsDirectives_locs S vars _ hv dirs h2, varsSet_locs S vars _ hv _ sel h3⟩) hacc
    exact LocsIn_append (LocsIn_append (variableDefErrors_locs S _ [] vars hvd) this)
      (unusedVariableErrors_locs _ vars _ hv)

theorem validateVariablesDefs_locs (S : Schema) (D : Document) (fuel : Nat) :
    ∀ (ds : List Definition), (∀ d ∈ ds, d ∈ D) → LocsIn D (validateVariablesDefs S D fuel ds).1
  | [], _ => by simp [validateVariablesDefs, LocsIn]
  | .op kind name vars dirs sel :: rest, h => by
    have ih := validateVariablesDefs_locs S D fuel rest (fun d hd => h d (List.mem_cons_of_mem _ hd))
    have hd := def_mem_positions (h (.op kind name vars dirs sel) (by simp))
    simp only [defPositions, List.append_subset] at hd
    have hop := validateVariablesOp_locs S D fuel kind vars dirs sel hd.1.1.2 hd.1.2 hd.2
    unfold validateVariablesDefs
    cases h1 : validateVariablesOp S D fuel kind vars dirs sel with
    | mk e fo =>
      cases h2 : validateVariablesDefs S D fuel rest with
      | mk r fo' =>
        rw [h1] at hop
        rw [h2] at ih
        exact LocsIn_append hop ih
  | .frag n np tc tcp dirs sel p :: rest, h => by
    have ih := validateVariablesDefs_locs S D fuel rest (fun d hd => h d (List.mem_cons_of_mem _ hd))
    simp only [validateVariablesDefs]
    exact ih

theorem validateVariables_locs (S : Schema) (D : Document) (fuel : Nat) :
    LocsIn D (Model.validateVariables S D fuel).1 :=
  validateVariablesDefs_locs S D fuel D (fun _ h => h)

/-! ## addFieldSelections: every collected field reference comes from a node of the document -/

/-- The positions an error of the overlapping-fields pass can take from a field reference. -/
def FOk (P : List Pos) (f : FRef) : Prop :=
  f.pos ∈ P ∧ f.npos ∈ P ∧ f.setPos ∈ P ∧ argsPositions f.args ⊆ P ∧ optSetPositions f.sel ⊆ P

def ResOk {α : Type} (P : List Pos) (Q : α → Prop) : Res α → Prop
  | .ok a => Q a
  | .err e => e.locs ⊆ P
  | .fuelOut => True

theorem addSel_ok (S : Schema) (D : Document) :
    ∀ (fuel : Nat) (scope : Option String) (sp : Pos) (sels : List Selection) (acc : List FRef) (vis : List Pos),
      sp ∈ docPositions D → selsPositions sels ⊆ docPositions D → (∀ f ∈ acc, FOk (docPositions D) f) →
      ResOk (docPositions D) (fun r => ∀ f ∈ r.1, FOk (docPositions D) f) (addSel S D fuel scope sp sels acc vis)
  | 0, _, _, _, _, _, _, _, _ => by simp [addSel, ResOk]
  | fuel + 1, scope, sp, [], acc, vis, _, _, hacc => by simpa [addSel, ResOk] using hacc
  | fuel + 1, scope, sp, .field al n np args dirs sel :: rest, acc, vis, hsp, hs, hacc => by
    simp only [selsPositions, selPositions_field, List.cons_subset, List.append_subset] at hs
    simp only [addSel]
    apply addSel_ok S D fuel scope sp rest _ vis hsp hs.2
    intro f hf
    simp only [List.mem_append, List.mem_singleton] at hf
    rcases hf with hf | hf
    · exact hacc f hf
    · subst hf
      exact ⟨fieldPos_in hs.1.1 hs.1.2.1, hs.1.2.1, hsp, hs.1.2.2.1.1, hs.1.2.2.2⟩
  | fuel + 1, scope, sp, .inline tc dirs ss p :: rest, acc, vis, hsp, hs, hacc => by
    simp only [selsPositions, selPositions, List.cons_subset, List.append_subset] at hs
    simp only [addSel]
    split
    · exact addSel_ok S D fuel scope sp rest acc vis hsp hs.2 hacc
    · have h1 := addSel_ok S D fuel (Model.inlineScope S scope tc) ss.pos ss.sels acc (ss.pos :: vis)
        (hs.1.2.2.2 (setPos_mem ss)) (fun _ hp => hs.1.2.2.2 (selsPositions_sub ss hp)) hacc
      cases hr : addSel S D fuel (Model.inlineScope S scope tc) ss.pos ss.sels acc (ss.pos :: vis) with
      | ok r =>
        obtain ⟨acc', vis'⟩ := r
        rw [hr] at h1
        exact addSel_ok S D fuel scope sp rest acc' vis' hsp hs.2 h1
      | err e => rw [hr] at h1; exact h1
      | fuelOut => trivial
  | fuel + 1, scope, sp, .spread n np dirs p :: rest, acc, vis, hsp, hs, hacc => by
    simp only [selsPositions, selPositions, List.cons_subset, List.append_subset] at hs
    simp only [addSel]
    split
    · simp [ResOk, hs.1.1]
    · rename_i f hf
      have hfi := fragLast_in hf
      split
      · exact addSel_ok S D fuel scope sp rest acc vis hsp hs.2 hacc
      · have h1 := addSel_ok S D fuel (Model.namedType S f.tc) f.sel.pos f.sel.sels acc (f.sel.pos :: vis)
          (hfi.2.2.2.2 (setPos_mem f.sel)) (fun _ hp => hfi.2.2.2.2 (selsPositions_sub f.sel hp)) hacc
        cases hr : addSel S D fuel (Model.namedType S f.tc) f.sel.pos f.sel.sels acc (f.sel.pos :: vis) with
        | ok r =>
          obtain ⟨acc', vis'⟩ := r
          rw [hr] at h1
          exact addSel_ok S D fuel scope sp rest acc' vis' hsp hs.2 h1
        | err e => rw [hr] at h1; exact h1
        | fuelOut => trivial

theorem addFieldSelections_ok (S : Schema) (D : Document) (fuel : Nat) (scope : Option String)
    (ss : Option SelSet) (acc : List FRef) (hss : optSetPositions ss ⊆ docPositions D)
    (hacc : ∀ f ∈ acc, FOk (docPositions D) f) :
    ResOk (docPositions D) (fun r => ∀ f ∈ r, FOk (docPositions D) f)
      (addFieldSelections S D fuel scope ss acc) := by
  unfold addFieldSelections
  cases ss with
  | none => exact hacc
  | some ss =>
    simp only [optSetPositions] at hss
    have h1 := addSel_ok S D fuel scope ss.pos ss.sels acc [ss.pos] (hss (setPos_mem ss))
      (fun _ hp => hss (selsPositions_sub ss hp)) hacc
    simp only
    cases hr : addSel S D fuel scope ss.pos ss.sels acc [ss.pos] with
    | ok r => obtain ⟨acc', vis'⟩ := r; rw [hr] at h1; exact h1
    | err e => rw [hr] at h1; exact h1
    | fuelOut => trivial

theorem addFieldSelections_ok_of_eq {S : Schema} {D : Document} {fuel : Nat} {scope : Option String}
    {ss : Option SelSet} {acc fs : List FRef} (hss : optSetPositions ss ⊆ docPositions D)
    (hacc : ∀ f ∈ acc, FOk (docPositions D) f) (h : addFieldSelections S D fuel scope ss acc = .ok fs) :
    ∀ f ∈ fs, FOk (docPositions D) f := by
  have := addFieldSelections_ok S D fuel scope ss acc hss hacc
  rw [h] at this
  exact this

theorem addFieldSelections_err_of_eq {S : Schema} {D : Document} {fuel : Nat} {scope : Option String}
    {ss : Option SelSet} {acc : List FRef} {e : Err} (hss : optSetPositions ss ⊆ docPositions D)
    (hacc : ∀ f ∈ acc, FOk (docPositions D) f) (h : addFieldSelections S D fuel scope ss acc = .err e) :
    e.locs ⊆ docPositions D := by
  have := addFieldSelections_ok S D fuel scope ss acc hss hacc
  rw [h] at this
  exact this

/-! ## validate_operations.go — subscriptions -/

theorem subscriptionErrors_locs (S : Schema) (D : Document) (fuel : Nat) :
    ∀ (ds : List Definition), (∀ d ∈ ds, d ∈ D) → LocsIn D (subscriptionErrors S D fuel ds).1 := by
  intro ds
  induction ds with
  | nil => intro _; simp [subscriptionErrors, LocsIn]
  | cons d rest ih =>
    intro h
    have ih := ih (fun d hd => h d (List.mem_cons_of_mem _ hd))
    have hd := h d (by simp)
    unfold subscriptionErrors
    split
    · rename_i heq; simp at heq
    · rename_i kp name vars dirs sel rest' heq
      simp only [List.cons.injEq] at heq
      obtain ⟨hd1, hd2⟩ := heq
      subst hd1 hd2
      have hsel : optSetPositions (some sel) ⊆ docPositions D := by
        simp only [optSetPositions]
        exact defSel_in (d := .op (some (.subscription, kp)) name vars dirs sel) hd
      have hsub := addFieldSelections_ok S D fuel (Model.opScope S (some (.subscription, kp))) (some sel) []
        hsel (by simp)
      cases hr : subscriptionErrors S D fuel rest with
      | mk r fo =>
        rw [hr] at ih
        simp only at ih ⊢
        split
        · rename_i e he
          rw [he] at hsub
          exact (LocsP_cons _ _ _).2 ⟨hsub, ih⟩
        · exact ih
        · split
          · exact (LocsP_cons _ _ _).2 ⟨by simp [opDef_pos_in hd], ih⟩
          · exact ih
    · rename_i d' rest' hne heq
      simp only [List.cons.injEq] at heq
      obtain ⟨hd1, hd2⟩ := heq
      subst hd1 hd2
      exact ih

theorem validateOperationsGo_locs (S : Schema) (D : Document) (fuel : Nat) :
    LocsIn D (Model.validateOperationsGo S D fuel).1 := by
  unfold Model.validateOperationsGo
  have h := subscriptionErrors_locs S D fuel D (fun _ h => h)
  cases hr : subscriptionErrors S D fuel D with
  | mk sub fo =>
    rw [hr] at h
    exact LocsIn_append (LocsIn_append
      (operationLoopErrors_locs S _ [] D (fun d hd => def_mem_positions hd)) h) (loneAnonymousErrors_locs D)

/-! ## validate_fields.go — second pass: overlapping fields -/

def AltsOk (P : List Pos) : Alts → Prop
  | .errs alts => LocsP P alts
  | _ => True

theorem anyOrder_ok {α : Type} (P : List Pos) (xs : List α) (m : Memo) (f : α → Memo → Alts × Memo)
    (h : ∀ x ∈ xs, ∀ m, AltsOk P (f x m).1) : AltsOk P (anyOrder xs m f).1 := by
  unfold anyOrder
  suffices hgen : ∀ (st : Alts × Memo), AltsOk P st.1 →
      AltsOk P (xs.foldl (fun (st : Alts × Memo) x =>
        match st.1 with
        | .fuelOut => st
        | acc =>
          match f x st.2 with
          | (.fuelOut, _) => (.fuelOut, st.2)
          | (.ok, m') => (acc, m')
          | (.errs b, _) =>
            (match acc with
             | .errs a => (.errs (a ++ b), st.2)
             | _ => (.errs b, st.2))) st).1 from hgen (.ok, m) trivial
  induction xs with
  | nil => intro st hst; simpa using hst
  | cons x rest ih =>
    intro st hst
    simp only [List.foldl_cons]
    apply ih (fun y hy => h y (List.mem_cons_of_mem _ hy))
    have hf := h x (by simp) st.2
    split
    · exact hst
    · split
      · trivial
      · exact hst
      · rename_i b m' heq
        rw [heq] at hf
        split
        · rename_i a ha
          rw [ha] at hst
          exact (LocsP_append _ _ _).2 ⟨hst, hf⟩
        · exact hf

theorem firstErr_ok {α : Type} (P : List Pos) (xs : List α) (f : α → Memo → Alts × Memo)
    (h : ∀ x ∈ xs, ∀ m, AltsOk P (f x m).1) : ∀ m, AltsOk P (firstErr xs m f).1 := by
  induction xs with
  | nil => intro m; simp [firstErr, AltsOk]
  | cons x rest ih =>
    intro m
    unfold firstErr
    split
    · exact ih (fun y hy => h y (List.mem_cons_of_mem _ hy)) _
    · exact h x (by simp) m

theorem mem_pairs {α : Type} (xs : List α) : ∀ p ∈ pairs xs, p.1 ∈ xs ∧ p.2 ∈ xs := by
  induction xs with
  | nil => simp [pairs]
  | cons x rest ih =>
    intro p hp
    simp only [pairs, List.mem_append, List.mem_map] at hp
    rcases hp with ⟨y, hy, rfl⟩ | hp
    · simp [hy]
    · have := ih p hp
      exact ⟨List.mem_cons_of_mem _ this.1, List.mem_cons_of_mem _ this.2⟩

theorem mem_pairs_group {fs : List FRef} {n : String} {P : List Pos} (hfs : ∀ f ∈ fs, FOk P f) :
    ∀ p ∈ pairs (group fs n), FOk P p.1 ∧ FOk P p.2 := by
  intro p hp
  have := mem_pairs _ p hp
  unfold group at this
  exact ⟨hfs _ (List.mem_filter.1 this.1).1, hfs _ (List.mem_filter.1 this.2).1⟩

theorem shapeType_err {f : FRef} {e : Err} (h : shapeType f = .error e) : e.locs = [f.pos] := by
  unfold shapeType at h
  split at h
  · simp at h
  · split at h
    · simp only [Except.error.injEq] at h
      subst h; rfl
    · simp at h

theorem sameResponseShape_ok (S : Schema) (D : Document) (cfuel : Nat) :
    ∀ (fuel : Nat) (m : Memo) (a b : FRef), FOk (docPositions D) a → FOk (docPositions D) b →
      AltsOk (docPositions D) (sameResponseShape S D cfuel fuel m a b).1
  | 0, m, a, b, _, _ => by simp [Model.sameResponseShape, AltsOk]
  | fuel + 1, m, a, b, ha, hb => by
    simp only [Model.sameResponseShape]
    split
    · trivial
    · split
      · rename_i e he
        simp [AltsOk, shapeType_err he, ha.1]
      · split
        · rename_i e he
          simp [AltsOk, shapeType_err he, hb.1]
        · split
          · simp [AltsOk, ha.1, hb.1]
          · split
            · split
              · trivial
              · simp [AltsOk, ha.1, hb.1]
            · split
              · rename_i e he
                simpa [AltsOk] using addFieldSelections_err_of_eq ha.2.2.2.2 (by simp) he
              · trivial
              · rename_i fs1 h1
                have hfs1 := addFieldSelections_ok_of_eq ha.2.2.2.2 (by simp) h1
                split
                · rename_i e he
                  simpa [AltsOk] using addFieldSelections_err_of_eq hb.2.2.2.2 hfs1 he
                · trivial
                · rename_i fs h2
                  have hfs := addFieldSelections_ok_of_eq hb.2.2.2.2 hfs1 h2
                  apply anyOrder_ok
                  intro n _ m'
                  apply firstErr_ok
                  intro p hp m''
                  have hp' := mem_pairs_group hfs p hp
                  exact sameResponseShape_ok S D cfuel fuel m'' p.1 p.2 hp'.1 hp'.2

theorem argumentsDiffer_locs {P : List Pos} {a b : FRef} {e : Err} (ha : FOk P a) (hb : FOk P b)
    (h : argumentsDiffer a b = some e) : e.locs ⊆ P := by
  unfold argumentsDiffer at h
  split at h
  · simp only [Option.some.injEq] at h
    subst h
    simp [ha.1, hb.1]
  · simp only at h
    obtain ⟨argB, hB, hg⟩ := List.exists_of_findSome?_eq_some h
    split at hg
    · simp only [Option.some.injEq] at hg
      subst hg
      simp [ha.1, hb.1]
    · rename_i argA hA
      split at hg
      · simp at hg
      · simp only [Option.some.injEq] at hg
        subst hg
        have hA' : argA ∈ a.args := by
          have := List.mem_of_find?_eq_some hA
          simpa using this
        simp [argPos_in ha.2.2.2.1 argA hA', argPos_in hb.2.2.2.1 argB hB]

theorem fieldsInSetCanMerge_ok (S : Schema) (D : Document) (cfuel : Nat) :
    ∀ (fuel : Nat) (m : Memo) (fs : List FRef), (∀ f ∈ fs, FOk (docPositions D) f) →
      AltsOk (docPositions D) (fieldsInSetCanMerge S D cfuel fuel m fs).1
  | 0, m, fs, _ => by simp [fieldsInSetCanMerge, AltsOk]
  | fuel + 1, m, fs, hfs => by
    simp only [fieldsInSetCanMerge]
    apply anyOrder_ok
    intro n _ m'
    apply firstErr_ok
    intro p hp m''
    have hp' := mem_pairs_group hfs p hp
    obtain ⟨a, b⟩ := p
    have ha : FOk (docPositions D) a := hp'.1
    have hb : FOk (docPositions D) b := hp'.2
    simp only
    split
    · trivial
    · have hsh := fun m0 => sameResponseShape_ok S D cfuel (fuel + 1) m0 a b ha hb
      split
      · split
        · simp [AltsOk, ha.2.2.1]
        · simp [AltsOk, hb.2.2.1]
        · split
          · split
            · simp [AltsOk, ha.2.1, hb.2.1]
            · split
              · rename_i e he
                simpa [AltsOk] using argumentsDiffer_locs ha hb he
              · split
                · rename_i e he
                  simpa [AltsOk] using addFieldSelections_err_of_eq ha.2.2.2.2 (by simp) he
                · trivial
                · rename_i fs1 h1
                  have hfs1 := addFieldSelections_ok_of_eq ha.2.2.2.2 (by simp) h1
                  split
                  · rename_i e he
                    simpa [AltsOk] using addFieldSelections_err_of_eq hb.2.2.2.2 hfs1 he
                  · trivial
                  · rename_i merged h2
                    exact fieldsInSetCanMerge_ok S D cfuel fuel _ merged
                      (addFieldSelections_ok_of_eq hb.2.2.2.2 hfs1 h2)
          · trivial
      · exact hsh _

theorem mergeCheckSet_ok (S : Schema) (D : Document) (cfuel fuel : Nat) (scope : Option String) (ss : SelSet)
    (h : setPositions ss ⊆ docPositions D) :
    AltsOk (docPositions D) (mergeCheckSet S D cfuel fuel scope ss) := by
  unfold mergeCheckSet
  have hss : optSetPositions (some ss) ⊆ docPositions D := by simpa [optSetPositions] using h
  split
  · rename_i e he
    simpa [AltsOk] using addFieldSelections_err_of_eq hss (by simp) he
  · trivial
  · rename_i fs hfs
    exact fieldsInSetCanMerge_ok S D cfuel fuel _ fs (addFieldSelections_ok_of_eq hss (by simp) hfs)

/-- Every alternative of every slot has its locations in `P`. -/
def SlotsOk (P : List Pos) (sls : List Slot) : Prop := ∀ sl ∈ sls, LocsP P sl.alts

theorem SlotsOk_nil (P : List Pos) : SlotsOk P [] := by simp [SlotsOk]

theorem SlotsOk_append {P : List Pos} {a b : List Slot} (ha : SlotsOk P a) (hb : SlotsOk P b) :
    SlotsOk P (a ++ b) := by
  intro sl hsl
  simp only [List.mem_append] at hsl
  rcases hsl with h | h
  · exact ha sl h
  · exact hb sl h

mutual
theorem mergeSel_ok (S : Schema) (D : Document) (cfuel fuel : Nat) :
    ∀ (scope : Option String) (sel : Selection), selPositions sel ⊆ docPositions D →
      SlotsOk (docPositions D) (mergeSel S D cfuel fuel scope sel).1
  | scope, .field al n np args dirs none, h => by simp [mergeSel, SlotsOk]
  | scope, .field al n np args dirs (some ss), h => by
    simp only [selPositions, List.cons_subset, List.append_subset] at h
    simp only [mergeSel]
    exact mergeSet_ok S D cfuel fuel _ ss h.2.2.2
  | scope, .spread n np dirs p, h => by simp [mergeSel, SlotsOk]
  | scope, .inline tc dirs ss p, h => by
    simp only [selPositions, List.cons_subset, List.append_subset] at h
    simp only [mergeSel]
    exact mergeSet_ok S D cfuel fuel _ ss h.2.2.2
theorem mergeSet_ok (S : Schema) (D : Document) (cfuel fuel : Nat) :
    ∀ (scope : Option String) (ss : SelSet), setPositions ss ⊆ docPositions D →
      SlotsOk (docPositions D) (mergeSet S D cfuel fuel scope ss).1
  | scope, .mk sels p, h => by
    have hc := mergeCheckSet_ok S D cfuel fuel scope (.mk sels p) h
    simp only [setPositions, List.cons_subset] at h
    simp only [mergeSet]
    split
    · rename_i alts ha
      rw [ha] at hc
      intro sl hsl
      simp only [List.mem_singleton] at hsl
      subst hsl
      exact hc
    · exact SlotsOk_nil _
    · exact mergeSels_ok S D cfuel fuel scope sels h.2
theorem mergeSels_ok (S : Schema) (D : Document) (cfuel fuel : Nat) :
    ∀ (scope : Option String) (sels : List Selection), selsPositions sels ⊆ docPositions D →
      SlotsOk (docPositions D) (mergeSels S D cfuel fuel scope sels).1
  | scope, [], _ => by simp [mergeSels, SlotsOk]
  | scope, s :: rest, h => by
    simp only [selsPositions, List.append_subset] at h
    have h1 := mergeSel_ok S D cfuel fuel scope s h.1
    have h2 := mergeSels_ok S D cfuel fuel scope rest h.2
    simp only [mergeSels]
    exact SlotsOk_append h1 h2
end

theorem validateFields2_locs (S : Schema) (D : Document) (cfuel fuel : Nat) :
    ∀ sl ∈ (Model.validateFields2 S D cfuel fuel).1, LocsIn D sl.alts := by
  unfold Model.validateFields2
  suffices hgen : ∀ (ds : List Definition) (acc : List Slot × Bool), (∀ d ∈ ds, d ∈ D) →
      SlotsOk (docPositions D) acc.1 →
      SlotsOk (docPositions D) (ds.foldl (fun (acc : List Slot × Bool) d =>
        let (a, fa) := mergeSet S D cfuel fuel (Model.defScope S d) (Model.defSel d)
        (acc.1 ++ a, acc.2 || fa)) acc).1 from hgen D ([], false) (fun _ h => h) (SlotsOk_nil _)
  intro ds
  induction ds with
  | nil => intro acc _ hacc; simpa using hacc
  | cons d rest ih =>
    intro acc hds hacc
    simp only [List.foldl_cons]
    apply ih _ (fun x hx => hds x (List.mem_cons_of_mem _ hx))
    exact SlotsOk_append hacc (mergeSet_ok S D cfuel fuel _ _ (defSel_in (hds d (by simp))))

/-! ## The pipeline -/

theorem single_ok {P : List Pos} {es : List Err} (h : LocsP P es) : SlotsOk P (single es) := by
  intro sl hsl
  simp only [single, List.mem_map] at hsl
  obtain ⟨e, he, rfl⟩ := hsl
  simp only [LocsP_cons, LocsP_nil, and_true]
  exact h e he

theorem allErrors_slotsOk (S : Schema) (D : Document) : SlotsOk (docPositions D) (Model.allErrors S D).slots := by
  have hslots : (Model.allErrors S D).slots =
      single (Model.validateDocument S D) ++ single (Model.validateOperationsGo S D (Model.fuelFor D)).1 ++
      single (Model.validateFields1 S D) ++ (Model.validateFields2 S D (Model.fuelFor D) (Model.pairFuelFor D)).1 ++
      single (Model.validateArguments S D) ++
      single (Model.validateFragmentDeclarations S D) ++ single (Model.validateFragmentSpreads S D).1 ++
      single (Model.validateValues S D) ++ single (Model.validateDirectives S D) ++
      single (Model.validateVariables S D (Model.fuelFor D)).1 := rfl
  rw [hslots]
  refine SlotsOk_append (SlotsOk_append (SlotsOk_append (SlotsOk_append (SlotsOk_append (SlotsOk_append
    (SlotsOk_append (SlotsOk_append (SlotsOk_append ?_ ?_) ?_) ?_) ?_) ?_) ?_) ?_) ?_) ?_
  · simp [Model.validateDocument, single, SlotsOk]
  · exact single_ok (validateOperationsGo_locs S D _)
  · exact single_ok (validateFields1_locs S D)
  · exact validateFields2_locs S D _ _
  · exact single_ok (validateArguments_locs S D)
  · exact single_ok (validateFragmentDeclarations_locs S D)
  · exact single_ok (validateFragmentSpreads_locs S D)
  · exact single_ok (validateValues_locs S D)
  · exact single_ok (validateDirectives_locs S D)
  · exact single_ok (validateVariables_locs S D _)

/-- locations_in_document: every location of every error the model can report (whatever
    alternative Go's map iteration picks) is the position of a node of the document. -/
theorem locations_in_document (S : Schema) (D : Document) :
    ∀ sl ∈ (Model.allErrors S D).slots, ∀ e ∈ sl.alts, ∀ l ∈ e.locs, l ∈ docPositions D :=
  allErrors_slotsOk S D

end ApiFu.C04.LocsProof
