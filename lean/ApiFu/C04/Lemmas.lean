/-
  C04 — lemmas behind the theorems of Props.lean.

  * loops of the model (seen-sets threaded through a list) against the specification's
    `nodup` / `all` formulations;
  * traversals: each pass of the model over a selection set equals a `flatMap` of its callback
    over the specification's occurrences (`Spec.occSel`), for *any* scope where the pass does not
    look at scopes, and under the scoping rules where it does;
  * scoping: under the rules that establish scopes (§5.3.1, §5.3.3, §5.5.1.2, §5.5.1.3 and
    supported operation types) TypeInfo's scope stack (`Model.innerScope`, `inlineScope`,
    `defScope`) and the specification's type-in-scope agree and every scope is a composite type.

  Core Lean only (no Mathlib needed).
-/
import ApiFu.C04.Spec
import ApiFu.C04.Model

namespace ApiFu.C04
open Spec Model
set_option linter.unusedSimpArgs false

theorem nodup_cons (x : String) (xs : List String) :
    Spec.nodup (x :: xs) = (!xs.contains x && Spec.nodup xs) := by
  simp [Spec.nodup]

/-- What the three directive rules say about one directive list at one location. -/
def dirListOk (S : Schema) (loc : String) (dirs : List Directive) : Prop :=
  (∀ d ∈ dirs, (S.findDirective d.name).isSome = true) ∧
  (∀ d ∈ dirs, (match S.findDirective d.name with
                | some dd => dd.locs.contains loc
                | none => true) = true) ∧
  Spec.nodup (dirs.map (·.name)) = true

theorem checkDirectivesFrom_nil (S : Schema) (loc : String) (seen : List String) (dirs : List Directive) :
    checkDirectivesFrom S loc seen dirs = [] ↔
      (dirListOk S loc dirs ∧ ∀ d ∈ dirs, d.name ∉ seen) := by
  induction dirs generalizing seen with
  | nil => simp [checkDirectivesFrom, dirListOk, Spec.nodup]
  | cons d rest ih =>
    simp only [checkDirectivesFrom, List.append_eq_nil_iff, ih]
    unfold dirListOk
    by_cases hs : d.name ∈ seen
    · simp [hs]
    · cases hf : S.findDirective d.name with
      | none => simp [hf]
      | some dd =>
        by_cases hl : dd.locs.contains loc = true
        · simp only [hf, hl, hs, nodup_cons, List.map_cons]
          simp
          grind
        · simp [hf, hl]
          grind


abbrev occLoc := Spec.occLocation

def dirsOcc (S : Schema) (o : Occ) : List Err := checkDirectives S (occLoc o) (occDirs o)

mutual
theorem dirsSel_eq (S : Schema) : ∀ (scope : Option String) (sel : Selection),
    dirsSel S sel = (occSel S scope sel).flatMap (dirsOcc S)
  | scope, .field al n np args dirs none => by
    simp [dirsSel, occSel, dirsOcc, occLoc, Spec.occLocation, occDirs]
  | scope, .field al n np args dirs (some ss) => by
    simp [dirsSel, occSel, dirsOcc, occLoc, Spec.occLocation, occDirs, dirsSet_eq S (fieldScope S scope n) ss]
  | scope, .spread n np dirs p => by
    simp [dirsSel, occSel, dirsOcc, occLoc, Spec.occLocation, occDirs]
  | scope, .inline tc dirs ss p => by
    simp [dirsSel, occSel, dirsOcc, occLoc, Spec.occLocation, occDirs,
      dirsSet_eq S (Spec.inlineScope S scope tc) ss]
theorem dirsSet_eq (S : Schema) : ∀ (scope : Option String) (ss : SelSet),
    dirsSet S ss = (occSet S scope ss).flatMap (dirsOcc S)
  | scope, .mk sels p => by
    simp [dirsSet, occSet, dirsSels_eq S scope sels]
theorem dirsSels_eq (S : Schema) : ∀ (scope : Option String) (sels : List Selection),
    dirsSels S sels = (occSels S scope sels).flatMap (dirsOcc S)
  | scope, [] => by simp [dirsSels, occSels]
  | scope, s :: rest => by
    simp [dirsSels, occSels, dirsSel_eq S scope s, dirsSels_eq S scope rest]
end


/-- The model's directive pass reports nothing iff every directive site of the specification is
    clean. -/
theorem validateDirectives_nil_iff (S : Schema) (D : Document) :
    Model.validateDirectives S D = [] ↔
      ∀ site ∈ Spec.dirSites S D, checkDirectives S site.1 site.2 = [] := by
  unfold Model.validateDirectives Spec.dirSites Spec.selOccs
  simp only [List.flatMap_eq_nil_iff, List.mem_append, List.mem_map, List.mem_flatMap]
  constructor
  · intro h site hs
    rcases hs with ⟨d, hd, rfl⟩ | ⟨o, ⟨d, hd, ho⟩, rfl⟩
    · have := h d hd
      cases d with
      | op kind name vars dirs sel =>
        simp only [List.append_eq_nil_iff] at this; exact this.1
      | frag n np tc tcp dirs sel p =>
        simp only [List.append_eq_nil_iff] at this; exact this.1
    · have := h d hd
      cases d with
      | op kind name vars dirs sel =>
        simp only [List.append_eq_nil_iff] at this
        have h2 := this.2
        rw [dirsSet_eq S (S.root (opKindOf kind)) sel] at h2
        simp only [List.flatMap_eq_nil_iff] at h2
        exact h2 o (by simpa [Spec.occDef] using ho)
      | frag n np tc tcp dirs sel p =>
        simp only [List.append_eq_nil_iff] at this
        have h2 := this.2
        rw [dirsSet_eq S (condScope S tc) sel] at h2
        simp only [List.flatMap_eq_nil_iff] at h2
        exact h2 o (by simpa [Spec.occDef] using ho)
  · intro h d hd
    cases d with
    | op kind name vars dirs sel =>
      simp only [List.append_eq_nil_iff]
      refine ⟨h _ (Or.inl ⟨_, hd, rfl⟩), ?_⟩
      rw [dirsSet_eq S (S.root (opKindOf kind)) sel]
      simp only [List.flatMap_eq_nil_iff]
      intro o ho
      exact h (occLoc o, occDirs o) (Or.inr ⟨o, ⟨_, hd, by simpa [Spec.occDef] using ho⟩, rfl⟩)
    | frag n np tc tcp dirs sel p =>
      simp only [List.append_eq_nil_iff]
      refine ⟨h _ (Or.inl ⟨_, hd, rfl⟩), ?_⟩
      rw [dirsSet_eq S (condScope S tc) sel]
      simp only [List.flatMap_eq_nil_iff]
      intro o ho
      exact h (occLoc o, occDirs o) (Or.inr ⟨o, ⟨_, hd, by simpa [Spec.occDef] using ho⟩, rfl⟩)

theorem checkDirectives_nil (S : Schema) (loc : String) (dirs : List Directive) :
    checkDirectives S loc dirs = [] ↔ dirListOk S loc dirs := by
  simp [checkDirectives, checkDirectivesFrom_nil]

/-! ## Schema well-formedness used by the scoping lemmas (guaranteed by `schema.New`: names that
    start with `__` are reserved, `String` is the built-in scalar, roots are object types) -/

def fieldsNoTypename (fs : List FieldDef) : Bool := (findField fs "__typename").isNone

def typeNoTypename (t : TypeDef) : Bool :=
  match t.kind with
  | .object fs _ => fieldsNoTypename fs
  | .interface fs => fieldsNoTypename fs
  | _ => true

def rootOk (S : Schema) (r : Option String) : Bool :=
  match r with
  | none => true
  | some n => Spec.isComposite S n

/-- Decidable well-formedness of a schema description. -/
def Schema.wf (S : Schema) : Bool :=
  S.types.all typeNoTypename && fieldsNoTypename S.metaFields && !Spec.isComposite S "String" &&
  Spec.isComposite S S.query && rootOk S S.mutation && rootOk S S.subscription

theorem find_name {S : Schema} {n : String} {t : TypeDef} (h : S.find n = some t) : t.name = n := by
  unfold Schema.find at h
  have := List.find?_some h
  simpa using this

theorem find_mem {S : Schema} {n : String} {t : TypeDef} (h : S.find n = some t) : t ∈ S.types := by
  unfold Schema.find at h
  exact List.mem_of_find?_eq_some h

theorem kindOf_eq (S : Schema) (n : String) : Model.kindOf S n = Spec.kindOf S n := rfl

/-- For a composite parent the model's TypeInfo entry and the specification's field lookup agree,
    except that TypeInfo has no entry for `__typename`. -/
theorem fieldDef_agree {S : Schema} (_hwf : S.wf = true) {p : String} (hp : Spec.isComposite S p = true)
    (n : String) :
    Spec.fieldDef? S p n =
      if n = "__typename" then some Spec.typenameField else Model.fieldDefinition S (some p) n := by
  unfold Spec.isComposite at hp
  unfold Spec.fieldDef? Model.fieldDefinition
  simp only [kindOf_eq]
  cases hk : Spec.kindOf S p with
  | none => simp [hk] at hp
  | some k =>
    cases k with
    | object fs ifs =>
      by_cases hn : n = "__typename"
      · simp [hn]
      · simp only [hn, if_false]
        cases findField fs n <;> simp
    | interface fs =>
      by_cases hn : n = "__typename" <;> simp [hn]
    | union ms =>
      by_cases hn : n = "__typename" <;> simp [hn]
    | scalar sp => simp [hk, TypeKind.isComposite] at hp
    | enum vs => simp [hk, TypeKind.isComposite] at hp
    | input fs => simp [hk, TypeKind.isComposite] at hp

/-- TypeInfo never has an entry for `__typename` (no type defines a field of that name). -/
theorem fieldDefinition_typename {S : Schema} (hwf : S.wf = true) (scope : Option String) :
    Model.fieldDefinition S scope "__typename" = none := by
  unfold Schema.wf at hwf
  simp only [Bool.and_eq_true, List.all_eq_true] at hwf
  obtain ⟨⟨⟨⟨⟨hall, hmeta⟩, _⟩, _⟩, _⟩, _⟩ := hwf
  unfold Model.fieldDefinition
  cases scope with
  | none => rfl
  | some p =>
    simp only
    unfold Model.kindOf
    cases hf : S.find p with
    | none => simp
    | some t =>
      have ht := hall t (find_mem hf)
      unfold typeNoTypename at ht
      simp only [Option.map_some]
      cases hk : t.kind with
      | object fs ifs =>
        simp only [hk, fieldsNoTypename, Option.isNone_iff_eq_none] at ht
        simp only [fieldsNoTypename, Option.isNone_iff_eq_none] at hmeta
        simp [ht, hmeta]
      | interface fs =>
        simp only [hk, fieldsNoTypename, Option.isNone_iff_eq_none] at ht
        simp [ht]
      | union ms => simp
      | scalar sp => simp
      | enum vs => simp
      | input fs => simp

/-! ## Occurrences with the model's scoping (TypeInfo's scope stack as an inherited attribute) -/

mutual
def moccSel (S : Schema) (scope : Option String) : Selection → List Occ
  | .field al n np args dirs sel =>
    .field scope al n np args dirs sel ::
      (match sel with
       | none => []
       | some ss => moccSet S (Model.innerScope S scope n) ss)
  | .spread n np dirs p => [.spread scope n np dirs p]
  | .inline tc dirs ss p => .inline scope tc dirs p :: moccSet S (Model.inlineScope S scope tc) ss
def moccSet (S : Schema) (scope : Option String) : SelSet → List Occ
  | .mk sels _ => moccSels S scope sels
def moccSels (S : Schema) (scope : Option String) : List Selection → List Occ
  | [] => []
  | s :: rest => moccSel S scope s ++ moccSels S scope rest
end

/-- The scoping rules (§5.3.1, §5.3.3, §5.5.1.2, §5.5.1.3) at one occurrence. -/
def scopedAt (S : Schema) (o : Occ) : Bool :=
  fieldDefinedAt S o && leafOkAt S o && condExistsAt S o && condCompositeAt S o

/-- The type in scope is a composite type of the schema. -/
def Inv (S : Schema) (scope : Option String) : Prop :=
  ∃ p, scope = some p ∧ Spec.isComposite S p = true

theorem namedType_eq_condScope (S : Schema) (t : String) : Model.namedType S t = Spec.condScope S t := by
  unfold Model.namedType Spec.condScope
  cases h : S.find t with
  | none => simp
  | some td => simp [find_name h]

theorem wf_string {S : Schema} (hwf : S.wf = true) : Spec.isComposite S "String" = false := by
  unfold Schema.wf at hwf
  simp only [Bool.and_eq_true] at hwf
  simpa using hwf.1.1.1.2

/-- What the scoping rules say at a field with a sub-selection, under a composite parent: the
    field is defined (and not `__typename`), TypeInfo has the same definition, and the field's
    unwrapped type is composite. -/
theorem field_with_sel {S : Schema} (hwf : S.wf = true) {p : String} (hp : Spec.isComposite S p = true)
    {al : Option (String × Pos)} {n : String} {np : Pos} {args : List Argument} {dirs : List Directive}
    {ss : SelSet} (h : scopedAt S (.field (some p) al n np args dirs (some ss)) = true) :
    ∃ d, Model.fieldDefinition S (some p) n = some d ∧ Spec.fieldDef? S p n = some d ∧
      Spec.isComposite S d.type.base = true := by
  unfold scopedAt at h
  simp only [Bool.and_eq_true, fieldDefinedAt, leafOkAt, condExistsAt, condCompositeAt, hp,
    Bool.not_true, Bool.false_or] at h
  obtain ⟨⟨⟨hdef, hleaf⟩, _⟩, _⟩ := h
  cases hd : Spec.fieldDef? S p n with
  | none => simp [hd] at hdef
  | some d =>
    simp only [hd] at hleaf
    by_cases hc : Spec.isComposite S d.type.base = true
    · refine ⟨d, ?_, rfl, hc⟩
      have hagree := fieldDef_agree hwf hp n
      rw [hd] at hagree
      by_cases hn : n = "__typename"
      · subst hn
        simp only [if_true, Option.some.injEq] at hagree
        subst hagree
        simp [Spec.typenameField, TRef.base, wf_string hwf] at hc
      · simp only [hn, if_false] at hagree
        exact hagree.symm
    · simp [hc] at hleaf

mutual
theorem mocc_sel_eq {S : Schema} (hwf : S.wf = true) : ∀ (scope : Option String) (sel : Selection),
    Inv S scope → (occSel S scope sel).all (scopedAt S) = true → moccSel S scope sel = occSel S scope sel
  | scope, .field al n np args dirs none, _, _ => by simp [moccSel, occSel]
  | scope, .field al n np args dirs (some ss), hinv, h => by
    obtain ⟨p, rfl, hp⟩ := hinv
    simp only [occSel, List.all_cons, Bool.and_eq_true] at h
    obtain ⟨d, hm, hs, hc⟩ := field_with_sel hwf hp h.1
    have e1 : Model.innerScope S (some p) n = some d.type.base := by simp [Model.innerScope, hm]
    have e2 : Spec.fieldScope S (some p) n = some d.type.base := by simp [Spec.fieldScope, hs]
    simp only [moccSel, occSel, e1, e2]
    rw [mocc_set_eq hwf (some d.type.base) ss ⟨_, rfl, hc⟩ (by simpa [e2] using h.2)]
  | scope, .spread n np dirs p, _, _ => by simp [moccSel, occSel]
  | scope, .inline none dirs ss p, hinv, h => by
    simp only [occSel, List.all_cons, Bool.and_eq_true] at h
    simp only [moccSel, occSel, Model.inlineScope, Spec.inlineScope]
    rw [mocc_set_eq hwf scope ss hinv (by simpa [Spec.inlineScope] using h.2)]
  | scope, .inline (some (t, tp)) dirs ss p, hinv, h => by
    simp only [occSel, List.all_cons, Bool.and_eq_true] at h
    have h1 := h.1
    simp only [scopedAt, Bool.and_eq_true, condExistsAt, condCompositeAt, fieldDefinedAt, leafOkAt] at h1
    obtain ⟨⟨_, hex⟩, hco⟩ := h1
    have hco' : Spec.isComposite S t = true := by
      cases hf : S.find t with
      | none => simp [hf] at hex
      | some td => simpa [hf] using hco
    have e : Spec.condScope S t = some t := by simp [Spec.condScope, hex]
    simp only [moccSel, occSel, Model.inlineScope, Spec.inlineScope, namedType_eq_condScope, e]
    rw [mocc_set_eq hwf (some t) ss ⟨_, rfl, hco'⟩ (by simpa [Spec.inlineScope, e] using h.2)]
theorem mocc_set_eq {S : Schema} (hwf : S.wf = true) : ∀ (scope : Option String) (ss : SelSet),
    Inv S scope → (occSet S scope ss).all (scopedAt S) = true → moccSet S scope ss = occSet S scope ss
  | scope, .mk sels p, hinv, h => by
    simp only [moccSet, occSet] at *
    exact mocc_sels_eq hwf scope sels hinv h
theorem mocc_sels_eq {S : Schema} (hwf : S.wf = true) : ∀ (scope : Option String) (sels : List Selection),
    Inv S scope → (occSels S scope sels).all (scopedAt S) = true → moccSels S scope sels = occSels S scope sels
  | scope, [], _, _ => by simp [moccSels, occSels]
  | scope, s :: rest, hinv, h => by
    simp only [occSels, List.all_append, Bool.and_eq_true] at h
    simp only [moccSels, occSels]
    rw [mocc_sel_eq hwf scope s hinv h.1, mocc_sels_eq hwf scope rest hinv h.2]
end


/-! ## Fields group: existence and leaf/composite (validate_fields.go, first pass) -/

/-- No primary error. -/
def primaryFree (es : List Err) : Bool := es.all (·.secondary)

theorem primaryFree_append (a b : List Err) : primaryFree (a ++ b) = (primaryFree a && primaryFree b) := by
  simp [primaryFree, List.all_append]

theorem primaryFree_nil : primaryFree [] = true := rfl

/-- §5.3.1 and §5.3.3 at one occurrence. -/
def fieldOkAt (S : Schema) (o : Occ) : Bool := fieldDefinedAt S o && leafOkAt S o

/-- The rules about type conditions at one occurrence. -/
def condOkAt (S : Schema) (o : Occ) : Bool := condExistsAt S o && condCompositeAt S o

theorem isCompositeName_eq (S : Schema) (n : String) : Model.isCompositeName S n = Spec.isComposite S n := rfl

/-- Under a composite parent, "does not exist" is reported exactly for fields other than
    `__typename` that TypeInfo has no definition for. -/
theorem missingField_nil {S : Schema} {p : String} (hp : Spec.isComposite S p = true) (n : String) (np : Pos) :
    (missingFieldErrors S (some p) n np = [] ↔ (n = "__typename" ∨ (Model.fieldDefinition S (some p) n).isSome = true)) ∧
    primaryFree (missingFieldErrors S (some p) n np) = (missingFieldErrors S (some p) n np).isEmpty := by
  unfold Spec.isComposite at hp
  unfold missingFieldErrors Model.fieldDefinition
  have hk : Model.kindOf S p = Spec.kindOf S p := rfl
  simp only [hk]
  by_cases hn : n = "__typename"
  · simp [hn, primaryFree]
  · cases hkk : Spec.kindOf S p with
    | none => simp [hkk] at hp
    | some k =>
      cases k with
      | object fs ifs =>
        cases hff : findField fs n with
        | some d => simp [hn, hff, primaryFree]
        | none =>
          by_cases hq : p = S.query
          · cases hm : findField S.metaFields n <;> simp [hn, hff, hq, hm, primaryFree, newError]
          · simp [hn, hff, hq, primaryFree, newError]
      | interface fs =>
        cases hff : findField fs n <;> simp [hn, hff, primaryFree, newError]
      | union ms => simp [hn, primaryFree, newError]
      | scalar sp => simp [hkk, TypeKind.isComposite] at hp
      | enum vs => simp [hkk, TypeKind.isComposite] at hp
      | input fs => simp [hkk, TypeKind.isComposite] at hp

theorem subselection_ok (should : Bool) (n : String) (fp : Pos) (sel : Option SelSet) :
    primaryFree (subselectionErrors should n fp sel) =
      (if should then Spec.hasSubselection sel else sel.isNone) := by
  unfold subselectionErrors Spec.hasSubselection
  cases should
  · cases sel <;> simp [primaryFree, newError]
  · cases sel with
    | none => simp [primaryFree, newError]
    | some ss => by_cases he : ss.sels.isEmpty = true <;> simp [he, primaryFree, newError]

/-- The callback of the first pass at one field node, under a composite parent, reports a primary
    error exactly when §5.3.1 or §5.3.3 is violated there. -/
theorem fieldNode_ok {S : Schema} (hwf : S.wf = true) {p : String} (hp : Spec.isComposite S p = true)
    (al : Option (String × Pos)) (n : String) (np : Pos) (args : List Argument) (dirs : List Directive)
    (sel : Option SelSet) :
    primaryFree (fieldNodeErrors S (some p) al n np sel) =
      fieldOkAt S (.field (some p) al n np args dirs sel) := by
  have hagree := fieldDef_agree hwf hp n
  have htn := fieldDefinition_typename hwf (some p)
  obtain ⟨hmiss, hmp⟩ := missingField_nil hp n np
  unfold fieldOkAt fieldDefinedAt leafOkAt
  simp only [hp, Bool.not_true, Bool.false_or]
  unfold fieldNodeErrors
  simp only [primaryFree_append, hmp, isCompositeName_eq]
  by_cases hn : n = "__typename"
  · subst hn
    simp only [if_true] at hagree
    have hm : missingFieldErrors S (some p) "__typename" np = [] := hmiss.2 (Or.inl rfl)
    simp only [hagree, htn, hm, Spec.typenameField, TRef.base, wf_string hwf]
    simpa [primaryFree] using subselection_ok false "__typename" (fieldPos al np) sel
  · simp only [hn, if_false] at hagree
    rw [hagree]
    cases hd : Model.fieldDefinition S (some p) n with
    | none =>
      have hm : missingFieldErrors S (some p) n np ≠ [] := by
        intro h
        have := hmiss.1 h
        simp [hn, hd] at this
      cases hmm : missingFieldErrors S (some p) n np with
      | nil => exact absurd hmm hm
      | cons e es => simp [primaryFree, newSecondaryError, hn]
    | some d =>
      have hm : missingFieldErrors S (some p) n np = [] := hmiss.2 (Or.inr (by simp [hd]))
      simp only [hm]
      simpa [primaryFree] using subselection_ok (Spec.isComposite S d.type.base) n (fieldPos al np) sel


theorem scopedAt_field {S : Schema} {o : Occ} (h1 : fieldOkAt S o = true) (h2 : condOkAt S o = true) :
    scopedAt S o = true := by
  unfold fieldOkAt at h1; unfold condOkAt at h2; unfold scopedAt
  simp only [Bool.and_eq_true] at *
  exact ⟨⟨⟨h1.1, h1.2⟩, h2.1⟩, h2.2⟩

/-- What the type-condition rules give at an inline fragment: both scopings agree on the scope of
    its selection set, and that scope is composite again. -/
theorem inline_scope {S : Schema} {scope : Option String} (hinv : Inv S scope)
    {tc : Option (String × Pos)} {dirs : List Directive} {p : Pos}
    (h : condOkAt S (.inline scope tc dirs p) = true) :
    Model.inlineScope S scope tc = Spec.inlineScope S scope tc ∧ Inv S (Spec.inlineScope S scope tc) := by
  cases tc with
  | none => exact ⟨rfl, hinv⟩
  | some tp =>
    obtain ⟨t, tpos⟩ := tp
    simp only [condOkAt, condExistsAt, condCompositeAt, Bool.and_eq_true] at h
    obtain ⟨hex, hco⟩ := h
    have hco' : Spec.isComposite S t = true := by
      cases hf : S.find t with
      | none => simp [hf] at hex
      | some td => simpa [hf] using hco
    have e : Spec.condScope S t = some t := by simp [Spec.condScope, hex]
    simp only [Model.inlineScope, Spec.inlineScope, namedType_eq_condScope, e]
    exact ⟨trivial, t, rfl, hco'⟩

mutual
theorem fields1_sel_ok {S : Schema} (hwf : S.wf = true) : ∀ (scope : Option String) (sel : Selection),
    Inv S scope → (occSel S scope sel).all (condOkAt S) = true →
    primaryFree (fields1Sel S scope sel) = (occSel S scope sel).all (fieldOkAt S)
  | scope, .field al n np args dirs none, hinv, _ => by
    obtain ⟨p, rfl, hp⟩ := hinv
    simp [fields1Sel, occSel, fieldNode_ok hwf hp al n np args dirs none]
  | scope, .field al n np args dirs (some ss), hinv, h => by
    obtain ⟨p, rfl, hp⟩ := hinv
    simp only [occSel, List.all_cons, Bool.and_eq_true] at h
    simp only [fields1Sel, occSel, List.all_cons, primaryFree_append,
      fieldNode_ok hwf hp al n np args dirs (some ss)]
    cases hb : fieldOkAt S (.field (some p) al n np args dirs (some ss)) with
    | false => simp
    | true =>
      obtain ⟨d, hm, hs, hc⟩ := field_with_sel hwf hp (scopedAt_field hb h.1)
      have e1 : Model.innerScope S (some p) n = some d.type.base := by simp [Model.innerScope, hm]
      have e2 : Spec.fieldScope S (some p) n = some d.type.base := by simp [Spec.fieldScope, hs]
      simp only [e1, e2, Bool.true_and]
      exact fields1_set_ok hwf (some d.type.base) ss ⟨_, rfl, hc⟩ (by simpa [e2] using h.2)
  | scope, .spread n np dirs p, _, _ => by
    simp [fields1Sel, occSel, primaryFree, fieldOkAt, fieldDefinedAt, leafOkAt]
  | scope, .inline tc dirs ss p, hinv, h => by
    simp only [occSel, List.all_cons, Bool.and_eq_true] at h
    obtain ⟨e, hinv'⟩ := inline_scope hinv h.1
    simp only [fields1Sel, occSel, List.all_cons, e]
    rw [fields1_set_ok hwf _ ss hinv' h.2]
    simp [fieldOkAt, fieldDefinedAt, leafOkAt]
theorem fields1_set_ok {S : Schema} (hwf : S.wf = true) : ∀ (scope : Option String) (ss : SelSet),
    Inv S scope → (occSet S scope ss).all (condOkAt S) = true →
    primaryFree (fields1Set S scope ss) = (occSet S scope ss).all (fieldOkAt S)
  | scope, .mk sels p, hinv, h => by
    simp only [fields1Set, occSet] at *
    exact fields1_sels_ok hwf scope sels hinv h
theorem fields1_sels_ok {S : Schema} (hwf : S.wf = true) : ∀ (scope : Option String) (sels : List Selection),
    Inv S scope → (occSels S scope sels).all (condOkAt S) = true →
    primaryFree (fields1Sels S scope sels) = (occSels S scope sels).all (fieldOkAt S)
  | scope, [], _, _ => by simp [fields1Sels, occSels, primaryFree]
  | scope, s :: rest, hinv, h => by
    simp only [occSels, List.all_append, Bool.and_eq_true] at h
    simp only [fields1Sels, occSels, List.all_append, primaryFree_append]
    rw [fields1_sel_ok hwf scope s hinv h.1, fields1_sels_ok hwf scope rest hinv h.2]
end


/-! ## From definitions to the document -/

def specDefScope (S : Schema) : Definition → Option String
  | .op kind _ _ _ _ => S.root (opKindOf kind)
  | .frag _ _ tc _ _ _ _ => Spec.condScope S tc

theorem occDef_eq (S : Schema) (d : Definition) : Spec.occDef S d = occSet S (specDefScope S d) (Model.defSel d) := by
  cases d <;> rfl

theorem all_flatMap {α β : Type} (xs : List α) (f : α → List β) (p : β → Bool) :
    (xs.flatMap f).all p = xs.all (fun x => (f x).all p) := by
  induction xs with
  | nil => rfl
  | cons x rest ih => simp [List.flatMap_cons, List.all_append, ih]

theorem all_and {α : Type} (xs : List α) (p q : α → Bool) :
    (xs.all p && xs.all q) = xs.all (fun x => p x && q x) := by
  induction xs with
  | nil => rfl
  | cons x rest ih =>
    simp only [List.all_cons, ← ih]
    cases p x <;> cases q x <;> simp
    all_goals (cases List.all rest p <;> simp)

theorem all_congr_mem {α : Type} (xs : List α) (p q : α → Bool) (h : ∀ x ∈ xs, p x = q x) :
    xs.all p = xs.all q := by
  induction xs with
  | nil => rfl
  | cons x rest ih =>
    simp only [List.all_cons]
    rw [h x (by simp), ih (fun y hy => h y (by simp [hy]))]

theorem wf_root {S : Schema} (hwf : S.wf = true) {k : OpKind} {r : String} (h : S.root k = some r) :
    Spec.isComposite S r = true := by
  unfold Schema.wf at hwf
  simp only [Bool.and_eq_true] at hwf
  obtain ⟨⟨⟨_, hq⟩, hm⟩, hs⟩ := hwf
  cases k with
  | query => simp [Schema.root] at h; subst h; exact hq
  | mutation => simp [Schema.root] at h; simpa [rootOk, h] using hm
  | subscription => simp [Schema.root] at h; simpa [rootOk, h] using hs

theorem mem_fragDefs {D : Document} {n : String} {np : Pos} {tc : String} {tcp : Pos} {dirs : List Directive}
    {sel : SelSet} {p : Pos} (h : Definition.frag n np tc tcp dirs sel p ∈ D) : (n, tc, sel) ∈ Spec.fragDefs D := by
  unfold Spec.fragDefs
  simp only [List.mem_filterMap]
  exact ⟨_, h, rfl⟩

/-- The rules that establish the scope of a definition's selection set. -/
structure ScopeRules (S : Schema) (D : Document) : Prop where
  wf : S.wf = true
  ops : Spec.opTypeSupported S D = true
  typesExist : Spec.fragmentTypesExist S D = true
  onComposite : Spec.fragmentsOnComposite S D = true

theorem def_scope {S : Schema} {D : Document} (h : ScopeRules S D) {d : Definition} (hd : d ∈ D) :
    Model.defScope S d = specDefScope S d ∧ Inv S (specDefScope S d) ∧
      (Spec.occDef S d).all (condOkAt S) = true := by
  have hte := h.typesExist
  have hco := h.onComposite
  simp only [Spec.fragmentTypesExist, Spec.fragmentsOnComposite, Bool.and_eq_true, Spec.selOccs,
    all_flatMap, List.all_eq_true] at hte hco
  have hcond : (Spec.occDef S d).all (condOkAt S) = true := by
    have a := hte.2 d hd
    have b := hco.2 d hd
    simp only [List.all_eq_true] at a b ⊢
    intro o ho
    simp [condOkAt, a o ho, b o ho]
  refine ⟨?_, ?_, hcond⟩
  · cases d with
    | op kind name vars dirs sel => rfl
    | frag n np tc tcp dirs sel p => exact namedType_eq_condScope S tc
  · cases d with
    | op kind name vars dirs sel =>
      have := h.ops
      simp only [Spec.opTypeSupported, List.all_eq_true] at this
      have hs := this _ hd
      simp only [Spec.opSupportedAt] at hs
      cases hr : S.root (opKindOf kind) with
      | none => simp [hr] at hs
      | some r => exact ⟨r, by simp [specDefScope, hr], wf_root h.wf hr⟩
    | frag n np tc tcp dirs sel p =>
      have hm := mem_fragDefs hd
      have a := hte.1 _ hm
      have b := hco.1 _ hm
      simp only at a b
      have hc : Spec.isComposite S tc = true := by
        cases hf : S.find tc with
        | none => simp [hf] at a
        | some td => simpa [hf] using b
      exact ⟨tc, by simp [specDefScope, Spec.condScope, a], hc⟩

theorem primaryFree_flatMap {α : Type} (xs : List α) (f : α → List Err) :
    primaryFree (xs.flatMap f) = xs.all (fun x => primaryFree (f x)) := by
  unfold primaryFree
  exact all_flatMap xs f _

/-! ## Arguments: one argument list -/

def known (defs : List InputDef) (a : Argument) : Bool := (findInput defs a.name).isSome

theorem argumentLoopErrors_nil (defs : List InputDef) (byName args : List Argument) :
    argumentLoopErrors defs byName args = [] ↔
      ((∀ a ∈ args, known defs a = true) ∧ (∀ a ∈ args, ∀ x ∈ byName, x.name ≠ a.name) ∧
        Spec.nodup (args.map (·.name)) = true) := by
  induction args generalizing byName with
  | nil => simp [argumentLoopErrors, Spec.nodup]
  | cons a rest ih =>
    unfold argumentLoopErrors
    cases hf : findInput defs a.name with
    | none => simp [known, hf]
    | some d =>
      by_cases hb : (byName.any fun x => x.name = a.name) = true
      · rw [if_pos hb]
        simp only [List.any_eq_true, decide_eq_true_eq] at hb
        obtain ⟨x, hx, hxe⟩ := hb
        constructor
        · intro h; simp at h
        · rintro ⟨_, h2, _⟩
          exact absurd hxe (h2 a (by simp) x hx)
      · rw [if_neg hb, ih]
        simp only [List.any_eq_true, decide_eq_true_eq, not_exists, not_and] at hb
        simp only [nodup_cons, List.map_cons, Bool.and_eq_true, Bool.not_eq_true', List.mem_cons,
          forall_eq_or_imp, List.mem_append, List.mem_singleton, List.not_mem_nil, or_false]
        have hk : known defs a = true := by simp [known, hf]
        constructor
        · rintro ⟨h1, h2, h3⟩
          refine ⟨⟨hk, h1⟩, ⟨fun x hx => hb x hx, fun b hb' x hx => h2 b hb' x (Or.inl hx)⟩, ?_, h3⟩
          simp only [List.contains_eq_mem, List.mem_map, decide_eq_false_iff_not, not_exists, not_and]
          intro b hb' he
          exact h2 b hb' a (Or.inr rfl) he.symm
        · rintro ⟨⟨_, h1⟩, ⟨_, h2⟩, h3, h4⟩
          refine ⟨h1, ?_, h4⟩
          intro b hb' x hx
          rcases hx with hx | hx
          · exact h2 b hb' x hx
          · subst hx
            simp only [List.contains_eq_mem, List.mem_map, decide_eq_false_iff_not, not_exists, not_and] at h3
            exact fun he => h3 b hb' he.symm

theorem argumentLoopErrors_primary (defs : List InputDef) (byName args : List Argument) :
    primaryFree (argumentLoopErrors defs byName args) = (argumentLoopErrors defs byName args).isEmpty := by
  induction args generalizing byName with
  | nil => simp [argumentLoopErrors, primaryFree]
  | cons a rest ih =>
    unfold argumentLoopErrors
    cases hf : findInput defs a.name with
    | none => simp [primaryFree, newError]
    | some d =>
      by_cases hb : (byName.any fun x => x.name = a.name) = true
      · simp [hb, primaryFree, newError]
      · simp only [hb]; exact ih _

/-- `argumentsByName` holds exactly the names of the accumulator and of the defined arguments. -/
theorem mem_argumentsByName (defs : List InputDef) (byName args : List Argument) (n : String) :
    (∃ x ∈ argumentsByName defs byName args, x.name = n) ↔
      ((∃ x ∈ byName, x.name = n) ∨ (∃ a ∈ args, a.name = n ∧ known defs a = true)) := by
  induction args generalizing byName with
  | nil => simp [argumentsByName]
  | cons a rest ih =>
    unfold argumentsByName
    cases hf : findInput defs a.name with
    | none =>
      have hk : known defs a = false := by simp [known, hf]
      simp only [ih, List.mem_cons, exists_eq_or_imp, hk]
      simp
    | some d =>
      have hk : known defs a = true := by simp [known, hf]
      by_cases hb : (byName.any fun x => x.name = a.name) = true
      · rw [if_pos hb, ih]
        simp only [List.any_eq_true, decide_eq_true_eq] at hb
        obtain ⟨x, hx, hxe⟩ := hb
        simp only [List.mem_cons, exists_eq_or_imp, hk, and_true]
        constructor
        · rintro (h | h)
          · exact Or.inl h
          · exact Or.inr (Or.inr h)
        · rintro (h | h | h)
          · exact Or.inl h
          · exact Or.inl ⟨x, hx, hxe.trans h⟩
          · exact Or.inr h
      · rw [if_neg hb, ih]
        simp only [List.mem_cons, exists_eq_or_imp, hk, and_true, List.mem_append, List.mem_singleton,
          List.not_mem_nil, or_false]
        constructor
        · rintro (⟨x, hx | hx, hn⟩ | h)
          · exact Or.inl ⟨x, hx, hn⟩
          · subst hx; exact Or.inr (Or.inl hn)
          · exact Or.inr (Or.inr h)
        · rintro (⟨x, hx, hn⟩ | h | h)
          · exact Or.inl ⟨x, Or.inl hx, hn⟩
          · exact Or.inl ⟨a, Or.inr rfl, h⟩
          · exact Or.inr h

theorem findInput_name {defs : List InputDef} {n : String} {d : InputDef} (h : findInput defs n = some d) :
    d.name = n := by
  unfold findInput at h
  simpa using List.find?_some h

theorem findInput_self {defs : List InputDef} {d : InputDef} (h : d ∈ defs) : (findInput defs d.name).isSome = true := by
  unfold findInput
  rw [List.find?_isSome]
  exact ⟨d, h, by simp⟩

def siteOk (s : ArgSite) : Bool := argsKnownAt s && argsUniqueAt s && argsRequiredAt s

theorem requiredErrors_primary (pos : Pos) (byName : List Argument) (defs : List InputDef) :
    primaryFree (requiredErrors pos byName defs) =
      defs.all (fun d => !(d.type.isNonNull && d.dflt = .none) || byName.any (fun a => a.name = d.name)) := by
  unfold requiredErrors
  rw [primaryFree_flatMap]
  apply all_congr_mem
  intro d _
  by_cases hr : (d.type.isNonNull && d.dflt = .none) = true
  · simp only [hr, if_true, Bool.not_true, Bool.false_or]
    cases hfind : byName.find? (fun x => x.name = d.name) with
    | none =>
      have : (byName.any fun a => a.name = d.name) = false := by
        rw [List.find?_eq_none] at hfind
        simp at hfind ⊢
        exact hfind
      simp [this, primaryFree, newError]
    | some a =>
      have hmem := List.mem_of_find?_eq_some hfind
      have hp := List.find?_some hfind
      have : (byName.any fun a => a.name = d.name) = true := by
        simp; exact ⟨a, hmem, by simpa using hp⟩
      by_cases hnull : a.value.isNull = true <;> simp [this, hnull, primaryFree, newSecondaryError]
  · simp [hr, primaryFree]

/-- One argument list: the callback reports a primary error exactly when §5.4.1, §5.4.2 or
    §5.4.2.1 is violated for it. -/
theorem checkArguments_ok (pos : Pos) (args : List Argument) (defs : List InputDef) :
    primaryFree (checkArguments pos args defs) = siteOk { defs := defs, args := args } := by
  unfold checkArguments siteOk argsKnownAt argsUniqueAt argsRequiredAt
  by_cases he : (args.isEmpty && defs.isEmpty) = true
  · simp only [he, if_true]
    simp at he
    simp [he.1, he.2, primaryFree, Spec.nodup]
  · rw [if_neg he]
    rw [primaryFree_append, argumentLoopErrors_primary, requiredErrors_primary]
    have h1 : (argumentLoopErrors defs [] args).isEmpty =
        (args.all (fun a => (findInput defs a.name).isSome) && Spec.nodup (args.map (·.name))) := by
      rw [Bool.eq_iff_iff]
      simp only [List.isEmpty_iff, argumentLoopErrors_nil, Bool.and_eq_true, List.all_eq_true, known]
      simp
    have h2 : defs.all (fun d => !(d.type.isNonNull && d.dflt = .none) ||
          (argumentsByName defs [] args).any (fun a => a.name = d.name)) =
        defs.all (fun d => !(d.type.isNonNull && d.dflt = .none) || args.any (fun a => a.name = d.name)) := by
      apply all_congr_mem
      intro d hd
      congr 1
      rw [Bool.eq_iff_iff]
      simp only [List.any_eq_true, decide_eq_true_eq]
      have := mem_argumentsByName defs [] args d.name
      simp only [List.not_mem_nil, false_and, exists_false, false_or] at this
      rw [this]
      constructor
      · rintro ⟨a, ha, hn, _⟩; exact ⟨a, ha, hn⟩
      · rintro ⟨a, ha, hn⟩
        refine ⟨a, ha, hn, ?_⟩
        unfold known
        rw [hn]
        exact findInput_self hd
    rw [h1, h2]


/-! ## Every occurrence below a composite scope has a composite parent (under the scoping rules) -/

def occParent : Occ → Option String
  | .field p .. => p
  | .spread p .. => p
  | .inline p .. => p

mutual
theorem occ_parents_sel {S : Schema} (hwf : S.wf = true) : ∀ (scope : Option String) (sel : Selection),
    Inv S scope → (occSel S scope sel).all (scopedAt S) = true →
    ∀ o ∈ occSel S scope sel, Inv S (occParent o)
  | scope, .field al n np args dirs none, hinv, _ => by
    intro o ho
    simp only [occSel, List.mem_singleton] at ho
    subst ho; exact hinv
  | scope, .field al n np args dirs (some ss), hinv, h => by
    obtain ⟨p, rfl, hp⟩ := hinv
    simp only [occSel, List.all_cons, Bool.and_eq_true] at h
    obtain ⟨d, _, hs, hc⟩ := field_with_sel hwf hp h.1
    have e2 : Spec.fieldScope S (some p) n = some d.type.base := by simp [Spec.fieldScope, hs]
    intro o ho
    simp only [occSel, List.mem_cons] at ho
    rcases ho with rfl | ho
    · exact ⟨p, rfl, hp⟩
    · rw [e2] at ho
      exact occ_parents_set hwf (some d.type.base) ss ⟨_, rfl, hc⟩ (by simpa [e2] using h.2) o ho
  | scope, .spread n np dirs p, hinv, _ => by
    intro o ho
    simp only [occSel, List.mem_singleton] at ho
    subst ho; exact hinv
  | scope, .inline tc dirs ss p, hinv, h => by
    simp only [occSel, List.all_cons, Bool.and_eq_true] at h
    have hc : condOkAt S (.inline scope tc dirs p) = true := by
      have := h.1
      simp only [scopedAt, Bool.and_eq_true] at this
      simp [condOkAt, this.1.2, this.2]
    obtain ⟨_, hinv'⟩ := inline_scope hinv hc
    intro o ho
    simp only [occSel, List.mem_cons] at ho
    rcases ho with rfl | ho
    · exact hinv
    · exact occ_parents_set hwf _ ss hinv' h.2 o ho
theorem occ_parents_set {S : Schema} (hwf : S.wf = true) : ∀ (scope : Option String) (ss : SelSet),
    Inv S scope → (occSet S scope ss).all (scopedAt S) = true →
    ∀ o ∈ occSet S scope ss, Inv S (occParent o)
  | scope, .mk sels p, hinv, h => by
    simp only [occSet] at *
    exact occ_parents_sels hwf scope sels hinv h
theorem occ_parents_sels {S : Schema} (hwf : S.wf = true) : ∀ (scope : Option String) (sels : List Selection),
    Inv S scope → (occSels S scope sels).all (scopedAt S) = true →
    ∀ o ∈ occSels S scope sels, Inv S (occParent o)
  | scope, [], _, _ => by simp [occSels]
  | scope, s :: rest, hinv, h => by
    simp only [occSels, List.all_append, Bool.and_eq_true] at h
    intro o ho
    simp only [occSels, List.mem_append] at ho
    rcases ho with ho | ho
    · exact occ_parents_sel hwf scope s hinv h.1 o ho
    · exact occ_parents_sels hwf scope rest hinv h.2 o ho
end

/-! ## Arguments: the traversal -/

/-- The argument definitions the callback of validateArguments uses at a field node. -/
def modelArgDefs (S : Schema) (scope : Option String) (n : String) : List InputDef :=
  match Model.fieldDefinition S scope n with
  | some d => d.args
  | none => []

def argsOcc (S : Schema) : Occ → List Err
  | .field scope al n np args dirs _ =>
    checkArguments (fieldPos al np) args (modelArgDefs S scope n) ++ argsDirectives S dirs
  | .spread _ _ _ dirs _ => argsDirectives S dirs
  | .inline _ _ dirs _ => argsDirectives S dirs

/-- TypeInfo has a definition for the field (or it is `__typename`): validateArguments does not
    stop at this node. -/
def hasInfoAt (S : Schema) : Occ → Bool
  | .field scope _ n _ _ _ _ => (Model.fieldDefinition S scope n).isSome || n = "__typename"
  | _ => true

mutual
theorem args_sel_flat (S : Schema) : ∀ (scope : Option String) (sel : Selection),
    (moccSel S scope sel).all (hasInfoAt S) = true →
    argsSel S scope sel = (moccSel S scope sel).flatMap (argsOcc S)
  | scope, .field al n np args dirs none, h => by
    simp only [moccSel, List.all_cons, Bool.and_eq_true] at h
    have hi := h.1
    simp only [hasInfoAt, Bool.or_eq_true, decide_eq_true_eq] at hi
    unfold argsSel
    cases hd : Model.fieldDefinition S scope n with
    | some d => simp [moccSel, argsOcc, modelArgDefs, hd]
    | none =>
      have hn : n = "__typename" := by
        rcases hi with hi | hi
        · simp [hd] at hi
        · exact hi
      subst hn
      simp [moccSel, argsOcc, modelArgDefs, hd]
  | scope, .field al n np args dirs (some ss), h => by
    simp only [moccSel, List.all_cons, Bool.and_eq_true] at h
    have hi := h.1
    simp only [hasInfoAt, Bool.or_eq_true, decide_eq_true_eq] at hi
    have hsub := args_set_flat S (Model.innerScope S scope n) ss h.2
    unfold argsSel
    cases hd : Model.fieldDefinition S scope n with
    | some d => simp [moccSel, argsOcc, modelArgDefs, hd, hsub]
    | none =>
      have hn : n = "__typename" := by
        rcases hi with hi | hi
        · simp [hd] at hi
        · exact hi
      subst hn
      simp [moccSel, argsOcc, modelArgDefs, hd, hsub]
  | scope, .spread n np dirs p, _ => by
    simp [argsSel, moccSel, argsOcc]
  | scope, .inline tc dirs ss p, h => by
    simp only [moccSel, List.all_cons, Bool.and_eq_true] at h
    simp only [argsSel, moccSel, List.flatMap_cons, argsOcc, args_set_flat S _ ss h.2]
theorem args_set_flat (S : Schema) : ∀ (scope : Option String) (ss : SelSet),
    (moccSet S scope ss).all (hasInfoAt S) = true →
    argsSet S scope ss = (moccSet S scope ss).flatMap (argsOcc S)
  | scope, .mk sels p, h => by
    simp only [moccSet, argsSet] at *
    exact args_sels_flat S scope sels h
theorem args_sels_flat (S : Schema) : ∀ (scope : Option String) (sels : List Selection),
    (moccSels S scope sels).all (hasInfoAt S) = true →
    argsSels S scope sels = (moccSels S scope sels).flatMap (argsOcc S)
  | scope, [], _ => by simp [argsSels, moccSels]
  | scope, s :: rest, h => by
    simp only [moccSels, List.all_append, Bool.and_eq_true] at h
    simp only [argsSels, moccSels, List.flatMap_append, args_sel_flat S scope s h.1,
      args_sels_flat S scope rest h.2]
end


/-! ## Well-scoped documents -/

/-- The rules after which every selection set has a composite type in scope and every field is
    defined on it: supported operation types, §5.5.1.2, §5.5.1.3, §5.3.1, §5.3.3 (plus the
    well-formedness of the schema description). -/
structure WellScoped (S : Schema) (D : Document) : Prop extends ScopeRules S D where
  fields : Spec.fieldsDefined S D = true
  leaves : Spec.leafSelections S D = true

theorem def_occs {S : Schema} {D : Document} (h : WellScoped S D) {d : Definition} (hd : d ∈ D) :
    moccSet S (Model.defScope S d) (Model.defSel d) = Spec.occDef S d ∧
    (∀ o ∈ Spec.occDef S d, Inv S (occParent o) ∧ scopedAt S o = true) := by
  obtain ⟨e, hinv, hcond⟩ := def_scope h.toScopeRules hd
  have hf := h.fields
  have hl := h.leaves
  simp only [Spec.fieldsDefined, Spec.leafSelections, Spec.selOccs, all_flatMap, List.all_eq_true] at hf hl
  have hsc : (Spec.occDef S d).all (scopedAt S) = true := by
    simp only [List.all_eq_true] at hcond ⊢
    intro o ho
    have a := hf d hd o ho
    have b := hl d hd o ho
    have c := hcond o ho
    simp only [condOkAt, Bool.and_eq_true] at c
    simp [scopedAt, a, b, c.1, c.2]
  rw [occDef_eq] at hsc ⊢
  refine ⟨?_, ?_⟩
  · rw [e]; exact mocc_set_eq h.wf _ _ hinv hsc
  · intro o ho
    refine ⟨occ_parents_set h.wf _ _ hinv hsc o ho, ?_⟩
    simp only [List.all_eq_true] at hsc
    exact hsc o ho

/-- At a well-scoped occurrence TypeInfo has the field's definition, and it is the
    specification's (with no entry, and no argument definitions, for `__typename`). -/
theorem info_of_scoped {S : Schema} (hwf : S.wf = true) {o : Occ} (hinv : Inv S (occParent o))
    (hs : scopedAt S o = true) : hasInfoAt S o = true := by
  cases o with
  | field parent al n np args dirs sel =>
    obtain ⟨p, hp', hp⟩ := hinv
    simp only [occParent] at hp'
    subst hp'
    simp only [scopedAt, Bool.and_eq_true, fieldDefinedAt, hp, Bool.not_true, Bool.false_or] at hs
    have hdef := hs.1.1.1
    have hagree := fieldDef_agree hwf hp n
    simp only [hasInfoAt, Bool.or_eq_true, decide_eq_true_eq]
    by_cases hn : n = "__typename"
    · exact Or.inr hn
    · simp only [hn, if_false] at hagree
      rw [hagree] at hdef
      exact Or.inl hdef
  | spread => rfl
  | inline => rfl

theorem argsDirectives_ok (S : Schema) (dirs : List Directive) :
    primaryFree (argsDirectives S dirs) = (Spec.dirArgSites S dirs).all siteOk := by
  unfold argsDirectives Spec.dirArgSites
  induction dirs with
  | nil => rfl
  | cons d rest ih =>
    simp only [List.flatMap_cons, primaryFree_append, List.filterMap_cons, ih]
    unfold argsDirective
    cases hf : S.findDirective d.name with
    | none => simp [primaryFree, newSecondaryError]
    | some dd => simp [checkArguments_ok]

theorem argsOcc_ok {S : Schema} (hwf : S.wf = true) {o : Occ} (hinv : Inv S (occParent o))
    (hs : scopedAt S o = true) :
    primaryFree (argsOcc S o) = (Spec.occArgSites S o).all siteOk := by
  cases o with
  | field parent al n np args dirs sel =>
    obtain ⟨p, hp', hp⟩ := hinv
    simp only [occParent] at hp'
    subst hp'
    simp only [scopedAt, Bool.and_eq_true, fieldDefinedAt, hp, Bool.not_true, Bool.false_or] at hs
    have hdef := hs.1.1.1
    have hagree := fieldDef_agree hwf hp n
    have htn := fieldDefinition_typename hwf (some p)
    simp only [argsOcc, Spec.occArgSites, primaryFree_append, List.all_append, argsDirectives_ok, Spec.occDirs]
    congr 1
    cases hd : Spec.fieldDef? S p n with
    | none => simp [hd] at hdef
    | some d =>
      simp only [List.all_cons, List.all_nil, Bool.and_true, checkArguments_ok]
      congr 2
      by_cases hn : n = "__typename"
      · subst hn
        simp only [if_true] at hagree
        rw [hd] at hagree
        simp only [Option.some.injEq] at hagree
        subst hagree
        simp [modelArgDefs, htn, Spec.typenameField]
      · simp only [hn, if_false] at hagree
        rw [hd] at hagree
        simp [modelArgDefs, ← hagree]
  | spread parent n np dirs p =>
    simp [argsOcc, Spec.occArgSites, argsDirectives_ok, Spec.occDirs]
  | inline parent tc dirs p =>
    simp [argsOcc, Spec.occArgSites, argsDirectives_ok, Spec.occDirs]

theorem all_and3 {α : Type} (xs : List α) (p q r : α → Bool) :
    (xs.all p && xs.all q && xs.all r) = xs.all (fun x => p x && q x && r x) := by
  rw [all_and, all_and]

/-! ## Fragment declarations (validate_fragments.go:16-63) -/

theorem typeCondition_nil (S : Schema) (tc : String) (p : Pos) :
    typeConditionErrors S tc p = [] ↔ ((S.find tc).isSome = true ∧ Spec.isComposite S tc = true) := by
  unfold typeConditionErrors Spec.isComposite
  have hk : Model.kindOf S tc = Spec.kindOf S tc := rfl
  rw [hk]
  unfold Spec.kindOf
  cases hf : S.find tc with
  | none => simp
  | some td =>
    by_cases hc : td.kind.isComposite = true <;> simp [hc]

theorem fragDeclLoop_nil (S : Schema) (seen : List String) (fs : List FragInfo) :
    fragDeclLoop S seen fs = [] ↔
      ((∀ f ∈ fs, f.name ∉ seen) ∧ Spec.nodup (fs.map (·.name)) = true ∧
        (∀ f ∈ fs, (S.find f.tc).isSome = true ∧ Spec.isComposite S f.tc = true)) := by
  induction fs generalizing seen with
  | nil => simp [fragDeclLoop, Spec.nodup]
  | cons f rest ih =>
    simp only [fragDeclLoop, List.append_eq_nil_iff, ih, typeCondition_nil]
    by_cases hs : f.name ∈ seen
    · simp [hs]
    · simp only [List.contains_eq_mem, hs, decide_false, Bool.false_eq_true, if_false, true_and,
        nodup_cons, List.map_cons, List.mem_cons, forall_eq_or_imp, not_false_eq_true,
        Bool.and_eq_true, Bool.not_eq_true', List.mem_append, List.mem_singleton,
        List.not_mem_nil, or_false, not_or, List.mem_map, decide_eq_false_iff_not, not_exists, not_and]
      constructor
      · rintro ⟨⟨h1, h2⟩, h3, h4, h5⟩
        exact ⟨fun g hg => (h3 g hg).1, ⟨fun g hg he => (h3 g hg).2 he, h4⟩, ⟨h1, h2⟩, h5⟩
      · rintro ⟨h1, ⟨h2, h3⟩, ⟨h4, h5⟩, h6⟩
        exact ⟨⟨h4, h5⟩, fun g hg => ⟨h1 g hg, fun he => h2 g hg he⟩, h3, h6⟩

/-- The values of `fragmentsByName` carry exactly the names of all fragment definitions not seen before. -/
theorem firstDefs_names (seen : List String) (fs : List FragInfo) (P : String → Prop) :
    (∀ f ∈ firstDefs seen fs, P f.name) ↔ (∀ f ∈ fs, f.name ∉ seen → P f.name) := by
  induction fs generalizing seen with
  | nil => simp [firstDefs]
  | cons f rest ih =>
    unfold firstDefs
    by_cases hs : f.name ∈ seen
    · simp only [List.contains_eq_mem, hs, decide_true, if_true, ih, List.mem_cons, forall_eq_or_imp,
        not_true_eq_false, false_imp_iff, true_and]
    · simp only [List.contains_eq_mem, hs, decide_false, Bool.false_eq_true, if_false, List.mem_cons,
        forall_eq_or_imp, ih, not_false_eq_true, true_imp_iff, List.mem_append, List.mem_singleton,
        List.not_mem_nil, or_false, not_or]
      constructor
      · rintro ⟨h1, h2⟩
        refine ⟨h1, fun g hg hgs => ?_⟩
        by_cases he : g.name = f.name
        · rw [he]; exact h1
        · exact h2 g hg ⟨hgs, he⟩
      · rintro ⟨h1, h2⟩
        exact ⟨h1, fun g hg hgs => h2 g hg hgs.1⟩

def condErrOcc (S : Schema) : Occ → List Err
  | .inline _ (some (t, p)) _ _ => typeConditionErrors S t p
  | _ => []

mutual
theorem inlineCond_sel_flat (S : Schema) : ∀ (scope : Option String) (sel : Selection),
    inlineCondSel S sel = (occSel S scope sel).flatMap (condErrOcc S)
  | scope, .field al n np args dirs none => by simp [inlineCondSel, occSel, condErrOcc]
  | scope, .field al n np args dirs (some ss) => by
    simp [inlineCondSel, occSel, condErrOcc, inlineCond_set_flat S (Spec.fieldScope S scope n) ss]
  | scope, .spread n np dirs p => by simp [inlineCondSel, occSel, condErrOcc]
  | scope, .inline none dirs ss p => by
    simp [inlineCondSel, occSel, condErrOcc, inlineCond_set_flat S (Spec.inlineScope S scope none) ss]
  | scope, .inline (some (t, tp)) dirs ss p => by
    simp [inlineCondSel, occSel, condErrOcc, inlineCond_set_flat S (Spec.inlineScope S scope (some (t, tp))) ss]
theorem inlineCond_set_flat (S : Schema) : ∀ (scope : Option String) (ss : SelSet),
    inlineCondSet S ss = (occSet S scope ss).flatMap (condErrOcc S)
  | scope, .mk sels p => by simp [inlineCondSet, occSet, inlineCond_sels_flat S scope sels]
theorem inlineCond_sels_flat (S : Schema) : ∀ (scope : Option String) (sels : List Selection),
    inlineCondSels S sels = (occSels S scope sels).flatMap (condErrOcc S)
  | scope, [] => by simp [inlineCondSels, occSels]
  | scope, s :: rest => by
    simp [inlineCondSels, occSels, inlineCond_sel_flat S scope s, inlineCond_sels_flat S scope rest]
end

abbrev spreadNameOcc := Spec.spreadNameOf

mutual
theorem spreadNames_sel_flat (S : Schema) : ∀ (scope : Option String) (sel : Selection),
    Model.spreadNamesSel sel = (occSel S scope sel).filterMap spreadNameOcc
  | scope, .field al n np args dirs none => by simp [Model.spreadNamesSel, occSel, spreadNameOcc, Spec.spreadNameOf]
  | scope, .field al n np args dirs (some ss) => by
    simp [Model.spreadNamesSel, occSel, spreadNameOcc, Spec.spreadNameOf, List.filterMap_cons, spreadNames_set_flat S (Spec.fieldScope S scope n) ss]
  | scope, .spread n np dirs p => by simp [Model.spreadNamesSel, occSel, spreadNameOcc, Spec.spreadNameOf]
  | scope, .inline tc dirs ss p => by
    simp [Model.spreadNamesSel, occSel, spreadNameOcc, Spec.spreadNameOf, List.filterMap_cons, spreadNames_set_flat S (Spec.inlineScope S scope tc) ss]
theorem spreadNames_set_flat (S : Schema) : ∀ (scope : Option String) (ss : SelSet),
    Model.spreadNamesSet ss = (occSet S scope ss).filterMap spreadNameOcc
  | scope, .mk sels p => by simp [Model.spreadNamesSet, occSet, spreadNames_sels_flat S scope sels]
theorem spreadNames_sels_flat (S : Schema) : ∀ (scope : Option String) (sels : List Selection),
    Model.spreadNamesSels sels = (occSels S scope sels).filterMap spreadNameOcc
  | scope, [] => by simp [Model.spreadNamesSels, occSels]
  | scope, s :: rest => by
    simp [Model.spreadNamesSels, occSels, spreadNames_sel_flat S scope s, spreadNames_sels_flat S scope rest]
end


/-- The model's FragInfo list and the specification's fragment list describe the same definitions. -/
theorem fragsOf_map (D : Document) :
    (Model.fragsOf D).map (fun f => (f.name, f.tc, f.sel)) = Spec.fragDefs D := by
  unfold Model.fragsOf Spec.fragDefs
  induction D with
  | nil => rfl
  | cons d rest ih =>
    cases d with
    | op kind name vars dirs sel => simpa [List.filterMap_cons] using ih
    | frag n np tc tcp dirs sel p => simp [List.filterMap_cons, ih]

theorem fragsOf_names (D : Document) : (Model.fragsOf D).map (·.name) = Spec.fragNames D := by
  unfold Spec.fragNames
  rw [← fragsOf_map, List.map_map]
  rfl

theorem usedFragments_eq (S : Schema) (D : Document) : Model.usedFragments D = Spec.spreadNames S D := by
  unfold Model.usedFragments Spec.spreadNames Spec.selOccs
  induction D with
  | nil => rfl
  | cons d rest ih =>
    simp only [List.flatMap_cons, List.filterMap_append, ih]
    congr 1
    rw [occDef_eq, spreadNames_set_flat S (specDefScope S d)]


theorem all_mem_fragDefs (D : Document) (P : String → String → Prop) :
    (∀ f ∈ Model.fragsOf D, P f.name f.tc) ↔ (∀ f ∈ Spec.fragDefs D, P f.1 f.2.1) := by
  rw [← fragsOf_map]
  simp only [List.mem_map, forall_exists_index, and_imp, forall_apply_eq_imp_iff₂]

/-! ## Fragment spreads: target defined, spread possible (validate_fragments.go:104-153) -/

def spreadOcc (S : Schema) (D : Document) : Occ → List Err
  | .spread scope n np _ _ => spreadTargetErrors S D scope n np
  | .inline scope (some (t, p)) _ _ => validateSpread S t p scope
  | _ => []

mutual
theorem spreads_sel_flat (S : Schema) (D : Document) : ∀ (scope : Option String) (sel : Selection),
    spreadsSel S D scope sel = (moccSel S scope sel).flatMap (spreadOcc S D)
  | scope, .field al n np args dirs none => by simp [spreadsSel, moccSel, spreadOcc]
  | scope, .field al n np args dirs (some ss) => by
    simp [spreadsSel, moccSel, spreadOcc, spreads_set_flat S D (Model.innerScope S scope n) ss]
  | scope, .spread n np dirs p => by simp [spreadsSel, moccSel, spreadOcc]
  | scope, .inline none dirs ss p => by
    simp [spreadsSel, moccSel, spreadOcc, spreads_set_flat S D (Model.inlineScope S scope none) ss]
  | scope, .inline (some (t, tp)) dirs ss p => by
    simp [spreadsSel, moccSel, spreadOcc, spreads_set_flat S D (Model.inlineScope S scope (some (t, tp))) ss]
theorem spreads_set_flat (S : Schema) (D : Document) : ∀ (scope : Option String) (ss : SelSet),
    spreadsSet S D scope ss = (moccSet S scope ss).flatMap (spreadOcc S D)
  | scope, .mk sels p => by simp [spreadsSet, moccSet, spreads_sels_flat S D scope sels]
theorem spreads_sels_flat (S : Schema) (D : Document) : ∀ (scope : Option String) (sels : List Selection),
    spreadsSels S D scope sels = (moccSels S scope sels).flatMap (spreadOcc S D)
  | scope, [] => by simp [spreadsSels, moccSels]
  | scope, s :: rest => by
    simp [spreadsSels, moccSels, spreads_sel_flat S D scope s, spreads_sels_flat S D scope rest]
end

theorem possibleTypes_eq (S : Schema) (n : String) : Model.possibleTypes S n = Spec.possibleTypes S n := rfl

theorem primaryFree_ite_primary (b : Bool) (pos : Pos) (msg : String) :
    primaryFree (if b = true then [] else [newError pos msg]) = b := by
  cases b <;> rfl

/-- `validateSpread` under a composite parent. -/
theorem validateSpread_ok {S : Schema} {p : String} (hp : Spec.isComposite S p = true) (tc : String) (tcpos : Pos) :
    primaryFree (validateSpread S tc tcpos (some p)) =
      (!(Spec.isComposite S p && Spec.isComposite S tc) ||
        Spec.intersects (Spec.possibleTypes S tc) (Spec.possibleTypes S p)) := by
  unfold validateSpread
  simp only [isCompositeName_eq, hp, Bool.not_true, Bool.false_eq_true, if_false, Bool.true_and,
    possibleTypes_eq, Spec.intersects]
  by_cases hc : Spec.isComposite S tc = true
  · simp only [hc, if_true, Bool.not_true, Bool.false_or]
    exact primaryFree_ite_primary _ _ _
  · simp [hc, primaryFree]

/-- With unique fragment names the last definition of a name is the first. -/
theorem find_reverse_unique {α : Type} (xs : List α) (key : α → String) (n : String)
    (h : Spec.nodup (xs.map key) = true) :
    xs.reverse.find? (fun x => key x = n) = xs.find? (fun x => key x = n) := by
  induction xs with
  | nil => rfl
  | cons x rest ih =>
    simp only [List.map_cons, nodup_cons, Bool.and_eq_true, Bool.not_eq_true'] at h
    simp only [List.reverse_cons, List.find?_append, ih h.2, List.find?_cons]
    by_cases hx : key x = n
    · simp only [hx, decide_true]
      have : rest.find? (fun y => key y = n) = none := by
        rw [List.find?_eq_none]
        intro y hy
        simp only [decide_eq_true_eq]
        intro he
        have hc := h.1
        simp only [List.contains_eq_mem, List.mem_map, decide_eq_false_iff_not, not_exists, not_and] at hc
        exact hc y hy (he.trans hx.symm)
      simp [this]
    · simp only [hx, decide_false]
      cases rest.find? (fun y => key y = n) <;> simp

theorem fragLast_eq_first {D : Document} (h : Spec.fragmentNamesUnique D = true) (n : String) :
    Model.fragLast D n = Model.fragFirst D n := by
  unfold Model.fragLast Model.fragFirst
  unfold Spec.fragmentNamesUnique at h
  rw [← fragsOf_names] at h
  exact find_reverse_unique (Model.fragsOf D) (·.name) n h

theorem fragFirst_findFrag (D : Document) (n : String) :
    Spec.findFrag D n = (Model.fragFirst D n).map (fun f => (f.tc, f.sel)) := by
  unfold Spec.findFrag Model.fragFirst
  rw [← fragsOf_map]
  induction Model.fragsOf D with
  | nil => rfl
  | cons f rest ih =>
    simp only [List.map_cons, List.find?_cons]
    by_cases hf : f.name = n
    · simp [hf]
    · simp only [hf, decide_false]
      exact ih

theorem fragFirst_none_iff (D : Document) (n : String) :
    Model.fragFirst D n = none ↔ (Spec.fragNames D).contains n = false := by
  unfold Model.fragFirst
  rw [← fragsOf_names, List.find?_eq_none]
  simp only [decide_eq_true_eq, List.contains_eq_mem, List.mem_map, decide_eq_false_iff_not,
    not_exists, not_and]

/-- §5.5.2.1 and §5.5.2.3 at one occurrence. -/
def spreadOkAt (S : Schema) (D : Document) (o : Occ) : Bool :=
  (match Spec.spreadNameOf o with
   | some n => (Spec.fragNames D).contains n
   | none => true) &&
  (match o with
   | .spread (some p) n _ _ _ =>
     (match Spec.findFrag D n with
      | some (tc, _) =>
        !(Spec.isComposite S p && Spec.isComposite S tc) || Spec.intersects (Spec.possibleTypes S tc) (Spec.possibleTypes S p)
      | none => true)
   | .inline (some p) (some (tc, _)) _ _ =>
     !(Spec.isComposite S p && Spec.isComposite S tc) || Spec.intersects (Spec.possibleTypes S tc) (Spec.possibleTypes S p)
   | _ => true)

theorem spreadOcc_ok {S : Schema} {D : Document} (hu : Spec.fragmentNamesUnique D = true) {o : Occ}
    (hinv : Inv S (occParent o)) : primaryFree (spreadOcc S D o) = spreadOkAt S D o := by
  cases o with
  | field => simp [spreadOcc, spreadOkAt, Spec.spreadNameOf, primaryFree]
  | spread parent n np dirs p =>
    obtain ⟨q, hq, hp⟩ := hinv
    simp only [occParent] at hq
    subst hq
    simp only [spreadOcc, spreadTargetErrors, spreadOkAt, Spec.spreadNameOf, fragLast_eq_first hu, fragFirst_findFrag]
    cases hf : Model.fragFirst D n with
    | none =>
      have := (fragFirst_none_iff D n).1 hf
      simp only [this]
      simp [primaryFree, newError]
    | some f =>
      have : (Spec.fragNames D).contains n = true := by
        cases hc : (Spec.fragNames D).contains n with
        | true => rfl
        | false => rw [← fragFirst_none_iff] at hc; simp [hc] at hf
      simp only [this, Option.map_some, Bool.true_and]
      exact validateSpread_ok hp f.tc f.tcpos
  | inline parent tc dirs p =>
    obtain ⟨q, hq, hp⟩ := hinv
    simp only [occParent] at hq
    subst hq
    cases tc with
    | none => simp [spreadOcc, spreadOkAt, Spec.spreadNameOf, primaryFree]
    | some tp =>
      obtain ⟨t, tpos⟩ := tp
      simp only [spreadOcc, spreadOkAt, Spec.spreadNameOf, Bool.true_and]
      exact validateSpread_ok hp t tpos

theorem all_filterMap {α β : Type} (xs : List α) (f : α → Option β) (p : β → Bool) :
    (xs.filterMap f).all p = xs.all (fun x => match f x with
                                              | some y => p y
                                              | none => true) := by
  induction xs with
  | nil => rfl
  | cons x rest ih =>
    simp only [List.filterMap_cons, List.all_cons]
    cases f x <;> simp [ih]

end ApiFu.C04
