/-
  C04 — lemmas behind the theorems of Props.lean.

  * loops of the model (seen-sets threaded through a list) against the specification's
    `nodup` / `all` formulations;
  * traversals: each pass of the model over a selection set equals a `flatMap` of its callback
    over the specification's occurrences (`Spec.occSel`), for *any* scope where the pass does not
    look at scopes, and under the scoping rules where it does;
  * scoping: under the rules that establish scopes (§5.3.1, §5.3.3, §5.5.1.2, §5.5.1.3 and
    supported operation types) TypeInfo's scope stack (`Model.innerScope`, `inlineScope`,
    `defScope`) and the specification's type-in-scope agree and every scope is a composite type.

  Core Lean only (no Mathlib needed).
-/
import ApiFu.C04.Spec
import ApiFu.C04.Model

namespace ApiFu.C04
open Spec Model
set_option linter.unusedSimpArgs false

theorem nodup_cons (x : String) (xs : List String) :
    Spec.nodup (x :: xs) = (!xs.contains x && Spec.nodup xs) := by
  simp [Spec.nodup]

/-- What the three directive rules say about one directive list at one location. -/
def dirListOk (S : Schema) (loc : String) (dirs : List Directive) : Prop :=
  (∀ d ∈ dirs, (S.findDirective d.name).isSome = true) ∧
  (∀ d ∈ dirs, (match S.findDirective d.name with
                | some dd => dd.locs.contains loc
                | none => true) = true) ∧
  Spec.nodup (dirs.map (·.name)) = true

theorem checkDirectivesFrom_nil (S : Schema) (loc : String) (seen : List String) (dirs : List Directive) :
    checkDirectivesFrom S loc seen dirs = [] ↔
      (dirListOk S loc dirs ∧ ∀ d ∈ dirs, d.name ∉ seen) := by
  induction dirs generalizing seen with
  | nil => simp [checkDirectivesFrom, dirListOk, Spec.nodup]
  | cons d rest ih =>
    simp only [checkDirectivesFrom, List.append_eq_nil_iff, ih]
    unfold dirListOk
    by_cases hs : d.name ∈ seen
    · simp [hs]
    · cases hf : S.findDirective d.name with
      | none => simp [hf]
      | some dd =>
        by_cases hl : dd.locs.contains loc = true
        · simp only [hf, hl, hs, nodup_cons, List.map_cons]
          simp
          grind
        · simp [hf, hl]
          grind


abbrev occLoc := Spec.occLocation

def dirsOcc (S : Schema) (o : Occ) : List Err := checkDirectives S (occLoc o) (occDirs o)

mutual
theorem dirsSel_eq (S : Schema) : ∀ (scope : Option String) (sel : Selection),
    dirsSel S sel = (occSel S scope sel).flatMap (dirsOcc S)
  | scope, .field al n np args dirs none => by
    simp [dirsSel, occSel, dirsOcc, occLoc, Spec.occLocation, occDirs]
  | scope, .field al n np args dirs (some ss) => by
    simp [dirsSel, occSel, dirsOcc, occLoc, Spec.occLocation, occDirs, dirsSet_eq S (fieldScope S scope n) ss]
  | scope, .spread n np dirs p => by
    simp [dirsSel, occSel, dirsOcc, occLoc, Spec.occLocation, occDirs]
  | scope, .inline tc dirs ss p => by
    simp [dirsSel, occSel, dirsOcc, occLoc, Spec.occLocation, occDirs,
      dirsSet_eq S (Spec.inlineScope S scope tc) ss]
theorem dirsSet_eq (S : Schema) : ∀ (scope : Option String) (ss : SelSet),
    dirsSet S ss = (occSet S scope ss).flatMap (dirsOcc S)
  | scope, .mk sels p => by
    simp [dirsSet, occSet, dirsSels_eq S scope sels]
theorem dirsSels_eq (S : Schema) : ∀ (scope : Option String) (sels : List Selection),
    dirsSels S sels = (occSels S scope sels).flatMap (dirsOcc S)
  | scope, [] => by simp [dirsSels, occSels]
  | scope, s :: rest => by
    simp [dirsSels, occSels, dirsSel_eq S scope s, dirsSels_eq S scope rest]
end


/-- The model's directive pass reports nothing iff every directive site of the specification is
    clean. -/
theorem validateDirectives_nil_iff (S : Schema) (D : Document) :
    Model.validateDirectives S D = [] ↔
      ∀ site ∈ Spec.dirSites S D, checkDirectives S site.1 site.2 = [] := by
  unfold Model.validateDirectives Spec.dirSites Spec.selOccs
  simp only [List.flatMap_eq_nil_iff, List.mem_append, List.mem_map, List.mem_flatMap]
  constructor
  · intro h site hs
    rcases hs with ⟨d, hd, rfl⟩ | ⟨o, ⟨d, hd, ho⟩, rfl⟩
    · have := h d hd
      cases d with
      | op kind name vars dirs sel =>
        simp only [List.append_eq_nil_iff] at this; exact this.1
      | frag n np tc tcp dirs sel p =>
        simp only [List.append_eq_nil_iff] at this; exact this.1
    · have := h d hd
      cases d with
      | op kind name vars dirs sel =>
        simp only [List.append_eq_nil_iff] at this
        have h2 := this.2
        rw [dirsSet_eq S (S.root (opKindOf kind)) sel] at h2
        simp only [List.flatMap_eq_nil_iff] at h2
        exact h2 o (by simpa [Spec.occDef] using ho)
      | frag n np tc tcp dirs sel p =>
        simp only [List.append_eq_nil_iff] at this
        have h2 := this.2
        rw [dirsSet_eq S (condScope S tc) sel] at h2
        simp only [List.flatMap_eq_nil_iff] at h2
        exact h2 o (by simpa [Spec.occDef] using ho)
  · intro h d hd
    cases d with
    | op kind name vars dirs sel =>
      simp only [List.append_eq_nil_iff]
      refine ⟨h _ (Or.inl ⟨_, hd, rfl⟩), ?_⟩
      rw [dirsSet_eq S (S.root (opKindOf kind)) sel]
      simp only [List.flatMap_eq_nil_iff]
      intro o ho
      exact h (occLoc o, occDirs o) (Or.inr ⟨o, ⟨_, hd, by simpa [Spec.occDef] using ho⟩, rfl⟩)
    | frag n np tc tcp dirs sel p =>
      simp only [List.append_eq_nil_iff]
      refine ⟨h _ (Or.inl ⟨_, hd, rfl⟩), ?_⟩
      rw [dirsSet_eq S (condScope S tc) sel]
      simp only [List.flatMap_eq_nil_iff]
      intro o ho
      exact h (occLoc o, occDirs o) (Or.inr ⟨o, ⟨_, hd, by simpa [Spec.occDef] using ho⟩, rfl⟩)

theorem checkDirectives_nil (S : Schema) (loc : String) (dirs : List Directive) :
    checkDirectives S loc dirs = [] ↔ dirListOk S loc dirs := by
  simp [checkDirectives, checkDirectivesFrom_nil]

/-! ## Schema well-formedness used by the scoping lemmas (guaranteed by `schema.New`: names that
    start with `__` are reserved, `String` is the built-in scalar, roots are object types) -/

def fieldsNoTypename (fs : List FieldDef) : Bool := (findField fs "__typename").isNone

def typeNoTypename (t : TypeDef) : Bool :=
  match t.kind with
  | .object fs _ => fieldsNoTypename fs
  | .interface fs => fieldsNoTypename fs
  | _ => true

def rootOk (S : Schema) (r : Option String) : Bool :=
  match r with
  | none => true
  | some n => Spec.isComposite S n

/-- Decidable well-formedness of a schema description. -/
def Schema.wf (S : Schema) : Bool :=
  S.types.all typeNoTypename && fieldsNoTypename S.metaFields && !Spec.isComposite S "String" &&
  Spec.isComposite S S.query && rootOk S S.mutation && rootOk S S.subscription

theorem find_name {S : Schema} {n : String} {t : TypeDef} (h : S.find n = some t) : t.name = n := by
  unfold Schema.find at h
  have := List.find?_some h
  simpa using this

theorem find_mem {S : Schema} {n : String} {t : TypeDef} (h : S.find n = some t) : t ∈ S.types := by
  unfold Schema.find at h
  exact List.mem_of_find?_eq_some h

theorem kindOf_eq (S : Schema) (n : String) : Model.kindOf S n = Spec.kindOf S n := rfl

/-- For a composite parent the model's TypeInfo entry and the specification's field lookup agree,
    except that TypeInfo has no entry for `__typename`. -/
theorem fieldDef_agree {S : Schema} (_hwf : S.wf = true) {p : String} (hp : Spec.isComposite S p = true)
    (n : String) :
    Spec.fieldDef? S p n =
      if n = "__typename" then some Spec.typenameField else Model.fieldDefinition S (some p) n := by
  unfold Spec.isComposite at hp
  unfold Spec.fieldDef? Model.fieldDefinition
  simp only [kindOf_eq]
  cases hk : Spec.kindOf S p with
  | none => simp [hk] at hp
  | some k =>
    cases k with
    | object fs ifs =>
      by_cases hn : n = "__typename"
      · simp [hn]
      · simp only [hn, if_false]
        cases findField fs n <;> simp
    | interface fs =>
      by_cases hn : n = "__typename" <;> simp [hn]
    | union ms =>
      by_cases hn : n = "__typename" <;> simp [hn]
    | scalar sp => simp [hk, TypeKind.isComposite] at hp
    | enum vs => simp [hk, TypeKind.isComposite] at hp
    | input fs => simp [hk, TypeKind.isComposite] at hp

/-- TypeInfo never has an entry for `__typename` (no type defines a field of that name). -/
theorem fieldDefinition_typename {S : Schema} (hwf : S.wf = true) (scope : Option String) :
    Model.fieldDefinition S scope "__typename" = none := by
  unfold Schema.wf at hwf
  simp only [Bool.and_eq_true, List.all_eq_true] at hwf
  obtain ⟨⟨⟨⟨⟨hall, hmeta⟩, _⟩, _⟩, _⟩, _⟩ := hwf
  unfold Model.fieldDefinition
  cases scope with
  | none => rfl
  | some p =>
    simp only
    unfold Model.kindOf
    cases hf : S.find p with
    | none => simp
    | some t =>
      have ht := hall t (find_mem hf)
      unfold typeNoTypename at ht
      simp only [Option.map_some]
      cases hk : t.kind with
      | object fs ifs =>
        simp only [hk, fieldsNoTypename, Option.isNone_iff_eq_none] at ht
        simp only [fieldsNoTypename, Option.isNone_iff_eq_none] at hmeta
        simp [ht, hmeta]
      | interface fs =>
        simp only [hk, fieldsNoTypename, Option.isNone_iff_eq_none] at ht
        simp [ht]
      | union ms => simp
      | scalar sp => simp
      | enum vs => simp
      | input fs => simp

/-! ## Occurrences with the model's scoping (TypeInfo's scope stack as an inherited attribute) -/

mutual
def moccSel (S : Schema) (scope : Option String) : Selection → List Occ
  | .field al n np args dirs sel =>
    .field scope al n np args dirs sel ::
      (match sel with
       | none => []
       | some ss => moccSet S (Model.innerScope S scope n) ss)
  | .spread n np dirs p => [.spread scope n np dirs p]
  | .inline tc dirs ss p => .inline scope tc dirs p :: moccSet S (Model.inlineScope S scope tc) ss
def moccSet (S : Schema) (scope : Option String) : SelSet → List Occ
  | .mk sels _ => moccSels S scope sels
def moccSels (S : Schema) (scope : Option String) : List Selection → List Occ
  | [] => []
  | s :: rest => moccSel S scope s ++ moccSels S scope rest
end

/-- The scoping rules (§5.3.1, §5.3.3, §5.5.1.2, §5.5.1.3) at one occurrence. -/
def scopedAt (S : Schema) (o : Occ) : Bool :=
  fieldDefinedAt S o && leafOkAt S o && condExistsAt S o && condCompositeAt S o

/-- The type in scope is a composite type of the schema. -/
def Inv (S : Schema) (scope : Option String) : Prop :=
  ∃ p, scope = some p ∧ Spec.isComposite S p = true

theorem namedType_eq_condScope (S : Schema) (t : String) : Model.namedType S t = Spec.condScope S t := by
  unfold Model.namedType Spec.condScope
  cases h : S.find t with
  | none => simp
  | some td => simp [find_name h]

theorem wf_string {S : Schema} (hwf : S.wf = true) : Spec.isComposite S "String" = false := by
  unfold Schema.wf at hwf
  simp only [Bool.and_eq_true] at hwf
  simpa using hwf.1.1.1.2

/-- What the scoping rules say at a field with a sub-selection, under a composite parent: the
    field is defined (and not `__typename`), TypeInfo has the same definition, and the field's
    unwrapped type is composite. -/
theorem field_with_sel {S : Schema} (hwf : S.wf = true) {p : String} (hp : Spec.isComposite S p = true)
    {al : Option (String × Pos)} {n : String} {np : Pos} {args : List Argument} {dirs : List Directive}
    {ss : SelSet} (h : scopedAt S (.field (some p) al n np args dirs (some ss)) = true) :
    ∃ d, Model.fieldDefinition S (some p) n = some d ∧ Spec.fieldDef? S p n = some d ∧
      Spec.isComposite S d.type.base = true := by
  unfold scopedAt at h
  simp only [Bool.and_eq_true, fieldDefinedAt, leafOkAt, condExistsAt, condCompositeAt, hp,
    Bool.not_true, Bool.false_or] at h
  obtain ⟨⟨⟨hdef, hleaf⟩, _⟩, _⟩ := h
  cases hd : Spec.fieldDef? S p n with
  | none => simp [hd] at hdef
  | some d =>
    simp only [hd] at hleaf
    by_cases hc : Spec.isComposite S d.type.base = true
    · refine ⟨d, ?_, rfl, hc⟩
      have hagree := fieldDef_agree hwf hp n
      rw [hd] at hagree
      by_cases hn : n = "__typename"
      · subst hn
        simp only [if_true, Option.some.injEq] at hagree
        subst hagree
        simp [Spec.typenameField, TRef.base, wf_string hwf] at hc
      · simp only [hn, if_false] at hagree
        exact hagree.symm
    · simp [hc] at hleaf

mutual
theorem mocc_sel_eq {S : Schema} (hwf : S.wf = true) : ∀ (scope : Option String) (sel : Selection),
    Inv S scope → (occSel S scope sel).all (scopedAt S) = true → moccSel S scope sel = occSel S scope sel
  | scope, .field al n np args dirs none, _, _ => by simp [moccSel, occSel]
  | scope, .field al n np args dirs (some ss), hinv, h => by
    obtain ⟨p, rfl, hp⟩ := hinv
    simp only [occSel, List.all_cons, Bool.and_eq_true] at h
    obtain ⟨d, hm, hs, hc⟩ := field_with_sel hwf hp h.1
    have e1 : Model.innerScope S (some p) n = some d.type.base := by simp [Model.innerScope, hm]
    have e2 : Spec.fieldScope S (some p) n = some d.type.base := by simp [Spec.fieldScope, hs]
    simp only [moccSel, occSel, e1, e2]
    rw [mocc_set_eq hwf (some d.type.base) ss ⟨_, rfl, hc⟩ (by simpa [e2] using h.2)]
  | scope, .spread n np dirs p, _, _ => by simp [moccSel, occSel]
  | scope, .inline none dirs ss p, hinv, h => by
    simp only [occSel, List.all_cons, Bool.and_eq_true] at h
    simp only [moccSel, occSel, Model.inlineScope, Spec.inlineScope]
    rw [mocc_set_eq hwf scope ss hinv (by simpa [Spec.inlineScope] using h.2)]
  | scope, .inline (some (t, tp)) dirs ss p, hinv, h => by
    simp only [occSel, List.all_cons, Bool.and_eq_true] at h
    have h1 := h.1
    simp only [scopedAt, Bool.and_eq_true, condExistsAt, condCompositeAt, fieldDefinedAt, leafOkAt] at h1
    obtain ⟨⟨_, hex⟩, hco⟩ := h1
    have hco' : Spec.isComposite S t = true := by
      cases hf : S.find t with
      | none => simp [hf] at hex
      | some td => simpa [hf] using hco
    have e : Spec.condScope S t = some t := by simp [Spec.condScope, hex]
    simp only [moccSel, occSel, Model.inlineScope, Spec.inlineScope, namedType_eq_condScope, e]
    rw [mocc_set_eq hwf (some t) ss ⟨_, rfl, hco'⟩ (by simpa [Spec.inlineScope, e] using h.2)]
theorem mocc_set_eq {S : Schema} (hwf : S.wf = true) : ∀ (scope : Option String) (ss : SelSet),
    Inv S scope → (occSet S scope ss).all (scopedAt S) = true → moccSet S scope ss = occSet S scope ss
  | scope, .mk sels p, hinv, h => by
    simp only [moccSet, occSet] at *
    exact mocc_sels_eq hwf scope sels hinv h
theorem mocc_sels_eq {S : Schema} (hwf : S.wf = true) : ∀ (scope : Option String) (sels : List Selection),
    Inv S scope → (occSels S scope sels).all (scopedAt S) = true → moccSels S scope sels = occSels S scope sels
  | scope, [], _, _ => by simp [moccSels, occSels]
  | scope, s :: rest, hinv, h => by
    simp only [occSels, List.all_append, Bool.and_eq_true] at h
    simp only [moccSels, occSels]
    rw [mocc_sel_eq hwf scope s hinv h.1, mocc_sels_eq hwf scope rest hinv h.2]
end


/-! ## Fields group: existence and leaf/composite (validate_fields.go, first pass) -/

/-- No primary error. -/
def primaryFree (es : List Err) : Bool := es.all (·.secondary)

theorem primaryFree_append (a b : List Err) : primaryFree (a ++ b) = (primaryFree a && primaryFree b) := by
  simp [primaryFree, List.all_append]

theorem primaryFree_nil : primaryFree [] = true := rfl

/-- §5.3.1 and §5.3.3 at one occurrence. -/
def fieldOkAt (S : Schema) (o : Occ) : Bool := fieldDefinedAt S o && leafOkAt S o

/-- The rules about type conditions at one occurrence. -/
def condOkAt (S : Schema) (o : Occ) : Bool := condExistsAt S o && condCompositeAt S o

theorem isCompositeName_eq (S : Schema) (n : String) : Model.isCompositeName S n = Spec.isComposite S n := rfl

/-- Under a composite parent, "does not exist" is reported exactly for fields other than
    `__typename` that TypeInfo has no definition for. -/
theorem missingField_nil {S : Schema} {p : String} (hp : Spec.isComposite S p = true) (n : String) (np : Pos) :
    (missingFieldErrors S (some p) n np = [] ↔ (n = "__typename" ∨ (Model.fieldDefinition S (some p) n).isSome = true)) ∧
    primaryFree (missingFieldErrors S (some p) n np) = (missingFieldErrors S (some p) n np).isEmpty := by
  unfold Spec.isComposite at hp
  unfold missingFieldErrors Model.fieldDefinition
  have hk : Model.kindOf S p = Spec.kindOf S p := rfl
  simp only [hk]
  by_cases hn : n = "__typename"
  · simp [hn, primaryFree]
  · cases hkk : Spec.kindOf S p with
    | none => simp [hkk] at hp
    | some k =>
      cases k with
      | object fs ifs =>
        cases hff : findField fs n with
        | some d => simp [hn, hff, primaryFree]
        | none =>
          by_cases hq : p = S.query
          · cases hm : findField S.metaFields n <;> simp [hn, hff, hq, hm, primaryFree, newError]
          · simp [hn, hff, hq, primaryFree, newError]
      | interface fs =>
        cases hff : findField fs n <;> simp [hn, hff, primaryFree, newError]
      | union ms => simp [hn, primaryFree, newError]
      | scalar sp => simp [hkk, TypeKind.isComposite] at hp
      | enum vs => simp [hkk, TypeKind.isComposite] at hp
      | input fs => simp [hkk, TypeKind.isComposite] at hp

theorem subselection_ok (should : Bool) (n : String) (fp : Pos) (sel : Option SelSet) :
    primaryFree (subselectionErrors should n fp sel) =
      (if should then Spec.hasSubselection sel else sel.isNone) := by
  unfold subselectionErrors Spec.hasSubselection
  cases should
  · cases sel <;> simp [primaryFree, newError]
  · cases sel with
    | none => simp [primaryFree, newError]
    | some ss => by_cases he : ss.sels.isEmpty = true <;> simp [he, primaryFree, newError]

/-- The callback of the first pass at one field node, under a composite parent, reports a primary
    error exactly when §5.3.1 or §5.3.3 is violated there. -/
theorem fieldNode_ok {S : Schema} (hwf : S.wf = true) {p : String} (hp : Spec.isComposite S p = true)
    (al : Option (String × Pos)) (n : String) (np : Pos) (args : List Argument) (dirs : List Directive)
    (sel : Option SelSet) :
    primaryFree (fieldNodeErrors S (some p) al n np sel) =
      fieldOkAt S (.field (some p) al n np args dirs sel) := by
  have hagree := fieldDef_agree hwf hp n
  have htn := fieldDefinition_typename hwf (some p)
  obtain ⟨hmiss, hmp⟩ := missingField_nil hp n np
  unfold fieldOkAt fieldDefinedAt leafOkAt
  simp only [hp, Bool.not_true, Bool.false_or]
  unfold fieldNodeErrors
  simp only [primaryFree_append, hmp, isCompositeName_eq]
  by_cases hn : n = "__typename"
  · subst hn
    simp only [if_true] at hagree
    have hm : missingFieldErrors S (some p) "__typename" np = [] := hmiss.2 (Or.inl rfl)
    simp only [hagree, htn, hm, Spec.typenameField, TRef.base, wf_string hwf]
    simpa [primaryFree] using subselection_ok false "__typename" (fieldPos al np) sel
  · simp only [hn, if_false] at hagree
    rw [hagree]
    cases hd : Model.fieldDefinition S (some p) n with
    | none =>
      have hm : missingFieldErrors S (some p) n np ≠ [] := by
        intro h
        have := hmiss.1 h
        simp [hn, hd] at this
      cases hmm : missingFieldErrors S (some p) n np with
      | nil => exact absurd hmm hm
      | cons e es => simp [primaryFree, newSecondaryError, hn]
    | some d =>
      have hm : missingFieldErrors S (some p) n np = [] := hmiss.2 (Or.inr (by simp [hd]))
      simp only [hm]
      simpa [primaryFree] using subselection_ok (Spec.isComposite S d.type.base) n (fieldPos al np) sel


theorem scopedAt_field {S : Schema} {o : Occ} (h1 : fieldOkAt S o = true) (h2 : condOkAt S o = true) :
    scopedAt S o = true := by
  unfold fieldOkAt at h1; unfold condOkAt at h2; unfold scopedAt
  simp only [Bool.and_eq_true] at *
  exact ⟨⟨⟨h1.1, h1.2⟩, h2.1⟩, h2.2⟩

/-- What the type-condition rules give at an inline fragment: both scopings agree on the scope of
    its selection set, and that scope is composite again. -/
theorem inline_scope {S : Schema} {scope : Option String} (hinv : Inv S scope)
    {tc : Option (String × Pos)} {dirs : List Directive} {p : Pos}
    (h : condOkAt S (.inline scope tc dirs p) = true) :
    Model.inlineScope S scope tc = Spec.inlineScope S scope tc ∧ Inv S (Spec.inlineScope S scope tc) := by
  cases tc with
  | none => exact ⟨rfl, hinv⟩
  | some tp =>
    obtain ⟨t, tpos⟩ := tp
    simp only [condOkAt, condExistsAt, condCompositeAt, Bool.and_eq_true] at h
    obtain ⟨hex, hco⟩ := h
    have hco' : Spec.isComposite S t = true := by
      cases hf : S.find t with
      | none => simp [hf] at hex
      | some td => simpa [hf] using hco
    have e : Spec.condScope S t = some t := by simp [Spec.condScope, hex]
    simp only [Model.inlineScope, Spec.inlineScope, namedType_eq_condScope, e]
    exact ⟨trivial, t, rfl, hco'⟩

mutual
theorem fields1_sel_ok {S : Schema} (hwf : S.wf = true) : ∀ (scope : Option String) (sel : Selection),
    Inv S scope → (occSel S scope sel).all (condOkAt S) = true →
    primaryFree (fields1Sel S scope sel) = (occSel S scope sel).all (fieldOkAt S)
  | scope, .field al n np args dirs none, hinv, _ => by
    obtain ⟨p, rfl, hp⟩ := hinv
    simp [fields1Sel, occSel, fieldNode_ok hwf hp al n np args dirs none]
  | scope, .field al n np args dirs (some ss), hinv, h => by
    obtain ⟨p, rfl, hp⟩ := hinv
    simp only [occSel, List.all_cons, Bool.and_eq_true] at h
    simp only [fields1Sel, occSel, List.all_cons, primaryFree_append,
      fieldNode_ok hwf hp al n np args dirs (some ss)]
    cases hb : fieldOkAt S (.field (some p) al n np args dirs (some ss)) with
    | false => simp
    | true =>
      obtain ⟨d, hm, hs, hc⟩ := field_with_sel hwf hp (scopedAt_field hb h.1)
      have e1 : Model.innerScope S (some p) n = some d.type.base := by simp [Model.innerScope, hm]
      have e2 : Spec.fieldScope S (some p) n = some d.type.base := by simp [Spec.fieldScope, hs]
      simp only [e1, e2, Bool.true_and]
      exact fields1_set_ok hwf (some d.type.base) ss ⟨_, rfl, hc⟩ (by simpa [e2] using h.2)
  | scope, .spread n np dirs p, _, _ => by
    simp [fields1Sel, occSel, primaryFree, fieldOkAt, fieldDefinedAt, leafOkAt]
  | scope, .inline tc dirs ss p, hinv, h => by
    simp only [occSel, List.all_cons, Bool.and_eq_true] at h
    obtain ⟨e, hinv'⟩ := inline_scope hinv h.1
    simp only [fields1Sel, occSel, List.all_cons, e]
    rw [fields1_set_ok hwf _ ss hinv' h.2]
    simp [fieldOkAt, fieldDefinedAt, leafOkAt]
theorem fields1_set_ok {S : Schema} (hwf : S.wf = true) : ∀ (scope : Option String) (ss : SelSet),
    Inv S scope → (occSet S scope ss).all (condOkAt S) = true →
    primaryFree (fields1Set S scope ss) = (occSet S scope ss).all (fieldOkAt S)
  | scope, .mk sels p, hinv, h => by
    simp only [fields1Set, occSet] at *
    exact fields1_sels_ok hwf scope sels hinv h
theorem fields1_sels_ok {S : Schema} (hwf : S.wf = true) : ∀ (scope : Option String) (sels : List Selection),
    Inv S scope → (occSels S scope sels).all (condOkAt S) = true →
    primaryFree (fields1Sels S scope sels) = (occSels S scope sels).all (fieldOkAt S)
  | scope, [], _, _ => by simp [fields1Sels, occSels, primaryFree]
  | scope, s :: rest, hinv, h => by
    simp only [occSels, List.all_append, Bool.and_eq_true] at h
    simp only [fields1Sels, occSels, List.all_append, primaryFree_append]
    rw [fields1_sel_ok hwf scope s hinv h.1, fields1_sels_ok hwf scope rest hinv h.2]
end


/-! ## From definitions to the document -/

def specDefScope (S : Schema) : Definition → Option String
  | .op kind _ _ _ _ => S.root (opKindOf kind)
  | .frag _ _ tc _ _ _ _ => Spec.condScope S tc

theorem occDef_eq (S : Schema) (d : Definition) : Spec.occDef S d = occSet S (specDefScope S d) (Model.defSel d) := by
  cases d <;> rfl

theorem all_flatMap {α β : Type} (xs : List α) (f : α → List β) (p : β → Bool) :
    (xs.flatMap f).all p = xs.all (fun x => (f x).all p) := by
  induction xs with
  | nil => rfl
  | cons x rest ih => simp [List.flatMap_cons, List.all_append, ih]

theorem all_and {α : Type} (xs : List α) (p q : α → Bool) :
    (xs.all p && xs.all q) = xs.all (fun x => p x && q x) := by
  induction xs with
  | nil => rfl
  | cons x rest ih =>
    simp only [List.all_cons, ← ih]
    cases p x <;> cases q x <;> simp
    all_goals (cases List.all rest p <;> simp)

theorem all_congr_mem {α : Type} (xs : List α) (p q : α → Bool) (h : ∀ x ∈ xs, p x = q x) :
    xs.all p = xs.all q := by
  induction xs with
  | nil => rfl
  | cons x rest ih =>
    simp only [List.all_cons]
    rw [h x (by simp), ih (fun y hy => h y (by simp [hy]))]

theorem wf_root {S : Schema} (hwf : S.wf = true) {k : OpKind} {r : String} (h : S.root k = some r) :
    Spec.isComposite S r = true := by
  unfold Schema.wf at hwf
  simp only [Bool.and_eq_true] at hwf
  obtain ⟨⟨⟨_, hq⟩, hm⟩, hs⟩ := hwf
  cases k with
  | query => simp [Schema.root] at h; subst h; exact hq
  | mutation => simp [Schema.root] at h; simpa [rootOk, h] using hm
  | subscription => simp [Schema.root] at h; simpa [rootOk, h] using hs

theorem mem_fragDefs {D : Document} {n : String} {np : Pos} {tc : String} {tcp : Pos} {dirs : List Directive}
    {sel : SelSet} {p : Pos} (h : Definition.frag n np tc tcp dirs sel p ∈ D) : (n, tc, sel) ∈ Spec.fragDefs D := by
  unfold Spec.fragDefs
  simp only [List.mem_filterMap]
  exact ⟨_, h, rfl⟩

/-- The rules that establish the scope of a definition's selection set. -/
structure ScopeRules (S : Schema) (D : Document) : Prop where
  wf : S.wf = true
  ops : Spec.opTypeSupported S D = true
  typesExist : Spec.fragmentTypesExist S D = true
  onComposite : Spec.fragmentsOnComposite S D = true

theorem def_scope {S : Schema} {D : Document} (h : ScopeRules S D) {d : Definition} (hd : d ∈ D) :
    Model.defScope S d = specDefScope S d ∧ Inv S (specDefScope S d) ∧
      (Spec.occDef S d).all (condOkAt S) = true := by
  have hte := h.typesExist
  have hco := h.onComposite
  simp only [Spec.fragmentTypesExist, Spec.fragmentsOnComposite, Bool.and_eq_true, Spec.selOccs,
    all_flatMap, List.all_eq_true] at hte hco
  have hcond : (Spec.occDef S d).all (condOkAt S) = true := by
    have a := hte.2 d hd
    have b := hco.2 d hd
    simp only [List.all_eq_true] at a b ⊢
    intro o ho
    simp [condOkAt, a o ho, b o ho]
  refine ⟨?_, ?_, hcond⟩
  · cases d with
    | op kind name vars dirs sel => rfl
    | frag n np tc tcp dirs sel p => exact namedType_eq_condScope S tc
  · cases d with
    | op kind name vars dirs sel =>
      have := h.ops
      simp only [Spec.opTypeSupported, List.all_eq_true] at this
      have hs := this _ hd
      simp only [Spec.opSupportedAt] at hs
      cases hr : S.root (opKindOf kind) with
      | none => simp [hr] at hs
      | some r => exact ⟨r, by simp [specDefScope, hr], wf_root h.wf hr⟩
    | frag n np tc tcp dirs sel p =>
      have hm := mem_fragDefs hd
      have a := hte.1 _ hm
      have b := hco.1 _ hm
      simp only at a b
      have hc : Spec.isComposite S tc = true := by
        cases hf : S.find tc with
        | none => simp [hf] at a
        | some td => simpa [hf] using b
      exact ⟨tc, by simp [specDefScope, Spec.condScope, a], hc⟩

theorem primaryFree_flatMap {α : Type} (xs : List α) (f : α → List Err) :
    primaryFree (xs.flatMap f) = xs.all (fun x => primaryFree (f x)) := by
  unfold primaryFree
  exact all_flatMap xs f _

/-! ## Arguments: one argument list -/

def known (defs : List InputDef) (a : Argument) : Bool := (findInput defs a.name).isSome

theorem argumentLoopErrors_nil (defs : List InputDef) (byName args : List Argument) :
    argumentLoopErrors defs byName args = [] ↔
      ((∀ a ∈ args, known defs a = true) ∧ (∀ a ∈ args, ∀ x ∈ byName, x.name ≠ a.name) ∧
        Spec.nodup (args.map (·.name)) = true) := by
  induction args generalizing byName with
  | nil => simp [argumentLoopErrors, Spec.nodup]
  | cons a rest ih =>
    unfold argumentLoopErrors
    cases hf : findInput defs a.name with
    | none => simp [known, hf]
    | some d =>
      by_cases hb : (byName.any fun x => x.name = a.name) = true
      · rw [if_pos hb]
        simp only [List.any_eq_true, decide_eq_true_eq] at hb
        obtain ⟨x, hx, hxe⟩ := hb
        constructor
        · intro h; simp at h
        · rintro ⟨_, h2, _⟩
          exact absurd hxe (h2 a (by simp) x hx)
      · rw [if_neg hb, ih]
        simp only [List.any_eq_true, decide_eq_true_eq, not_exists, not_and] at hb
        simp only [nodup_cons, List.map_cons, Bool.and_eq_true, Bool.not_eq_true', List.mem_cons,
          forall_eq_or_imp, List.mem_append, List.mem_singleton, List.not_mem_nil, or_false]
        have hk : known defs a = true := by simp [known, hf]
        constructor
        · rintro ⟨h1, h2, h3⟩
          refine ⟨⟨hk, h1⟩, ⟨fun x hx => hb x hx, fun b hb' x hx => h2 b hb' x (Or.inl hx)⟩, ?_, h3⟩
          simp only [List.contains_eq_mem, List.mem_map, decide_eq_false_iff_not, not_exists, not_and]
          intro b hb' he
          exact h2 b hb' a (Or.inr rfl) he.symm
        · rintro ⟨⟨_, h1⟩, ⟨_, h2⟩, h3, h4⟩
          refine ⟨h1, ?_, h4⟩
          intro b hb' x hx
          rcases hx with hx | hx
          · exact h2 b hb' x hx
          · subst hx
            simp only [List.contains_eq_mem, List.mem_map, decide_eq_false_iff_not, not_exists, not_and] at h3
            exact fun he => h3 b hb' he.symm

theorem argumentLoopErrors_primary (defs : List InputDef) (byName args : List Argument) :
    primaryFree (argumentLoopErrors defs byName args) = (argumentLoopErrors defs byName args).isEmpty := by
  induction args generalizing byName with
  | nil => simp [argumentLoopErrors, primaryFree]
  | cons a rest ih =>
    unfold argumentLoopErrors
    cases hf : findInput defs a.name with
    | none => simp [primaryFree, newError]
    | some d =>
      by_cases hb : (byName.any fun x => x.name = a.name) = true
      · simp [hb, primaryFree, newError]
      · simp only [hb]; exact ih _

/-- `argumentsByName` holds exactly the names of the accumulator and of the defined arguments. -/
theorem mem_argumentsByName (defs : List InputDef) (byName args : List Argument) (n : String) :
    (∃ x ∈ argumentsByName defs byName args, x.name = n) ↔
      ((∃ x ∈ byName, x.name = n) ∨ (∃ a ∈ args, a.name = n ∧ known defs a = true)) := by
  induction args generalizing byName with
  | nil => simp [argumentsByName]
  | cons a rest ih =>
    unfold argumentsByName
    cases hf : findInput defs a.name with
    | none =>
      have hk : known defs a = false := by simp [known, hf]
      simp only [ih, List.mem_cons, exists_eq_or_imp, hk]
      simp
    | some d =>
      have hk : known defs a = true := by simp [known, hf]
      by_cases hb : (byName.any fun x => x.name = a.name) = true
      · rw [if_pos hb, ih]
        simp only [List.any_eq_true, decide_eq_true_eq] at hb
        obtain ⟨x, hx, hxe⟩ := hb
        simp only [List.mem_cons, exists_eq_or_imp, hk, and_true]
        constructor
        · rintro (h | h)
          · exact Or.inl h
          · exact Or.inr (Or.inr h)
        · rintro (h | h | h)
          · exact Or.inl h
          · exact Or.inl ⟨x, hx, hxe.trans h⟩
          · exact Or.inr h
      · rw [if_neg hb, ih]
        simp only [List.mem_cons, exists_eq_or_imp, hk, and_true, List.mem_append, List.mem_singleton,
          List.not_mem_nil, or_false]
        constructor
        · rintro (⟨x, hx | hx, hn⟩ | h)
          · exact Or.inl ⟨x, hx, hn⟩
          · subst hx; exact Or.inr (Or.inl hn)
          · exact Or.inr (Or.inr h)
        · rintro (⟨x, hx, hn⟩ | h | h)
          · exact Or.inl ⟨x, Or.inl hx, hn⟩
          · exact Or.inl ⟨a, Or.inr rfl, h⟩
          · exact Or.inr h

theorem findInput_name {defs : List InputDef} {n : String} {d : InputDef} (h : findInput defs n = some d) :
    d.name = n := by
  unfold findInput at h
  simpa using List.find?_some h

theorem findInput_self {defs : List InputDef} {d : InputDef} (h : d ∈ defs) : (findInput defs d.name).isSome = true := by
  unfold findInput
  rw [List.find?_isSome]
  exact ⟨d, h, by simp⟩

def siteOk (s : ArgSite) : Bool := argsKnownAt s && argsUniqueAt s && argsRequiredAt s

theorem requiredErrors_primary (pos : Pos) (byName : List Argument) (defs : List InputDef) :
    primaryFree (requiredErrors pos byName defs) =
      defs.all (fun d => !(d.type.isNonNull && d.dflt = .none) || byName.any (fun a => a.name = d.name)) := by
  unfold requiredErrors
  rw [primaryFree_flatMap]
  apply all_congr_mem
  intro d _
  by_cases hr : (d.type.isNonNull && d.dflt = .none) = true
  · simp only [hr, if_true, Bool.not_true, Bool.false_or]
    cases hfind : byName.find? (fun x => x.name = d.name) with
    | none =>
      have : (byName.any fun a => a.name = d.name) = false := by
        rw [List.find?_eq_none] at hfind
        simp at hfind ⊢
        exact hfind
      simp [this, primaryFree, newError]
    | some a =>
      have hmem := List.mem_of_find?_eq_some hfind
      have hp := List.find?_some hfind
      have : (byName.any fun a => a.name = d.name) = true := by
        simp; exact ⟨a, hmem, by simpa using hp⟩
      by_cases hnull : a.value.isNull = true <;> simp [this, hnull, primaryFree, newSecondaryError]
  · simp [hr, primaryFree]

/-- One argument list: the callback reports a primary error exactly when §5.4.1, §5.4.2 or
    §5.4.2.1 is violated for it. -/
theorem checkArguments_ok (pos : Pos) (args : List Argument) (defs : List InputDef) :
    primaryFree (checkArguments pos args defs) = siteOk { defs := defs, args := args } := by
  unfold checkArguments siteOk argsKnownAt argsUniqueAt argsRequiredAt
  by_cases he : (args.isEmpty && defs.isEmpty) = true
  · simp only [he, if_true]
    simp at he
    simp [he.1, he.2, primaryFree, Spec.nodup]
  · rw [if_neg he]
    rw [primaryFree_append, argumentLoopErrors_primary, requiredErrors_primary]
    have h1 : (argumentLoopErrors defs [] args).isEmpty =
        (args.all (fun a => (findInput defs a.name).isSome) && Spec.nodup (args.map (·.name))) := by
      rw [Bool.eq_iff_iff]
      simp only [List.isEmpty_iff, argumentLoopErrors_nil, Bool.and_eq_true, List.all_eq_true, known]
      simp
    have h2 : defs.all (fun d => !(d.type.isNonNull && d.dflt = .none) ||
          (argumentsByName defs [] args).any (fun a => a.name = d.name)) =
        defs.all (fun d => !(d.type.isNonNull && d.dflt = .none) || args.any (fun a => a.name = d.name)) := by
      apply all_congr_mem
      intro d hd
      congr 1
      rw [Bool.eq_iff_iff]
      simp only [List.any_eq_true, decide_eq_true_eq]
      have := mem_argumentsByName defs [] args d.name
      simp only [List.not_mem_nil, false_and, exists_false, false_or] at this
      rw [this]
      constructor
      · rintro ⟨a, ha, hn, _⟩; exact ⟨a, ha, hn⟩
      · rintro ⟨a, ha, hn⟩
        refine ⟨a, ha, hn, ?_⟩
        unfold known
        rw [hn]
        exact findInput_self hd
    rw [h1, h2]


/-! ## Every occurrence below a composite scope has a composite parent (under the scoping rules) -/

def occParent : Occ → Option String
  | .field p .. => p
  | .spread p .. => p
  | .inline p .. => p

mutual
theorem occ_parents_sel {S : Schema} (hwf : S.wf = true) : ∀ (scope : Option String) (sel : Selection),
    Inv S scope → (occSel S scope sel).all (scopedAt S) = true →
    ∀ o ∈ occSel S scope sel, Inv S (occParent o)
  | scope, .field al n np args dirs none, hinv, _ => by
    intro o ho
    simp only [occSel, List.mem_singleton] at ho
    subst ho; exact hinv
  | scope, .field al n np args dirs (some ss), hinv, h => by
    obtain ⟨p, rfl, hp⟩ := hinv
    simp only [occSel, List.all_cons, Bool.and_eq_true] at h
    obtain ⟨d, _, hs, hc⟩ := field_with_sel hwf hp h.1
    have e2 : Spec.fieldScope S (some p) n = some d.type.base := by simp [Spec.fieldScope, hs]
    intro o ho
    simp only [occSel, List.mem_cons] at ho
    rcases ho with rfl | ho
    · exact ⟨p, rfl, hp⟩
    · rw [e2] at ho
      exact occ_parents_set hwf (some d.type.base) ss ⟨_, rfl, hc⟩ (by simpa [e2] using h.2) o ho
  | scope, .spread n np dirs p, hinv, _ => by
    intro o ho
    simp only [occSel, List.mem_singleton] at ho
    subst ho; exact hinv
  | scope, .inline tc dirs ss p, hinv, h => by
    simp only [occSel, List.all_cons, Bool.and_eq_true] at h
    have hc : condOkAt S (.inline scope tc dirs p) = true := by
      have := h.1
      simp only [scopedAt, Bool.and_eq_true] at this
      simp [condOkAt, this.1.2, this.2]
    obtain ⟨_, hinv'⟩ := inline_scope hinv hc
    intro o ho
    simp only [occSel, List.mem_cons] at ho
    rcases ho with rfl | ho
    · exact hinv
    · exact occ_parents_set hwf _ ss hinv' h.2 o ho
theorem occ_parents_set {S : Schema} (hwf : S.wf = true) : ∀ (scope : Option String) (ss : SelSet),
    Inv S scope → (occSet S scope ss).all (scopedAt S) = true →
    ∀ o ∈ occSet S scope ss, Inv S (occParent o)
  | scope, .mk sels p, hinv, h => by
    simp only [occSet] at *
    exact occ_parents_sels hwf scope sels hinv h
theorem occ_parents_sels {S : Schema} (hwf : S.wf = true) : ∀ (scope : Option String) (sels : List Selection),
    Inv S scope → (occSels S scope sels).all (scopedAt S) = true →
    ∀ o ∈ occSels S scope sels, Inv S (occParent o)
  | scope, [], _, _ => by simp [occSels]
  | scope, s :: rest, hinv, h => by
    simp only [occSels, List.all_append, Bool.and_eq_true] at h
    intro o ho
    simp only [occSels, List.mem_append] at ho
    rcases ho with ho | ho
    · exact occ_parents_sel hwf scope s hinv h.1 o ho
    · exact occ_parents_sels hwf scope rest hinv h.2 o ho
end

/-! ## Arguments: the traversal -/

/-- The argument definitions the callback of validateArguments uses at a field node. -/
def modelArgDefs (S : Schema) (scope : Option String) (n : String) : List InputDef :=
  match Model.fieldDefinition S scope n with
  | some d => d.args
  | none => []

def argsOcc (S : Schema) : Occ → List Err
  | .field scope al n np args dirs _ =>
    checkArguments (fieldPos al np) args (modelArgDefs S scope n) ++ argsDirectives S dirs
  | .spread _ _ _ dirs _ => argsDirectives S dirs
  | .inline _ _ dirs _ => argsDirectives S dirs

/-- TypeInfo has a definition for the field (or it is `__typename`): validateArguments does not
    stop at this node. -/
def hasInfoAt (S : Schema) : Occ → Bool
  | .field scope _ n _ _ _ _ => (Model.fieldDefinition S scope n).isSome || n = "__typename"
  | _ => true

mutual
theorem args_sel_flat (S : Schema) : ∀ (scope : Option String) (sel : Selection),
    (moccSel S scope sel).all (hasInfoAt S) = true →
    argsSel S scope sel = (moccSel S scope sel).flatMap (argsOcc S)
  | scope, .field al n np args dirs none, h => by
    simp only [moccSel, List.all_cons, Bool.and_eq_true] at h
    have hi := h.1
    simp only [hasInfoAt, Bool.or_eq_true, decide_eq_true_eq] at hi
    unfold argsSel
    cases hd : Model.fieldDefinition S scope n with
    | some d => simp [moccSel, argsOcc, modelArgDefs, hd]
    | none =>
      have hn : n = "__typename" := by
        rcases hi with hi | hi
        · simp [hd] at hi
        · exact hi
      subst hn
      simp [moccSel, argsOcc, modelArgDefs, hd]
  | scope, .field al n np args dirs (some ss), h => by
    simp only [moccSel, List.all_cons, Bool.and_eq_true] at h
    have hi := h.1
    simp only [hasInfoAt, Bool.or_eq_true, decide_eq_true_eq] at hi
    have hsub := args_set_flat S (Model.innerScope S scope n) ss h.2
    unfold argsSel
    cases hd : Model.fieldDefinition S scope n with
    | some d => simp [moccSel, argsOcc, modelArgDefs, hd, hsub]
    | none =>
      have hn : n = "__typename" := by
        rcases hi with hi | hi
        · simp [hd] at hi
        · exact hi
      subst hn
      simp [moccSel, argsOcc, modelArgDefs, hd, hsub]
  | scope, .spread n np dirs p, _ => by
    simp [argsSel, moccSel, argsOcc]
  | scope, .inline tc dirs ss p, h => by
    simp only [moccSel, List.all_cons, Bool.and_eq_true] at h
    simp only [argsSel, moccSel, List.flatMap_cons, argsOcc, args_set_flat S _ ss h.2]
theorem args_set_flat (S : Schema) : ∀ (scope : Option String) (ss : SelSet),
    (moccSet S scope ss).all (hasInfoAt S) = true →
    argsSet S scope ss = (moccSet S scope ss).flatMap (argsOcc S)
  | scope, .mk sels p, h => by
    simp only [moccSet, argsSet] at *
    exact args_sels_flat S scope sels h
theorem args_sels_flat (S : Schema) : ∀ (scope : Option String) (sels : List Selection),
    (moccSels S scope sels).all (hasInfoAt S) = true →
    argsSels S scope sels = (moccSels S scope sels).flatMap (argsOcc S)
  | scope, [], _ => by simp [argsSels, moccSels]
  | scope, s :: rest, h => by
    simp only [moccSels, List.all_append, Bool.and_eq_true] at h
    simp only [argsSels, moccSels, List.flatMap_append, args_sel_flat S scope s h.1,
      args_sels_flat S scope rest h.2]
end


/-! ## Well-scoped documents -/

/-- The rules after which every selection set has a composite type in scope and every field is
    defined on it: supported operation types, §5.5.1.2, §5.5.1.3, §5.3.1, §5.3.3 (plus the
    well-formedness of the schema description). -/
structure WellScoped (S : Schema) (D : Document) : Prop extends ScopeRules S D where
  fields : Spec.fieldsDefined S D = true
  leaves : Spec.leafSelections S D = true

theorem def_occs {S : Schema} {D : Document} (h : WellScoped S D) {d : Definition} (hd : d ∈ D) :
    moccSet S (Model.defScope S d) (Model.defSel d) = Spec.occDef S d ∧
    (∀ o ∈ Spec.occDef S d, Inv S (occParent o) ∧ scopedAt S o = true) := by
  obtain ⟨e, hinv, hcond⟩ := def_scope h.toScopeRules hd
  have hf := h.fields
  have hl := h.leaves
  simp only [Spec.fieldsDefined, Spec.leafSelections, Spec.selOccs, all_flatMap, List.all_eq_true] at hf hl
  have hsc : (Spec.occDef S d).all (scopedAt S) = true := by
    simp only [List.all_eq_true] at hcond ⊢
    intro o ho
    have a := hf d hd o ho
    have b := hl d hd o ho
    have c := hcond o ho
    simp only [condOkAt, Bool.and_eq_true] at c
    simp [scopedAt, a, b, c.1, c.2]
  rw [occDef_eq] at hsc ⊢
  refine ⟨?_, ?_⟩
  · rw [e]; exact mocc_set_eq h.wf _ _ hinv hsc
  · intro o ho
    refine ⟨occ_parents_set h.wf _ _ hinv hsc o ho, ?_⟩
    simp only [List.all_eq_true] at hsc
    exact hsc o ho

/-- At a well-scoped occurrence TypeInfo has the field's definition, and it is the
    specification's (with no entry, and no argument definitions, for `__typename`). -/
theorem info_of_scoped {S : Schema} (hwf : S.wf = true) {o : Occ} (hinv : Inv S (occParent o))
    (hs : scopedAt S o = true) : hasInfoAt S o = true := by
  cases o with
  | field parent al n np args dirs sel =>
    obtain ⟨p, hp', hp⟩ := hinv
    simp only [occParent] at hp'
    subst hp'
    simp only [scopedAt, Bool.and_eq_true, fieldDefinedAt, hp, Bool.not_true, Bool.false_or] at hs
    have hdef := hs.1.1.1
    have hagree := fieldDef_agree hwf hp n
    simp only [hasInfoAt, Bool.or_eq_true, decide_eq_true_eq]
    by_cases hn : n = "__typename"
    · exact Or.inr hn
    · simp only [hn, if_false] at hagree
      rw [hagree] at hdef
      exact Or.inl hdef
  | spread => rfl
  | inline => rfl

theorem argsDirectives_ok (S : Schema) (dirs : List Directive) :
    primaryFree (argsDirectives S dirs) = (Spec.dirArgSites S dirs).all siteOk := by
  unfold argsDirectives Spec.dirArgSites
  induction dirs with
  | nil => rfl
  | cons d rest ih =>
    simp only [List.flatMap_cons, primaryFree_append, List.filterMap_cons, ih]
    unfold argsDirective
    cases hf : S.findDirective d.name with
    | none => simp [primaryFree, newSecondaryError]
    | some dd => simp [checkArguments_ok]

theorem argsOcc_ok {S : Schema} (hwf : S.wf = true) {o : Occ} (hinv : Inv S (occParent o))
    (hs : scopedAt S o = true) :
    primaryFree (argsOcc S o) = (Spec.occArgSites S o).all siteOk := by
  cases o with
  | field parent al n np args dirs sel =>
    obtain ⟨p, hp', hp⟩ := hinv
    simp only [occParent] at hp'
    subst hp'
    simp only [scopedAt, Bool.and_eq_true, fieldDefinedAt, hp, Bool.not_true, Bool.false_or] at hs
    have hdef := hs.1.1.1
    have hagree := fieldDef_agree hwf hp n
    have htn := fieldDefinition_typename hwf (some p)
    simp only [argsOcc, Spec.occArgSites, primaryFree_append, List.all_append, argsDirectives_ok, Spec.occDirs]
    congr 1
    cases hd : Spec.fieldDef? S p n with
    | none => simp [hd] at hdef
    | some d =>
      simp only [List.all_cons, List.all_nil, Bool.and_true, checkArguments_ok]
      congr 2
      by_cases hn : n = "__typename"
      · subst hn
        simp only [if_true] at hagree
        rw [hd] at hagree
        simp only [Option.some.injEq] at hagree
        subst hagree
        simp [modelArgDefs, htn, Spec.typenameField]
      · simp only [hn, if_false] at hagree
        rw [hd] at hagree
        simp [modelArgDefs, ← hagree]
  | spread parent n np dirs p =>
    simp [argsOcc, Spec.occArgSites, argsDirectives_ok, Spec.occDirs]
  | inline parent tc dirs p =>
    simp [argsOcc, Spec.occArgSites, argsDirectives_ok, Spec.occDirs]

theorem all_and3 {α : Type} (xs : List α) (p q r : α → Bool) :
    (xs.all p && xs.all q && xs.all r) = xs.all (fun x => p x && q x && r x) := by
  rw [all_and, all_and]

/-! ## Fragment declarations (validate_fragments.go:16-63) -/

theorem typeCondition_nil (S : Schema) (tc : String) (p : Pos) :
    typeConditionErrors S tc p = [] ↔ ((S.find tc).isSome = true ∧ Spec.isComposite S tc = true) := by
  unfold typeConditionErrors Spec.isComposite
  have hk : Model.kindOf S tc = Spec.kindOf S tc := rfl
  rw [hk]
  unfold Spec.kindOf
  cases hf : S.find tc with
  | none => simp
  | some td =>
    by_cases hc : td.kind.isComposite = true <;> simp [hc]

theorem fragDeclLoop_nil (S : Schema) (seen : List String) (fs : List FragInfo) :
    fragDeclLoop S seen fs = [] ↔
      ((∀ f ∈ fs, f.name ∉ seen) ∧ Spec.nodup (fs.map (·.name)) = true ∧
        (∀ f ∈ fs, (S.find f.tc).isSome = true ∧ Spec.isComposite S f.tc = true)) := by
  induction fs generalizing seen with
  | nil => simp [fragDeclLoop, Spec.nodup]
  | cons f rest ih =>
    simp only [fragDeclLoop, List.append_eq_nil_iff, ih, typeCondition_nil]
    by_cases hs : f.name ∈ seen
    · simp [hs]
    · simp only [List.contains_eq_mem, hs, decide_false, Bool.false_eq_true, if_false, true_and,
        nodup_cons, List.map_cons, List.mem_cons, forall_eq_or_imp, not_false_eq_true,
        Bool.and_eq_true, Bool.not_eq_true', List.mem_append, List.mem_singleton,
        List.not_mem_nil, or_false, not_or, List.mem_map, decide_eq_false_iff_not, not_exists, not_and]
      constructor
      · rintro ⟨⟨h1, h2⟩, h3, h4, h5⟩
        exact ⟨fun g hg => (h3 g hg).1, ⟨fun g hg he => (h3 g hg).2 he, h4⟩, ⟨h1, h2⟩, h5⟩
      · rintro ⟨h1, ⟨h2, h3⟩, ⟨h4, h5⟩, h6⟩
        exact ⟨⟨h4, h5⟩, fun g hg => ⟨h1 g hg, fun he => h2 g hg he⟩, h3, h6⟩

/-- The values of `fragmentsByName` carry exactly the names of all fragment definitions not seen before. -/
theorem firstDefs_names (seen : List String) (fs : List FragInfo) (P : String → Prop) :
    (∀ f ∈ firstDefs seen fs, P f.name) ↔ (∀ f ∈ fs, f.name ∉ seen → P f.name) := by
  induction fs generalizing seen with
  | nil => simp [firstDefs]
  | cons f rest ih =>
    unfold firstDefs
    by_cases hs : f.name ∈ seen
    · simp only [List.contains_eq_mem, hs, decide_true, if_true, ih, List.mem_cons, forall_eq_or_imp,
        not_true_eq_false, false_imp_iff, true_and]
    · simp only [List.contains_eq_mem, hs, decide_false, Bool.false_eq_true, if_false, List.mem_cons,
        forall_eq_or_imp, ih, not_false_eq_true, true_imp_iff, List.mem_append, List.mem_singleton,
        List.not_mem_nil, or_false, not_or]
      constructor
      · rintro ⟨h1, h2⟩
        refine ⟨h1, fun g hg hgs => ?_⟩
        by_cases he : g.name = f.name
        · rw [he]; exact h1
        · exact h2 g hg ⟨hgs, he⟩
      · rintro ⟨h1, h2⟩
        exact ⟨h1, fun g hg hgs => h2 g hg hgs.1⟩

def condErrOcc (S : Schema) : Occ → List Err
  | .inline _ (some (t, p)) _ _ => typeConditionErrors S t p
  | _ => []

mutual
theorem inlineCond_sel_flat (S : Schema) : ∀ (scope : Option String) (sel : Selection),
    inlineCondSel S sel = (occSel S scope sel).flatMap (condErrOcc S)
  | scope, .field al n np args dirs none => by simp [inlineCondSel, occSel, condErrOcc]
  | scope, .field al n np args dirs (some ss) => by
    simp [inlineCondSel, occSel, condErrOcc, inlineCond_set_flat S (Spec.fieldScope S scope n) ss]
  | scope, .spread n np dirs p => by simp [inlineCondSel, occSel, condErrOcc]
  | scope, .inline none dirs ss p => by
    simp [inlineCondSel, occSel, condErrOcc, inlineCond_set_flat S (Spec.inlineScope S scope none) ss]
  | scope, .inline (some (t, tp)) dirs ss p => by
    simp [inlineCondSel, occSel, condErrOcc, inlineCond_set_flat S (Spec.inlineScope S scope (some (t, tp))) ss]
theorem inlineCond_set_flat (S : Schema) : ∀ (scope : Option String) (ss : SelSet),
    inlineCondSet S ss = (occSet S scope ss).flatMap (condErrOcc S)
  | scope, .mk sels p => by simp [inlineCondSet, occSet, inlineCond_sels_flat S scope sels]
theorem inlineCond_sels_flat (S : Schema) : ∀ (scope : Option String) (sels : List Selection),
    inlineCondSels S sels = (occSels S scope sels).flatMap (condErrOcc S)
  | scope, [] => by simp [inlineCondSels, occSels]
  | scope, s :: rest => by
    simp [inlineCondSels, occSels, inlineCond_sel_flat S scope s, inlineCond_sels_flat S scope rest]
end

abbrev spreadNameOcc := Spec.spreadNameOf

mutual
theorem spreadNames_sel_flat (S : Schema) : ∀ (scope : Option String) (sel : Selection),
    Model.spreadNamesSel sel = (occSel S scope sel).filterMap spreadNameOcc
  | scope, .field al n np args dirs none => by simp [Model.spreadNamesSel, occSel, spreadNameOcc, Spec.spreadNameOf]
  | scope, .field al n np args dirs (some ss) => by
    simp [Model.spreadNamesSel, occSel, spreadNameOcc, Spec.spreadNameOf, List.filterMap_cons, spreadNames_set_flat S (Spec.fieldScope S scope n) ss]
  | scope, .spread n np dirs p => by simp [Model.spreadNamesSel, occSel, spreadNameOcc, Spec.spreadNameOf]
  | scope, .inline tc dirs ss p => by
    simp [Model.spreadNamesSel, occSel, spreadNameOcc, Spec.spreadNameOf, List.filterMap_cons, spreadNames_set_flat S (Spec.inlineScope S scope tc) ss]
theorem spreadNames_set_flat (S : Schema) : ∀ (scope : Option String) (ss : SelSet),
    Model.spreadNamesSet ss = (occSet S scope ss).filterMap spreadNameOcc
  | scope, .mk sels p => by simp [Model.spreadNamesSet, occSet, spreadNames_sels_flat S scope sels]
theorem spreadNames_sels_flat (S : Schema) : ∀ (scope : Option String) (sels : List Selection),
    Model.spreadNamesSels sels = (occSels S scope sels).filterMap spreadNameOcc
  | scope, [] => by simp [Model.spreadNamesSels, occSels]
  | scope, s :: rest => by
    simp [Model.spreadNamesSels, occSels, spreadNames_sel_flat S scope s, spreadNames_sels_flat S scope rest]
end


/-- The model's FragInfo list and the specification's fragment list describe the same definitions. -/
theorem fragsOf_map (D : Document) :
    (Model.fragsOf D).map (fun f => (f.name, f.tc, f.sel)) = Spec.fragDefs D := by
  unfold Model.fragsOf Spec.fragDefs
  induction D with
  | nil => rfl
  | cons d rest ih =>
    cases d with
    | op kind name vars dirs sel => simpa [List.filterMap_cons] using ih
    | frag n np tc tcp dirs sel p => simp [List.filterMap_cons, ih]

theorem fragsOf_names (D : Document) : (Model.fragsOf D).map (·.name) = Spec.fragNames D := by
  unfold Spec.fragNames
  rw [← fragsOf_map, List.map_map]
  rfl

theorem usedFragments_eq (S : Schema) (D : Document) : Model.usedFragments D = Spec.spreadNames S D := by
  unfold Model.usedFragments Spec.spreadNames Spec.selOccs
  induction D with
  | nil => rfl
  | cons d rest ih =>
    simp only [List.flatMap_cons, List.filterMap_append, ih]
    congr 1
    rw [occDef_eq, spreadNames_set_flat S (specDefScope S d)]


theorem all_mem_fragDefs (D : Document) (P : String → String → Prop) :
    (∀ f ∈ Model.fragsOf D, P f.name f.tc) ↔ (∀ f ∈ Spec.fragDefs D, P f.1 f.2.1) := by
  rw [← fragsOf_map]
  simp only [List.mem_map, forall_exists_index, and_imp, forall_apply_eq_imp_iff₂]

/-! ## Fragment spreads: target defined, spread possible (validate_fragments.go:104-153) -/

def spreadOcc (S : Schema) (D : Document) : Occ → List Err
  | .spread scope n np _ _ => spreadTargetErrors S D scope n np
  | .inline scope (some (t, p)) _ _ => validateSpread S t p scope
  | _ => []

mutual
theorem spreads_sel_flat (S : Schema) (D : Document) : ∀ (scope : Option String) (sel : Selection),
    spreadsSel S D scope sel = (moccSel S scope sel).flatMap (spreadOcc S D)
  | scope, .field al n np args dirs none => by simp [spreadsSel, moccSel, spreadOcc]
  | scope, .field al n np args dirs (some ss) => by
    simp [spreadsSel, moccSel, spreadOcc, spreads_set_flat S D (Model.innerScope S scope n) ss]
  | scope, .spread n np dirs p => by simp [spreadsSel, moccSel, spreadOcc]
  | scope, .inline none dirs ss p => by
    simp [spreadsSel, moccSel, spreadOcc, spreads_set_flat S D (Model.inlineScope S scope none) ss]
  | scope, .inline (some (t, tp)) dirs ss p => by
    simp [spreadsSel, moccSel, spreadOcc, spreads_set_flat S D (Model.inlineScope S scope (some (t, tp))) ss]
theorem spreads_set_flat (S : Schema) (D : Document) : ∀ (scope : Option String) (ss : SelSet),
    spreadsSet S D scope ss = (moccSet S scope ss).flatMap (spreadOcc S D)
  | scope, .mk sels p => by simp [spreadsSet, moccSet, spreads_sels_flat S D scope sels]
theorem spreads_sels_flat (S : Schema) (D : Document) : ∀ (scope : Option String) (sels : List Selection),
    spreadsSels S D scope sels = (moccSels S scope sels).flatMap (spreadOcc S D)
  | scope, [] => by simp [spreadsSels, moccSels]
  | scope, s :: rest => by
    simp [spreadsSels, moccSels, spreads_sel_flat S D scope s, spreads_sels_flat S D scope rest]
end

theorem possibleTypes_eq (S : Schema) (n : String) : Model.possibleTypes S n = Spec.possibleTypes S n := rfl

theorem primaryFree_ite_primary (b : Bool) (pos : Pos) (msg : String) :
    primaryFree (if b = true then [] else [newError pos msg]) = b := by
  cases b <;> rfl

/-- `validateSpread` under a composite parent. -/
theorem validateSpread_ok {S : Schema} {p : String} (hp : Spec.isComposite S p = true) (tc : String) (tcpos : Pos) :
    primaryFree (validateSpread S tc tcpos (some p)) =
      (!(Spec.isComposite S p && Spec.isComposite S tc) ||
        Spec.intersects (Spec.possibleTypes S tc) (Spec.possibleTypes S p)) := by
  unfold validateSpread
  simp only [isCompositeName_eq, hp, Bool.not_true, Bool.false_eq_true, if_false, Bool.true_and,
    possibleTypes_eq, Spec.intersects]
  by_cases hc : Spec.isComposite S tc = true
  · simp only [hc, if_true, Bool.not_true, Bool.false_or]
    exact primaryFree_ite_primary _ _ _
  · simp [hc, primaryFree]

/-- With unique fragment names the last definition of a name is the first. -/
theorem find_reverse_unique {α : Type} (xs : List α) (key : α → String) (n : String)
    (h : Spec.nodup (xs.map key) = true) :
    xs.reverse.find? (fun x => key x = n) = xs.find? (fun x => key x = n) := by
  induction xs with
  | nil => rfl
  | cons x rest ih =>
    simp only [List.map_cons, nodup_cons, Bool.and_eq_true, Bool.not_eq_true'] at h
    simp only [List.reverse_cons, List.find?_append, ih h.2, List.find?_cons]
    by_cases hx : key x = n
    · simp only [hx, decide_true]
      have : rest.find? (fun y => key y = n) = none := by
        rw [List.find?_eq_none]
        intro y hy
        simp only [decide_eq_true_eq]
        intro he
        have hc := h.1
        simp only [List.contains_eq_mem, List.mem_map, decide_eq_false_iff_not, not_exists, not_and] at hc
        exact hc y hy (he.trans hx.symm)
      simp [this]
    · simp only [hx, decide_false]
      cases rest.find? (fun y => key y = n) <;> simp

theorem fragLast_eq_first {D : Document} (h : Spec.fragmentNamesUnique D = true) (n : String) :
    Model.fragLast D n = Model.fragFirst D n := by
  unfold Model.fragLast Model.fragFirst
  unfold Spec.fragmentNamesUnique at h
  rw [← fragsOf_names] at h
  exact find_reverse_unique (Model.fragsOf D) (·.name) n h

theorem fragFirst_findFrag (D : Document) (n : String) :
    Spec.findFrag D n = (Model.fragFirst D n).map (fun f => (f.tc, f.sel)) := by
  unfold Spec.findFrag Model.fragFirst
  rw [← fragsOf_map]
  induction Model.fragsOf D with
  | nil => rfl
  | cons f rest ih =>
    simp only [List.map_cons, List.find?_cons]
    by_cases hf : f.name = n
    · simp [hf]
    · simp only [hf, decide_false]
      exact ih

theorem fragFirst_none_iff (D : Document) (n : String) :
    Model.fragFirst D n = none ↔ (Spec.fragNames D).contains n = false := by
  unfold Model.fragFirst
  rw [← fragsOf_names, List.find?_eq_none]
  simp only [decide_eq_true_eq, List.contains_eq_mem, List.mem_map, decide_eq_false_iff_not,
    not_exists, not_and]

/-- §5.5.2.1 and §5.5.2.3 at one occurrence. -/
def spreadOkAt (S : Schema) (D : Document) (o : Occ) : Bool :=
  (match Spec.spreadNameOf o with
   | some n => (Spec.fragNames D).contains n
   | none => true) &&
  (match o with
   | .spread (some p) n _ _ _ =>
     (match Spec.findFrag D n with
      | some (tc, _) =>
        !(Spec.isComposite S p && Spec.isComposite S tc) || Spec.intersects (Spec.possibleTypes S tc) (Spec.possibleTypes S p)
      | none => true)
   | .inline (some p) (some (tc, _)) _ _ =>
     !(Spec.isComposite S p && Spec.isComposite S tc) || Spec.intersects (Spec.possibleTypes S tc) (Spec.possibleTypes S p)
   | _ => true)

theorem spreadOcc_ok {S : Schema} {D : Document} (hu : Spec.fragmentNamesUnique D = true) {o : Occ}
    (hinv : Inv S (occParent o)) : primaryFree (spreadOcc S D o) = spreadOkAt S D o := by
  cases o with
  | field => simp [spreadOcc, spreadOkAt, Spec.spreadNameOf, primaryFree]
  | spread parent n np dirs p =>
    obtain ⟨q, hq, hp⟩ := hinv
    simp only [occParent] at hq
    subst hq
    simp only [spreadOcc, spreadTargetErrors, spreadOkAt, Spec.spreadNameOf, fragLast_eq_first hu, fragFirst_findFrag]
    cases hf : Model.fragFirst D n with
    | none =>
      have := (fragFirst_none_iff D n).1 hf
      simp only [this]
      simp [primaryFree, newError]
    | some f =>
      have : (Spec.fragNames D).contains n = true := by
        cases hc : (Spec.fragNames D).contains n with
        | true => rfl
        | false => rw [← fragFirst_none_iff] at hc; simp [hc] at hf
      simp only [this, Option.map_some, Bool.true_and]
      exact validateSpread_ok hp f.tc f.tcpos
  | inline parent tc dirs p =>
    obtain ⟨q, hq, hp⟩ := hinv
    simp only [occParent] at hq
    subst hq
    cases tc with
    | none => simp [spreadOcc, spreadOkAt, Spec.spreadNameOf, primaryFree]
    | some tp =>
      obtain ⟨t, tpos⟩ := tp
      simp only [spreadOcc, spreadOkAt, Spec.spreadNameOf, Bool.true_and]
      exact validateSpread_ok hp t tpos

theorem all_filterMap {α β : Type} (xs : List α) (f : α → Option β) (p : β → Bool) :
    (xs.filterMap f).all p = xs.all (fun x => match f x with
                                              | some y => p y
                                              | none => true) := by
  induction xs with
  | nil => rfl
  | cons x rest ih =>
    simp only [List.filterMap_cons, List.all_cons]
    cases f x <;> simp [ih]

/-! ## Values: validateCoercion against §5.6 -/

theorem scalarAccepts_eq (sp : ScalarSpec) (v : Value) : Model.scalarAccepts sp v = Spec.scalarAccepts sp v := by
  cases sp <;> cases v <;> rfl

theorem namedTarget_true (t : TRef) : Model.namedTarget t true = .ok t.base := by
  induction t with
  | named n => rfl
  | list t ih => simp [Model.namedTarget, ih, TRef.base]
  | nonNull t ih => simp [Model.namedTarget, ih, TRef.base]

theorem namedTarget_false (t : TRef) :
    (∀ n, Model.namedTarget t false = .ok n ↔ t.nullable = .named n) ∧
    ((∃ lt, Model.namedTarget t false = .error lt) ↔ ∀ n, t.nullable ≠ .named n) := by
  induction t with
  | named n => simp [Model.namedTarget, TRef.nullable]
  | list t _ => simp [Model.namedTarget, TRef.nullable]
  | nonNull t ih => simpa [Model.namedTarget, TRef.nullable] using ih

/-- The named type that decides a non-list literal: the model's descent over the wrappers and the
    specification's `literalTarget` agree. -/
theorem namedTarget_literalTarget (t : TRef) (allow : Bool) :
    (∀ n, Model.namedTarget t allow = .ok n ↔ Spec.literalTarget t allow = some n) ∧
    ((∃ lt, Model.namedTarget t allow = .error lt) ↔ Spec.literalTarget t allow = none) := by
  cases allow with
  | true =>
    simp [namedTarget_true, Spec.literalTarget]
  | false =>
    obtain ⟨h1, h2⟩ := namedTarget_false t
    unfold Spec.literalTarget
    simp only [Bool.false_eq_true, if_false]
    constructor
    · intro n
      rw [h1 n]
      cases t.nullable <;> simp
    · rw [h2]
      cases t.nullable <;> simp

theorem nullable_ne_nonNull (t x : TRef) : t.nullable ≠ .nonNull x := by
  induction t with
  | named n => simp [TRef.nullable]
  | list t _ => simp [TRef.nullable]
  | nonNull t ih => simpa [TRef.nullable] using ih

/-- Scalar / enum / non-object-for-input cases. -/
theorem coerceNamed_nil (S : Schema) (n : String) (v : Value) :
    coerceNamed S n v = [] ↔
      (match Spec.kindOf S n with
       | some (.scalar spec) => Spec.scalarAccepts spec v
       | some (.enum vs) => (match v with
                             | .enum e _ => vs.contains e
                             | _ => false)
       | _ => false) = true := by
  unfold coerceNamed
  have hk : Model.kindOf S n = Spec.kindOf S n := rfl
  rw [hk]
  cases hkk : Spec.kindOf S n with
  | none => simp
  | some k =>
    cases k with
    | scalar sp => simp [scalarAccepts_eq]
    | enum vs => cases v <;> simp
    | object => simp
    | interface => simp
    | union => simp
    | input => simp


theorem objFieldsOk_iff (S : Schema) (defs : List InputDef) (fields : List ObjField) :
    Spec.objFieldsOk S defs fields = true ↔
      ∀ f ∈ fields, ∃ d, findInput defs f.name = some d ∧ Spec.valueOk S d.type true f.value = true := by
  induction fields with
  | nil => simp [Spec.objFieldsOk]
  | cons f rest ih =>
    obtain ⟨n, p, v⟩ := f
    simp only [Spec.objFieldsOk, Bool.and_eq_true, ih, List.mem_cons, forall_eq_or_imp, ObjField.name, ObjField.value]
    cases findInput defs n <;> simp

theorem itemsOk_iff (S : Schema) (t : TRef) (items : List Value) :
    Spec.itemsOk S t items = true ↔ ∀ v ∈ items, Spec.valueOk S t false v = true := by
  induction items with
  | nil => simp [Spec.itemsOk]
  | cons v rest ih => simp [Spec.itemsOk, ih]

theorem ObjField.name_mk (n : String) (p : Pos) (v : Value) : (ObjField.mk n p v).name = n := rfl
theorem ObjField.value_mk (n : String) (p : Pos) (v : Value) : (ObjField.mk n p v).value = v := rfl

theorem mem_seenUpdate (seen : List String) (n m : String) :
    m ∈ (if seen.contains n then seen else seen ++ [n]) ↔ (m ∈ seen ∨ m = n) := by
  cases hsn : seen.contains n with
  | true =>
    simp only [if_true]
    simp only [List.contains_eq_mem, decide_eq_true_eq] at hsn
    constructor
    · exact Or.inl
    · rintro (h | h)
      · exact h
      · exact h ▸ hsn
  | false => simp

theorem errsUpdate_nil (seen : List String) (n : String) (errs : List Err) (e : Err) :
    (if seen.contains n then errs ++ [e] else errs) = [] ↔ (errs = [] ∧ n ∉ seen) := by
  cases hsn : seen.contains n with
  | true =>
    simp only [List.contains_eq_mem, decide_eq_true_eq] at hsn
    simp [hsn]
  | false =>
    simp only [List.contains_eq_mem, decide_eq_false_iff_not] at hsn
    simp [hsn]

/-- The loop over the input object's field definitions (validate_values.go:78-84). -/
theorem requiredFields_nil (p : Pos) (defs : List InputDef) (fields : List ObjField) (seen' : List String)
    (hs : ∀ n, n ∈ seen' ↔ ∃ f ∈ fields, f.name = n) :
    (defs.flatMap (fun d =>
        if d.type.isNonNull && d.dflt = .none && !seen'.contains d.name then
          [newError p ("the " ++ d.name ++ " field is required")]
        else [])) = [] ↔
      (defs.all fun d => !(d.type.isNonNull && d.dflt = .none) || fields.any (fun f => f.name = d.name)) = true := by
  simp only [List.flatMap_eq_nil_iff, List.all_eq_true]
  constructor
  · intro h d hd
    have := h d hd
    cases hr : (d.type.isNonNull && decide (d.dflt = Dflt.none)) with
    | false => simp
    | true =>
      simp only [Bool.not_true, Bool.false_or, List.any_eq_true, decide_eq_true_eq]
      by_cases hm : d.name ∈ seen'
      · exact (hs d.name).1 hm
      · have hc : seen'.contains d.name = false := by simpa using hm
        simp [hr, hc] at this
        exact absurd this hm
  · intro h d hd
    have := h d hd
    cases hr : (d.type.isNonNull && decide (d.dflt = Dflt.none)) with
    | false => simp [hr]
    | true =>
      simp only [hr, Bool.not_true, Bool.false_or, List.any_eq_true, decide_eq_true_eq] at this
      have hm : d.name ∈ seen' := (hs d.name).2 this
      have hc : seen'.contains d.name = true := by simpa using hm
      simp [hr, hc]
      exact hm

/-- What the field loop of the input-object case computes. -/
def FieldsSpec (S : Schema) (defs : List InputDef) (fields : List ObjField) (errs : List Err) (seen : List String)
    (r : Sum (List Err) (List Err × List String)) : Prop :=
  match r with
  | .inl nested => nested ≠ [] ∧ Spec.objFieldsOk S defs fields = false
  | .inr (errs', seen') =>
    (errs' = [] ↔ (errs = [] ∧ (∀ f ∈ fields, f.name ∉ seen) ∧ Spec.nodup (fields.map (·.name)) = true ∧
        ∀ f ∈ fields, (findInput defs f.name).isSome = true)) ∧
    (∀ n, n ∈ seen' ↔ (n ∈ seen ∨ ∃ f ∈ fields, f.name = n)) ∧
    (∀ f ∈ fields, ∀ d, findInput defs f.name = some d → Spec.valueOk S d.type true f.value = true)

mutual
theorem coercion_nil (S : Schema) : ∀ (v : Value) (t : TRef) (allow : Bool),
    validateCoercion S t allow v = [] ↔ Spec.valueOk S t allow v = true
  | .var n p, t, allow => by simp [validateCoercion, Spec.valueOk]
  | .null p, t, allow => by
    cases h : t.isNonNull <;> simp [validateCoercion, Spec.valueOk, h]
  | .list items p, t, allow => by
    unfold validateCoercion Spec.valueOk
    cases hn : t.nullable with
    | list inner => simp only [coerceItems_nil S items inner]
    | named n =>
      simp only [coerceNamed_nil]
      cases Spec.kindOf S n with
      | none => simp
      | some k => cases k <;> simp
    | nonNull x => exact absurd hn (nullable_ne_nonNull t x)
  | .obj fields p, t, allow => by
    unfold validateCoercion Spec.valueOk
    obtain ⟨h1, h2⟩ := namedTarget_literalTarget t allow
    cases hnt : Model.namedTarget t allow with
    | error lt =>
      have := h2.1 ⟨lt, hnt⟩
      simp [this]
    | ok n =>
      have hl := (h1 n).1 hnt
      simp only [hl]
      have hk : Model.kindOf S n = Spec.kindOf S n := rfl
      rw [hk]
      cases hkk : Spec.kindOf S n with
      | none => simp [coerceNamed_nil, hkk]
      | some k =>
        cases k with
        | input defs =>
          simp only
          have hcf := coerceFields_spec S fields n defs [] []
          cases hr : coerceFields S n defs fields [] [] with
          | inl nested =>
            rw [hr] at hcf
            simp only [FieldsSpec] at hcf
            simp [hcf.1, hcf.2]
          | inr pr =>
            obtain ⟨errs', seen'⟩ := pr
            rw [hr] at hcf
            simp only [FieldsSpec, List.not_mem_nil, not_false_eq_true, implies_true, true_and, false_or] at hcf
            obtain ⟨he, hs, hv⟩ := hcf
            have hs' : ∀ m, m ∈ seen' ↔ ∃ f ∈ fields, f.name = m := hs
            rw [List.append_eq_nil_iff, he, requiredFields_nil p defs fields seen' hs']
            simp only [Bool.and_eq_true, objFieldsOk_iff]
            constructor
            · rintro ⟨⟨hnd, hkn⟩, hreq⟩
              refine ⟨⟨hnd, hreq⟩, fun f hf => ?_⟩
              have := hkn f hf
              cases hfi : findInput defs f.name with
              | none => simp [hfi] at this
              | some d => exact ⟨d, rfl, hv f hf d hfi⟩
            · rintro ⟨⟨hnd, hreq⟩, hok⟩
              refine ⟨⟨hnd, fun f hf => ?_⟩, hreq⟩
              obtain ⟨d, hd, _⟩ := hok f hf
              simp [hd]
        | scalar sp => simp [coerceNamed_nil, hkk]
        | enum vs => simp [coerceNamed_nil, hkk]
        | object => simp [coerceNamed_nil, hkk]
        | interface => simp [coerceNamed_nil, hkk]
        | union => simp [coerceNamed_nil, hkk]
  | .enum e p, t, allow => by
    unfold validateCoercion Spec.valueOk
    obtain ⟨h1, h2⟩ := namedTarget_literalTarget t allow
    cases hnt : Model.namedTarget t allow with
    | error lt => simp [h2.1 ⟨lt, hnt⟩]
    | ok n =>
      simp only [(h1 n).1 hnt, coerceNamed_nil]
      cases Spec.kindOf S n with
      | none => simp
      | some k => cases k <;> simp
  | .int lit p, t, allow => by
    unfold validateCoercion Spec.valueOk
    obtain ⟨h1, h2⟩ := namedTarget_literalTarget t allow
    cases hnt : Model.namedTarget t allow with
    | error lt => simp [h2.1 ⟨lt, hnt⟩]
    | ok n =>
      simp only [(h1 n).1 hnt, coerceNamed_nil]
      cases Spec.kindOf S n with
      | none => simp
      | some k => cases k <;> simp
  | .float lit p, t, allow => by
    unfold validateCoercion Spec.valueOk
    obtain ⟨h1, h2⟩ := namedTarget_literalTarget t allow
    cases hnt : Model.namedTarget t allow with
    | error lt => simp [h2.1 ⟨lt, hnt⟩]
    | ok n =>
      simp only [(h1 n).1 hnt, coerceNamed_nil]
      cases Spec.kindOf S n with
      | none => simp
      | some k => cases k <;> simp
  | .str s p, t, allow => by
    unfold validateCoercion Spec.valueOk
    obtain ⟨h1, h2⟩ := namedTarget_literalTarget t allow
    cases hnt : Model.namedTarget t allow with
    | error lt => simp [h2.1 ⟨lt, hnt⟩]
    | ok n =>
      simp only [(h1 n).1 hnt, coerceNamed_nil]
      cases Spec.kindOf S n with
      | none => simp
      | some k => cases k <;> simp
  | .bool b p, t, allow => by
    unfold validateCoercion Spec.valueOk
    obtain ⟨h1, h2⟩ := namedTarget_literalTarget t allow
    cases hnt : Model.namedTarget t allow with
    | error lt => simp [h2.1 ⟨lt, hnt⟩]
    | ok n =>
      simp only [(h1 n).1 hnt, coerceNamed_nil]
      cases Spec.kindOf S n with
      | none => simp
      | some k => cases k <;> simp
theorem coerceItems_nil (S : Schema) : ∀ (items : List Value) (t : TRef),
    coerceItems S t items = [] ↔ Spec.itemsOk S t items = true
  | [], t => by simp [coerceItems, Spec.itemsOk]
  | v :: rest, t => by
    unfold coerceItems Spec.itemsOk
    have hv := coercion_nil S v t false
    cases hc : validateCoercion S t false v with
    | nil =>
      have := hv.1 hc
      simp [this, coerceItems_nil S rest t]
    | cons e es =>
      have : Spec.valueOk S t false v = false := by
        cases hvo : Spec.valueOk S t false v with
        | false => rfl
        | true => have := hv.2 hvo; simp [hc] at this
      simp [this]
theorem coerceFields_spec (S : Schema) : ∀ (fields : List ObjField) (tn : String) (defs : List InputDef)
    (errs : List Err) (seen : List String),
    FieldsSpec S defs fields errs seen (coerceFields S tn defs fields errs seen)
  | [], tn, defs, errs, seen => by
    simp [coerceFields, FieldsSpec, Spec.nodup]
  | .mk n p v :: rest, tn, defs, errs, seen => by
    unfold coerceFields
    cases hfi : findInput defs n with
    | none =>
      -- unknown field: an error is recorded and the loop goes on
      have ih := coerceFields_spec S rest tn defs
        ((if seen.contains n then errs ++ [newError p "duplicate field"] else errs) ++
          [newError p ("field does not exist on " ++ tn)])
        (if seen.contains n then seen else seen ++ [n])
      simp only
      cases hr : coerceFields S tn defs rest _ _ with
      | inl nested =>
        rw [hr] at ih
        simp only [FieldsSpec] at ih ⊢
        refine ⟨ih.1, ?_⟩
        simp [Spec.objFieldsOk, hfi]
      | inr pr =>
        obtain ⟨errs', seen'⟩ := pr
        rw [hr] at ih
        simp only [FieldsSpec] at ih ⊢
        obtain ⟨he, hs, hv⟩ := ih
        refine ⟨?_, ?_, ?_⟩
        · rw [he]
          simp [ObjField.name_mk, hfi]
        · intro m
          rw [hs m, mem_seenUpdate]
          simp only [List.mem_cons, exists_eq_or_imp, ObjField.name_mk]
          constructor
          · rintro ((h | h) | h)
            · exact Or.inl h
            · exact Or.inr (Or.inl h.symm)
            · exact Or.inr (Or.inr h)
          · rintro (h | h | h)
            · exact Or.inl (Or.inl h)
            · exact Or.inl (Or.inr h.symm)
            · exact Or.inr h
        · intro f hf d hd
          simp only [List.mem_cons] at hf
          rcases hf with rfl | hf
          · simp [ObjField.name_mk, hfi] at hd
          · exact hv f hf d hd
    | some d =>
      simp only
      have hv := coercion_nil S v d.type true
      cases hc : validateCoercion S d.type true v with
      | cons e es =>
        simp only [FieldsSpec]
        refine ⟨by simp, ?_⟩
        have : Spec.valueOk S d.type true v = false := by
          cases hvo : Spec.valueOk S d.type true v with
          | false => rfl
          | true => have := hv.2 hvo; simp [hc] at this
        simp [Spec.objFieldsOk, hfi, this]
      | nil =>
        have hvo := hv.1 hc
        have ih := coerceFields_spec S rest tn defs
          (if seen.contains n then errs ++ [newError p "duplicate field"] else errs)
          (if seen.contains n then seen else seen ++ [n])
        cases hr : coerceFields S tn defs rest _ _ with
        | inl nested =>
          rw [hr] at ih
          simp only [FieldsSpec] at ih ⊢
          refine ⟨ih.1, ?_⟩
          simp [Spec.objFieldsOk, hfi, hvo, ih.2]
        | inr pr =>
          obtain ⟨errs', seen'⟩ := pr
          rw [hr] at ih
          simp only [FieldsSpec] at ih ⊢
          obtain ⟨he, hs, hvs⟩ := ih
          refine ⟨?_, ?_, ?_⟩
          · rw [he, errsUpdate_nil]
            simp only [mem_seenUpdate]
            simp only [nodup_cons, List.map_cons, ObjField.name_mk, List.mem_cons, forall_eq_or_imp, hfi,
              Option.isSome_some, true_and, Bool.and_eq_true, Bool.not_eq_true', not_or,
              List.contains_eq_mem, List.mem_map, decide_eq_false_iff_not, not_exists, not_and]
            constructor
            · rintro ⟨⟨h1, hsn⟩, h2, h3, h4⟩
              exact ⟨h1, ⟨hsn, fun f hf => (h2 f hf).1⟩, ⟨fun f hf he' => (h2 f hf).2 he', h3⟩, h4⟩
            · rintro ⟨h1, ⟨hsn, h2⟩, ⟨h3, h4⟩, h5⟩
              exact ⟨⟨h1, hsn⟩, fun f hf => ⟨h2 f hf, fun he' => h3 f hf he'⟩, h4, h5⟩
          · intro m
            rw [hs m, mem_seenUpdate]
            simp only [List.mem_cons, exists_eq_or_imp, ObjField.name_mk]
            constructor
            · rintro ((h | h) | h)
              · exact Or.inl h
              · exact Or.inr (Or.inl h.symm)
              · exact Or.inr (Or.inr h)
            · rintro (h | h | h)
              · exact Or.inl (Or.inl h)
              · exact Or.inl (Or.inr h.symm)
              · exact Or.inr h
          · intro f hf d' hd'
            simp only [List.mem_cons] at hf
            rcases hf with rfl | hf
            · simp only [ObjField.name_mk, ObjField.value_mk, hfi, Option.some.injEq] at hd' ⊢
              subst hd'
              exact hvo
            · exact hvs f hf d' hd'
end


/-! Every error of validateCoercion is primary. -/

def AllPrimary (es : List Err) : Prop := ∀ e ∈ es, e.secondary = false

theorem allPrimary_nil : AllPrimary [] := by simp [AllPrimary]
theorem allPrimary_single (p : Pos) (m : String) : AllPrimary [newError p m] := by simp [AllPrimary, newError]
theorem allPrimary_append {a b : List Err} (ha : AllPrimary a) (hb : AllPrimary b) : AllPrimary (a ++ b) := by
  intro e he
  simp only [List.mem_append] at he
  rcases he with he | he
  · exact ha e he
  · exact hb e he

theorem coerceNamed_primary (S : Schema) (n : String) (v : Value) : AllPrimary (coerceNamed S n v) := by
  unfold coerceNamed
  cases Model.kindOf S n with
  | none => exact allPrimary_single _ _
  | some k =>
    cases k with
    | scalar sp =>
      simp only
      split
      · exact allPrimary_nil
      · exact allPrimary_single _ _
    | enum vs =>
      cases v <;> simp only <;> first | exact allPrimary_single _ _ | (split <;> first | exact allPrimary_nil | exact allPrimary_single _ _)
    | input => exact allPrimary_single _ _
    | object => exact allPrimary_single _ _
    | interface => exact allPrimary_single _ _
    | union => exact allPrimary_single _ _

theorem targetCase_primary (S : Schema) (t : TRef) (allow : Bool) (v : Value) :
    AllPrimary (match Model.namedTarget t allow with
      | .error lt => [newError v.pos ("cannot coerce to " ++ lt.toString)]
      | .ok n => coerceNamed S n v) := by
  cases Model.namedTarget t allow with
  | error lt => exact allPrimary_single _ _
  | ok n => exact coerceNamed_primary S n v

mutual
theorem coercion_primary (S : Schema) : ∀ (v : Value) (t : TRef) (allow : Bool),
    AllPrimary (validateCoercion S t allow v)
  | .var n p, t, allow => by simp [validateCoercion, AllPrimary]
  | .null p, t, allow => by
    unfold validateCoercion
    split
    · exact allPrimary_single _ _
    · exact allPrimary_nil
  | .list items p, t, allow => by
    unfold validateCoercion
    cases t.nullable with
    | list inner => exact coerceItems_primary S items inner
    | named n => exact coerceNamed_primary S n _
    | nonNull x => exact allPrimary_single _ _
  | .obj fields p, t, allow => by
    unfold validateCoercion
    cases Model.namedTarget t allow with
    | error lt => exact allPrimary_single _ _
    | ok n =>
      simp only
      cases hk : Model.kindOf S n with
      | none => simp only [hk]; exact coerceNamed_primary S n _
      | some k =>
        cases k with
        | input defs =>
          simp only
          have := coerceFields_primary S fields n defs [] [] allPrimary_nil
          cases hr : coerceFields S n defs fields [] [] with
          | inl nested => rw [hr] at this; exact this
          | inr pr =>
            obtain ⟨errs', seen'⟩ := pr
            rw [hr] at this
            simp only
            apply allPrimary_append this
            intro e he
            simp only [List.mem_flatMap] at he
            obtain ⟨d, _, hd⟩ := he
            split at hd
            · simp only [List.mem_singleton] at hd; subst hd; rfl
            · simp at hd
        | scalar sp => exact coerceNamed_primary S n _
        | enum vs => exact coerceNamed_primary S n _
        | object => exact coerceNamed_primary S n _
        | interface => exact coerceNamed_primary S n _
        | union => exact coerceNamed_primary S n _
  | .enum e p, t, allow => by unfold validateCoercion; exact targetCase_primary S t allow _
  | .int lit p, t, allow => by unfold validateCoercion; exact targetCase_primary S t allow _
  | .float lit p, t, allow => by unfold validateCoercion; exact targetCase_primary S t allow _
  | .str s p, t, allow => by unfold validateCoercion; exact targetCase_primary S t allow _
  | .bool b p, t, allow => by unfold validateCoercion; exact targetCase_primary S t allow _
theorem coerceItems_primary (S : Schema) : ∀ (items : List Value) (t : TRef),
    AllPrimary (coerceItems S t items)
  | [], t => by simp [coerceItems, AllPrimary]
  | v :: rest, t => by
    unfold coerceItems
    have hv := coercion_primary S v t false
    cases hc : validateCoercion S t false v with
    | nil => exact coerceItems_primary S rest t
    | cons e es => rw [hc] at hv; exact hv
theorem coerceFields_primary (S : Schema) : ∀ (fields : List ObjField) (tn : String) (defs : List InputDef)
    (errs : List Err) (seen : List String), AllPrimary errs →
    (match coerceFields S tn defs fields errs seen with
     | .inl nested => AllPrimary nested
     | .inr (errs', _) => AllPrimary errs')
  | [], tn, defs, errs, seen, h => by simpa [coerceFields] using h
  | .mk n p v :: rest, tn, defs, errs, seen, h => by
    unfold coerceFields
    have herrs : AllPrimary (if seen.contains n then errs ++ [newError p "duplicate field"] else errs) := by
      split
      · exact allPrimary_append h (allPrimary_single _ _)
      · exact h
    cases hfi : findInput defs n with
    | none =>
      exact coerceFields_primary S rest tn defs _ _ (allPrimary_append herrs (allPrimary_single _ _))
    | some d =>
      simp only
      have hv := coercion_primary S v d.type true
      cases hc : validateCoercion S d.type true v with
      | nil => exact coerceFields_primary S rest tn defs _ _ herrs
      | cons e es => rw [hc] at hv; exact hv
end

theorem primaryFree_of_allPrimary {es : List Err} (h : AllPrimary es) : primaryFree es = es.isEmpty := by
  cases es with
  | nil => rfl
  | cons e rest =>
    have := h e (by simp)
    simp [primaryFree, this]

/-- validateCoercion: no primary error iff the value has the expected type (§5.6.1 – §5.6.4). -/
theorem coercion_ok (S : Schema) (v : Value) (t : TRef) (allow : Bool) :
    primaryFree (validateCoercion S t allow v) = Spec.valueOk S t allow v := by
  rw [primaryFree_of_allPrimary (coercion_primary S v t allow), Bool.eq_iff_iff, List.isEmpty_iff]
  exact coercion_nil S v t allow

/-! ## Values: the traversal -/

def valuesOcc (S : Schema) : Occ → List Err
  | .field scope _ n _ args dirs _ =>
    valuesArgs S (fieldArgCtx ((Model.fieldDefinition S scope n).map (·.args))) args ++ valuesDirectives S dirs
  | .spread _ _ _ dirs _ => valuesDirectives S dirs
  | .inline _ _ dirs _ => valuesDirectives S dirs

mutual
theorem values_sel_flat (S : Schema) : ∀ (scope : Option String) (sel : Selection),
    valuesSel S scope sel = (moccSel S scope sel).flatMap (valuesOcc S)
  | scope, .field al n np args dirs none => by simp [valuesSel, moccSel, valuesOcc]
  | scope, .field al n np args dirs (some ss) => by
    simp [valuesSel, moccSel, valuesOcc, values_set_flat S (Model.innerScope S scope n) ss]
  | scope, .spread n np dirs p => by simp [valuesSel, moccSel, valuesOcc]
  | scope, .inline tc dirs ss p => by
    simp [valuesSel, moccSel, valuesOcc, values_set_flat S (Model.inlineScope S scope tc) ss]
theorem values_set_flat (S : Schema) : ∀ (scope : Option String) (ss : SelSet),
    valuesSet S scope ss = (moccSet S scope ss).flatMap (valuesOcc S)
  | scope, .mk sels p => by simp [valuesSet, moccSet, values_sels_flat S scope sels]
theorem values_sels_flat (S : Schema) : ∀ (scope : Option String) (sels : List Selection),
    valuesSels S scope sels = (moccSels S scope sels).flatMap (valuesOcc S)
  | scope, [] => by simp [valuesSels, moccSels]
  | scope, s :: rest => by
    simp [valuesSels, moccSels, values_sel_flat S scope s, values_sels_flat S scope rest]
end

/-- The callback of validateValues at one argument value whose expected type comes from `defs`. -/
theorem valueNode_ok (S : Schema) (defs : List InputDef) (locd : Bool) (a : Argument) (args : List Argument) :
    primaryFree (valueNode S { exp := (findInput defs a.name).map (·.type), locDefault := locd } a.value) =
      Spec.argValueOk S { defs := defs, args := args } a := by
  unfold valueNode Spec.argValueOk
  cases hv : a.value.isVar with
  | true =>
    simp only [if_true]
    cases a with
    | mk n p v =>
      cases v <;> simp [Value.isVar] at hv
      cases findInput defs n <;> simp [primaryFree, Spec.valueOk]
  | false =>
    simp only [Bool.false_eq_true, if_false]
    cases findInput defs a.name with
    | none => simp [primaryFree, newSecondaryError]
    | some d => simp [coercion_ok]

theorem fieldArgCtx_exp (defs : List InputDef) (n : String) :
    (fieldArgCtx (some defs) n).exp = (findInput defs n).map (·.type) := by
  unfold fieldArgCtx
  cases h : findInput defs n <;> simp [noCtx, h]

theorem inputCtx_exp (defs : List InputDef) (n : String) :
    (inputCtx (some defs) n).exp = (findInput defs n).map (·.type) := by
  unfold inputCtx
  cases h : findInput defs n <;> simp [noCtx, h]

theorem valueNode_exp (S : Schema) (c c' : VCtx) (v : Value) (h : c.exp = c'.exp) :
    valueNode S c v = valueNode S c' v := by
  unfold valueNode; rw [h]

theorem valuesArgs_field_ok (S : Schema) (defs : List InputDef) (args : List Argument) :
    primaryFree (valuesArgs S (fieldArgCtx (some defs)) args) = Spec.siteValuesOk S { defs := defs, args := args } := by
  unfold valuesArgs Spec.siteValuesOk
  rw [primaryFree_flatMap]
  apply all_congr_mem
  intro a _
  rw [valueNode_exp S _ { exp := (findInput defs a.name).map (·.type), locDefault := false } _ (fieldArgCtx_exp defs a.name)]
  exact valueNode_ok S defs false a args

theorem valuesArgs_input_ok (S : Schema) (defs : List InputDef) (args : List Argument) :
    primaryFree (valuesArgs S (inputCtx (some defs)) args) = Spec.siteValuesOk S { defs := defs, args := args } := by
  unfold valuesArgs Spec.siteValuesOk
  rw [primaryFree_flatMap]
  apply all_congr_mem
  intro a _
  rw [valueNode_exp S _ { exp := (findInput defs a.name).map (·.type), locDefault := false } _ (inputCtx_exp defs a.name)]
  exact valueNode_ok S defs false a args

theorem valuesArgs_none (S : Schema) (args : List Argument) :
    primaryFree (valuesArgs S (fieldArgCtx none) args) = true ∧ primaryFree (valuesArgs S (inputCtx none) args) = true := by
  unfold valuesArgs
  constructor <;>
  · rw [primaryFree_flatMap, List.all_eq_true]
    intro a _
    unfold valueNode
    cases a.value.isVar <;> simp [fieldArgCtx, inputCtx, noCtx, primaryFree, newSecondaryError]

theorem valuesDirectives_ok (S : Schema) (dirs : List Directive) :
    primaryFree (valuesDirectives S dirs) = (Spec.dirArgSites S dirs).all (Spec.siteValuesOk S) := by
  unfold valuesDirectives Spec.dirArgSites
  induction dirs with
  | nil => rfl
  | cons d rest ih =>
    simp only [List.flatMap_cons, primaryFree_append, List.filterMap_cons, ih]
    cases hf : S.findDirective d.name with
    | none => simp [(valuesArgs_none S d.args).2]
    | some dd => simp [valuesArgs_input_ok]

theorem siteValuesOk_nil_defs (S : Schema) (args : List Argument) :
    Spec.siteValuesOk S { defs := [], args := args } = true := by
  simp [Spec.siteValuesOk, Spec.argValueOk, findInput]

theorem valuesOcc_ok {S : Schema} (hwf : S.wf = true) {o : Occ} (hinv : Inv S (occParent o))
    (hs : scopedAt S o = true) :
    primaryFree (valuesOcc S o) = (Spec.occArgSites S o).all (Spec.siteValuesOk S) := by
  cases o with
  | field parent al n np args dirs sel =>
    obtain ⟨p, hp', hp⟩ := hinv
    simp only [occParent] at hp'
    subst hp'
    simp only [scopedAt, Bool.and_eq_true, fieldDefinedAt, hp, Bool.not_true, Bool.false_or] at hs
    have hdef := hs.1.1.1
    have hagree := fieldDef_agree hwf hp n
    have htn := fieldDefinition_typename hwf (some p)
    simp only [valuesOcc, Spec.occArgSites, primaryFree_append, List.all_append, valuesDirectives_ok, Spec.occDirs]
    congr 1
    cases hd : Spec.fieldDef? S p n with
    | none => simp [hd] at hdef
    | some d =>
      simp only [List.all_cons, List.all_nil, Bool.and_true]
      by_cases hn : n = "__typename"
      · subst hn
        simp only [if_true] at hagree
        rw [hd] at hagree
        simp only [Option.some.injEq] at hagree
        subst hagree
        simp [htn, (valuesArgs_none S args).1, Spec.typenameField, siteValuesOk_nil_defs]
      · simp only [hn, if_false] at hagree
        rw [hd] at hagree
        rw [← hagree]
        simp only [Option.map_some]
        exact valuesArgs_field_ok S d.args args
  | spread parent n np dirs p =>
    simp [valuesOcc, Spec.occArgSites, valuesDirectives_ok, Spec.occDirs]
  | inline parent tc dirs p =>
    simp [valuesOcc, Spec.occArgSites, valuesDirectives_ok, Spec.occDirs]

theorem schemaType_eq_resolveType (S : Schema) (t : TypeExpr) : Model.schemaType S t = Spec.resolveType S t := by
  induction t with
  | named n p =>
    simp only [Model.schemaType, Spec.resolveType, namedType_eq_condScope, Spec.condScope]
    cases (S.find n).isSome <;> simp
  | list t p ih => simp [Model.schemaType, Spec.resolveType, ih]
  | nonNull t ih => simp [Model.schemaType, Spec.resolveType, ih]

theorem defaultValueErrors_ok (S : Schema) (vars : List VarDef) :
    primaryFree (defaultValueErrors S vars) = vars.all (Spec.defaultOk S) := by
  unfold defaultValueErrors
  rw [primaryFree_flatMap]
  apply all_congr_mem
  intro vd _
  unfold Spec.defaultOk
  cases hd : vd.dflt with
  | none => simp [primaryFree]
  | some v =>
    simp only [schemaType_eq_resolveType]
    unfold valueNode
    cases hv : v.isVar with
    | true =>
      cases v <;> simp [Value.isVar] at hv
      cases Spec.resolveType S vd.type <;> simp [primaryFree, Spec.valueOk]
    | false =>
      simp only [Bool.false_eq_true, if_false]
      cases Spec.resolveType S vd.type with
      | none => simp [primaryFree, newSecondaryError]
      | some t => simp [coercion_ok]

theorem varDefsOf_eq (d : Definition) : Model.varDefsOf d = Spec.varDefsOf d := by cases d <;> rfl
theorem defDirs_eq (d : Definition) : Model.defDirs d = Spec.defDirs d := by cases d <;> rfl

/-! ## Operations (validate_operations.go) -/

theorem unsupported_nil (x : Option String) (p : Pos) :
    ((if x.isNone then [newError p "unsupported operation type"] else []) = []) ↔ x.isSome = true := by
  cases x <;> simp

theorem operationLoop_nil (S : Schema) (seen : List String) (D : List Definition) :
    operationLoopErrors S seen D = [] ↔
      ((∀ n ∈ Spec.opNames D, n ∉ seen) ∧ Spec.nodup (Spec.opNames D) = true ∧ D.all (Spec.opSupportedAt S) = true) := by
  induction D generalizing seen with
  | nil => simp [operationLoopErrors, Spec.opNames, Spec.nodup]
  | cons d rest ih =>
    cases d with
    | frag n np tc tcp dirs sel p =>
      simp only [operationLoopErrors, ih, Spec.opNames, List.filterMap_cons, List.all_cons, Spec.opSupportedAt,
        Bool.true_and]
    | op kind name vars dirs sel =>
      cases name with
      | none =>
        simp only [operationLoopErrors, List.append_eq_nil_iff, ih, Spec.opNames, List.filterMap_cons,
          List.all_cons, Spec.opSupportedAt, Bool.and_eq_true, true_and]
        cases h : (Model.opScope S kind).isNone with
        | true =>
          have : (S.root (opKindOf kind)).isSome = false := by
            simp only [Model.opScope] at h; cases hr : S.root (opKindOf kind) <;> simp [hr] at h ⊢
          simp [this]
        | false =>
          have : (S.root (opKindOf kind)).isSome = true := by
            simp only [Model.opScope] at h; cases hr : S.root (opKindOf kind) <;> simp [hr] at h ⊢
          simp [this]
      | some np =>
        obtain ⟨n, p⟩ := np
        simp only [operationLoopErrors, List.append_eq_nil_iff, ih, Spec.opNames, List.filterMap_cons,
          List.all_cons, Spec.opSupportedAt, Bool.and_eq_true, nodup_cons, List.mem_cons, forall_eq_or_imp,
          Bool.not_eq_true']
        have hsup : ((if (Model.opScope S kind).isNone then [newError (opPos kind sel) "unsupported operation type"] else []) = [])
            ↔ (S.root (opKindOf kind)).isSome = true := unsupported_nil _ _
        rw [hsup]
        by_cases hs : n ∈ seen
        · simp [hs]
        · simp only [List.contains_eq_mem, hs, decide_false, Bool.false_eq_true, if_false, true_and,
            not_false_eq_true, List.mem_append, List.mem_singleton, not_or, decide_eq_false_iff_not]
          constructor
          · rintro ⟨h1, h2, h3, h4⟩
            exact ⟨fun m hm => (h2 m hm).1, ⟨fun hm => (h2 n hm).2 rfl, h3⟩, h1, h4⟩
          · rintro ⟨h1, ⟨h2, h3⟩, h4, h5⟩
            exact ⟨h4, fun m hm => ⟨h1 m hm, fun he => h2 (he ▸ hm)⟩, h3, h5⟩

theorem anonymousCount_eq (D : Document) : Model.anonymousCount D = Spec.anonCount D := by
  unfold Spec.anonCount
  induction D with
  | nil => rfl
  | cons d rest ih =>
    cases d with
    | frag => simpa [Model.anonymousCount, List.filter_cons] using ih
    | op kind name vars dirs sel =>
      cases name with
      | none => simp [Model.anonymousCount, List.filter_cons, ih]
      | some np => simpa [Model.anonymousCount, List.filter_cons] using ih

theorem opDefs_length (D : Document) : (Model.opDefs D).length = Spec.opCount D := rfl

theorem anon_le_ops (D : Document) : Spec.anonCount D ≤ Spec.opCount D := by
  unfold Spec.anonCount Spec.opCount
  induction D with
  | nil => simp
  | cons d rest ih =>
    cases d with
    | frag => simpa [List.filter_cons] using ih
    | op kind name vars dirs sel =>
      cases name <;> simp [List.filter_cons] <;> omega

theorem opDefs_all_op (D : Document) : ∀ d ∈ Model.opDefs D, ∃ k n v ds s, d = Definition.op k n v ds s := by
  intro d hd
  unfold Model.opDefs at hd
  simp only [List.mem_filter] at hd
  cases d with
  | op k n v ds s => exact ⟨k, n, v, ds, s, rfl⟩
  | frag => simp at hd

theorem loneAnonymous_nil (D : Document) :
    loneAnonymousErrors D = [] ↔ Spec.loneAnonymous D = true := by
  unfold loneAnonymousErrors Spec.loneAnonymous
  rw [anonymousCount_eq, ← opDefs_length]
  have hle := anon_le_ops D
  rw [← opDefs_length] at hle
  by_cases h0 : Spec.anonCount D = 0
  · simp [h0]
  · have hpos : Spec.anonCount D > 0 := Nat.pos_of_ne_zero h0
    simp only [hpos, if_true, h0, decide_false, Bool.false_or, decide_eq_true_eq]
    cases hd : Model.opDefs D with
    | nil => rw [hd] at hle; simp at hle; omega
    | cons d1 rest1 =>
      cases rest1 with
      | nil => simp
      | cons d2 rest2 =>
        obtain ⟨k, n, v, ds, s, rfl⟩ := opDefs_all_op D d2 (by rw [hd]; simp)
        simp

/-! ## Variables: definitions (validate_variables.go:21-36) -/

abbrev varTypeOk := Spec.variableTypeOk

theorem isInputRef_eq (S : Schema) (t : TRef) : Model.isInputRef S t = Spec.isInputType S t.base := rfl

theorem ite_nil_iff (b : Bool) (e : Err) : ((if b = true then [] else [e]) = []) ↔ b = true := by
  cases b <;> simp

theorem variableTypeErrors_nil (S : Schema) (vd : VarDef) :
    variableTypeErrors S vd = [] ↔ Spec.variableTypeOk S vd = true := by
  unfold variableTypeErrors Spec.variableTypeOk
  rw [schemaType_eq_resolveType]
  cases Spec.resolveType S vd.type with
  | none => simp
  | some t =>
    simp only [isInputRef_eq]
    exact ite_nil_iff _ _

theorem variableDefErrors_nil (S : Schema) (seen : List String) (vars : List VarDef) :
    variableDefErrors S seen vars = [] ↔
      ((∀ vd ∈ vars, vd.name ∉ seen) ∧ Spec.nodup (vars.map (·.name)) = true ∧ vars.all (varTypeOk S) = true) := by
  induction vars generalizing seen with
  | nil => simp [variableDefErrors, Spec.nodup]
  | cons vd rest ih =>
    simp only [variableDefErrors, List.append_eq_nil_iff, ih, variableTypeErrors_nil]
    by_cases hs : vd.name ∈ seen
    · simp [hs]
    · simp only [List.contains_eq_mem, hs, decide_false, Bool.false_eq_true, if_false, true_and,
        nodup_cons, List.map_cons, List.mem_cons, forall_eq_or_imp, not_false_eq_true, List.all_cons,
        Bool.and_eq_true, Bool.not_eq_true', List.mem_append, List.mem_singleton, not_or, List.mem_map,
        decide_eq_false_iff_not, not_exists, not_and, List.not_mem_nil, or_false]
      constructor
      · rintro ⟨h1, h2, h3, h4⟩
        exact ⟨fun g hg => (h2 g hg).1, ⟨fun g hg he => (h2 g hg).2 he, h3⟩, h1, h4⟩
      · rintro ⟨h1, ⟨h2, h3⟩, h4, h5⟩
        exact ⟨h4, fun g hg => ⟨h1 g hg, fun he => h2 g hg he⟩, h3, h5⟩



/-! ## Variables: usages inside one value (TypeInfo's expected types of nested values) -/

@[simp] theorem VarAcc.errs_append (a b : VarAcc) : (a ++ b).errs = a.errs ++ b.errs := rfl
@[simp] theorem VarAcc.encountered_append (a b : VarAcc) : (a ++ b).encountered = a.encountered ++ b.encountered := rfl
@[simp] theorem VarAcc.spreads_append (a b : VarAcc) : (a ++ b).spreads = a.spreads ++ b.spreads := rfl
@[simp] theorem VarAcc.errs_empty : ({} : VarAcc).errs = [] := rfl
@[simp] theorem VarAcc.encountered_empty : ({} : VarAcc).encountered = [] := rfl
@[simp] theorem VarAcc.spreads_empty : ({} : VarAcc).spreads = [] := rfl

/-- A `null` default on a non-null input field / directive argument does not occur (it would make
    the type system itself inconsistent); TypeInfo stores `schema.Null` defaults of these as `nil`. -/
def defaultOkDef (d : InputDef) : Bool := !(d.dflt == .null && d.type.isNonNull)

def Schema.wfDefaults (S : Schema) : Bool :=
  S.types.all (fun t => match t.kind with
                        | .input fs => fs.all defaultOkDef
                        | _ => true) &&
  S.directives.all (fun d => d.args.all defaultOkDef)

/-- What the model does for one variable usage. -/
def usageErrs (S : Schema) (vars : List VarDef) (u : Usage) : List Err :=
  match vars.find? (fun vd => vd.name = u.name) with
  | none => [newError u.pos "undefined variable"]
  | some vd =>
    validateVariableUsage S vd u.pos { exp := u.expected, locDefault := u.locDefault, inScalar := u.inScalar }

/-- The model's context and the specification's (expected type, location default) agree up to the
    location default of positions that are not non-null (where it is never looked at). -/
def CtxRel (c : VCtx) (t : Option TRef) (ld : Bool) (sc : Bool := false) : Prop :=
  (c.exp = t ∧ c.inScalar = sc) ∧ ∀ inner, t = some (.nonNull inner) → c.locDefault = ld

theorem validateVariableUsage_ctx (S : Schema) (vd : VarDef) (p : Pos) {c : VCtx} {t : Option TRef} {ld sc : Bool}
    (h : CtxRel c t ld sc) :
    validateVariableUsage S vd p c =
      validateVariableUsage S vd p { exp := t, locDefault := ld, inScalar := sc } := by
  obtain ⟨⟨he, hs⟩, hl⟩ := h
  unfold validateVariableUsage
  simp only [he, hs]
  cases Model.schemaType S vd.type with
  | none => rfl
  | some vt =>
    cases t with
    | none => rfl
    | some lt =>
      cases lt with
      | nonNull inner => simp only [hl inner rfl]
      | named n => rfl
      | list x => rfl

theorem itemExpected_eq (t : Option TRef) : Model.itemExpected t = Spec.itemType t := rfl
theorem objectFields_eq (S : Schema) (t : Option TRef) : Model.objectFields S t = Spec.objectTarget S t := rfl
theorem itemInScalar_eq (S : Schema) (c : VCtx) : Model.itemInScalar S c = Spec.itemInScalar S c.exp c.inScalar := rfl
theorem fieldInScalar_eq (S : Schema) (c : VCtx) : Model.fieldInScalar S c = Spec.fieldInScalar S c.exp c.inScalar := rfl

theorem inputCtx_rel (defs : Option (List InputDef)) (n : String)
    (hd : ∀ ds, defs = some ds → ∀ d ∈ ds, defaultOkDef d = true) :
    CtxRel (inputCtx defs n)
      (match defs.bind (findInput · n) with
       | some d => some d.type
       | none => none)
      (match defs.bind (findInput · n) with
       | some d => d.dflt != .none
       | none => false) := by
  unfold inputCtx CtxRel
  cases hb : defs.bind (findInput · n) with
  | none => simp [noCtx]
  | some d =>
    simp only [true_and, and_self]
    intro inner hi
    simp only [Option.some.injEq] at hi
    cases defs with
    | none => simp at hb
    | some ds =>
      simp only [Option.bind_some] at hb
      have hmem : d ∈ ds := by
        unfold findInput at hb
        exact List.mem_of_find?_eq_some hb
      have := hd ds rfl d hmem
      unfold defaultOkDef at this
      cases hdf : d.dflt <;> simp [hdf, hi, TRef.isNonNull] at this ⊢

mutual
theorem varsValue_errs (S : Schema) (hw : Schema.wfDefaults S = true) (vars : List VarDef) :
    ∀ (v : Value) (c : VCtx) (t : Option TRef) (ld sc : Bool), CtxRel c t ld sc →
    (varsValue S vars c v).errs = (Spec.usagesValue S t ld sc v).flatMap (usageErrs S vars)
  | .var n p, c, t, ld, sc, h => by
    unfold varsValue Spec.usagesValue usageErrs
    simp only [List.flatMap_cons, List.flatMap_nil, List.append_nil]
    cases vars.find? (fun vd => vd.name = n) with
    | none => rfl
    | some vd => exact validateVariableUsage_ctx S vd p h
  | .list items p, c, t, ld, sc, h => by
    unfold varsValue Spec.usagesValue
    rw [itemInScalar_eq, h.1.1, h.1.2, itemExpected_eq]
    exact varsItems_errs S hw vars items (Spec.itemType t) _
  | .obj fields p, c, t, ld, sc, h => by
    unfold varsValue Spec.usagesValue
    rw [fieldInScalar_eq, h.1.1, h.1.2, objectFields_eq]
    exact varsFields_errs S hw vars fields (Spec.objectTarget S t) _ (by
      intro hsc
      unfold Spec.fieldInScalar at hsc
      simp only [Bool.and_eq_true, Option.isNone_iff_eq_none] at hsc
      exact hsc.1) (by
      intro ds hds d hd
      -- the definitions come from an input object type of the schema
      unfold Spec.objectTarget at hds
      cases t with
      | none => simp at hds
      | some tt =>
        simp only at hds
        cases hk : Spec.kindOf S tt.base with
        | none => simp [hk] at hds
        | some k =>
          cases k with
          | input fs =>
            simp only [hk, Option.some.injEq] at hds
            subst hds
            unfold Spec.kindOf at hk
            cases hf : S.find tt.base with
            | none => simp [hf] at hk
            | some td =>
              simp only [hf, Option.map_some, Option.some.injEq] at hk
              have hmem := find_mem hf
              unfold Schema.wfDefaults at hw
              simp only [Bool.and_eq_true, List.all_eq_true] at hw
              have := hw.1 td hmem
              rw [hk] at this
              simp only [List.all_eq_true] at this
              exact this d hd
          | scalar => simp [hk] at hds
          | object => simp [hk] at hds
          | interface => simp [hk] at hds
          | union => simp [hk] at hds
          | enum => simp [hk] at hds)
  | .int _ _, c, t, ld, sc, h => by simp [varsValue, Spec.usagesValue]
  | .float _ _, c, t, ld, sc, h => by simp [varsValue, Spec.usagesValue]
  | .str _ _, c, t, ld, sc, h => by simp [varsValue, Spec.usagesValue]
  | .bool _ _, c, t, ld, sc, h => by simp [varsValue, Spec.usagesValue]
  | .null _, c, t, ld, sc, h => by simp [varsValue, Spec.usagesValue]
  | .enum _ _, c, t, ld, sc, h => by simp [varsValue, Spec.usagesValue]
theorem varsItems_errs (S : Schema) (hw : Schema.wfDefaults S = true) (vars : List VarDef) :
    ∀ (items : List Value) (t : Option TRef) (sc : Bool),
    (varsItems S vars t sc items).errs = (Spec.usagesItems S t sc items).flatMap (usageErrs S vars)
  | [], t, sc => by simp [varsItems, Spec.usagesItems]
  | v :: rest, t, sc => by
    simp only [varsItems, Spec.usagesItems, VarAcc.errs_append, List.flatMap_append]
    rw [varsValue_errs S hw vars v { exp := t, locDefault := false, inScalar := sc } t false sc
        ⟨⟨rfl, rfl⟩, fun _ _ => rfl⟩,
      varsItems_errs S hw vars rest t sc]
theorem varsFields_errs (S : Schema) (hw : Schema.wfDefaults S = true) (vars : List VarDef) :
    ∀ (fields : List ObjField) (defs : Option (List InputDef)) (sc : Bool), (sc = true → defs = none) →
    (∀ ds, defs = some ds → ∀ d ∈ ds, defaultOkDef d = true) →
    (varsFields S vars defs sc fields).errs = (Spec.usagesFields S defs sc fields).flatMap (usageErrs S vars)
  | [], defs, sc, _, _ => by simp [varsFields, Spec.usagesFields]
  | .mk n p v :: rest, defs, sc, hsc, hd => by
    simp only [varsFields, Spec.usagesFields, VarAcc.errs_append, List.flatMap_append]
    rw [varsFields_errs S hw vars rest defs sc hsc hd]
    congr 1
    have hrel := inputCtx_rel defs n hd
    cases hb : defs.bind (findInput · n) with
    | none =>
      simp only [hb] at hrel
      exact varsValue_errs S hw vars v _ none false sc ⟨⟨hrel.1.1, rfl⟩, hrel.2⟩
    | some d =>
      simp only [hb] at hrel
      have hsf : sc = false := by
        cases sc with
        | false => rfl
        | true => rw [hsc rfl] at hb; simp at hb
      exact varsValue_errs S hw vars v _ (some d.type) (d.dflt != .none) false ⟨⟨hrel.1.1, hsf⟩, hrel.2⟩
end


mutual
theorem varsValue_enc (S : Schema) (vars : List VarDef) :
    ∀ (v : Value) (c : VCtx) (t : Option TRef) (ld sc : Bool),
    (varsValue S vars c v).encountered = (Spec.usagesValue S t ld sc v).map (·.name)
  | .var n p, c, t, ld, sc => by
    unfold varsValue Spec.usagesValue
    cases vars.find? (fun vd => vd.name = n) <;> rfl
  | .list items p, c, t, ld, sc => by
    unfold varsValue Spec.usagesValue
    exact varsItems_enc S vars items _ _ _ _
  | .obj fields p, c, t, ld, sc => by
    unfold varsValue Spec.usagesValue
    exact varsFields_enc S vars fields _ _ _ _
  | .int _ _, c, t, ld, sc => by simp [varsValue, Spec.usagesValue]
  | .float _ _, c, t, ld, sc => by simp [varsValue, Spec.usagesValue]
  | .str _ _, c, t, ld, sc => by simp [varsValue, Spec.usagesValue]
  | .bool _ _, c, t, ld, sc => by simp [varsValue, Spec.usagesValue]
  | .null _, c, t, ld, sc => by simp [varsValue, Spec.usagesValue]
  | .enum _ _, c, t, ld, sc => by simp [varsValue, Spec.usagesValue]
theorem varsItems_enc (S : Schema) (vars : List VarDef) :
    ∀ (items : List Value) (t t' : Option TRef) (sc sc' : Bool),
    (varsItems S vars t sc items).encountered = (Spec.usagesItems S t' sc' items).map (·.name)
  | [], t, t', sc, sc' => by simp [varsItems, Spec.usagesItems]
  | v :: rest, t, t', sc, sc' => by
    simp only [varsItems, Spec.usagesItems, VarAcc.encountered_append, List.map_append]
    rw [varsValue_enc S vars v _ t' false sc', varsItems_enc S vars rest t t' sc sc']
theorem varsFields_enc (S : Schema) (vars : List VarDef) :
    ∀ (fields : List ObjField) (defs defs' : Option (List InputDef)) (sc sc' : Bool),
    (varsFields S vars defs sc fields).encountered = (Spec.usagesFields S defs' sc' fields).map (·.name)
  | [], defs, defs', sc, sc' => by simp [varsFields, Spec.usagesFields]
  | .mk n p v :: rest, defs, defs', sc, sc' => by
    simp only [varsFields, Spec.usagesFields, VarAcc.encountered_append, List.map_append]
    rw [varsFields_enc S vars rest defs defs' sc sc']
    congr 1
    cases defs'.bind (findInput · n) with
    | none => exact varsValue_enc S vars v _ none false sc'
    | some d => exact varsValue_enc S vars v _ (some d.type) (d.dflt != .none) false
end

mutual
theorem varsValue_spreads (S : Schema) (vars : List VarDef) :
    ∀ (v : Value) (c : VCtx), (varsValue S vars c v).spreads = []
  | .var n p, c => by
    unfold varsValue
    cases vars.find? (fun vd => vd.name = n) <;> rfl
  | .list items p, c => by unfold varsValue; exact varsItems_spreads S vars items _ _
  | .obj fields p, c => by unfold varsValue; exact varsFields_spreads S vars fields _ _
  | .int _ _, c => by simp [varsValue]
  | .float _ _, c => by simp [varsValue]
  | .str _ _, c => by simp [varsValue]
  | .bool _ _, c => by simp [varsValue]
  | .null _, c => by simp [varsValue]
  | .enum _ _, c => by simp [varsValue]
theorem varsItems_spreads (S : Schema) (vars : List VarDef) :
    ∀ (items : List Value) (t : Option TRef) (sc : Bool), (varsItems S vars t sc items).spreads = []
  | [], t, sc => by simp [varsItems]
  | v :: rest, t, sc => by
    simp only [varsItems, VarAcc.spreads_append, varsValue_spreads S vars v _, varsItems_spreads S vars rest t sc,
      List.append_nil]
theorem varsFields_spreads (S : Schema) (vars : List VarDef) :
    ∀ (fields : List ObjField) (defs : Option (List InputDef)) (sc : Bool),
      (varsFields S vars defs sc fields).spreads = []
  | [], defs, sc => by simp [varsFields]
  | .mk n p v :: rest, defs, sc => by
    simp only [varsFields, VarAcc.spreads_append, varsValue_spreads S vars v _,
      varsFields_spreads S vars rest defs sc, List.append_nil]
end

/-! ### argument lists, directive lists -/

theorem dirDefs_ok {S : Schema} (hw : Schema.wfDefaults S = true) (n : String) :
    ∀ ds, (S.findDirective n).map (·.args) = some ds → ∀ d ∈ ds, defaultOkDef d = true := by
  intro ds hds d hd
  cases hf : S.findDirective n with
  | none => simp [hf] at hds
  | some dd =>
    simp only [hf, Option.map_some, Option.some.injEq] at hds
    subst hds
    unfold Schema.wfDefaults at hw
    simp only [Bool.and_eq_true, List.all_eq_true] at hw
    have hmem : dd ∈ S.directives := by
      unfold Schema.findDirective at hf
      exact List.mem_of_find?_eq_some hf
    exact hw.2 dd hmem d hd

theorem fieldArgCtx_rel (defs : Option (List InputDef)) (n : String) :
    CtxRel (fieldArgCtx defs n)
      (match defs.bind (findInput · n) with
       | some d => some d.type
       | none => none)
      (match defs.bind (findInput · n) with
       | some d => d.dflt != .none
       | none => false) := by
  unfold fieldArgCtx CtxRel
  cases defs.bind (findInput · n) with
  | none => simp [noCtx]
  | some d => simp

/-- Arguments of a directive (or of anything whose contexts come from `inputCtx`). -/
theorem varsArgs_input (S : Schema) (hw : Schema.wfDefaults S = true) (vars : List VarDef)
    (defs : Option (List InputDef)) (hd : ∀ ds, defs = some ds → ∀ d ∈ ds, defaultOkDef d = true)
    (args : List Argument) :
    (varsArgs S vars (inputCtx defs) args).errs = (Spec.usagesArgs S defs args).flatMap (usageErrs S vars) ∧
    (varsArgs S vars (inputCtx defs) args).encountered = (Spec.usagesArgs S defs args).map (·.name) ∧
    (varsArgs S vars (inputCtx defs) args).spreads = [] := by
  unfold Spec.usagesArgs
  induction args with
  | nil => simp [varsArgs]
  | cons a rest ih =>
    obtain ⟨i1, i2, i3⟩ := ih
    simp only [varsArgs, VarAcc.errs_append, VarAcc.encountered_append, VarAcc.spreads_append, List.flatMap_cons,
      List.flatMap_append, List.map_append, i1, i2, i3, varsValue_spreads, List.append_nil]
    have hrel := inputCtx_rel defs a.name hd
    cases hb : defs.bind (findInput · a.name) with
    | none =>
      simp only [hb] at hrel
      exact ⟨by rw [varsValue_errs S hw vars a.value _ none false false hrel],
        by rw [varsValue_enc S vars a.value _ none false false], trivial⟩
    | some d =>
      simp only [hb] at hrel
      exact ⟨by rw [varsValue_errs S hw vars a.value _ (some d.type) (d.dflt != .none) false hrel],
        by rw [varsValue_enc S vars a.value _ (some d.type) (d.dflt != .none) false], trivial⟩

/-- Arguments of a field. -/
theorem varsArgs_field (S : Schema) (hw : Schema.wfDefaults S = true) (vars : List VarDef)
    (defs : Option (List InputDef)) (args : List Argument) :
    (varsArgs S vars (fieldArgCtx defs) args).errs = (Spec.usagesArgs S defs args).flatMap (usageErrs S vars) ∧
    (varsArgs S vars (fieldArgCtx defs) args).encountered = (Spec.usagesArgs S defs args).map (·.name) ∧
    (varsArgs S vars (fieldArgCtx defs) args).spreads = [] := by
  unfold Spec.usagesArgs
  induction args with
  | nil => simp [varsArgs]
  | cons a rest ih =>
    obtain ⟨i1, i2, i3⟩ := ih
    simp only [varsArgs, VarAcc.errs_append, VarAcc.encountered_append, VarAcc.spreads_append, List.flatMap_cons,
      List.flatMap_append, List.map_append, i1, i2, i3, varsValue_spreads, List.append_nil]
    have hrel := fieldArgCtx_rel defs a.name
    cases hb : defs.bind (findInput · a.name) with
    | none =>
      simp only [hb] at hrel
      exact ⟨by rw [varsValue_errs S hw vars a.value _ none false false hrel],
        by rw [varsValue_enc S vars a.value _ none false false], trivial⟩
    | some d =>
      simp only [hb] at hrel
      exact ⟨by rw [varsValue_errs S hw vars a.value _ (some d.type) (d.dflt != .none) false hrel],
        by rw [varsValue_enc S vars a.value _ (some d.type) (d.dflt != .none) false], trivial⟩

theorem varsDirectives_spec (S : Schema) (hw : Schema.wfDefaults S = true) (vars : List VarDef)
    (dirs : List Directive) :
    (varsDirectives S vars dirs).errs = (Spec.usagesDirs S dirs).flatMap (usageErrs S vars) ∧
    (varsDirectives S vars dirs).encountered = (Spec.usagesDirs S dirs).map (·.name) ∧
    (varsDirectives S vars dirs).spreads = [] := by
  unfold Spec.usagesDirs
  induction dirs with
  | nil => simp [varsDirectives]
  | cons d rest ih =>
    obtain ⟨i1, i2, i3⟩ := ih
    obtain ⟨a1, a2, a3⟩ := varsArgs_input S hw vars ((S.findDirective d.name).map (·.args)) (dirDefs_ok hw d.name) d.args
    simp only [varsDirectives, VarAcc.errs_append, VarAcc.encountered_append, VarAcc.spreads_append,
      List.flatMap_cons, List.flatMap_append, List.map_append, i1, i2, i3, a1, a2, a3, List.append_nil]
    exact ⟨trivial, trivial, trivial⟩


/-! ### one usage: the model's check against §5.8.3 and §5.8.5 -/

theorem areTypesCompatible_eq (v l : TRef) : Model.areTypesCompatible v l = Spec.typesCompatible v l := by
  induction v generalizing l with
  | named a => cases l <;> simp [Model.areTypesCompatible, Spec.typesCompatible]
  | list v ih => cases l <;> simp [Model.areTypesCompatible, Spec.typesCompatible, ih]
  | nonNull v ih => cases l <;> simp [Model.areTypesCompatible, Spec.typesCompatible, ih]

theorem primaryFree_ite_not (b : Bool) (e : Err) (he : e.secondary = false) :
    primaryFree (if !b then [e] else []) = b := by
  cases b <;> simp [primaryFree, he]

theorem usageErrs_ok (S : Schema) (vars : List VarDef) (u : Usage) :
    primaryFree (usageErrs S vars u) = (Spec.usageDefinedIn vars u && Spec.usageAllowedIn S vars u) := by
  unfold usageErrs Spec.usageDefinedIn Spec.usageAllowedIn
  cases hf : vars.find? (fun vd => vd.name = u.name) with
  | none =>
    have : (vars.any fun vd => vd.name = u.name) = false := by
      rw [List.find?_eq_none] at hf
      simp only [decide_eq_true_eq] at hf
      simp only [List.any_eq_false, decide_eq_true_eq]
      exact hf
    simp [this, primaryFree, newError]
  | some vd =>
    have hmem := List.mem_of_find?_eq_some hf
    have hp := List.find?_some hf
    have : (vars.any fun vd => vd.name = u.name) = true := by
      simp only [List.any_eq_true]; exact ⟨vd, hmem, hp⟩
    simp only [this, Bool.true_and]
    unfold validateVariableUsage Spec.usageAllowed
    simp only [schemaType_eq_resolveType, areTypesCompatible_eq]
    cases Spec.resolveType S vd.type with
    | none => simp [primaryFree, newSecondaryError]
    | some vt =>
      cases hu : u.expected with
      | none => simp [primaryFree, newSecondaryError]
      | some lt =>
        cases lt with
        | named n => exact primaryFree_ite_not _ _ rfl
        | list x => exact primaryFree_ite_not _ _ rfl
        | nonNull inner =>
          simp only
          cases hnn : vt.isNonNull with
          | true =>
            simp only [Bool.not_true, Bool.false_eq_true, if_false, if_true]
            exact primaryFree_ite_not _ _ rfl
          | false =>
            simp only [Bool.not_false, if_true, Bool.false_eq_true, if_false]
            cases hdf : (!(match vd.dflt with
                | some v => !v.isNull
                | none => false) && !u.locDefault) with
            | true => simp [primaryFree, newError]
            | false =>
              simp only [Bool.false_eq_true, if_false]
              exact primaryFree_ite_not _ _ rfl


/-! ### the traversal -/

def varsOcc (S : Schema) (vars : List VarDef) : Occ → VarAcc
  | .field scope _ n _ args dirs _ =>
    varsArgs S vars (fieldArgCtx ((Model.fieldDefinition S scope n).map (·.args))) args ++ varsDirectives S vars dirs
  | .spread _ n _ dirs _ => ({ spreads := [n] } : VarAcc) ++ varsDirectives S vars dirs
  | .inline _ _ dirs _ => varsDirectives S vars dirs

/-- The three components of an accumulated traversal. -/
def FlatOf (S : Schema) (vars : List VarDef) (a : VarAcc) (occs : List Occ) : Prop :=
  a.errs = occs.flatMap (fun o => (varsOcc S vars o).errs) ∧
  a.encountered = occs.flatMap (fun o => (varsOcc S vars o).encountered) ∧
  a.spreads = occs.flatMap (fun o => (varsOcc S vars o).spreads)

theorem FlatOf.append {S : Schema} {vars : List VarDef} {a b : VarAcc} {xs ys : List Occ}
    (ha : FlatOf S vars a xs) (hb : FlatOf S vars b ys) : FlatOf S vars (a ++ b) (xs ++ ys) := by
  obtain ⟨a1, a2, a3⟩ := ha
  obtain ⟨b1, b2, b3⟩ := hb
  exact ⟨by simp [a1, b1], by simp [a2, b2], by simp [a3, b3]⟩

theorem FlatOf.single (S : Schema) (vars : List VarDef) (o : Occ) : FlatOf S vars (varsOcc S vars o) [o] := by
  simp [FlatOf]

theorem FlatOf.nil (S : Schema) (vars : List VarDef) : FlatOf S vars {} [] := by simp [FlatOf]

mutual
theorem vars_sel_flat (S : Schema) (vars : List VarDef) : ∀ (scope : Option String) (sel : Selection),
    FlatOf S vars (varsSel S vars scope sel) (moccSel S scope sel)
  | scope, .field al n np args dirs none => by
    have := FlatOf.single S vars (.field scope al n np args dirs none)
    simpa [varsSel, moccSel, varsOcc, FlatOf] using this
  | scope, .field al n np args dirs (some ss) => by
    have h1 := FlatOf.single S vars (.field scope al n np args dirs (some ss))
    have h2 := vars_set_flat S vars (Model.innerScope S scope n) ss
    have := FlatOf.append h1 h2
    simpa [varsSel, moccSel, varsOcc, FlatOf, List.append_assoc] using this
  | scope, .spread n np dirs p => by
    have := FlatOf.single S vars (.spread scope n np dirs p)
    simpa [varsSel, moccSel, varsOcc] using this
  | scope, .inline tc dirs ss p => by
    have h1 := FlatOf.single S vars (.inline scope tc dirs p)
    have h2 := vars_set_flat S vars (Model.inlineScope S scope tc) ss
    have := FlatOf.append h1 h2
    simpa [varsSel, moccSel, varsOcc] using this
theorem vars_set_flat (S : Schema) (vars : List VarDef) : ∀ (scope : Option String) (ss : SelSet),
    FlatOf S vars (varsSet S vars scope ss) (moccSet S scope ss)
  | scope, .mk sels p => by
    simpa [varsSet, moccSet] using vars_sels_flat S vars scope sels
theorem vars_sels_flat (S : Schema) (vars : List VarDef) : ∀ (scope : Option String) (sels : List Selection),
    FlatOf S vars (varsSels S vars scope sels) (moccSels S scope sels)
  | scope, [] => by simpa [varsSels, moccSels] using FlatOf.nil S vars
  | scope, s :: rest => by
    simpa [varsSels, moccSels] using FlatOf.append (vars_sel_flat S vars scope s) (vars_sels_flat S vars scope rest)
end


theorem usagesArgs_nil_defs (S : Schema) (args : List Argument) :
    Spec.usagesArgs S (some []) args = Spec.usagesArgs S none args := by
  unfold Spec.usagesArgs
  simp [findInput]

/-- One occurrence: the model's accumulation against the specification's usages there. -/
theorem varsOcc_spec {S : Schema} (hwf : S.wf = true) (hw : Schema.wfDefaults S = true) (vars : List VarDef)
    {o : Occ} (hinv : Inv S (occParent o)) (hs : scopedAt S o = true) :
    (varsOcc S vars o).errs = (Spec.usagesOcc S o).flatMap (usageErrs S vars) ∧
    (varsOcc S vars o).encountered = (Spec.usagesOcc S o).map (·.name) ∧
    (varsOcc S vars o).spreads = (Spec.spreadNameOf o).toList := by
  cases o with
  | field parent al n np args dirs sel =>
    obtain ⟨p, hp', hp⟩ := hinv
    simp only [occParent] at hp'
    subst hp'
    simp only [scopedAt, Bool.and_eq_true, fieldDefinedAt, hp, Bool.not_true, Bool.false_or] at hs
    have hdef := hs.1.1.1
    have hagree := fieldDef_agree hwf hp n
    have htn := fieldDefinition_typename hwf (some p)
    obtain ⟨d1, d2, d3⟩ := varsDirectives_spec S hw vars dirs
    -- the argument definitions both sides use
    have hdefs : ∃ defs : Option (List InputDef),
        (Model.fieldDefinition S (some p) n).map (·.args) = defs ∧
        Spec.usagesArgs S (((some p).bind (Spec.fieldDef? S · n)).map (·.args)) args = Spec.usagesArgs S defs args := by
      by_cases hn : n = "__typename"
      · subst hn
        simp only [if_true] at hagree
        refine ⟨none, by simp [htn], ?_⟩
        simp only [Option.bind_some, hagree, Option.map_some, Spec.typenameField]
        exact usagesArgs_nil_defs S args
      · simp only [hn, if_false] at hagree
        exact ⟨_, rfl, by simp [hagree]⟩
    obtain ⟨defs, hm, hsp⟩ := hdefs
    obtain ⟨a1, a2, a3⟩ := varsArgs_field S hw vars defs args
    simp only [varsOcc, Spec.usagesOcc, hm, hsp, VarAcc.errs_append, VarAcc.encountered_append,
      VarAcc.spreads_append, a1, a2, a3, d1, d2, d3, List.flatMap_append, List.map_append, Spec.spreadNameOf]
    exact ⟨trivial, trivial, rfl⟩
  | spread parent n np dirs p =>
    obtain ⟨d1, d2, d3⟩ := varsDirectives_spec S hw vars dirs
    simp only [varsOcc, Spec.usagesOcc, VarAcc.errs_append, VarAcc.encountered_append, VarAcc.spreads_append,
      d1, d2, d3, Spec.spreadNameOf]
    exact ⟨by simp, by simp, by simp⟩
  | inline parent tc dirs p =>
    obtain ⟨d1, d2, d3⟩ := varsDirectives_spec S hw vars dirs
    simp only [varsOcc, Spec.usagesOcc, d1, d2, d3, Spec.spreadNameOf]
    exact ⟨trivial, trivial, rfl⟩

mutual
theorem spreadsInSel_eq : ∀ (sel : Selection), Spec.spreadsInSel sel = Model.spreadNamesSel sel
  | .field _ _ _ _ _ none => by simp [Spec.spreadsInSel, Model.spreadNamesSel]
  | .field _ _ _ _ _ (some ss) => by simp [Spec.spreadsInSel, Model.spreadNamesSel, spreadsInSet_eq ss]
  | .spread _ _ _ _ => by simp [Spec.spreadsInSel, Model.spreadNamesSel]
  | .inline _ _ ss _ => by simp [Spec.spreadsInSel, Model.spreadNamesSel, spreadsInSet_eq ss]
theorem spreadsInSet_eq : ∀ (ss : SelSet), Spec.spreadsInSet ss = Model.spreadNamesSet ss
  | .mk sels _ => by simp [Spec.spreadsInSet, Model.spreadNamesSet, spreadsInSels_eq sels]
theorem spreadsInSels_eq : ∀ (sels : List Selection), Spec.spreadsInSels sels = Model.spreadNamesSels sels
  | [] => by simp [Spec.spreadsInSels, Model.spreadNamesSels]
  | s :: rest => by simp [Spec.spreadsInSels, Model.spreadNamesSels, spreadsInSel_eq s, spreadsInSels_eq rest]
end

theorem flatMap_congr_mem {α β : Type} (xs : List α) (f g : α → List β) (h : ∀ x ∈ xs, f x = g x) :
    xs.flatMap f = xs.flatMap g := by
  induction xs with
  | nil => rfl
  | cons x rest ih =>
    simp only [List.flatMap_cons]
    rw [h x (by simp), ih (fun y hy => h y (by simp [hy]))]

theorem filterMap_toList {α β : Type} (xs : List α) (f : α → Option β) :
    xs.flatMap (fun x => (f x).toList) = xs.filterMap f := by
  induction xs with
  | nil => rfl
  | cons x rest ih =>
    simp only [List.flatMap_cons, List.filterMap_cons, ih]
    cases f x <;> simp

/-- Usages written in the body of one definition (its directives and its selection set). -/
def bodyUsages (S : Schema) (d : Definition) : List Usage :=
  Spec.usagesDirs S (Spec.defDirs d) ++ (Spec.occDef S d).flatMap (Spec.usagesOcc S)

/-! ## No secondary error on well-scoped documents (first field pass, spread inspection) -/

theorem nil_of_primaryFree_allPrimary {es : List Err} (h1 : primaryFree es = true) (h2 : AllPrimary es) : es = [] := by
  cases es with
  | nil => rfl
  | cons e rest =>
    have a := h2 e (by simp)
    simp [primaryFree, a] at h1

theorem allPrimary_flatMap {α : Type} (xs : List α) (f : α → List Err) (h : ∀ x ∈ xs, AllPrimary (f x)) :
    AllPrimary (xs.flatMap f) := by
  intro e he
  simp only [List.mem_flatMap] at he
  obtain ⟨x, hx, hex⟩ := he
  exact h x hx e hex

theorem subselection_allPrimary (b : Bool) (n : String) (p : Pos) (sel : Option SelSet) :
    AllPrimary (subselectionErrors b n p sel) := by
  unfold subselectionErrors
  cases b <;> cases sel <;> simp only [Bool.false_eq_true, if_false, if_true]
  all_goals first
    | exact allPrimary_nil
    | exact allPrimary_single _ _
    | (split <;> first | exact allPrimary_nil | exact allPrimary_single _ _)

theorem missingField_allPrimary (S : Schema) (scope : Option String) (n : String) (np : Pos) :
    AllPrimary (missingFieldErrors S scope n np) := by
  unfold missingFieldErrors
  simp only
  split
  · cases scope with
    | none => exact allPrimary_nil
    | some p =>
      simp only
      cases Model.kindOf S p with
      | none => exact allPrimary_nil
      | some k =>
        cases k <;> simp only <;> first
          | exact allPrimary_nil
          | exact allPrimary_single _ _
          | (split <;> first | exact allPrimary_nil | exact allPrimary_single _ _)
  · exact allPrimary_nil

/-- With a TypeInfo entry (or for `__typename`) the callback of the first pass emits no secondary error. -/
theorem fieldNode_allPrimary (S : Schema) (scope : Option String) (al : Option (String × Pos)) (n : String) (np : Pos)
    (sel : Option SelSet) (hi : (Model.fieldDefinition S scope n).isSome = true ∨ n = "__typename") :
    AllPrimary (fieldNodeErrors S scope al n np sel) := by
  unfold fieldNodeErrors
  simp only
  have e1 : (if (Model.fieldDefinition S scope n).isNone && n != "__typename" then
      [newSecondaryError (fieldPos al np) "no type info for field"] else []) = [] := by
    rcases hi with hi | hi
    · cases hd : Model.fieldDefinition S scope n <;> simp [hd] at hi ⊢
    · simp [hi]
  rw [e1]
  apply allPrimary_append (allPrimary_append allPrimary_nil (missingField_allPrimary S scope n np))
  split
  · exact subselection_allPrimary _ _ _ _
  · exact allPrimary_nil

mutual
theorem fields1_sel_allPrimary (S : Schema) : ∀ (scope : Option String) (sel : Selection),
    (moccSel S scope sel).all (hasInfoAt S) = true → AllPrimary (fields1Sel S scope sel)
  | scope, .field al n np args dirs none, h => by
    simp only [moccSel, List.all_cons, Bool.and_eq_true, hasInfoAt, Bool.or_eq_true, decide_eq_true_eq] at h
    simp only [fields1Sel, List.append_nil]
    exact fieldNode_allPrimary S scope al n np none h.1
  | scope, .field al n np args dirs (some ss), h => by
    simp only [moccSel, List.all_cons, Bool.and_eq_true, hasInfoAt, Bool.or_eq_true, decide_eq_true_eq] at h
    simp only [fields1Sel]
    exact allPrimary_append (fieldNode_allPrimary S scope al n np (some ss) h.1)
      (fields1_set_allPrimary S _ ss h.2)
  | scope, .spread n np dirs p, _ => by simp [fields1Sel, AllPrimary]
  | scope, .inline tc dirs ss p, h => by
    simp only [moccSel, List.all_cons, Bool.and_eq_true] at h
    simp only [fields1Sel]
    exact fields1_set_allPrimary S _ ss h.2
theorem fields1_set_allPrimary (S : Schema) : ∀ (scope : Option String) (ss : SelSet),
    (moccSet S scope ss).all (hasInfoAt S) = true → AllPrimary (fields1Set S scope ss)
  | scope, .mk sels p, h => by
    simp only [moccSet, fields1Set] at *
    exact fields1_sels_allPrimary S scope sels h
theorem fields1_sels_allPrimary (S : Schema) : ∀ (scope : Option String) (sels : List Selection),
    (moccSels S scope sels).all (hasInfoAt S) = true → AllPrimary (fields1Sels S scope sels)
  | scope, [], _ => by simp [fields1Sels, AllPrimary]
  | scope, s :: rest, h => by
    simp only [moccSels, List.all_append, Bool.and_eq_true] at h
    simp only [fields1Sels]
    exact allPrimary_append (fields1_sel_allPrimary S scope s h.1) (fields1_sels_allPrimary S scope rest h.2)
end

theorem hasInfo_def {S : Schema} {D : Document} (h : WellScoped S D) {d : Definition} (hd : d ∈ D) :
    (moccSet S (Model.defScope S d) (Model.defSel d)).all (hasInfoAt S) = true := by
  obtain ⟨e, hocc⟩ := def_occs h hd
  rw [e, List.all_eq_true]
  intro o ho
  exact info_of_scoped h.wf (hocc o ho).1 (hocc o ho).2

theorem validateSpread_allPrimary (S : Schema) (tc : String) (p : Pos) (q : String) :
    AllPrimary (validateSpread S tc p (some q)) := by
  unfold validateSpread
  simp only
  split
  · exact allPrimary_nil
  · split
    · split
      · exact allPrimary_nil
      · exact allPrimary_single _ _
    · exact allPrimary_nil

theorem spreadOcc_allPrimary (S : Schema) (D : Document) {o : Occ} (hinv : Inv S (occParent o)) :
    AllPrimary (spreadOcc S D o) := by
  obtain ⟨q, hq, _⟩ := hinv
  cases o with
  | field => exact allPrimary_nil
  | spread parent n np dirs p =>
    simp only [occParent] at hq
    subst hq
    simp only [spreadOcc, spreadTargetErrors]
    cases Model.fragLast D n with
    | none => exact allPrimary_single _ _
    | some f => exact validateSpread_allPrimary S _ _ _
  | inline parent tc dirs p =>
    simp only [occParent] at hq
    subst hq
    cases tc with
    | none => exact allPrimary_nil
    | some tp =>
      obtain ⟨t, tpos⟩ := tp
      exact validateSpread_allPrimary S _ _ _

/-! ## Reachability: closure by rounds (the specification's `reachable`) -/

/-- `b` is reached from `a` by one or more steps of `deps`. -/
inductive Reach (deps : String → List String) : String → String → Prop where
  | step {a b : String} : b ∈ deps a → Reach deps a b
  | trans {a b c : String} : b ∈ deps a → Reach deps b c → Reach deps a c

theorem Reach.tail {deps : String → List String} {a b c : String} (h : Reach deps a b) (hc : c ∈ deps b) :
    Reach deps a c := by
  induction h with
  | step h1 => exact .trans h1 (.step hc)
  | trans h1 _ ih => exact .trans h1 (ih hc)

/-- `dedup` keeps exactly the elements. -/
theorem mem_dedup_aux (acc xs : List String) (x : String) :
    x ∈ xs.foldl (fun acc x => if acc.contains x then acc else acc ++ [x]) acc ↔ (x ∈ acc ∨ x ∈ xs) := by
  induction xs generalizing acc with
  | nil => simp
  | cons y rest ih =>
    simp only [List.foldl_cons, ih, List.mem_cons]
    by_cases hc : y ∈ acc
    · simp only [List.contains_eq_mem, hc, decide_true, if_true]
      constructor
      · rintro (h | h)
        · exact Or.inl h
        · exact Or.inr (Or.inr h)
      · rintro (h | h | h)
        · exact Or.inl h
        · exact Or.inl (h ▸ hc)
        · exact Or.inr h
    · simp only [List.contains_eq_mem, hc, decide_false, Bool.false_eq_true, if_false, List.mem_append,
        List.mem_singleton]
      constructor
      · rintro ((h | h) | h)
        · exact Or.inl h
        · exact Or.inr (Or.inl h)
        · exact Or.inr (Or.inr h)
      · rintro (h | h | h)
        · exact Or.inl (Or.inl h)
        · exact Or.inl (Or.inr h)
        · exact Or.inr h

theorem mem_dedup (xs : List String) (x : String) : x ∈ Spec.dedup xs ↔ x ∈ xs := by
  unfold Spec.dedup
  rw [mem_dedup_aux]
  simp

theorem nodup_dedup_aux (acc xs : List String) (h : Spec.nodup acc = true) :
    Spec.nodup (xs.foldl (fun acc x => if acc.contains x then acc else acc ++ [x]) acc) = true := by
  induction xs generalizing acc with
  | nil => simpa using h
  | cons y rest ih =>
    simp only [List.foldl_cons]
    apply ih
    by_cases hc : y ∈ acc
    · simpa [hc] using h
    · simp only [List.contains_eq_mem, hc, decide_false, Bool.false_eq_true, if_false]
      -- nodup (acc ++ [y]) from nodup acc and y ∉ acc
      clear ih
      induction acc with
      | nil => simp [Spec.nodup]
      | cons a rest' ih' =>
        simp only [List.cons_append, nodup_cons, Bool.and_eq_true, Bool.not_eq_true', List.contains_eq_mem,
          decide_eq_false_iff_not, List.mem_append, List.mem_singleton, not_or] at h ⊢
        simp only [List.mem_cons, not_or] at hc
        exact ⟨⟨h.1, fun he => hc.1 he.symm⟩, ih' h.2 hc.2⟩

theorem nodup_dedup (xs : List String) : Spec.nodup (Spec.dedup xs) = true := by
  unfold Spec.dedup
  exact nodup_dedup_aux [] xs rfl

/-- A duplicate-free list inside `U` is no longer than `U`. -/
theorem length_le_of_nodup_subset : ∀ (l U : List String), Spec.nodup l = true → (∀ x ∈ l, x ∈ U) →
    l.length ≤ U.length
  | [], U, _, _ => by simp
  | x :: rest, U, hn, hs => by
    simp only [nodup_cons, Bool.and_eq_true, Bool.not_eq_true', List.contains_eq_mem, decide_eq_false_iff_not] at hn
    have hx : x ∈ U := hs x (by simp)
    have ih := length_le_of_nodup_subset rest (U.erase x) hn.2 (by
      intro y hy
      have hyU := hs y (by simp [hy])
      have hne : y ≠ x := fun he => hn.1 (he ▸ hy)
      exact (List.mem_erase_of_ne hne).2 hyU)
    have hl := List.length_erase_of_mem hx
    simp only [List.length_cons]
    have hpos : 0 < U.length := List.length_pos_of_mem hx
    omega


/-! ### the rounds -/

section Rounds
variable (deps : String → List String)

/-- One round of the specification's closure. -/
def roundOf (acc : List String) : List String := Spec.dedup (acc ++ acc.flatMap deps)

def roundsOf : Nat → List String → List String
  | 0, acc => acc
  | k + 1, acc => roundsOf k (roundOf deps acc)

theorem mem_roundOf (acc : List String) (x : String) :
    x ∈ roundOf deps acc ↔ (x ∈ acc ∨ ∃ a ∈ acc, x ∈ deps a) := by
  unfold roundOf
  rw [mem_dedup]
  simp [List.mem_flatMap]

theorem subset_roundsOf (k : Nat) (acc : List String) : ∀ x ∈ acc, x ∈ roundsOf deps k acc := by
  induction k generalizing acc with
  | zero => intro x hx; exact hx
  | succ k ih =>
    intro x hx
    exact ih _ x ((mem_roundOf deps acc x).2 (Or.inl hx))

/-- Everything in the closure is a start element or reached from one. -/
theorem roundsOf_sound (k : Nat) (acc : List String) :
    ∀ x ∈ roundsOf deps k acc, x ∈ acc ∨ ∃ a ∈ acc, Reach deps a x := by
  induction k generalizing acc with
  | zero => intro x hx; exact Or.inl hx
  | succ k ih =>
    intro x hx
    rcases ih _ x hx with h | ⟨a, ha, hr⟩
    · rcases (mem_roundOf deps acc x).1 h with h | ⟨a, ha, hd⟩
      · exact Or.inl h
      · exact Or.inr ⟨a, ha, .step hd⟩
    · rcases (mem_roundOf deps acc a).1 ha with h | ⟨b, hb, hd⟩
      · exact Or.inr ⟨a, h, hr⟩
      · exact Or.inr ⟨b, hb, .trans hd hr⟩

/-- Closed under `deps`. -/
def Closed (acc : List String) : Prop := ∀ a ∈ acc, ∀ x ∈ deps a, x ∈ acc

theorem closed_reach {acc : List String} (hc : Closed deps acc) {a x : String} (ha : a ∈ acc)
    (hr : Reach deps a x) : x ∈ acc := by
  induction hr with
  | step h => exact hc _ ha _ h
  | trans h _ ih => exact ih (hc _ ha _ h)

theorem closed_of_round_subset {acc : List String} (h : ∀ x ∈ roundOf deps acc, x ∈ acc) : Closed deps acc := by
  intro a ha x hx
  exact h x ((mem_roundOf deps acc x).2 (Or.inr ⟨a, ha, hx⟩))

theorem closed_round {acc : List String} (hc : Closed deps acc) : Closed deps (roundOf deps acc) := by
  intro a ha x hx
  rcases (mem_roundOf deps acc a).1 ha with h | ⟨b, hb, hd⟩
  · exact (mem_roundOf deps acc x).2 (Or.inl (hc a h x hx))
  · exact (mem_roundOf deps acc x).2 (Or.inl (hc a (hc b hb a hd) x hx))

theorem closed_rounds (k : Nat) {acc : List String} (hc : Closed deps acc) : Closed deps (roundsOf deps k acc) := by
  induction k generalizing acc with
  | zero => exact hc
  | succ k ih => exact ih (closed_round deps hc)

/-- A duplicate-free list that gains an element gets longer. -/
theorem length_lt_of_new (l1 l2 : List String) (h1 : Spec.nodup l1 = true) (h2 : Spec.nodup l2 = true)
    (hs : ∀ x ∈ l1, x ∈ l2) (x : String) (hx2 : x ∈ l2) (hx1 : x ∉ l1) : l1.length < l2.length := by
  have hn : Spec.nodup (x :: l1) = true := by
    simp only [nodup_cons, Bool.and_eq_true, Bool.not_eq_true', List.contains_eq_mem, decide_eq_false_iff_not]
    exact ⟨hx1, h1⟩
  have := length_le_of_nodup_subset (x :: l1) l2 hn (by
    intro y hy
    simp only [List.mem_cons] at hy
    rcases hy with rfl | hy
    · exact hx2
    · exact hs y hy)
  simp only [List.length_cons] at this
  omega

/-- After `k` rounds from a duplicate-free start inside a universe `U` that contains every
    dependency, with `k ≥ |U|`, the result is closed. -/
theorem roundsOf_closed (U : List String) (hU : ∀ a x, x ∈ deps a → x ∈ U) :
    ∀ (k : Nat) (acc : List String), Spec.nodup acc = true → (∀ x ∈ acc, x ∈ U) →
      U.length < acc.length + k + 1 → Closed deps (roundsOf deps k acc) := by
  intro k
  induction k with
  | zero =>
    intro acc hn hs hlen
    -- the start already fills the universe: nothing new can appear
    apply closed_of_round_subset
    intro x hx
    by_cases hm : x ∈ acc
    · exact hm
    · have hrn : Spec.nodup (roundOf deps acc) = true := nodup_dedup _
      have hrs : ∀ y ∈ roundOf deps acc, y ∈ U := by
        intro y hy
        rcases (mem_roundOf deps acc y).1 hy with h | ⟨a, _, hd⟩
        · exact hs y h
        · exact hU a y hd
      have h1 := length_lt_of_new acc (roundOf deps acc) hn hrn
        (fun y hy => (mem_roundOf deps acc y).2 (Or.inl hy)) x hx hm
      have h2 := length_le_of_nodup_subset _ U hrn hrs
      simp only [roundsOf] at *
      omega
  | succ k ih =>
    intro acc hn hs hlen
    simp only [roundsOf]
    have hrn : Spec.nodup (roundOf deps acc) = true := nodup_dedup _
    have hrs : ∀ y ∈ roundOf deps acc, y ∈ U := by
      intro y hy
      rcases (mem_roundOf deps acc y).1 hy with h | ⟨a, _, hd⟩
      · exact hs y h
      · exact hU a y hd
    by_cases hstable : ∀ x ∈ roundOf deps acc, x ∈ acc
    · -- a stable round: closed already, and closedness is kept
      exact closed_rounds deps k (closed_round deps (closed_of_round_subset deps hstable))
    · -- a productive round: the list got longer
      have : ∃ x, x ∈ roundOf deps acc ∧ x ∉ acc := by
        by_cases hex : ∃ x, x ∈ roundOf deps acc ∧ x ∉ acc
        · exact hex
        · exfalso
          apply hstable
          intro x hx
          by_cases hm : x ∈ acc
          · exact hm
          · exact absurd ⟨x, hx, hm⟩ hex
      obtain ⟨x, hx, hm⟩ := this
      have h1 := length_lt_of_new acc (roundOf deps acc) hn hrn
        (fun y hy => (mem_roundOf deps acc y).2 (Or.inl hy)) x hx hm
      apply ih (roundOf deps acc) hrn hrs
      omega

/-- **The closure by rounds is reachability**: with at least `|U|` rounds, `x` is in the result
    iff it is a start element or reached from one. -/
theorem mem_roundsOf_iff (U : List String) (hU : ∀ a x, x ∈ deps a → x ∈ U) (k : Nat) (acc : List String)
    (hn : Spec.nodup acc = true) (hs : ∀ x ∈ acc, x ∈ U) (hk : U.length ≤ k) (x : String) :
    x ∈ roundsOf deps k acc ↔ (x ∈ acc ∨ ∃ a ∈ acc, Reach deps a x) := by
  constructor
  · exact roundsOf_sound deps k acc x
  · have hc := roundsOf_closed deps U hU k acc hn hs (by omega)
    rintro (h | ⟨a, ha, hr⟩)
    · exact subset_roundsOf deps k acc x h
    · exact closed_reach deps hc (subset_roundsOf deps k acc a ha) hr

end Rounds

/-! ## The cycle search (validate_fragments.go:84-102) is reachability -/

/-- What the inner loop does when `name` has not been encountered. -/
theorem visitDeps_spec (name : String) : ∀ (deps tv enc : List String), name ∉ enc →
    let r := visitDeps name (tv, enc, false) deps
    (r.2.2 = true ↔ name ∈ deps) ∧
    (r.2.2 = false → name ∉ r.2.1 ∧ (∃ added, r.1 = tv ++ added ∧ r.2.1 = enc ++ added ∧ (∀ x ∈ added, x ∈ deps)) ∧
      (∀ d ∈ deps, d ∈ r.2.1) ∧ (Spec.nodup enc = true → Spec.nodup r.2.1 = true))
  | [], tv, enc, hn => by
    simp only [visitDeps]
    refine ⟨by simp, fun _ => ⟨hn, ⟨[], by simp⟩, by simp, fun h => h⟩⟩
  | dep :: rest, tv, enc, hn => by
    simp only [visitDeps, Bool.false_eq_true, if_false]
    by_cases hc : dep ∈ enc
    · simp only [List.contains_eq_mem, hc, decide_true, if_true]
      have ih := visitDeps_spec name rest tv enc hn
      simp only at ih
      obtain ⟨i1, i2⟩ := ih
      have hne : dep ≠ name := fun he => hn (he ▸ hc)
      refine ⟨?_, ?_⟩
      · rw [i1]; simp only [List.mem_cons]
        constructor
        · exact Or.inr
        · rintro (h | h)
          · exact absurd h.symm hne
          · exact h
      · intro hf
        obtain ⟨j1, ⟨added, ja, jb, jc⟩, j3, j4⟩ := i2 hf
        refine ⟨j1, ⟨added, ja, jb, fun x hx => List.mem_cons_of_mem _ (jc x hx)⟩, ?_, j4⟩
        intro d hd
        simp only [List.mem_cons] at hd
        rcases hd with rfl | hd
        · rw [jb]; exact List.mem_append_left _ hc
        · exact j3 d hd
    · simp only [List.contains_eq_mem, hc, decide_false, Bool.false_eq_true, if_false]
      by_cases hd : dep = name
      · simp [hd]
      · simp only [hd, if_false]
        have hn' : name ∉ enc ++ [dep] := by
          simp only [List.mem_append, List.mem_singleton, not_or]
          exact ⟨hn, fun he => hd he.symm⟩
        have ih := visitDeps_spec name rest (tv ++ [dep]) (enc ++ [dep]) hn'
        simp only at ih
        obtain ⟨i1, i2⟩ := ih
        refine ⟨?_, ?_⟩
        · rw [i1]; simp only [List.mem_cons]
          constructor
          · exact Or.inr
          · rintro (h | h)
            · exact absurd h.symm hd
            · exact h
        · intro hf
          obtain ⟨j1, ⟨added, ja, jb, jc⟩, j3, j4⟩ := i2 hf
          refine ⟨j1, ⟨dep :: added, by rw [ja]; simp, by rw [jb]; simp, ?_⟩, ?_, ?_⟩
          · intro x hx
            simp only [List.mem_cons] at hx ⊢
            rcases hx with rfl | hx
            · exact Or.inl rfl
            · exact Or.inr (jc x hx)
          · intro d hd'
            simp only [List.mem_cons] at hd'
            rcases hd' with rfl | hd'
            · rw [jb]; simp
            · exact j3 d hd'
          · intro hnd
            apply j4
            -- nodup (enc ++ [dep])
            clear i1 i2 j1 ja jb jc j3 j4 hf hn hn' hd
            induction enc with
            | nil => simp [Spec.nodup]
            | cons a rest' ih' =>
              simp only [List.cons_append, nodup_cons, Bool.and_eq_true, Bool.not_eq_true', List.contains_eq_mem,
                decide_eq_false_iff_not, List.mem_append, List.mem_singleton, not_or] at hnd ⊢
              simp only [List.mem_cons, not_or] at hc
              exact ⟨⟨hnd.1, fun he => hc.1 he.symm⟩, ih' hc.2 hnd.2⟩


/-- Invariant of the outer loop. -/
structure BfsInv (deps : String → List String) (U : List String) (name : String) (tv : List String) (i : Nat)
    (enc : List String) : Prop where
  shape : tv = name :: enc
  fresh : name ∉ enc
  reached : ∀ x ∈ enc, Reach deps name x
  processed : ∀ j, j < i → ∀ cur, tv[j]? = some cur → ∀ d ∈ deps cur, d ∈ enc
  nodup : Spec.nodup enc = true
  inU : ∀ x ∈ enc, x ∈ U
  bound : i ≤ tv.length

theorem reach_in_enc {deps : String → List String} {tv enc : List String}
    (hp : ∀ cur ∈ tv, ∀ d ∈ deps cur, d ∈ enc) (hs : ∀ x ∈ enc, x ∈ tv) {a c : String} (ha : a ∈ tv)
    (hr : Reach deps a c) : c ∈ enc := by
  induction hr with
  | step h => exact hp _ ha _ h
  | trans h _ ih => exact ih (hs _ (hp _ ha _ h))

theorem getElem?_append_left' {α : Type} (xs ys : List α) (j : Nat) (h : j < xs.length) :
    (xs ++ ys)[j]? = xs[j]? := by
  rw [List.getElem?_append_left h]

theorem cycleSearch_spec (D : Document) (U : List String) (name : String)
    (hU : ∀ a x, x ∈ directDeps D a → x ∈ U) :
    ∀ (fuel : Nat) (tv : List String) (i : Nat) (enc : List String),
      BfsInv (directDeps D) U name tv i enc → U.length + 2 ≤ fuel + i →
      ∃ b, cycleSearch D name fuel tv i enc = some b ∧ (b = true ↔ Reach (directDeps D) name name) := by
  intro fuel
  induction fuel with
  | zero =>
    intro tv i enc inv hf
    exfalso
    have h1 := inv.bound
    have h2 := length_le_of_nodup_subset enc U inv.nodup inv.inU
    rw [inv.shape] at h1
    simp only [List.length_cons] at h1
    omega
  | succ fuel ih =>
    intro tv i enc inv hf
    unfold cycleSearch
    cases hcur : tv[i]? with
    | none =>
      refine ⟨false, rfl, ?_⟩
      simp only [Bool.false_eq_true, false_iff]
      intro hr
      have hlen : tv.length ≤ i := by
        rw [List.getElem?_eq_none_iff] at hcur; exact hcur
      have hp : ∀ cur ∈ tv, ∀ d ∈ directDeps D cur, d ∈ enc := by
        intro cur hc d hd
        obtain ⟨j, hj, hje⟩ := List.getElem_of_mem hc
        exact inv.processed j (by omega) cur (by rw [List.getElem?_eq_getElem hj, hje]) d hd
      have hs : ∀ x ∈ enc, x ∈ tv := by
        intro x hx; rw [inv.shape]; exact List.mem_cons_of_mem _ hx
      have hname : name ∈ tv := by rw [inv.shape]; simp
      exact inv.fresh (reach_in_enc hp hs hname hr)
    | some cur =>
      simp only
      have hspec := visitDeps_spec name (directDeps D cur) tv enc inv.fresh
      simp only at hspec
      obtain ⟨hfound, hnot⟩ := hspec
      have hcurmem : cur ∈ tv := List.mem_of_getElem? hcur
      have hcurreach : cur = name ∨ Reach (directDeps D) name cur := by
        rw [inv.shape] at hcurmem
        simp only [List.mem_cons] at hcurmem
        rcases hcurmem with h | h
        · exact Or.inl h
        · exact Or.inr (inv.reached cur h)
      have hviacur : ∀ x ∈ directDeps D cur, Reach (directDeps D) name x := by
        intro x hx
        rcases hcurreach with rfl | hr
        · exact .step hx
        · exact hr.tail hx
      cases hr : visitDeps name (tv, enc, false) (directDeps D cur) with
      | mk tv' rest =>
        obtain ⟨enc', found⟩ := rest
        rw [hr] at hfound hnot
        simp only at hfound hnot
        cases found with
        | true =>
          refine ⟨true, rfl, ?_⟩
          simp only [true_iff]
          exact hviacur name (hfound.1 rfl)
        | false =>
          simp only
          obtain ⟨hfresh, ⟨added, hta, hea, hadd⟩, hall, hnd⟩ := hnot rfl
          have ilt : i < tv.length := by
            have := List.getElem?_eq_some_iff.1 hcur
            exact this.1
          apply ih tv' (i + 1) enc'
          · refine ⟨?_, hfresh, ?_, ?_, hnd inv.nodup, ?_, ?_⟩
            · rw [hta, hea, inv.shape]; simp
            · intro x hx
              rw [hea] at hx
              simp only [List.mem_append] at hx
              rcases hx with hx | hx
              · exact inv.reached x hx
              · exact hviacur x (hadd x hx)
            · intro j hj c hc d hd
              by_cases hji : j < i
              · have : tv[j]? = some c := by
                  rw [hta, getElem?_append_left' tv added j (by omega)] at hc; exact hc
                have := inv.processed j hji c this d hd
                rw [hea]; exact List.mem_append_left _ this
              · have hje : j = i := by omega
                subst hje
                have : tv[j]? = some c := by
                  rw [hta, getElem?_append_left' tv added j ilt] at hc; exact hc
                rw [hcur] at this
                simp only [Option.some.injEq] at this
                subst this
                exact hall d hd
            · intro x hx
              rw [hea] at hx
              simp only [List.mem_append] at hx
              rcases hx with hx | hx
              · exact inv.inU x hx
              · exact hU cur x (hadd x hx)
            · rw [hta]; simp only [List.length_append]; omega
          · omega


/-! ### assembling the cycle rule -/

theorem Reach.mono {d1 d2 : String → List String} (h : ∀ a x, x ∈ d1 a → x ∈ d2 a) {a b : String}
    (hr : Reach d1 a b) : Reach d2 a b := by
  induction hr with
  | step h1 => exact .step (h _ _ h1)
  | trans h1 _ ih => exact .trans (h _ _ h1) ih

theorem reach_self_iff (deps : String → List String) (n : String) :
    Reach deps n n ↔ (n ∈ deps n ∨ ∃ a ∈ deps n, Reach deps a n) := by
  constructor
  · intro h
    cases h with
    | step h1 => exact Or.inl h1
    | trans h1 h2 => exact Or.inr ⟨_, h1, h2⟩
  · rintro (h | ⟨a, ha, hr⟩)
    · exact .step h
    · exact .trans ha hr

theorem reachable_eq_roundsOf (D : Document) (k : Nat) (acc : List String) :
    Spec.reachable D k acc = roundsOf (Spec.fragDeps D) k acc := by
  induction k generalizing acc with
  | zero => rfl
  | succ k ih => simp only [Spec.reachable, roundsOf, roundOf, ih]

theorem find?_of_unique {α : Type} (xs : List α) (key : α → String) (f : α) (hf : f ∈ xs)
    (h : Spec.nodup (xs.map key) = true) : xs.find? (fun x => key x = key f) = some f := by
  induction xs with
  | nil => simp at hf
  | cons x rest ih =>
    simp only [List.map_cons, nodup_cons, Bool.and_eq_true, Bool.not_eq_true', List.contains_eq_mem,
      decide_eq_false_iff_not, List.mem_map, not_exists, not_and] at h
    simp only [List.mem_cons] at hf
    simp only [List.find?_cons]
    rcases hf with rfl | hf
    · simp
    · have hne : key x ≠ key f := fun he => h.1 f hf he.symm
      simp only [hne, decide_false]
      exact ih hf h.2

theorem defSelOf_eq (d : Definition) : Spec.defSelOf d = Model.defSel d := by cases d <;> rfl

theorem mem_allSpreads_of_frag {D : Document} {f : FragInfo} (hf : f ∈ Model.fragsOf D) {x : String}
    (hx : x ∈ Model.spreadNamesSet f.sel) : x ∈ Spec.allSpreads D := by
  unfold Model.fragsOf at hf
  simp only [List.mem_filterMap] at hf
  obtain ⟨d, hd, hdf⟩ := hf
  unfold Spec.allSpreads
  simp only [List.mem_flatMap]
  refine ⟨d, hd, ?_⟩
  cases d with
  | op => simp at hdf
  | frag n np tc tcp dirs sel p =>
    simp only [Option.some.injEq] at hdf
    subst hdf
    simpa [Spec.defSelOf, spreadsInSet_eq] using hx

theorem directDeps_spec {D : Document} (hu : Spec.fragmentNamesUnique D = true) (a x : String) :
    x ∈ Model.directDeps D a ↔ x ∈ Spec.fragDeps D a := by
  unfold Model.directDeps Spec.fragDeps
  rw [fragLast_eq_first hu, ← fragsOf_map]
  simp only [List.mem_flatMap, List.mem_map]
  unfold Spec.fragmentNamesUnique at hu
  rw [← fragsOf_names] at hu
  constructor
  · intro h
    cases hf : Model.fragFirst D a with
    | none => simp [hf] at h
    | some f =>
      simp only [hf] at h
      have hm : f ∈ Model.fragsOf D := by unfold Model.fragFirst at hf; exact List.mem_of_find?_eq_some hf
      have hn : f.name = a := by
        unfold Model.fragFirst at hf; simpa using List.find?_some hf
      refine ⟨(f.name, f.tc, f.sel), ⟨f, hm, rfl⟩, ?_⟩
      simp only [hn, if_true, spreadsInSet_eq]
      exact (mem_dedup _ x).1 (by simpa [Model.dedup, Spec.dedup] using h)
  · rintro ⟨t, ⟨f, hm, rfl⟩, hx⟩
    by_cases hn : f.name = a
    · simp only [hn, if_true, spreadsInSet_eq] at hx
      have : Model.fragFirst D a = some f := by
        unfold Model.fragFirst
        rw [← hn]
        exact find?_of_unique (Model.fragsOf D) (·.name) f hm hu
      simp only [this]
      have := (mem_dedup (Model.spreadNamesSet f.sel) x).2 hx
      simpa [Model.dedup, Spec.dedup] using this
    · simp [hn] at hx

theorem directDeps_in_U (D : Document) (a x : String) (h : x ∈ Model.directDeps D a) : x ∈ Spec.allSpreads D := by
  unfold Model.directDeps at h
  cases hf : Model.fragLast D a with
  | none => simp [hf] at h
  | some f =>
    simp only [hf] at h
    have hm : f ∈ Model.fragsOf D := by
      unfold Model.fragLast at hf
      have := List.mem_of_find?_eq_some hf
      simpa using this
    have hx : x ∈ Model.spreadNamesSet f.sel := (mem_dedup _ x).1 (by simpa [Model.dedup, Spec.dedup] using h)
    exact mem_allSpreads_of_frag hm hx

theorem cycleFuel_eq (D : Document) : Model.cycleFuel D = (Spec.allSpreads D).length + 2 := by
  unfold Model.cycleFuel Spec.allSpreads
  congr 2
  induction D with
  | nil => rfl
  | cons d rest ih => simp only [List.flatMap_cons, ih, defSelOf_eq, spreadsInSet_eq]

/-- The search for one name: it terminates within the fuel and finds a cycle iff the fragment
    reaches itself. -/
theorem cycleSearch_start (D : Document) (n : String) :
    ∃ b, cycleSearch D n (Model.cycleFuel D) [n] 0 [] = some b ∧ (b = true ↔ Reach (Model.directDeps D) n n) := by
  apply cycleSearch_spec D (Spec.allSpreads D) n (directDeps_in_U D)
  · exact ⟨rfl, by simp, by simp, by intro j hj; omega, rfl, by simp, by simp⟩
  · rw [cycleFuel_eq]; omega

theorem cycleLoop_spec (D : Document) : ∀ (names : List String), (∀ n ∈ names, (Model.fragLast D n).isSome = true) →
    (Model.cycleLoop D names = ([], false) ↔ ∀ n ∈ names, ¬ Reach (Model.directDeps D) n n)
  | [], _ => by simp [Model.cycleLoop]
  | n :: rest, h => by
    have ih := cycleLoop_spec D rest (fun m hm => h m (by simp [hm]))
    obtain ⟨b, hb, hbr⟩ := cycleSearch_start D n
    unfold Model.cycleLoop
    cases hl : Model.cycleLoop D rest with
    | mk r fo =>
      rw [hl] at ih
      simp only [hb]
      have hsome := h n (by simp)
      cases b with
      | true =>
        cases hf : Model.fragLast D n with
        | none => simp [hf] at hsome
        | some f =>
          simp only [hf]
          constructor
          · intro he; simp at he
          · intro hall
            exact absurd (hbr.1 rfl) (hall n (by simp))
      | false =>
        simp only
        have hnr : ¬ Reach (Model.directDeps D) n n := fun hr => by simpa using hbr.2 hr
        rw [ih]
        simp only [List.mem_cons, forall_eq_or_imp, hnr, not_false_eq_true, true_and]

theorem fragLast_isSome_of_mem (D : Document) (n : String) (h : n ∈ (Model.fragsOf D).map (·.name)) :
    (Model.fragLast D n).isSome = true := by
  unfold Model.fragLast
  rw [List.find?_isSome]
  simp only [List.mem_map] at h
  obtain ⟨f, hf, hn⟩ := h
  exact ⟨f, by simpa using hf, by simpa using hn⟩

/-- The specification's cycle rule is "no fragment reaches itself". -/
theorem noFragmentCycles_iff (D : Document) :
    Spec.noFragmentCycles D = true ↔ ∀ n ∈ Spec.fragNames D, ¬ Reach (Spec.fragDeps D) n n := by
  unfold Spec.noFragmentCycles
  simp only [List.all_eq_true, Bool.not_eq_true', List.contains_eq_mem, decide_eq_false_iff_not]
  have hU : ∀ a x, x ∈ Spec.fragDeps D a → x ∈ Spec.allSpreads D := by
    intro a x hx
    unfold Spec.fragDeps at hx
    simp only [List.mem_flatMap] at hx
    obtain ⟨t, ht, hxt⟩ := hx
    rw [← fragsOf_map] at ht
    simp only [List.mem_map] at ht
    obtain ⟨f, hf, rfl⟩ := ht
    by_cases hn : f.name = a
    · simp only [hn, if_true, spreadsInSet_eq] at hxt
      exact mem_allSpreads_of_frag hf hxt
    · simp [hn] at hxt
  constructor
  · intro h n hn hr
    apply h n hn
    rw [reachable_eq_roundsOf, mem_roundsOf_iff (Spec.fragDeps D) (Spec.allSpreads D) hU _ _ (nodup_dedup _)
      (fun x hx => hU n x ((mem_dedup _ x).1 hx)) (Nat.le_refl _)]
    rcases (reach_self_iff _ n).1 hr with h1 | ⟨a, ha, har⟩
    · exact Or.inl ((mem_dedup _ n).2 h1)
    · exact Or.inr ⟨a, (mem_dedup _ a).2 ha, har⟩
  · intro h n hn hm
    apply h n hn
    rw [reachable_eq_roundsOf, mem_roundsOf_iff (Spec.fragDeps D) (Spec.allSpreads D) hU _ _ (nodup_dedup _)
      (fun x hx => hU n x ((mem_dedup _ x).1 hx)) (Nat.le_refl _)] at hm
    apply (reach_self_iff _ n).2
    rcases hm with h1 | ⟨a, ha, har⟩
    · exact Or.inl ((mem_dedup _ n).1 h1)
    · exact Or.inr ⟨a, (mem_dedup _ a).1 ha, har⟩

/-- See `model_variable_usages_eq_spec` in Props.lean. -/
theorem body_usages_spec {S : Schema} {D : Document} (h : WellScoped S D)
    (hw : Schema.wfDefaults S = true) {d : Definition} (hd : d ∈ D) (vars : List VarDef) :
    let a := varsDirectives S vars (Model.defDirs d) ++ varsSet S vars (Model.defScope S d) (Model.defSel d)
    primaryFree a.errs =
        (bodyUsages S d).all (fun u => Spec.usageDefinedIn vars u && Spec.usageAllowedIn S vars u) ∧
      a.encountered = (bodyUsages S d).map (·.name) ∧
      a.spreads = Spec.spreadsInSet (Model.defSel d) := by
  intro a
  obtain ⟨e, hocc⟩ := def_occs h hd
  obtain ⟨d1, d2, d3⟩ := varsDirectives_spec S hw vars (Model.defDirs d)
  obtain ⟨f1, f2, f3⟩ := vars_set_flat S vars (Model.defScope S d) (Model.defSel d)
  rw [e] at f1 f2 f3
  have d1' : (varsDirectives S vars (Model.defDirs d)).errs =
      (Spec.usagesDirs S (Spec.defDirs d)).flatMap (usageErrs S vars) := by rw [← defDirs_eq]; exact d1
  have d2' : (varsDirectives S vars (Model.defDirs d)).encountered =
      (Spec.usagesDirs S (Spec.defDirs d)).map (·.name) := by rw [← defDirs_eq]; exact d2
  have g1 : (Spec.occDef S d).flatMap (fun o => (varsOcc S vars o).errs) =
      ((Spec.occDef S d).flatMap (Spec.usagesOcc S)).flatMap (usageErrs S vars) := by
    rw [List.flatMap_assoc]
    exact flatMap_congr_mem _ _ _ (fun o ho => (varsOcc_spec h.wf hw vars (hocc o ho).1 (hocc o ho).2).1)
  have g2 : (Spec.occDef S d).flatMap (fun o => (varsOcc S vars o).encountered) =
      ((Spec.occDef S d).flatMap (Spec.usagesOcc S)).map (·.name) := by
    rw [List.map_flatMap]
    exact flatMap_congr_mem _ _ _ (fun o ho => (varsOcc_spec h.wf hw vars (hocc o ho).1 (hocc o ho).2).2.1)
  have g3 : (Spec.occDef S d).flatMap (fun o => (varsOcc S vars o).spreads) = Spec.spreadsInSet (Model.defSel d) := by
    rw [spreadsInSet_eq, spreadNames_set_flat S (specDefScope S d), ← occDef_eq, ← filterMap_toList]
    exact flatMap_congr_mem _ _ _ (fun o ho => (varsOcc_spec h.wf hw vars (hocc o ho).1 (hocc o ho).2).2.2)
  refine ⟨?_, ?_, ?_⟩
  · show primaryFree (a.errs) = _
    simp only [a, VarAcc.errs_append, d1', f1, g1, bodyUsages, ← List.flatMap_append]
    rw [primaryFree_flatMap]
    apply all_congr_mem
    intro u _
    exact usageErrs_ok S vars u
  · simp only [a, VarAcc.encountered_append, d2', f2, g2, bodyUsages, List.map_append]
  · simp only [a, VarAcc.spreads_append, d3, f3, g3, List.nil_append]

/-! ## The worklist of the variable pass (validate_variables.go:65-73) -/

theorem varsArgs_spreads (S : Schema) (vars : List VarDef) (ctxOf : String → VCtx) (args : List Argument) :
    (varsArgs S vars ctxOf args).spreads = [] := by
  induction args with
  | nil => rfl
  | cons a rest ih => simp [varsArgs, varsValue_spreads, ih]

theorem varsDirectives_spreads (S : Schema) (vars : List VarDef) (dirs : List Directive) :
    (varsDirectives S vars dirs).spreads = [] := by
  induction dirs with
  | nil => rfl
  | cons d rest ih => simp [varsDirectives, varsArgs_spreads, ih]

mutual
theorem varsSel_spreads (S : Schema) (vars : List VarDef) : ∀ (scope : Option String) (sel : Selection),
    (varsSel S vars scope sel).spreads = Model.spreadNamesSel sel
  | scope, .field al n np args dirs none => by
    simp [varsSel, Model.spreadNamesSel, varsArgs_spreads, varsDirectives_spreads]
  | scope, .field al n np args dirs (some ss) => by
    simp [varsSel, Model.spreadNamesSel, varsArgs_spreads, varsDirectives_spreads, varsSet_spreads S vars _ ss]
  | scope, .spread n np dirs p => by
    simp [varsSel, Model.spreadNamesSel, varsDirectives_spreads]
  | scope, .inline tc dirs ss p => by
    simp [varsSel, Model.spreadNamesSel, varsDirectives_spreads, varsSet_spreads S vars _ ss]
theorem varsSet_spreads (S : Schema) (vars : List VarDef) : ∀ (scope : Option String) (ss : SelSet),
    (varsSet S vars scope ss).spreads = Model.spreadNamesSet ss
  | scope, .mk sels p => by simp [varsSet, Model.spreadNamesSet, varsSels_spreads S vars scope sels]
theorem varsSels_spreads (S : Schema) (vars : List VarDef) : ∀ (scope : Option String) (sels : List Selection),
    (varsSels S vars scope sels).spreads = Model.spreadNamesSels sels
  | scope, [] => by simp [varsSels, Model.spreadNamesSels]
  | scope, s :: rest => by
    simp [varsSels, Model.spreadNamesSels, varsSel_spreads S vars scope s, varsSels_spreads S vars scope rest]
end

/-- What `validate(def)` accumulates for the fragment named `n` (nothing when it is undefined). -/
def contrib (S : Schema) (D : Document) (vars : List VarDef) (n : String) : VarAcc :=
  match Model.fragLast D n with
  | none => {}
  | some f => varsDirectives S vars f.dirs ++ varsSet S vars (Model.namedType S f.tc) f.sel

/-- The spreads written in the fragment named `n`. -/
def wdeps (D : Document) (n : String) : List String :=
  match Model.fragLast D n with
  | none => []
  | some f => Model.spreadNamesSet f.sel

theorem contrib_spreads (S : Schema) (D : Document) (vars : List VarDef) (n : String) :
    (contrib S D vars n).spreads = wdeps D n := by
  unfold contrib wdeps
  cases Model.fragLast D n with
  | none => rfl
  | some f => simp [varsDirectives_spreads, varsSet_spreads]

/-- Invariant of the worklist. -/
structure WInv (S : Schema) (D : Document) (vars : List VarDef) (start : List String) (acc0 : VarAcc)
    (todo validated : List String) (acc : VarAcc) : Prop where
  errs : primaryFree acc.errs = (primaryFree acc0.errs && validated.all (fun n => primaryFree (contrib S D vars n).errs))
  enc : ∀ x, x ∈ acc.encountered ↔ (x ∈ acc0.encountered ∨ ∃ n ∈ validated, x ∈ (contrib S D vars n).encountered)
  closed : ∀ n ∈ validated, ∀ x ∈ wdeps D n, x ∈ validated ∨ x ∈ todo
  sound : ∀ x, (x ∈ todo ∨ x ∈ validated) → (x ∈ start ∨ ∃ a ∈ start, Reach (wdeps D) a x)
  startIn : ∀ x ∈ start, x ∈ validated ∨ x ∈ todo

/-- If the worklist comes back (within its fuel), it has validated exactly the fragments reachable
    from the start, each contributing its errors and encountered names. -/
theorem varsFragments_spec (S : Schema) (D : Document) (vars : List VarDef) (start : List String) (acc0 : VarAcc) :
    ∀ (fuel : Nat) (todo validated : List String) (acc acc' : VarAcc),
      WInv S D vars start acc0 todo validated acc →
      varsFragments S D vars fuel todo validated acc = some acc' →
      ∃ validated', WInv S D vars start acc0 [] validated' acc' := by
  intro fuel
  induction fuel with
  | zero => intro todo validated acc acc' _ h; simp [varsFragments] at h
  | succ fuel ih =>
    intro todo validated acc acc' inv h
    cases todo with
    | nil =>
      simp only [varsFragments, Option.some.injEq] at h
      subst h
      exact ⟨validated, inv⟩
    | cons n rest =>
      unfold varsFragments at h
      by_cases hv : n ∈ validated
      · simp only [List.contains_eq_mem, hv, decide_true, if_true] at h
        apply ih rest validated acc acc' _ h
        refine ⟨inv.errs, inv.enc, ?_, ?_, ?_⟩
        · intro m hm x hx
          rcases inv.closed m hm x hx with h1 | h1
          · exact Or.inl h1
          · simp only [List.mem_cons] at h1
            rcases h1 with rfl | h1
            · exact Or.inl hv
            · exact Or.inr h1
        · intro x hx
          apply inv.sound x
          rcases hx with hx | hx
          · exact Or.inl (List.mem_cons_of_mem _ hx)
          · exact Or.inr hx
        · intro x hx
          rcases inv.startIn x hx with h1 | h1
          · exact Or.inl h1
          · simp only [List.mem_cons] at h1
            rcases h1 with rfl | h1
            · exact Or.inl hv
            · exact Or.inr h1
      · simp only [List.contains_eq_mem, hv, decide_false, Bool.false_eq_true, if_false] at h
        have hsn : n ∈ start ∨ ∃ a ∈ start, Reach (wdeps D) a n := inv.sound n (Or.inl (by simp))
        cases hf : Model.fragLast D n with
        | none =>
          simp only [hf] at h
          have hc : contrib S D vars n = {} := by simp [contrib, hf]
          have hd : wdeps D n = [] := by simp [wdeps, hf]
          apply ih rest (n :: validated) acc acc' _ h
          refine ⟨?_, ?_, ?_, ?_, ?_⟩
          · rw [inv.errs]; simp [hc, primaryFree]
          · intro x
            rw [inv.enc x]
            simp [hc]
          · intro m hm x hx
            simp only [List.mem_cons] at hm
            rcases hm with rfl | hm
            · simp [hd] at hx
            · rcases inv.closed m hm x hx with h1 | h1
              · exact Or.inl (List.mem_cons_of_mem _ h1)
              · simp only [List.mem_cons] at h1
                rcases h1 with rfl | h1
                · exact Or.inl (by simp)
                · exact Or.inr h1
          · intro x hx
            rcases hx with hx | hx
            · exact inv.sound x (Or.inl (List.mem_cons_of_mem _ hx))
            · simp only [List.mem_cons] at hx
              rcases hx with rfl | hx
              · exact hsn
              · exact inv.sound x (Or.inr hx)
          · intro x hx
            rcases inv.startIn x hx with h1 | h1
            · exact Or.inl (List.mem_cons_of_mem _ h1)
            · simp only [List.mem_cons] at h1
              rcases h1 with rfl | h1
              · exact Or.inl (by simp)
              · exact Or.inr h1
        | some f =>
          simp only [hf] at h
          have hc : contrib S D vars n = varsDirectives S vars f.dirs ++ varsSet S vars (Model.namedType S f.tc) f.sel := by
            simp [contrib, hf]
          have hd : wdeps D n = (contrib S D vars n).spreads := (contrib_spreads S D vars n).symm
          rw [← hc] at h
          apply ih _ (n :: validated) _ acc' _ h
          refine ⟨?_, ?_, ?_, ?_, ?_⟩
          · simp only [VarAcc.errs_append, primaryFree_append, inv.errs, List.all_cons]
            cases primaryFree acc0.errs <;> cases primaryFree (contrib S D vars n).errs <;> simp
          · intro x
            simp only [VarAcc.encountered_append, List.mem_append, inv.enc x, List.mem_cons, exists_eq_or_imp]
            constructor
            · rintro ((h1 | h1) | h1)
              · exact Or.inl h1
              · exact Or.inr (Or.inr h1)
              · exact Or.inr (Or.inl h1)
            · rintro (h1 | h1 | h1)
              · exact Or.inl (Or.inl h1)
              · exact Or.inr h1
              · exact Or.inl (Or.inr h1)
          · intro m hm x hx
            simp only [List.mem_cons] at hm
            rcases hm with rfl | hm
            · rw [hd] at hx
              exact Or.inr (List.mem_append_right _ hx)
            · rcases inv.closed m hm x hx with h1 | h1
              · exact Or.inl (List.mem_cons_of_mem _ h1)
              · simp only [List.mem_cons] at h1
                rcases h1 with rfl | h1
                · exact Or.inl (by simp)
                · exact Or.inr (List.mem_append_left _ h1)
          · intro x hx
            rcases hx with hx | hx
            · simp only [List.mem_append] at hx
              rcases hx with hx | hx
              · exact inv.sound x (Or.inl (List.mem_cons_of_mem _ hx))
              · -- a spread of the fragment just validated
                rw [← hd] at hx
                rcases hsn with hs | ⟨a, ha, hr⟩
                · exact Or.inr ⟨n, hs, .step hx⟩
                · exact Or.inr ⟨a, ha, hr.tail hx⟩
            · simp only [List.mem_cons] at hx
              rcases hx with rfl | hx
              · exact hsn
              · exact inv.sound x (Or.inr hx)
          · intro x hx
            rcases inv.startIn x hx with h1 | h1
            · exact Or.inl (List.mem_cons_of_mem _ h1)
            · simp only [List.mem_cons] at h1
              rcases h1 with rfl | h1
              · exact Or.inl (by simp)
              · exact Or.inr (List.mem_append_left _ h1)

/-- At the end the validated set is the reachable set. -/
theorem WInv.final {S : Schema} {D : Document} {vars : List VarDef} {start : List String} {acc0 acc' : VarAcc}
    {validated : List String} (inv : WInv S D vars start acc0 [] validated acc') (n : String) :
    n ∈ validated ↔ (n ∈ start ∨ ∃ a ∈ start, Reach (wdeps D) a n) := by
  constructor
  · intro h; exact inv.sound n (Or.inr h)
  · have hcl : Closed (wdeps D) validated := by
      intro a ha x hx
      rcases inv.closed a ha x hx with h | h
      · exact h
      · simp at h
    have hst : ∀ x ∈ start, x ∈ validated := by
      intro x hx
      rcases inv.startIn x hx with h | h
      · exact h
      · simp at h
    rintro (h | ⟨a, ha, hr⟩)
    · exact hst n h
    · exact closed_reach (wdeps D) hcl (hst a ha) hr


/-! ### the fragments in scope: model's `wdeps` against the specification's `fragDeps` -/

theorem wdeps_spec {D : Document} (hu : Spec.fragmentNamesUnique D = true) (a x : String) :
    x ∈ wdeps D a ↔ x ∈ Spec.fragDeps D a := by
  rw [← directDeps_spec hu]
  unfold wdeps Model.directDeps
  cases Model.fragLast D a with
  | none => simp
  | some f =>
    simp only
    exact ((mem_dedup _ x).symm.trans (by simp [Model.dedup, Spec.dedup]))

theorem all_of_mem_iff {α : Type} (l1 l2 : List α) (p : α → Bool) (h : ∀ x, x ∈ l1 ↔ x ∈ l2) :
    l1.all p = l2.all p := by
  rw [Bool.eq_iff_iff]
  simp only [List.all_eq_true]
  constructor
  · intro h1 x hx; exact h1 x ((h x).2 hx)
  · intro h1 x hx; exact h1 x ((h x).1 hx)

/-- The definition of a fragment found by `fragLast`. -/
theorem fragLast_def {D : Document} {n : String} {f : FragInfo} (h : Model.fragLast D n = some f) :
    Definition.frag f.name f.npos f.tc f.tcpos f.dirs f.sel f.pos ∈ D ∧ f.name = n := by
  unfold Model.fragLast at h
  have hm := List.mem_of_find?_eq_some h
  have hp := List.find?_some h
  simp only [List.mem_reverse] at hm
  unfold Model.fragsOf at hm
  simp only [List.mem_filterMap] at hm
  obtain ⟨d, hd, hdf⟩ := hm
  cases d with
  | op => simp at hdf
  | frag n' np tc tcp dirs sel p =>
    simp only [Option.some.injEq] at hdf
    subst hdf
    exact ⟨hd, by simpa using hp⟩

/-- With unique names the specification's usages of "the fragments named n" are the body usages
    of the one definition (none when there is no definition). -/
theorem fragUsages_spec {S : Schema} {D : Document} (hu : Spec.fragmentNamesUnique D = true) (n : String) :
    Spec.fragUsages S D n =
      (match Model.fragLast D n with
       | none => []
       | some f => bodyUsages S (Definition.frag f.name f.npos f.tc f.tcpos f.dirs f.sel f.pos)) := by
  rw [fragLast_eq_first hu]
  unfold Spec.fragmentNamesUnique at hu
  rw [← fragsOf_names] at hu
  unfold Spec.fragUsages Model.fragFirst Model.fragsOf at *
  induction D with
  | nil => rfl
  | cons d rest ih =>
    cases d with
    | op kind name vars dirs sel =>
      simp only [List.flatMap_cons, List.filterMap_cons, Spec.fragUsagesOf, List.nil_append] at hu ⊢
      exact ih hu
    | frag m np tc tcp dirs sel p =>
      simp only [List.filterMap_cons, List.map_cons, nodup_cons, Bool.and_eq_true, Bool.not_eq_true',
        List.contains_eq_mem, decide_eq_false_iff_not] at hu
      simp only [List.flatMap_cons, List.filterMap_cons, List.find?_cons, Spec.fragUsagesOf]
      by_cases hm : m = n
      · subst hm
        simp only [if_true, decide_true]
        -- no later definition has this name
        have hnone : rest.flatMap (Spec.fragUsagesOf S m) = [] := by
          rw [List.flatMap_eq_nil_iff]
          intro d hd
          cases d with
          | op => rfl
          | frag m' np' tc' tcp' dirs' sel' p' =>
            have : m' ≠ m := by
              intro he
              apply hu.1
              simp only [List.mem_map, List.mem_filterMap]
              exact ⟨{ name := m', npos := np', tc := tc', tcpos := tcp', dirs := dirs', sel := sel', pos := p' },
                ⟨_, hd, rfl⟩, he⟩
            simp [Spec.fragUsagesOf, this]
        rw [hnone]
        simp [bodyUsages, Spec.defDirs, Spec.occDef]
      · simp only [hm, if_false, decide_false, List.nil_append]
        exact ih hu.2

/-- `validate(def)` for a fragment found by `fragLast` is the body accumulation of its definition. -/
theorem contrib_body {S : Schema} {D : Document} (hws : WellScoped S D) (hw : Schema.wfDefaults S = true)
    (hu : Spec.fragmentNamesUnique D = true) (vars : List VarDef) (n : String) :
    primaryFree (contrib S D vars n).errs =
        (Spec.fragUsages S D n).all (fun u => Spec.usageDefinedIn vars u && Spec.usageAllowedIn S vars u) ∧
      (contrib S D vars n).encountered = (Spec.fragUsages S D n).map (·.name) := by
  rw [fragUsages_spec hu]
  unfold contrib
  cases hf : Model.fragLast D n with
  | none => simp [primaryFree]
  | some f =>
    obtain ⟨hd, _⟩ := fragLast_def hf
    have := body_usages_spec hws hw hd vars
    simp only [Model.defDirs, Model.defScope, Model.defSel] at this
    exact ⟨this.1, this.2.1⟩


/-! ### one operation -/

theorem mem_spreads_allSpreads {D : Document} {d : Definition} (hd : d ∈ D) {x : String}
    (hx : x ∈ Spec.spreadsInSet (Model.defSel d)) : x ∈ Spec.allSpreads D := by
  unfold Spec.allSpreads
  simp only [List.mem_flatMap]
  exact ⟨d, hd, by rw [defSelOf_eq]; exact hx⟩

theorem fragDeps_in_U (D : Document) (a x : String) (hx : x ∈ Spec.fragDeps D a) : x ∈ Spec.allSpreads D := by
  unfold Spec.fragDeps at hx
  simp only [List.mem_flatMap] at hx
  obtain ⟨t, ht, hxt⟩ := hx
  rw [← fragsOf_map] at ht
  simp only [List.mem_map] at ht
  obtain ⟨f, hf, rfl⟩ := ht
  by_cases hn : f.name = a
  · simp only [hn, if_true, spreadsInSet_eq] at hxt
    exact mem_allSpreads_of_frag hf hxt
  · simp [hn] at hxt

/-- The specification's fragments in scope are the start spreads and what they reach. -/
theorem mem_reachableFrom (D : Document) (start : List String) (hs : ∀ x ∈ start, x ∈ Spec.allSpreads D) (n : String) :
    n ∈ Spec.reachableFrom D start ↔ (n ∈ start ∨ ∃ a ∈ start, Reach (Spec.fragDeps D) a n) := by
  unfold Spec.reachableFrom
  rw [reachable_eq_roundsOf, mem_roundsOf_iff (Spec.fragDeps D) (Spec.allSpreads D) (fragDeps_in_U D) _ _
    (nodup_dedup _) (fun x hx => hs x ((mem_dedup _ x).1 hx)) (Nat.le_refl _)]
  simp only [mem_dedup]

theorem unusedVariableErrors_nil (enc : List String) (vars : List VarDef) :
    unusedVariableErrors enc vars = [] ↔ ∀ vd ∈ vars, vd.name ∈ enc := by
  unfold unusedVariableErrors
  simp only [List.flatMap_eq_nil_iff]
  constructor
  · intro h vd hvd
    have := h vd hvd
    by_cases hc : vd.name ∈ enc
    · exact hc
    · simp [hc] at this
  · intro h vd hvd
    simp [h vd hvd]

/-- What the variable pass computes for one operation whose worklist came back within its fuel,
    in the specification's terms: `acc.errs` has no primary error iff every usage in scope of the
    operation is declared and allowed; `acc.encountered` holds exactly the names of those usages. -/
theorem operation_usages_spec {S : Schema} {D : Document} (hws : WellScoped S D) (hw : Schema.wfDefaults S = true)
    (hu : Spec.fragmentNamesUnique D = true) {kind : Option (OpKind × Pos)} {name : Option (String × Pos)}
    {vars : List VarDef} {dirs : List Directive} {sel : SelSet}
    (hd : Definition.op kind name vars dirs sel ∈ D) (fuel : Nat) (acc' : VarAcc)
    (hrun : let a := varsDirectives S vars dirs ++ varsSet S vars (Model.opScope S kind) sel
            varsFragments S D vars fuel a.spreads [] { a with spreads := [] } = some acc') :
    primaryFree acc'.errs =
        (Spec.opUsages S D kind dirs sel).all (fun u => Spec.usageDefinedIn vars u && Spec.usageAllowedIn S vars u) ∧
      (∀ x, x ∈ acc'.encountered ↔ ∃ u ∈ Spec.opUsages S D kind dirs sel, u.name = x) := by
  have hbody := body_usages_spec hws hw hd vars
  simp only [Model.defDirs, Model.defScope, Model.defSel] at hbody
  obtain ⟨b1, b2, b3⟩ := hbody
  -- run the worklist from its initial state
  let a := varsDirectives S vars dirs ++ varsSet S vars (Model.opScope S kind) sel
  have hinit : WInv S D vars a.spreads { a with spreads := [] } a.spreads [] { a with spreads := [] } :=
    ⟨by simp, by simp, by simp, by intro x hx; exact Or.inl (by simpa using hx), by intro x hx; exact Or.inr hx⟩
  obtain ⟨validated, hfin⟩ := varsFragments_spec S D vars a.spreads { a with spreads := [] } fuel a.spreads [] _ acc' hinit hrun
  have hval := hfin.final
  -- the validated fragments are the specification's fragments in scope
  have hstart : a.spreads = Spec.spreadsInSet sel := b3
  have hsU : ∀ x ∈ Spec.spreadsInSet sel, x ∈ Spec.allSpreads D := fun x hx => mem_spreads_allSpreads hd hx
  have hset : ∀ n, n ∈ validated ↔ n ∈ Spec.reachableFrom D (Spec.spreadsInSet sel) := by
    intro n
    rw [hval n, mem_reachableFrom D _ hsU n, hstart]
    constructor
    · rintro (h | ⟨x, hx, hr⟩)
      · exact Or.inl h
      · exact Or.inr ⟨x, hx, hr.mono (fun p q hq => (wdeps_spec hu p q).1 hq)⟩
    · rintro (h | ⟨x, hx, hr⟩)
      · exact Or.inl h
      · exact Or.inr ⟨x, hx, hr.mono (fun p q hq => (wdeps_spec hu p q).2 hq)⟩
  have hops : Spec.opUsages S D kind dirs sel =
      bodyUsages S (Definition.op kind name vars dirs sel) ++
        (Spec.reachableFrom D (Spec.spreadsInSet sel)).flatMap (Spec.fragUsages S D) := by
    simp [Spec.opUsages, bodyUsages, Spec.defDirs, Spec.occDef]
  refine ⟨?_, ?_⟩
  · rw [hfin.errs, hops, List.all_append, all_flatMap]
    congr 1
    rw [all_of_mem_iff validated _ _ hset]
    apply all_congr_mem
    intro n _
    exact (contrib_body hws hw hu vars n).1
  · intro x
    rw [hfin.enc x, hops]
    simp only [List.mem_append, List.mem_flatMap]
    have hb2 : (({ a with spreads := [] } : VarAcc)).encountered = a.encountered := rfl
    rw [hb2]
    constructor
    · rintro (h | ⟨n, hn, hx⟩)
      · have : x ∈ (bodyUsages S (Definition.op kind name vars dirs sel)).map (·.name) := by rw [← b2]; exact h
        simp only [List.mem_map] at this
        obtain ⟨u, hu', hux⟩ := this
        exact ⟨u, Or.inl hu', hux⟩
      · rw [(contrib_body hws hw hu vars n).2] at hx
        simp only [List.mem_map] at hx
        obtain ⟨u, hu', hux⟩ := hx
        exact ⟨u, Or.inr ⟨n, (hset n).1 hn, hu'⟩, hux⟩
    · rintro ⟨u, (hu' | ⟨n, hn, hu'⟩), hux⟩
      · left
        show x ∈ a.encountered
        rw [b2]
        exact List.mem_map.2 ⟨u, hu', hux⟩
      · right
        refine ⟨n, (hset n).2 hn, ?_⟩
        rw [(contrib_body hws hw hu vars n).2]
        exact List.mem_map.2 ⟨u, hu', hux⟩


theorem variableTypeErrors_allPrimary (S : Schema) (vd : VarDef) : AllPrimary (variableTypeErrors S vd) := by
  unfold variableTypeErrors
  cases Model.schemaType S vd.type with
  | none => exact allPrimary_single _ _
  | some t =>
    simp only
    split
    · exact allPrimary_nil
    · exact allPrimary_single _ _

theorem variableDefErrors_allPrimary (S : Schema) (seen : List String) (vars : List VarDef) :
    AllPrimary (variableDefErrors S seen vars) := by
  induction vars generalizing seen with
  | nil => exact allPrimary_nil
  | cons vd rest ih =>
    simp only [variableDefErrors]
    apply allPrimary_append (allPrimary_append _ (variableTypeErrors_allPrimary S vd)) (ih _)
    split
    · exact allPrimary_single _ _
    · exact allPrimary_nil

theorem unusedVariableErrors_allPrimary (enc : List String) (vars : List VarDef) :
    AllPrimary (unusedVariableErrors enc vars) := by
  unfold unusedVariableErrors
  apply allPrimary_flatMap
  intro vd _
  split
  · exact allPrimary_nil
  · exact allPrimary_single _ _

/-- The five variable rules for one definition. -/
def variableRulesAt (S : Schema) (D : Document) (d : Definition) : Bool :=
  Spec.nodup ((Spec.varDefsOf d).map (·.name)) && (Spec.varDefsOf d).all (Spec.variableTypeOk S) &&
  (Spec.defUsages S D d).all (Spec.usageDefinedIn (Spec.varDefsOf d)) &&
  (Spec.varDefsOf d).all (fun vd => (Spec.defUsages S D d).any fun u => u.name = vd.name) &&
  (Spec.defUsages S D d).all (Spec.usageAllowedIn S (Spec.varDefsOf d))

/-- One operation: if its worklist came back within the fuel, the errors of the variable pass for
    it contain no primary error iff §5.8.1 – §5.8.5 hold for it. -/
theorem operation_variables_spec {S : Schema} {D : Document} (hws : WellScoped S D) (hw : Schema.wfDefaults S = true)
    (hu : Spec.fragmentNamesUnique D = true) {kind : Option (OpKind × Pos)} {name : Option (String × Pos)}
    {vars : List VarDef} {dirs : List Directive} {sel : SelSet}
    (hd : Definition.op kind name vars dirs sel ∈ D) (fuel : Nat) (errs : List Err)
    (hrun : validateVariablesOp S D fuel kind vars dirs sel = (errs, false)) :
    primaryFree errs = variableRulesAt S D (Definition.op kind name vars dirs sel) := by
  unfold validateVariablesOp at hrun
  simp only at hrun
  cases hwl : varsFragments S D vars fuel
      (varsDirectives S vars dirs ++ varsSet S vars (Model.opScope S kind) sel).spreads []
      { varsDirectives S vars dirs ++ varsSet S vars (Model.opScope S kind) sel with spreads := [] } with
  | none => rw [hwl] at hrun; simp at hrun
  | some acc' =>
    rw [hwl] at hrun
    simp only [Prod.mk.injEq, and_true] at hrun
    subst hrun
    obtain ⟨h1, h2⟩ := operation_usages_spec hws hw hu hd fuel acc' hwl
    rw [primaryFree_append, primaryFree_append,
      primaryFree_of_allPrimary (variableDefErrors_allPrimary S [] vars),
      primaryFree_of_allPrimary (unusedVariableErrors_allPrimary acc'.encountered vars), h1]
    unfold variableRulesAt
    simp only [Spec.varDefsOf, Spec.defUsages]
    have e1 : (variableDefErrors S [] vars).isEmpty =
        (Spec.nodup (vars.map (·.name)) && vars.all (Spec.variableTypeOk S)) := by
      rw [Bool.eq_iff_iff, List.isEmpty_iff, variableDefErrors_nil]
      simp
    have e2 : (unusedVariableErrors acc'.encountered vars).isEmpty =
        vars.all (fun vd => (Spec.opUsages S D kind dirs sel).any fun u => u.name = vd.name) := by
      rw [Bool.eq_iff_iff, List.isEmpty_iff, unusedVariableErrors_nil]
      simp only [List.all_eq_true, List.any_eq_true, decide_eq_true_eq]
      constructor
      · intro h vd hvd; exact (h2 vd.name).1 (h vd hvd)
      · intro h vd hvd; exact (h2 vd.name).2 (h vd hvd)
    rw [e1, e2, ← all_and]
    cases Spec.nodup (vars.map (·.name)) <;> cases vars.all (Spec.variableTypeOk S) <;>
    cases (Spec.opUsages S D kind dirs sel).all (Spec.usageDefinedIn vars) <;>
    cases (Spec.opUsages S D kind dirs sel).all (Spec.usageAllowedIn S vars) <;>
    cases vars.all (fun vd => (Spec.opUsages S D kind dirs sel).any fun u => u.name = vd.name) <;> rfl

theorem variableRules_doc (S : Schema) (D : Document) :
    (Spec.variablesUnique D && Spec.variablesAreInputTypes S D && Spec.variableUsesDefined S D &&
      Spec.variablesUsed S D && Spec.variableUsagesAllowed S D) = D.all (variableRulesAt S D) := by
  unfold Spec.variablesUnique Spec.variablesAreInputTypes Spec.variableUsesDefined Spec.variablesUsed
    Spec.variableUsagesAllowed
  rw [all_and, all_and, all_and, all_and]
  rfl

theorem validateVariablesDefs_spec {S : Schema} {D : Document} (hws : WellScoped S D) (hw : Schema.wfDefaults S = true)
    (hu : Spec.fragmentNamesUnique D = true) (fuel : Nat) :
    ∀ (ds : List Definition) (errs : List Err), (∀ d ∈ ds, d ∈ D) →
      validateVariablesDefs S D fuel ds = (errs, false) → primaryFree errs = ds.all (variableRulesAt S D)
  | [], errs, _, h => by
    simp only [validateVariablesDefs, Prod.mk.injEq, and_true] at h
    subst h; rfl
  | .frag n np tc tcp dirs sel p :: rest, errs, hm, h => by
    simp only [validateVariablesDefs] at h
    rw [validateVariablesDefs_spec hws hw hu fuel rest errs (fun d hd => hm d (by simp [hd])) h]
    simp [variableRulesAt, Spec.varDefsOf, Spec.defUsages, Spec.nodup]
  | .op kind name vars dirs sel :: rest, errs, hm, h => by
    simp only [validateVariablesDefs] at h
    cases ho : validateVariablesOp S D fuel kind vars dirs sel with
    | mk e fo =>
      cases hr : validateVariablesDefs S D fuel rest with
      | mk r fo' =>
        rw [ho, hr] at h
        simp only [Prod.mk.injEq, Bool.or_eq_false_iff] at h
        obtain ⟨he, hfo, hfo'⟩ := h
        subst he hfo hfo'
        rw [primaryFree_append, List.all_cons,
          operation_variables_spec hws hw hu (name := name) (hm _ (List.mem_cons_self ..)) fuel e ho,
          validateVariablesDefs_spec hws hw hu fuel rest r (fun d hd => hm d (by simp [hd])) hr]

/-! ## Fuel sufficiency of the worklist of the variable pass -/

/-- Spreads still to be discovered: those of the defined fragments not validated yet. -/
def pot (D : Document) (names validated : List String) : Nat :=
  ((names.filter (fun n => !validated.contains n)).map (fun n => (wdeps D n).length)).sum

theorem pot_skip (D : Document) (names validated : List String) (n : String) (hn : n ∉ names) :
    pot D names (n :: validated) = pot D names validated := by
  unfold pot
  congr 2
  apply List.filter_congr
  intro m hm
  have : m ≠ n := fun he => hn (he ▸ hm)
  simp [this]

theorem pot_take (D : Document) : ∀ (names validated : List String) (n : String), Spec.nodup names = true →
    n ∈ names → n ∉ validated → pot D names (n :: validated) + (wdeps D n).length = pot D names validated
  | [], _, _, _, h, _ => by simp at h
  | m :: rest, validated, n, hnd, hmem, hnv => by
    simp only [nodup_cons, Bool.and_eq_true, Bool.not_eq_true', List.contains_eq_mem, decide_eq_false_iff_not] at hnd
    simp only [List.mem_cons] at hmem
    unfold pot
    simp only [List.filter_cons, List.contains_eq_mem, List.mem_cons]
    by_cases hmn : m = n
    · subst hmn
      have hrest : m ∉ rest := hnd.1
      have := pot_skip D rest validated m hrest
      unfold pot at this
      simp only [List.contains_eq_mem, List.mem_cons] at this
      simp only [true_or, decide_true, Bool.not_true, Bool.false_eq_true, if_false, hnv, decide_false,
        Bool.not_false, if_true, List.map_cons, List.sum_cons, this]
      omega
    · have hin : n ∈ rest := by
        rcases hmem with h | h
        · exact absurd h.symm hmn
        · exact h
      have ih := pot_take D rest validated n hnd.2 hin hnv
      unfold pot at ih
      simp only [List.contains_eq_mem, List.mem_cons] at ih
      by_cases hmv : m ∈ validated
      · simp only [hmn, hmv, or_true, decide_true, Bool.not_true, Bool.false_eq_true, if_false]
        exact ih
      · simp only [hmn, hmv, or_self, decide_false, Bool.not_false, if_true, List.map_cons, List.sum_cons]
        omega

theorem fragLast_none_iff (D : Document) (n : String) :
    Model.fragLast D n = none ↔ n ∉ (Model.fragsOf D).map (·.name) := by
  unfold Model.fragLast
  rw [List.find?_eq_none]
  simp only [List.mem_reverse, decide_eq_true_eq, List.mem_map, not_exists, not_and]

/-- The worklist comes back when the fuel exceeds the work left. -/
theorem varsFragments_total (S : Schema) (D : Document) (vars : List VarDef) (names : List String)
    (hnd : Spec.nodup names = true) (hnames : ∀ n, n ∈ names ↔ n ∈ (Model.fragsOf D).map (·.name)) :
    ∀ (fuel : Nat) (todo validated : List String) (acc : VarAcc),
      todo.length + pot D names validated < fuel →
      ∃ acc', varsFragments S D vars fuel todo validated acc = some acc' := by
  intro fuel
  induction fuel with
  | zero => intro todo validated acc h; omega
  | succ fuel ih =>
    intro todo validated acc h
    cases todo with
    | nil => exact ⟨acc, by simp [varsFragments]⟩
    | cons n rest =>
      unfold varsFragments
      simp only [List.length_cons] at h
      by_cases hv : n ∈ validated
      · simp only [List.contains_eq_mem, hv, decide_true, if_true]
        exact ih rest validated acc (by omega)
      · simp only [List.contains_eq_mem, hv, decide_false, Bool.false_eq_true, if_false]
        cases hf : Model.fragLast D n with
        | none =>
          simp only
          have hn : n ∉ names := fun hm => (fragLast_none_iff D n).1 hf ((hnames n).1 hm)
          apply ih rest (n :: validated) acc
          rw [pot_skip D names validated n hn]
          omega
        | some f =>
          simp only
          have hn : n ∈ names := by
            apply (hnames n).2
            by_cases hm : n ∈ (Model.fragsOf D).map (·.name)
            · exact hm
            · rw [(fragLast_none_iff D n).2 hm] at hf; simp at hf
          have hp := pot_take D names validated n hnd hn hv
          have hs : (varsDirectives S vars f.dirs ++ varsSet S vars (Model.namedType S f.tc) f.sel).spreads.length =
              (wdeps D n).length := by
            have := contrib_spreads S D vars n
            simp only [contrib, hf] at this
            rw [this]
          apply ih
          simp only [List.length_append, hs]
          omega


mutual
theorem spreadNamesSel_le : ∀ (sel : Selection), (Model.spreadNamesSel sel).length ≤ Model.sizeSel sel
  | .field _ _ _ _ _ none => by simp [Model.spreadNamesSel, Model.sizeSel]
  | .field _ _ _ _ _ (some ss) => by
    have := spreadNamesSet_le ss
    simp only [Model.spreadNamesSel, Model.sizeSel]; omega
  | .spread _ _ _ _ => by simp [Model.spreadNamesSel, Model.sizeSel]
  | .inline _ _ ss _ => by
    have := spreadNamesSet_le ss
    simp only [Model.spreadNamesSel, Model.sizeSel]; omega
theorem spreadNamesSet_le : ∀ (ss : SelSet), (Model.spreadNamesSet ss).length ≤ Model.sizeSet ss
  | .mk sels _ => by
    have := spreadNamesSels_le sels
    simp only [Model.spreadNamesSet, Model.sizeSet]; omega
theorem spreadNamesSels_le : ∀ (sels : List Selection), (Model.spreadNamesSels sels).length ≤ Model.sizeSels sels
  | [] => by simp [Model.spreadNamesSels, Model.sizeSels]
  | s :: rest => by
    have h1 := spreadNamesSel_le s
    have h2 := spreadNamesSels_le rest
    simp only [Model.spreadNamesSels, Model.sizeSels, List.length_append]; omega
end

theorem size_le_docSize {D : Document} {d : Definition} (hd : d ∈ D) : 1 + Model.sizeSet (Model.defSel d) ≤ Model.docSize D := by
  unfold Model.docSize
  induction D with
  | nil => simp at hd
  | cons x rest ih =>
    simp only [List.mem_cons] at hd
    simp only [List.map_cons, List.sum_cons]
    rcases hd with rfl | hd
    · omega
    · have := ih hd; omega

theorem frags_size_le (D : Document) :
    ((Model.fragsOf D).map (fun f => (Model.spreadNamesSet f.sel).length)).sum ≤ Model.docSize D := by
  unfold Model.fragsOf Model.docSize
  induction D with
  | nil => simp
  | cons d rest ih =>
    cases d with
    | op kind name vars dirs sel =>
      simp only [List.filterMap_cons, List.map_cons, List.sum_cons]
      omega
    | frag n np tc tcp dirs sel p =>
      have := spreadNamesSet_le sel
      simp only [List.filterMap_cons, List.map_cons, List.sum_cons]
      simp only [Model.defSel] at ih ⊢
      omega

theorem pot_initial {D : Document} (hu : Spec.fragmentNamesUnique D = true) :
    pot D ((Model.fragsOf D).map (·.name)) [] ≤ Model.docSize D := by
  have hnd : Spec.nodup ((Model.fragsOf D).map (·.name)) = true := by
    unfold Spec.fragmentNamesUnique at hu; rw [← fragsOf_names] at hu; exact hu
  have : pot D ((Model.fragsOf D).map (·.name)) [] =
      ((Model.fragsOf D).map (fun f => (Model.spreadNamesSet f.sel).length)).sum := by
    unfold pot
    have hfil : ((Model.fragsOf D).map (·.name)).filter (fun n => !([] : List String).contains n) =
        (Model.fragsOf D).map (·.name) := by
      apply List.filter_eq_self.2
      intro a _; rfl
    rw [hfil, List.map_map]
    congr 1
    apply List.map_congr_left
    intro f hf
    have h1 : Model.fragLast D f.name = some f := by
      rw [fragLast_eq_first hu]
      unfold Model.fragFirst
      exact find?_of_unique (Model.fragsOf D) (·.name) f hf hnd
    simp [wdeps, h1]
  rw [this]
  exact frags_size_le D

/-- With the fuel of the pipeline every operation's worklist comes back. -/
theorem operation_worklist_total {S : Schema} {D : Document} (hu : Spec.fragmentNamesUnique D = true)
    {kind : Option (OpKind × Pos)} {name : Option (String × Pos)} {vars : List VarDef} {dirs : List Directive}
    {sel : SelSet} (hd : Definition.op kind name vars dirs sel ∈ D) :
    ∃ errs, validateVariablesOp S D (Model.fuelFor D) kind vars dirs sel = (errs, false) := by
  have hnd : Spec.nodup ((Model.fragsOf D).map (·.name)) = true := by
    unfold Spec.fragmentNamesUnique at hu; rw [← fragsOf_names] at hu; exact hu
  unfold validateVariablesOp
  simp only
  have hstart : (varsDirectives S vars dirs ++ varsSet S vars (Model.opScope S kind) sel).spreads.length ≤ Model.docSize D := by
    simp only [VarAcc.spreads_append, varsDirectives_spreads, varsSet_spreads, List.nil_append]
    have h1 := spreadNamesSet_le sel
    have h2 := size_le_docSize hd
    simp only [Model.defSel] at h2
    omega
  obtain ⟨acc', hacc⟩ := varsFragments_total S D vars ((Model.fragsOf D).map (·.name)) hnd (fun _ => Iff.rfl)
    (Model.fuelFor D) (varsDirectives S vars dirs ++ varsSet S vars (Model.opScope S kind) sel).spreads []
    { varsDirectives S vars dirs ++ varsSet S vars (Model.opScope S kind) sel with spreads := [] } (by
      have := pot_initial hu
      unfold Model.fuelFor
      omega)
  rw [hacc]
  exact ⟨_, rfl⟩

theorem validateVariablesDefs_total {S : Schema} {D : Document} (hu : Spec.fragmentNamesUnique D = true) :
    ∀ (ds : List Definition), (∀ d ∈ ds, d ∈ D) →
      ∃ errs, validateVariablesDefs S D (Model.fuelFor D) ds = (errs, false)
  | [], _ => ⟨[], rfl⟩
  | .frag n np tc tcp dirs sel p :: rest, hm => by
    simp only [validateVariablesDefs]
    exact validateVariablesDefs_total hu rest (fun d hd => hm d (by simp [hd]))
  | .op kind name vars dirs sel :: rest, hm => by
    obtain ⟨e, he⟩ := operation_worklist_total (S := S) hu (name := name) (hm _ (List.mem_cons_self ..))
    obtain ⟨r, hr⟩ := validateVariablesDefs_total (S := S) hu rest (fun d hd => hm d (by simp [hd]))
    simp only [validateVariablesDefs, he, hr]
    exact ⟨e ++ r, rfl⟩

end ApiFu.C04
