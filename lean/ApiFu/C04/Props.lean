/-
  C04 — property theorems. See design-notes/C04.md for what is proved and what is only checked
  differentially.

  Shape: for every rule group (one file of graphql/validator each) a theorem
  `model_<group>_eq_spec` saying that the model of that file reports a (primary) error exactly
  when one of the specification's rules of that group is violated — for all schemas and all
  documents, given (where the pass depends on scopes) the rules that establish scopes. This pair
  of directions is the group's soundness and completeness.
-/
import ApiFu.C04.Lemmas

namespace ApiFu.C04
open Spec Model
set_option linter.unusedSimpArgs false

/-- The specification's verdict is a function of schema and document (trivial in Lean: `Spec.valid`
    is a total function; the content of "the verdict does not vary between runs" is the tie: five
    runs per case, two of them on a schema rebuilt in shuffled definition order). -/
theorem spec_deterministic (S : Schema) (D : Document) (a b : Bool)
    (ha : a = Spec.valid S D) (hb : b = Spec.valid S D) : a = b := by
  rw [ha, hb]

/-- **Directives group** (validate_directives.go = §5.7.1–§5.7.3), all documents, no hypothesis:
    the model's directive pass reports no error iff the three directive rules of the specification
    hold. (Every error of this pass is primary.) -/
theorem model_directives_eq_spec (S : Schema) (D : Document) :
    Model.validateDirectives S D = [] ↔
      (Spec.directivesDefined S D = true ∧ Spec.directivesInLocation S D = true ∧
        Spec.directivesUnique S D = true) := by
  rw [validateDirectives_nil_iff]
  simp only [checkDirectives_nil, dirListOk, Spec.directivesDefined, Spec.directivesInLocation,
    Spec.directivesUnique, List.all_eq_true]
  constructor
  · intro h
    refine ⟨fun site hs => (h site hs).1, fun site hs => (h site hs).2.1, fun site hs => (h site hs).2.2⟩
  · rintro ⟨h1, h2, h3⟩ site hs
    exact ⟨h1 site hs, h2 site hs, h3 site hs⟩

/-- **Fields group, first pass** (validate_fields.go:21-92 = §5.3.1 + §5.3.3): given the rules
    that establish scopes (operation types supported, type conditions exist and are composite), the
    model reports a primary error iff a field is undefined on its parent type or the leaf/composite
    rule is violated. -/
theorem model_fields_eq_spec {S : Schema} {D : Document} (h : ScopeRules S D) :
    primaryFree (Model.validateFields1 S D) = (Spec.fieldsDefined S D && Spec.leafSelections S D) := by
  unfold Model.validateFields1 Spec.fieldsDefined Spec.leafSelections
  rw [primaryFree_flatMap, all_and]
  unfold Spec.selOccs
  rw [all_flatMap]
  apply all_congr_mem
  intro d hd
  obtain ⟨e, hinv, hcond⟩ := def_scope h hd
  rw [occDef_eq] at hcond ⊢
  rw [e]
  exact fields1_set_ok h.wf _ _ hinv hcond

/-- **Arguments group** (validate_arguments.go = §5.4.1, §5.4.2, §5.4.2.1), all well-scoped
    documents: the model reports a primary error iff an argument is unknown, repeated, or a required
    argument is missing — on fields and on directives, at any depth. (Without the fix of F-04b this
    statement is false: `{ o { g } }`.) -/
theorem model_arguments_eq_spec {S : Schema} {D : Document} (h : WellScoped S D) :
    primaryFree (Model.validateArguments S D) =
      (Spec.argumentsKnown S D && Spec.argumentsUnique S D && Spec.argumentsRequired S D) := by
  unfold Spec.argumentsKnown Spec.argumentsUnique Spec.argumentsRequired
  rw [all_and3]
  change _ = (Spec.argSites S D).all siteOk
  unfold Model.validateArguments Spec.argSites Spec.selOccs
  rw [primaryFree_flatMap, List.all_append, all_flatMap, all_flatMap, all_flatMap, all_and]
  apply all_congr_mem
  intro d hd
  obtain ⟨e, hocc⟩ := def_occs h hd
  rw [primaryFree_append, argsDirectives_ok, Bool.and_comm]
  congr 1
  have hinfo : (moccSet S (Model.defScope S d) (Model.defSel d)).all (hasInfoAt S) = true := by
    rw [e, List.all_eq_true]
    intro o ho
    exact info_of_scoped h.wf (hocc o ho).1 (hocc o ho).2
  rw [args_set_flat S _ _ hinfo, e, primaryFree_flatMap]
  apply all_congr_mem
  intro o ho
  exact argsOcc_ok h.wf (hocc o ho).1 (hocc o ho).2

end ApiFu.C04
