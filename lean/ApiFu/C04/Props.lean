/-
  C04 — property theorems. See design-notes/C04.md for what is proved and what is only checked
  differentially.

  Shape: for every rule group (one file of graphql/validator each) a theorem
  `model_<group>_eq_spec` saying that the model of that file reports a (primary) error exactly
  when one of the specification's rules of that group is violated — for all schemas and all
  documents, given (where the pass depends on scopes) the rules that establish scopes. This pair
  of directions is the group's soundness and completeness.
-/
import ApiFu.C04.Lemmas

namespace ApiFu.C04
open Spec Model
set_option linter.unusedSimpArgs false

/-- The specification's verdict is a function of schema and document (trivial in Lean: `Spec.valid`
    is a total function; the content of "the verdict does not vary between runs" is the tie: five
    runs per case, two of them on a schema rebuilt in shuffled definition order). -/
theorem spec_deterministic (S : Schema) (D : Document) (a b : Bool)
    (ha : a = Spec.valid S D) (hb : b = Spec.valid S D) : a = b := by
  rw [ha, hb]

/-- **Directives group** (validate_directives.go = §5.7.1–§5.7.3), all documents, no hypothesis:
    the model's directive pass reports no error iff the three directive rules of the specification
    hold. (Every error of this pass is primary.) -/
theorem model_directives_eq_spec (S : Schema) (D : Document) :
    Model.validateDirectives S D = [] ↔
      (Spec.directivesDefined S D = true ∧ Spec.directivesInLocation S D = true ∧
        Spec.directivesUnique S D = true) := by
  rw [validateDirectives_nil_iff]
  simp only [checkDirectives_nil, dirListOk, Spec.directivesDefined, Spec.directivesInLocation,
    Spec.directivesUnique, List.all_eq_true]
  constructor
  · intro h
    refine ⟨fun site hs => (h site hs).1, fun site hs => (h site hs).2.1, fun site hs => (h site hs).2.2⟩
  · rintro ⟨h1, h2, h3⟩ site hs
    exact ⟨h1 site hs, h2 site hs, h3 site hs⟩

/-- **Fields group, first pass** (validate_fields.go:21-92 = §5.3.1 + §5.3.3): given the rules
    that establish scopes (operation types supported, type conditions exist and are composite), the
    model reports a primary error iff a field is undefined on its parent type or the leaf/composite
    rule is violated. -/
theorem model_fields_eq_spec {S : Schema} {D : Document} (h : ScopeRules S D) :
    primaryFree (Model.validateFields1 S D) = (Spec.fieldsDefined S D && Spec.leafSelections S D) := by
  unfold Model.validateFields1 Spec.fieldsDefined Spec.leafSelections
  rw [primaryFree_flatMap, all_and]
  unfold Spec.selOccs
  rw [all_flatMap]
  apply all_congr_mem
  intro d hd
  obtain ⟨e, hinv, hcond⟩ := def_scope h hd
  rw [occDef_eq] at hcond ⊢
  rw [e]
  exact fields1_set_ok h.wf _ _ hinv hcond

/-- **Arguments group** (validate_arguments.go = §5.4.1, §5.4.2, §5.4.2.1), all well-scoped
    documents: the model reports a primary error iff an argument is unknown, repeated, or a required
    argument is missing — on fields and on directives, at any depth. (Without the fix of F-04b this
    statement is false: `{ o { g } }`.) -/
theorem model_arguments_eq_spec {S : Schema} {D : Document} (h : WellScoped S D) :
    primaryFree (Model.validateArguments S D) =
      (Spec.argumentsKnown S D && Spec.argumentsUnique S D && Spec.argumentsRequired S D) := by
  unfold Spec.argumentsKnown Spec.argumentsUnique Spec.argumentsRequired
  rw [all_and3]
  change _ = (Spec.argSites S D).all siteOk
  unfold Model.validateArguments Spec.argSites Spec.selOccs
  rw [primaryFree_flatMap, List.all_append, all_flatMap, all_flatMap, all_flatMap, all_and]
  apply all_congr_mem
  intro d hd
  obtain ⟨e, hocc⟩ := def_occs h hd
  rw [primaryFree_append, argsDirectives_ok, Bool.and_comm]
  congr 1
  have hinfo : (moccSet S (Model.defScope S d) (Model.defSel d)).all (hasInfoAt S) = true := by
    rw [e, List.all_eq_true]
    intro o ho
    exact info_of_scoped h.wf (hocc o ho).1 (hocc o ho).2
  rw [args_set_flat S _ _ hinfo, e, primaryFree_flatMap]
  apply all_congr_mem
  intro o ho
  exact argsOcc_ok h.wf (hocc o ho).1 (hocc o ho).2

/-- **Fragment declarations group** (validate_fragments.go:16-63 = §5.5.1.1 – §5.5.1.4), all
    documents, no hypothesis: the model reports an error iff a fragment name is repeated, a type
    condition (of a definition or of an inline fragment, at any depth) names no type or a
    non-composite type, or a fragment is never spread. (Every error of this pass is primary.) -/
theorem model_fragment_declarations_eq_spec (S : Schema) (D : Document) :
    Model.validateFragmentDeclarations S D = [] ↔
      (Spec.fragmentNamesUnique D = true ∧ Spec.fragmentTypesExist S D = true ∧
        Spec.fragmentsOnComposite S D = true ∧ Spec.fragmentsUsed S D = true) := by
  unfold Model.validateFragmentDeclarations
  simp only [List.append_eq_nil_iff, fragDeclLoop_nil, List.not_mem_nil, not_false_eq_true,
    implies_true, true_and, fragsOf_names]
  -- the inspection part
  have hinl : (D.flatMap (fun d => inlineCondSet S (Model.defSel d)) = []) ↔
      ((Spec.selOccs S D).all (condExistsAt S) = true ∧ (Spec.selOccs S D).all (condCompositeAt S) = true) := by
    unfold Spec.selOccs
    simp only [List.flatMap_eq_nil_iff, all_flatMap, List.all_eq_true]
    constructor
    · intro h
      refine ⟨fun d hd o ho => ?_, fun d hd o ho => ?_⟩ <;>
      · have := h d hd
        rw [inlineCond_set_flat S (specDefScope S d), List.flatMap_eq_nil_iff] at this
        have ho' : o ∈ occSet S (specDefScope S d) (Model.defSel d) := by rw [← occDef_eq]; exact ho
        have := this o ho'
        cases o with
        | field => rfl
        | spread => rfl
        | inline parent tc dirs p =>
          cases tc with
          | none => rfl
          | some tp =>
            obtain ⟨t, tpos⟩ := tp
            simp only [condErrOcc, typeCondition_nil] at this
            simp [condExistsAt, condCompositeAt, this.1, this.2]
    · rintro ⟨h1, h2⟩ d hd
      rw [inlineCond_set_flat S (specDefScope S d), List.flatMap_eq_nil_iff]
      intro o ho
      have ho' : o ∈ Spec.occDef S d := by rw [occDef_eq]; exact ho
      have a := h1 d hd o ho'
      have b := h2 d hd o ho'
      cases o with
      | field => rfl
      | spread => rfl
      | inline parent tc dirs p =>
        cases tc with
        | none => rfl
        | some tp =>
          obtain ⟨t, tpos⟩ := tp
          simp only [condErrOcc, typeCondition_nil]
          simp only [condExistsAt] at a
          simp only [condCompositeAt, a, Bool.or_eq_true] at b
          refine ⟨a, ?_⟩
          rcases b with b | b
          · cases hf : S.find t <;> simp [hf] at a b
          · exact b
  -- the unused part
  have hunused : ((firstDefs [] (Model.fragsOf D)).flatMap (fun f =>
        if (Model.usedFragments D).contains f.name then [] else [newError f.pos "unused fragment"]) = []) ↔
      Spec.fragmentsUsed S D = true := by
    simp only [List.flatMap_eq_nil_iff]
    have := firstDefs_names [] (Model.fragsOf D) (fun n => n ∈ Model.usedFragments D)
    simp only [List.not_mem_nil, not_false_eq_true, true_imp_iff] at this
    unfold Spec.fragmentsUsed
    rw [List.all_eq_true, ← fragsOf_names, ← usedFragments_eq S D]
    simp only [List.mem_map, forall_exists_index, and_imp, forall_apply_eq_imp_iff₂,
      List.contains_eq_mem, decide_eq_true_eq]
    rw [← this]
    constructor
    · intro h f hf
      have := h f hf
      by_cases hc : f.name ∈ Model.usedFragments D
      · exact hc
      · simp [hc] at this
    · intro h f hf
      simp [h f hf]
  rw [hinl, hunused]
  unfold Spec.fragmentNamesUnique Spec.fragmentTypesExist Spec.fragmentsOnComposite
  simp only [Bool.and_eq_true, List.all_eq_true]
  have hdefs := all_mem_fragDefs D (fun _ tc => (S.find tc).isSome = true ∧ Spec.isComposite S tc = true)
  rw [hdefs]
  constructor
  · rintro ⟨⟨⟨hu, hd⟩, h1, h2⟩, h3⟩
    refine ⟨hu, ⟨fun f hf => (hd f hf).1, by simpa [List.all_eq_true] using h1⟩,
      ⟨fun f hf => by simp [(hd f hf).2], by simpa [List.all_eq_true] using h2⟩, h3⟩
  · rintro ⟨hu, ⟨he, h1⟩, ⟨hc, h2⟩, h3⟩
    refine ⟨⟨⟨hu, fun f hf => ⟨he f hf, ?_⟩⟩, by simpa [List.all_eq_true] using h1,
      by simpa [List.all_eq_true] using h2⟩, h3⟩
    have a := he f hf
    have b := hc f hf
    simp only [Bool.or_eq_true] at b
    rcases b with b | b
    · cases hf' : S.find f.2.1 <;> simp [hf'] at a b
    · exact b

/-- **Fragment spreads group, targets and possibility** (validate_fragments.go:104-153 = §5.5.2.1 +
    §5.5.2.3), all well-scoped documents with unique fragment names: the model reports a primary
    error iff a spread names no fragment or a (named or inline) spread is impossible. -/
theorem model_fragment_spreads_eq_spec {S : Schema} {D : Document} (h : WellScoped S D)
    (hu : Spec.fragmentNamesUnique D = true) :
    primaryFree (Model.spreadChecks S D) = (Spec.spreadsDefined S D && Spec.spreadsPossible S D) := by
  have hspec : (Spec.spreadsDefined S D && Spec.spreadsPossible S D) = (Spec.selOccs S D).all (spreadOkAt S D) := by
    unfold Spec.spreadsDefined Spec.spreadsPossible Spec.spreadNames
    rw [all_filterMap, all_and]
    apply all_congr_mem
    intro o _
    cases o with
    | field => rfl
    | spread parent n np dirs p => cases parent <;> rfl
    | inline parent tc dirs p =>
      cases parent with
      | none => rfl
      | some q =>
        cases tc with
        | none => rfl
        | some tp => rfl
  rw [hspec]
  unfold Model.spreadChecks Spec.selOccs
  rw [primaryFree_flatMap, all_flatMap]
  apply all_congr_mem
  intro d hd
  obtain ⟨e, hocc⟩ := def_occs h hd
  rw [spreads_set_flat, e, primaryFree_flatMap]
  apply all_congr_mem
  intro o ho
  exact spreadOcc_ok hu (hocc o ho).1

end ApiFu.C04
