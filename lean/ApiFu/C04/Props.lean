/-
  C04 — property theorems. See design-notes/C04.md for what is proved and what is only checked
  differentially.

  Shape: for every rule group (one file of graphql/validator each) a theorem
  `model_<group>_eq_spec` saying that the model of that file reports a (primary) error exactly
  when one of the specification's rules of that group is violated — for all schemas and all
  documents, given (where the pass depends on scopes) the rules that establish scopes. This pair
  of directions is the group's soundness and completeness.
-/
import ApiFu.C04.Lemmas

namespace ApiFu.C04
open Spec Model
set_option linter.unusedSimpArgs false

/-- The specification's verdict is a function of schema and document (trivial in Lean: `Spec.valid`
    is a total function; the content of "the verdict does not vary between runs" is the tie: five
    runs per case, two of them on a schema rebuilt in shuffled definition order). -/
theorem spec_deterministic (S : Schema) (D : Document) (a b : Bool)
    (ha : a = Spec.valid S D) (hb : b = Spec.valid S D) : a = b := by
  rw [ha, hb]

/-- **Directives group** (validate_directives.go = §5.7.1–§5.7.3), all documents, no hypothesis:
    the model's directive pass reports no error iff the three directive rules of the specification
    hold. (Every error of this pass is primary.) -/
theorem model_directives_eq_spec (S : Schema) (D : Document) :
    Model.validateDirectives S D = [] ↔
      (Spec.directivesDefined S D = true ∧ Spec.directivesInLocation S D = true ∧
        Spec.directivesUnique S D = true) := by
  rw [validateDirectives_nil_iff]
  simp only [checkDirectives_nil, dirListOk, Spec.directivesDefined, Spec.directivesInLocation,
    Spec.directivesUnique, List.all_eq_true]
  constructor
  · intro h
    refine ⟨fun site hs => (h site hs).1, fun site hs => (h site hs).2.1, fun site hs => (h site hs).2.2⟩
  · rintro ⟨h1, h2, h3⟩ site hs
    exact ⟨h1 site hs, h2 site hs, h3 site hs⟩

/-- **Fields group, first pass** (validate_fields.go:21-92 = §5.3.1 + §5.3.3): given the rules
    that establish scopes (operation types supported, type conditions exist and are composite), the
    model reports a primary error iff a field is undefined on its parent type or the leaf/composite
    rule is violated. -/
theorem model_fields_eq_spec {S : Schema} {D : Document} (h : ScopeRules S D) :
    primaryFree (Model.validateFields1 S D) = (Spec.fieldsDefined S D && Spec.leafSelections S D) := by
  unfold Model.validateFields1 Spec.fieldsDefined Spec.leafSelections
  rw [primaryFree_flatMap, all_and]
  unfold Spec.selOccs
  rw [all_flatMap]
  apply all_congr_mem
  intro d hd
  obtain ⟨e, hinv, hcond⟩ := def_scope h hd
  rw [occDef_eq] at hcond ⊢
  rw [e]
  exact fields1_set_ok h.wf _ _ hinv hcond

/-- **Arguments group** (validate_arguments.go = §5.4.1, §5.4.2, §5.4.2.1), all well-scoped
    documents: the model reports a primary error iff an argument is unknown, repeated, or a required
    argument is missing — on fields and on directives, at any depth. (Without the fix of F-04b this
    statement is false: `{ o { g } }`.) -/
theorem model_arguments_eq_spec {S : Schema} {D : Document} (h : WellScoped S D) :
    primaryFree (Model.validateArguments S D) =
      (Spec.argumentsKnown S D && Spec.argumentsUnique S D && Spec.argumentsRequired S D) := by
  unfold Spec.argumentsKnown Spec.argumentsUnique Spec.argumentsRequired
  rw [all_and3]
  change _ = (Spec.argSites S D).all siteOk
  unfold Model.validateArguments Spec.argSites Spec.selOccs
  rw [primaryFree_flatMap, List.all_append, all_flatMap, all_flatMap, all_flatMap, all_and]
  apply all_congr_mem
  intro d hd
  obtain ⟨e, hocc⟩ := def_occs h hd
  rw [primaryFree_append, argsDirectives_ok, Bool.and_comm]
  congr 1
  have hinfo : (moccSet S (Model.defScope S d) (Model.defSel d)).all (hasInfoAt S) = true := by
    rw [e, List.all_eq_true]
    intro o ho
    exact info_of_scoped h.wf (hocc o ho).1 (hocc o ho).2
  rw [args_set_flat S _ _ hinfo, e, primaryFree_flatMap]
  apply all_congr_mem
  intro o ho
  exact argsOcc_ok h.wf (hocc o ho).1 (hocc o ho).2

/-- **Fragment declarations group** (validate_fragments.go:16-63 = §5.5.1.1 – §5.5.1.4), all
    documents, no hypothesis: the model reports an error iff a fragment name is repeated, a type
    condition (of a definition or of an inline fragment, at any depth) names no type or a
    non-composite type, or a fragment is never spread. (Every error of this pass is primary.) -/
theorem model_fragment_declarations_eq_spec (S : Schema) (D : Document) :
    Model.validateFragmentDeclarations S D = [] ↔
      (Spec.fragmentNamesUnique D = true ∧ Spec.fragmentTypesExist S D = true ∧
        Spec.fragmentsOnComposite S D = true ∧ Spec.fragmentsUsed S D = true) := by
  unfold Model.validateFragmentDeclarations
  simp only [List.append_eq_nil_iff, fragDeclLoop_nil, List.not_mem_nil, not_false_eq_true,
    implies_true, true_and, fragsOf_names]
  -- the inspection part
  have hinl : (D.flatMap (fun d => inlineCondSet S (Model.defSel d)) = []) ↔
      ((Spec.selOccs S D).all (condExistsAt S) = true ∧ (Spec.selOccs S D).all (condCompositeAt S) = true) := by
    unfold Spec.selOccs
    simp only [List.flatMap_eq_nil_iff, all_flatMap, List.all_eq_true]
    constructor
    · intro h
      refine ⟨fun d hd o ho => ?_, fun d hd o ho => ?_⟩ <;>
      · have := h d hd
        rw [inlineCond_set_flat S (specDefScope S d), List.flatMap_eq_nil_iff] at this
        have ho' : o ∈ occSet S (specDefScope S d) (Model.defSel d) := by rw [← occDef_eq]; exact ho
        have := this o ho'
        cases o with
        | field => rfl
        | spread => rfl
        | inline parent tc dirs p =>
          cases tc with
          | none => rfl
          | some tp =>
            obtain ⟨t, tpos⟩ := tp
            simp only [condErrOcc, typeCondition_nil] at this
            simp [condExistsAt, condCompositeAt, this.1, this.2]
    · rintro ⟨h1, h2⟩ d hd
      rw [inlineCond_set_flat S (specDefScope S d), List.flatMap_eq_nil_iff]
      intro o ho
      have ho' : o ∈ Spec.occDef S d := by rw [occDef_eq]; exact ho
      have a := h1 d hd o ho'
      have b := h2 d hd o ho'
      cases o with
      | field => rfl
      | spread => rfl
      | inline parent tc dirs p =>
        cases tc with
        | none => rfl
        | some tp =>
          obtain ⟨t, tpos⟩ := tp
          simp only [condErrOcc, typeCondition_nil]
          simp only [condExistsAt] at a
          simp only [condCompositeAt, a, Bool.or_eq_true] at b
          refine ⟨a, ?_⟩
          rcases b with b | b
          · cases hf : S.find t <;> simp [hf] at a b
          · exact b
  -- the unused part
  have hunused : ((firstDefs [] (Model.fragsOf D)).flatMap (fun f =>
        if (Model.usedFragments D).contains f.name then [] else [newError f.pos "unused fragment"]) = []) ↔
      Spec.fragmentsUsed S D = true := by
    simp only [List.flatMap_eq_nil_iff]
    have := firstDefs_names [] (Model.fragsOf D) (fun n => n ∈ Model.usedFragments D)
    simp only [List.not_mem_nil, not_false_eq_true, true_imp_iff] at this
    unfold Spec.fragmentsUsed
    rw [List.all_eq_true, ← fragsOf_names, ← usedFragments_eq S D]
    simp only [List.mem_map, forall_exists_index, and_imp, forall_apply_eq_imp_iff₂,
      List.contains_eq_mem, decide_eq_true_eq]
    rw [← this]
    constructor
    · intro h f hf
      have := h f hf
      by_cases hc : f.name ∈ Model.usedFragments D
      · exact hc
      · simp [hc] at this
    · intro h f hf
      simp [h f hf]
  rw [hinl, hunused]
  unfold Spec.fragmentNamesUnique Spec.fragmentTypesExist Spec.fragmentsOnComposite
  simp only [Bool.and_eq_true, List.all_eq_true]
  have hdefs := all_mem_fragDefs D (fun _ tc => (S.find tc).isSome = true ∧ Spec.isComposite S tc = true)
  rw [hdefs]
  constructor
  · rintro ⟨⟨⟨hu, hd⟩, h1, h2⟩, h3⟩
    refine ⟨hu, ⟨fun f hf => (hd f hf).1, by simpa [List.all_eq_true] using h1⟩,
      ⟨fun f hf => by simp [(hd f hf).2], by simpa [List.all_eq_true] using h2⟩, h3⟩
  · rintro ⟨hu, ⟨he, h1⟩, ⟨hc, h2⟩, h3⟩
    refine ⟨⟨⟨hu, fun f hf => ⟨he f hf, ?_⟩⟩, by simpa [List.all_eq_true] using h1,
      by simpa [List.all_eq_true] using h2⟩, h3⟩
    have a := he f hf
    have b := hc f hf
    simp only [Bool.or_eq_true] at b
    rcases b with b | b
    · cases hf' : S.find f.2.1 <;> simp [hf'] at a b
    · exact b

/-- **Fragment spreads group, targets and possibility** (validate_fragments.go:104-153 = §5.5.2.1 +
    §5.5.2.3), all well-scoped documents with unique fragment names: the model reports a primary
    error iff a spread names no fragment or a (named or inline) spread is impossible. -/
theorem model_fragment_spreads_eq_spec {S : Schema} {D : Document} (h : WellScoped S D)
    (hu : Spec.fragmentNamesUnique D = true) :
    primaryFree (Model.spreadChecks S D) = (Spec.spreadsDefined S D && Spec.spreadsPossible S D) := by
  have hspec : (Spec.spreadsDefined S D && Spec.spreadsPossible S D) = (Spec.selOccs S D).all (spreadOkAt S D) := by
    unfold Spec.spreadsDefined Spec.spreadsPossible Spec.spreadNames
    rw [all_filterMap, all_and]
    apply all_congr_mem
    intro o _
    cases o with
    | field => rfl
    | spread parent n np dirs p => cases parent <;> rfl
    | inline parent tc dirs p =>
      cases parent with
      | none => rfl
      | some q =>
        cases tc with
        | none => rfl
        | some tp => rfl
  rw [hspec]
  unfold Model.spreadChecks Spec.selOccs
  rw [primaryFree_flatMap, all_flatMap]
  apply all_congr_mem
  intro d hd
  obtain ⟨e, hocc⟩ := def_occs h hd
  rw [spreads_set_flat, e, primaryFree_flatMap]
  apply all_congr_mem
  intro o ho
  exact spreadOcc_ok hu (hocc o ho).1



/-- **Values group** (validate_values.go = §5.6.1 – §5.6.4), all well-scoped documents: the model
    reports a primary error iff an argument value (of a field or directive, at any depth) or a
    variable default value does not have the expected type — including unknown, repeated and missing
    required input object fields. -/
theorem model_values_eq_spec {S : Schema} {D : Document} (h : WellScoped S D) :
    primaryFree (Model.validateValues S D) = Spec.valuesCorrect S D := by
  unfold Spec.valuesCorrect Model.validateValues Spec.argSites Spec.selOccs
  rw [primaryFree_flatMap, List.all_append, all_flatMap, all_flatMap, all_flatMap, all_and, all_and]
  apply all_congr_mem
  intro d hd
  obtain ⟨e, hocc⟩ := def_occs h hd
  rw [primaryFree_append, primaryFree_append, defaultValueErrors_ok, valuesDirectives_ok, varDefsOf_eq, defDirs_eq,
    values_set_flat, e, primaryFree_flatMap]
  have : (Spec.occDef S d).all (fun o => primaryFree (valuesOcc S o)) =
      (Spec.occDef S d).all (fun o => (Spec.occArgSites S o).all (Spec.siteValuesOk S)) := by
    apply all_congr_mem
    intro o ho
    exact valuesOcc_ok h.wf (hocc o ho).1 (hocc o ho).2
  rw [this]
  cases (Spec.varDefsOf d).all (Spec.defaultOk S) <;>
  cases (Spec.dirArgSites S (Spec.defDirs d)).all (Spec.siteValuesOk S) <;>
  cases (Spec.occDef S d).all (fun o => (Spec.occArgSites S o).all (Spec.siteValuesOk S)) <;> rfl

/-- **Operations group, partial** (validate_operations.go:24-35, 47-58 = §5.2.1.1 operation name
    uniqueness, §5.2.2.1 lone anonymous operation, supported operation type), all documents, no
    hypothesis. Full statement (not proved): also `subscriptionErrors … = [] ↔
    Spec.singleRootSubscription D` — missing is the relation between the model's collection of
    root fields (visited selection sets identified by position, explicit fuel) and the
    specification's (visited fragments by name); that rule is checked differentially. -/
theorem model_operations_eq_spec_partial (S : Schema) (D : Document) :
    (operationLoopErrors S [] D ++ loneAnonymousErrors D = []) ↔
      (Spec.opNameUnique D = true ∧ Spec.loneAnonymous D = true ∧ Spec.opTypeSupported S D = true) := by
  rw [List.append_eq_nil_iff, operationLoop_nil, loneAnonymous_nil]
  unfold Spec.opNameUnique Spec.opTypeSupported
  simp only [List.not_mem_nil, not_false_eq_true, implies_true, true_and]
  constructor
  · rintro ⟨⟨h1, h2⟩, h3⟩; exact ⟨h1, h3, h2⟩
  · rintro ⟨h1, h2, h3⟩; exact ⟨⟨h1, h3⟩, h2⟩

/-- **Variables group, definitions** (validate_variables.go:21-36 = §5.8.1 + §5.8.2), all
    documents, no hypothesis: for every operation, the loop over its variable definitions reports an
    error iff a variable name is repeated or a variable's type is unknown or not an input type. -/
theorem model_variable_definitions_eq_spec (S : Schema) (D : Document) :
    (∀ d ∈ D, variableDefErrors S [] (Model.varDefsOf d) = []) ↔
      (Spec.variablesUnique D = true ∧ Spec.variablesAreInputTypes S D = true) := by
  unfold Spec.variablesUnique Spec.variablesAreInputTypes
  simp only [List.all_eq_true, variableDefErrors_nil, List.not_mem_nil, not_false_eq_true, implies_true,
    true_and, varDefsOf_eq]
  constructor
  · intro h
    exact ⟨fun d hd => (h d hd).1, fun d hd => (h d hd).2⟩
  · rintro ⟨h1, h2⟩ d hd
    exact ⟨h1 d hd, h2 d hd⟩

/-- **Variables group, usages in one definition body** (validate_variables.go:42-63 with
    validateVariableUsage and TypeInfo's expected types of nested values = §5.8.3 and §5.8.5 on the
    usages written in that definition), all well-scoped documents, every variable list: what
    `validate(def)` accumulates for the body of a definition is exactly what the specification says
    about the usages written there —
    * it reports a primary error iff some usage names an undeclared variable or is not allowed at
      its position (expected types flow through list items, input object fields and — F-04d —
      object literals in list positions exactly as in the specification),
    * the encountered names are the names of the usages, in order,
    * the spreads to follow are the spreads of the body.

    Full statement for an operation (not proved): with `acc` the result of the worklist
    `varsFragments` started from the operation's body, `primaryFree acc.errs ∧ no unused variable`
    iff §5.8.3, §5.8.4, §5.8.5 hold for `Spec.opUsages` — missing is that the worklist (each
    fragment once, last definition, explicit fuel) visits exactly the fragments of the
    specification's closure `Spec.reachableFrom` (rounds of `fragDeps`); that step is checked
    differentially. -/
theorem model_variable_usages_eq_spec {S : Schema} {D : Document} (h : WellScoped S D)
    (hw : Schema.wfDefaults S = true) {d : Definition} (hd : d ∈ D) (vars : List VarDef) :
    let a := varsDirectives S vars (Model.defDirs d) ++ varsSet S vars (Model.defScope S d) (Model.defSel d)
    primaryFree a.errs =
        (bodyUsages S d).all (fun u => Spec.usageDefinedIn vars u && Spec.usageAllowedIn S vars u) ∧
      a.encountered = (bodyUsages S d).map (·.name) ∧
      a.spreads = Spec.spreadsInSet (Model.defSel d) :=
  body_usages_spec h hw hd vars

/-- **Fragment cycles group** (validate_fragments.go:65-102 = §5.5.2.2), all documents with unique
    fragment names: the breadth-first search of the model terminates within its fuel for every
    fragment and reports "fragment cycle detected" iff the specification's closure finds a fragment
    that reaches itself. -/
theorem model_fragment_cycles_eq_spec {D : Document} (hu : Spec.fragmentNamesUnique D = true) :
    Model.fragmentCycleErrors D = ([], false) ↔ Spec.noFragmentCycles D = true := by
  unfold Model.fragmentCycleErrors
  rw [cycleLoop_spec D _ (by
    intro n hn
    have : n ∈ (Model.fragsOf D).map (·.name) := (mem_dedup _ n).1 (by simpa [Model.dedup, Spec.dedup] using hn)
    exact fragLast_isSome_of_mem D n this), noFragmentCycles_iff]
  have hmem : ∀ n, n ∈ Model.dedup ((Model.fragsOf D).map (·.name)) ↔ n ∈ Spec.fragNames D := by
    intro n
    rw [← fragsOf_names]
    exact mem_dedup _ n
  constructor
  · intro h n hn hr
    exact h n ((hmem n).2 hn) (hr.mono (fun a x hx => (directDeps_spec hu a x).2 hx))
  · intro h n hn hr
    exact h n ((hmem n).1 hn) (hr.mono (fun a x hx => (directDeps_spec hu a x).1 hx))

/-- **Variables group, partial** (validate_variables.go = §5.8.1 – §5.8.5), all well-scoped
    documents with unique fragment names: *if the worklists of the pass come back within their fuel*
    (the `false` flag), the model reports a primary error iff a variable is declared twice, has a
    non-input type, is used without being declared, is declared without being used, or is used where
    its type is not allowed — counting the usages in every fragment the operation reaches, with the
    expected types TypeInfo computes for nested values.
    Partial because fuel sufficiency of the worklist is not proved (the full statement has no
    `hrun` hypothesis and says the flag is `false`); the driver reports the flag on every case and it
    has never been `true`. -/
theorem model_variables_eq_spec_partial {S : Schema} {D : Document} (hws : WellScoped S D)
    (hw : Schema.wfDefaults S = true) (hu : Spec.fragmentNamesUnique D = true) (fuel : Nat) (errs : List Err)
    (hrun : Model.validateVariables S D fuel = (errs, false)) :
    primaryFree errs =
      (Spec.variablesUnique D && Spec.variablesAreInputTypes S D && Spec.variableUsesDefined S D &&
        Spec.variablesUsed S D && Spec.variableUsagesAllowed S D) := by
  rw [variableRules_doc]
  exact validateVariablesDefs_spec hws hw hu fuel D errs (fun _ h => h) hrun

/-- **Variables group** (validate_variables.go = §5.8.1 – §5.8.5), all well-scoped documents with
    unique fragment names, no fuel hypothesis: with the pipeline's fuel the variable pass comes back
    for every operation (the `false` flag) and reports a primary error iff a variable is declared
    twice, has a non-input type, is used without being declared, is declared without being used, or
    is used where its type is not allowed — counting the usages in every fragment the operation
    reaches, with the expected types TypeInfo computes for nested values. -/
theorem model_variables_eq_spec {S : Schema} {D : Document} (hws : WellScoped S D)
    (hw : Schema.wfDefaults S = true) (hu : Spec.fragmentNamesUnique D = true) :
    ∃ errs, Model.validateVariables S D (Model.fuelFor D) = (errs, false) ∧
      primaryFree errs =
        (Spec.variablesUnique D && Spec.variablesAreInputTypes S D && Spec.variableUsesDefined S D &&
          Spec.variablesUsed S D && Spec.variableUsagesAllowed S D) := by
  obtain ⟨errs, he⟩ := validateVariablesDefs_total (S := S) hu D (fun _ h => h)
  exact ⟨errs, he, model_variables_eq_spec_partial hws hw hu _ errs he⟩

/-! ## Assembly: soundness and completeness for the proved groups -/

/-- The model passes whose agreement with the specification is proved, all clean. -/
structure ProvedPassesClean (S : Schema) (D : Document) : Prop where
  operations : operationLoopErrors S [] D ++ loneAnonymousErrors D = []
  declarations : Model.validateFragmentDeclarations S D = []
  fields : primaryFree (Model.validateFields1 S D) = true
  arguments : primaryFree (Model.validateArguments S D) = true
  spreads : primaryFree (Model.spreadChecks S D) = true
  values : primaryFree (Model.validateValues S D) = true
  directives : Model.validateDirectives S D = []
  variableDefs : ∀ d ∈ D, variableDefErrors S [] (Model.varDefsOf d) = []
  cycles : Model.fragmentCycleErrors D = ([], false)
  variables : ∃ errs, Model.validateVariables S D (Model.fuelFor D) = (errs, false) ∧ primaryFree errs = true

/-- The rules of the specification that belong to those passes. -/
structure ProvedRulesHold (S : Schema) (D : Document) : Prop where
  opNameUnique : Spec.opNameUnique D = true
  loneAnonymous : Spec.loneAnonymous D = true
  opTypeSupported : Spec.opTypeSupported S D = true
  fragmentNamesUnique : Spec.fragmentNamesUnique D = true
  fragmentTypesExist : Spec.fragmentTypesExist S D = true
  fragmentsOnComposite : Spec.fragmentsOnComposite S D = true
  fragmentsUsed : Spec.fragmentsUsed S D = true
  fieldsDefined : Spec.fieldsDefined S D = true
  leafSelections : Spec.leafSelections S D = true
  argumentsKnown : Spec.argumentsKnown S D = true
  argumentsUnique : Spec.argumentsUnique S D = true
  argumentsRequired : Spec.argumentsRequired S D = true
  spreadsDefined : Spec.spreadsDefined S D = true
  spreadsPossible : Spec.spreadsPossible S D = true
  valuesCorrect : Spec.valuesCorrect S D = true
  directivesDefined : Spec.directivesDefined S D = true
  directivesInLocation : Spec.directivesInLocation S D = true
  directivesUnique : Spec.directivesUnique S D = true
  variablesUnique : Spec.variablesUnique D = true
  variablesAreInputTypes : Spec.variablesAreInputTypes S D = true
  noFragmentCycles : Spec.noFragmentCycles D = true
  variableUsesDefined : Spec.variableUsesDefined S D = true
  variablesUsed : Spec.variablesUsed S D = true
  variableUsagesAllowed : Spec.variableUsagesAllowed S D = true

theorem wellScoped_of_rules {S : Schema} {D : Document} (hwf : S.wf = true) (h : ProvedRulesHold S D) :
    WellScoped S D :=
  { wf := hwf, ops := h.opTypeSupported, typesExist := h.fragmentTypesExist, onComposite := h.fragmentsOnComposite,
    fields := h.fieldsDefined, leaves := h.leafSelections }

/-- **Completeness, proved groups**: if the 24 rules of the proved groups hold (in particular if
    `Spec.valid S D`), none of the corresponding model passes reports a primary error — on fields,
    arguments, directives, fragments and values at any depth. -/
theorem validate_complete_partial {S : Schema} {D : Document} (hwf : S.wf = true)
    (hw : Schema.wfDefaults S = true) (h : ProvedRulesHold S D) :
    ProvedPassesClean S D := by
  have hws := wellScoped_of_rules hwf h
  exact {
    operations := (model_operations_eq_spec_partial S D).2 ⟨h.opNameUnique, h.loneAnonymous, h.opTypeSupported⟩
    declarations := (model_fragment_declarations_eq_spec S D).2
      ⟨h.fragmentNamesUnique, h.fragmentTypesExist, h.fragmentsOnComposite, h.fragmentsUsed⟩
    fields := by rw [model_fields_eq_spec hws.toScopeRules, h.fieldsDefined, h.leafSelections]; rfl
    arguments := by
      rw [model_arguments_eq_spec hws, h.argumentsKnown, h.argumentsUnique, h.argumentsRequired]; rfl
    spreads := by
      rw [model_fragment_spreads_eq_spec hws h.fragmentNamesUnique, h.spreadsDefined, h.spreadsPossible]; rfl
    values := by rw [model_values_eq_spec hws, h.valuesCorrect]
    directives := (model_directives_eq_spec S D).2 ⟨h.directivesDefined, h.directivesInLocation, h.directivesUnique⟩
    variableDefs := (model_variable_definitions_eq_spec S D).2 ⟨h.variablesUnique, h.variablesAreInputTypes⟩
    cycles := (model_fragment_cycles_eq_spec h.fragmentNamesUnique).2 h.noFragmentCycles
    variables := by
      obtain ⟨errs, he, hp⟩ := model_variables_eq_spec hws hw h.fragmentNamesUnique
      refine ⟨errs, he, ?_⟩
      rw [hp, h.variablesUnique, h.variablesAreInputTypes, h.variableUsesDefined, h.variablesUsed,
        h.variableUsagesAllowed]
      rfl }

/-- **Soundness, proved groups**: if none of those model passes reports a primary error, the 21
    rules hold. The order matters and is the code's: operations and declarations establish the
    scopes, the first pass over the fields makes the document well-scoped, then arguments, spreads
    and values mean what the specification says. -/
theorem validate_sound_partial {S : Schema} {D : Document} (hwf : S.wf = true)
    (hw : Schema.wfDefaults S = true) (h : ProvedPassesClean S D) :
    ProvedRulesHold S D := by
  obtain ⟨o1, o2, o3⟩ := (model_operations_eq_spec_partial S D).1 h.operations
  obtain ⟨f1, f2, f3, f4⟩ := (model_fragment_declarations_eq_spec S D).1 h.declarations
  have hsr : ScopeRules S D := ⟨hwf, o3, f2, f3⟩
  have hf := h.fields
  rw [model_fields_eq_spec hsr, Bool.and_eq_true] at hf
  have hws : WellScoped S D := { toScopeRules := hsr, fields := hf.1, leaves := hf.2 }
  have ha := h.arguments
  rw [model_arguments_eq_spec hws, Bool.and_eq_true, Bool.and_eq_true] at ha
  have hs := h.spreads
  rw [model_fragment_spreads_eq_spec hws f1, Bool.and_eq_true] at hs
  have hv := h.values
  rw [model_values_eq_spec hws] at hv
  obtain ⟨d1, d2, d3⟩ := (model_directives_eq_spec S D).1 h.directives
  obtain ⟨v1, v2⟩ := (model_variable_definitions_eq_spec S D).1 h.variableDefs
  obtain ⟨errs, he, hp⟩ := h.variables
  obtain ⟨errs', he', hp'⟩ := model_variables_eq_spec hws hw f1
  have hee : errs' = errs := by
    rw [he] at he'
    exact (Prod.mk.inj he').1.symm
  rw [hee, hp] at hp'
  have hvar := hp'.symm
  simp only [Bool.and_eq_true] at hvar
  exact ⟨o1, o2, o3, f1, f2, f3, f4, hf.1, hf.2, ha.1.1, ha.1.2, ha.2, hs.1, hs.2, hv, d1, d2, d3, v1, v2,
    (model_fragment_cycles_eq_spec f1).1 h.cycles, hvar.1.1.2, hvar.1.2, hvar.2⟩

/-- `Spec.valid` gives the rules of the proved groups (it is the conjunction of all 26 rules). -/
theorem provedRules_of_valid {S : Schema} {D : Document} (h : Spec.valid S D = true) : ProvedRulesHold S D := by
  unfold Spec.valid Spec.rules at h
  simp only [List.all_cons, List.all_nil, Bool.and_true, Bool.and_eq_true] at h
  obtain ⟨a1, a2, a3, _, a5, a6, _, a8, a9, a10, a11, a12, a13, a14, a15, a16, a17, a18, a19, a20, a21, a22, a23, a24, a25, a26⟩ := h
  exact ⟨a1, a2, a3, a11, a12, a13, a14, a5, a6, a8, a9, a10, a15, a17, a18, a19, a20, a21, a22, a23, a16, a24, a25, a26⟩

/-- **No spurious secondary error, first field pass**: on a well-scoped document the first pass of
    validateFields emits no secondary error ("no type info for field" never stands alone). -/
theorem fields_no_secondary {S : Schema} {D : Document} (h : WellScoped S D) :
    AllPrimary (Model.validateFields1 S D) := by
  unfold Model.validateFields1
  exact allPrimary_flatMap _ _ (fun d hd => fields1_set_allPrimary S _ _ (hasInfo_def h hd))

/-- **No spurious secondary error, spread inspection**: on a well-scoped document
    "no type info for fragment spread parent" is never emitted. -/
theorem spreads_no_secondary {S : Schema} {D : Document} (h : WellScoped S D) :
    AllPrimary (Model.spreadChecks S D) := by
  unfold Model.spreadChecks
  apply allPrimary_flatMap
  intro d hd
  obtain ⟨e, hocc⟩ := def_occs h hd
  rw [spreads_set_flat, e]
  exact allPrimary_flatMap _ _ (fun o ho => spreadOcc_allPrimary S D (hocc o ho).1)

/-- **Completeness incl. secondary errors** for the first field pass and the spread inspection:
    if §5.3.1, §5.3.3 (resp. §5.5.2.1, §5.5.2.3) hold on a well-scoped document these passes report
    nothing at all. -/
theorem fields_and_spreads_silent {S : Schema} {D : Document} (hwf : S.wf = true)
    (hw : Schema.wfDefaults S = true) (h : ProvedRulesHold S D) :
    Model.validateFields1 S D = [] ∧ Model.spreadChecks S D = [] := by
  have hws := wellScoped_of_rules hwf h
  have hc := validate_complete_partial hwf hw h
  exact ⟨nil_of_primaryFree_allPrimary hc.fields (fields_no_secondary hws),
    nil_of_primaryFree_allPrimary hc.spreads (spreads_no_secondary hws)⟩

set_option linter.defProp false

/-! ## Non-vacuity: the hypotheses of the conditional theorems are satisfiable, and both verdicts
    occur under them (witnesses: the inputs of the fixed defects). `decide` here evaluates concrete
    instances only; the claims are the theorems above. -/

/-- Query { f(a: Int): Int, o(x: Int): T, l(l: [In]): Int }  T { g(x: Int!): Int, s: String }
    input In { a: Boolean }  @skip(if: Boolean!) on FIELD -/
def exS : Schema :=
  { types := [
      { name := "Int", kind := .scalar .int }, { name := "String", kind := .scalar .string },
      { name := "Boolean", kind := .scalar .boolean },
      { name := "In", kind := .input [{ name := "a", type := .named "Boolean", dflt := .none }] },
      { name := "T", kind := .object [
          { name := "g", type := .named "Int", args := [{ name := "x", type := .nonNull (.named "Int"), dflt := .none }] },
          { name := "s", type := .named "String", args := [] }] [] },
      { name := "Query", kind := .object [
          { name := "f", type := .named "Int", args := [{ name := "a", type := .named "Int", dflt := .none }] },
          { name := "o", type := .named "T", args := [{ name := "x", type := .named "Int", dflt := .none }] },
          { name := "l", type := .named "Int", args := [{ name := "l", type := .list (.named "In"), dflt := .none }] }] [] }],
    query := "Query", mutation := none, subscription := none,
    directives := [{ name := "skip", locs := ["FIELD"], args := [{ name := "if", type := .nonNull (.named "Boolean"), dflt := .none }] }],
    metaFields := [] }

def q (sels : List Selection) : Document := [.op none none [] [] (.mk sels ⟨1, 1⟩)]

/-- `{ o { g } }`: the input of F-04b (required argument missing beneath a field with argument definitions). -/
def exMissingArg : Document :=
  q [.field none "o" ⟨1, 3⟩ [] [] (some (.mk [.field none "g" ⟨1, 7⟩ [] [] none] ⟨1, 5⟩))]

/-- `{ o { s } }` -/
def exFine : Document :=
  q [.field none "o" ⟨1, 3⟩ [] [] (some (.mk [.field none "s" ⟨1, 7⟩ [] [] none] ⟨1, 5⟩))]

/-- `{ o { s @skip(if: "x") } }` -/
def exBadValue : Document :=
  q [.field none "o" ⟨1, 3⟩ [] [] (some (.mk [.field none "s" ⟨1, 7⟩ []
      [{ name := "skip", pos := ⟨1, 9⟩, args := [{ name := "if", pos := ⟨1, 15⟩, value := .str "x" ⟨1, 19⟩ }] }] none] ⟨1, 5⟩))]

/-- `{ o { nope } }` -/
def exUnknownField : Document :=
  q [.field none "o" ⟨1, 3⟩ [] [] (some (.mk [.field none "nope" ⟨1, 7⟩ [] [] none] ⟨1, 5⟩))]

/-- `query($v: Boolean) { l(l: {a: $v}) }`: the input of F-04d. -/
def exListObjectVar : Document :=
  [.op (some (.query, ⟨1, 1⟩)) none [{ name := "v", pos := ⟨1, 7⟩, npos := ⟨1, 8⟩, type := .named "Boolean" ⟨1, 11⟩, dflt := none }] []
    (.mk [.field none "l" ⟨1, 22⟩ [{ name := "l", pos := ⟨1, 24⟩, value := .obj [.mk "a" ⟨1, 28⟩ (.var "v" ⟨1, 31⟩)] ⟨1, 27⟩ }] [] none] ⟨1, 20⟩)]

def exS_wf : Schema.wf exS = true := by decide

def scopeRules_ex (D : Document) (h1 : Spec.opTypeSupported exS D = true) (h2 : Spec.fragmentTypesExist exS D = true)
    (h3 : Spec.fragmentsOnComposite exS D = true) : ScopeRules exS D := ⟨exS_wf, h1, h2, h3⟩

/-- `ScopeRules` is satisfiable, and `model_fields_eq_spec` has both outcomes under it. -/
example : ScopeRules exS exUnknownField := scopeRules_ex _ (by decide) (by decide) (by decide)
example : (Spec.fieldsDefined exS exUnknownField && Spec.leafSelections exS exUnknownField) = false := by decide
example : (Spec.fieldsDefined exS exFine && Spec.leafSelections exS exFine) = true := by decide

/-- `WellScoped` is satisfiable; under it the arguments theorem has both outcomes (F-04b's input
    is a well-scoped document with a missing required argument). -/
example : WellScoped exS exMissingArg :=
  { toScopeRules := scopeRules_ex _ (by decide) (by decide) (by decide), fields := by decide, leaves := by decide }
example : (Spec.argumentsKnown exS exMissingArg && Spec.argumentsUnique exS exMissingArg &&
    Spec.argumentsRequired exS exMissingArg) = false := by decide
example : primaryFree (Model.validateArguments exS exMissingArg) = false := by decide
example : primaryFree (Model.validateArguments exS exFine) = true := by decide

/-- Values: both outcomes under `WellScoped`. -/
example : WellScoped exS exBadValue :=
  { toScopeRules := scopeRules_ex _ (by decide) (by decide) (by decide), fields := by decide, leaves := by decide }
example : Spec.valuesCorrect exS exBadValue = false := by decide
example : Spec.valuesCorrect exS exFine = true := by decide

/-- Variable usages: F-04d's input is well-scoped, its usage has an expected type and is allowed. -/
example : WellScoped exS exListObjectVar :=
  { toScopeRules := scopeRules_ex _ (by decide) (by decide) (by decide), fields := by decide, leaves := by decide }
example : Schema.wfDefaults exS = true := by decide
example : Spec.variableUsagesAllowed exS exListObjectVar = true := by decide
example : (exListObjectVar.flatMap (Spec.defUsages exS exListObjectVar)).map (·.expected) =
    [some (.named "Boolean")] := by decide



end ApiFu.C04
