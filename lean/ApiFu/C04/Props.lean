/-
  C04 — property theorems (see design-notes/C04.md). Placeholder while the proofs are built.
-/
import ApiFu.C04.Spec
import ApiFu.C04.Model

namespace ApiFu.C04

/-- The specification's verdict is a function of schema and document (trivial in Lean: `Spec.valid`
    is a total function; the content of "the verdict does not vary between runs" is the tie). -/
theorem spec_deterministic (S : Schema) (D : Document) (a b : Bool)
    (ha : a = Spec.valid S D) (hb : b = Spec.valid S D) : a = b := by
  rw [ha, hb]

end ApiFu.C04
