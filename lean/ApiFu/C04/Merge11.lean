/-
  C04 — part 11: comparing a field with itself (or with a field that has the same name, arguments,
  sub-selection and parent type) adds nothing: if no selection set of the document has a conflict
  between two fields that differ, none has a conflict at all.
-/
import ApiFu.C04.Merge10

namespace ApiFu.C04
open Spec Model
set_option linter.unusedSimpArgs false
set_option linter.unusedVariables false

/-- The two field nodes are indistinguishable to the rule. -/
def SameCF (x y : FRef) : Prop :=
  x.rname = y.rname ∧ x.name = y.name ∧ x.args = y.args ∧ x.sel = y.sel ∧ x.setType = y.setType

def DiffCF : FRef → FRef → Prop := fun x y => ¬ SameCF x y

theorem DiffCF.distinct {x y : FRef} (h : DiffCF x y) : Distinct x y := by
  intro he
  subst he
  exact h ⟨rfl, rfl, rfl, rfl, rfl⟩

theorem TField.inner_eq {S : Schema} {D : Document} {f : FRef} (hf : TField S D f) :
    f.inner = Model.innerScope S f.setType f.name := by
  obtain ⟨r, hr, al, n, np, args, dirs, sub, hm, rfl⟩ := hf
  rfl

theorem SameCF.sub {S : Schema} {D : Document} {a b x : FRef} (ta : TField S D a) (tb : TField S D b)
    (h : SameCF a b) (hs : Sub S D b x) : Sub S D a x := by
  obtain ⟨ss, hsel, hc⟩ := hs
  obtain ⟨_, hn, _, hse, hst⟩ := h
  refine ⟨ss, hse.trans hsel, ?_⟩
  rw [ta.inner_eq, hst, hn, ← tb.inner_eq]
  exact hc

theorem SameCF.subU {S : Schema} {D : Document} {a b x : FRef} (ta : TField S D a) (tb : TField S D b)
    (h : SameCF a b) (hs : SubU S D a b x) : Sub S D a x :=
  hs.elim id (fun hs => h.sub ta tb hs)

/-- The local conditions hold between indistinguishable fields. -/
structure LocalRefl (S : Schema) (D : Document) : Prop where
  shapeLocal : ∀ a b, TField S D a → TField S D b → SameCF a b → shapeLocalOk S a b = true
  mergeLocal : ∀ a b, TField S D a → TField S D b → SameCF a b → mergeLocalOk a b = true

theorem sub_setBad {S : Schema} {D : Document} {P : FRef → FRef → Prop} {a x y : FRef} (ta : TField S D a)
    (hx : Sub S D a x) (hy : Sub S D a y) (hr : x.rname = y.rname) (hp : P x y) (hb : MergeBad S D P x y) :
    ∃ r ∈ allSets S D, SetBad S D P r := by
  obtain ⟨ss, hsel, hcx⟩ := hx
  obtain ⟨ss', hsel', hcy⟩ := hy
  have : ss' = ss := by rw [hsel] at hsel'; exact (Option.some.inj hsel').symm
  subst this
  exact ⟨⟨a.inner, ss'.pos, ss'.sels⟩, ta.subSet hsel, x, y, hcx, hcy, hr, hp, hb⟩

theorem refl_descend_shape {S : Schema} {D : Document} (hl : LocalRefl S D) {P : FRef → FRef → Prop} {a b : FRef}
    (ta : TField S D a) (tb : TField S D b) (hs : SameCF a b) (hb : ShapeBad S D P a b) :
    ∃ r ∈ allSets S D, SetBad S D P r := by
  cases hb with
  | loc h => rw [hl.shapeLocal a b ta tb hs] at h; simp at h
  | deep hd hx hy hr hp hbad =>
    exact sub_setBad ta (hs.subU ta tb hx) (hs.subU ta tb hy) hr hp (.shape hbad)

theorem refl_descend_merge {S : Schema} {D : Document} (hl : LocalRefl S D) {P : FRef → FRef → Prop} {a b : FRef}
    (ta : TField S D a) (tb : TField S D b) (hs : SameCF a b) (hb : MergeBad S D P a b) :
    ∃ r ∈ allSets S D, SetBad S D P r := by
  cases hb with
  | shape h => exact refl_descend_shape hl ta tb hs h
  | loc _ h => rw [hl.mergeLocal a b ta tb hs] at h; simp at h
  | deep _ hx hy hr hp hbad =>
    exact sub_setBad ta (hs.subU ta tb hx) (hs.subU ta tb hy) hr hp hbad

theorem shape_strict {S : Schema} {D : Document} (hl : LocalRefl S D)
    (H : ∀ r ∈ allSets S D, ¬ SetBad S D DiffCF r) {a b : FRef} (hb : ShapeBad S D Loose a b) :
    TField S D a → TField S D b → ShapeBad S D DiffCF a b := by
  induction hb with
  | loc h => intro _ _; exact .loc h
  | @deep a b x y hd hx hy hr _ _ ih =>
    intro ta tb
    have tx : TField S D x := SubU.tfield ta tb hx
    have ty : TField S D y := SubU.tfield ta tb hy
    have sb := ih tx ty
    by_cases hs : SameCF x y
    · obtain ⟨r, hr', hbad⟩ := refl_descend_shape hl tx ty hs sb
      exact absurd hbad (H r hr')
    · exact .deep hd hx hy hr hs sb

theorem merge_strict {S : Schema} {D : Document} (hl : LocalRefl S D)
    (H : ∀ r ∈ allSets S D, ¬ SetBad S D DiffCF r) {a b : FRef} (hb : MergeBad S D Loose a b) :
    TField S D a → TField S D b → MergeBad S D DiffCF a b := by
  induction hb with
  | shape h => intro ta tb; exact .shape (shape_strict hl H h ta tb)
  | loc hp h => intro _ _; exact .loc hp h
  | @deep a b x y hp hx hy hr _ _ ih =>
    intro ta tb
    have tx : TField S D x := SubU.tfield ta tb hx
    have ty : TField S D y := SubU.tfield ta tb hy
    have sb := ih tx ty
    by_cases hs : SameCF x y
    · obtain ⟨r, hr', hbad⟩ := refl_descend_merge hl tx ty hs sb
      exact absurd hbad (H r hr')
    · exact .deep hp hx hy hr hs sb

/-- No conflict between fields that differ anywhere in the document: no conflict at all. -/
theorem loose_free_of_strict_free {S : Schema} {D : Document} (hl : LocalRefl S D)
    (H : ∀ r ∈ allSets S D, ¬ SetBad S D DiffCF r) : ∀ r ∈ allSets S D, ¬ SetBad S D Loose r := by
  rintro r hr ⟨x, y, hx, hy, hxy, _, hbad⟩
  have tx := hx.tfield hr
  have ty := hy.tfield hr
  have sb := merge_strict hl H hbad tx ty
  by_cases hs : SameCF x y
  · obtain ⟨r', hr', hbad'⟩ := refl_descend_merge hl tx ty hs sb
    exact H r' hr' hbad'
  · exact H r hr ⟨x, y, hx, hy, hxy, hs, sb⟩

end ApiFu.C04
