/-
  C04 — part 13: the second pass of validateFields over the document: it reports nothing exactly
  when the check of every selection set passes.
-/
import ApiFu.C04.Merge12

namespace ApiFu.C04
open Spec Model
set_option linter.unusedSimpArgs false
set_option linter.unusedVariables false

def SetOk (S : Schema) (D : Document) (cfuel fuel : Nat) (r : SetRef) : Prop :=
  mergeCheckSet S D cfuel fuel r.scope (.mk r.sels r.pos) = .ok

theorem pair_nil_false {α : Type} (a b : List α) (fa fb : Bool) :
    ((a ++ b, fa || fb) = (([] : List α), false)) ↔ ((a, fa) = ([], false) ∧ (b, fb) = ([], false)) := by
  simp only [Prod.mk.injEq, List.append_eq_nil_iff, Bool.or_eq_false_iff]
  constructor
  · rintro ⟨⟨h1, h2⟩, h3, h4⟩; exact ⟨⟨h1, h3⟩, h2, h4⟩
  · rintro ⟨⟨h1, h3⟩, h2, h4⟩; exact ⟨⟨h1, h2⟩, h3, h4⟩

mutual
theorem mergeSel_iff (S : Schema) (D : Document) (cfuel fuel : Nat) : ∀ (scope : Option String) (sel : Selection),
    mergeSel S D cfuel fuel scope sel = ([], false) ↔ ∀ r ∈ setsOfSel S scope sel, SetOk S D cfuel fuel r
  | scope, .field _ _ _ _ _ none => by simp [mergeSel, setsOfSel]
  | scope, .field _ n _ _ _ (some ss) => by
    simp only [mergeSel, setsOfSel]
    exact mergeSet_iff S D cfuel fuel _ ss
  | scope, .spread .. => by simp [mergeSel, setsOfSel]
  | scope, .inline tc _ ss _ => by
    simp only [mergeSel, setsOfSel]
    exact mergeSet_iff S D cfuel fuel _ ss
theorem mergeSet_iff (S : Schema) (D : Document) (cfuel fuel : Nat) : ∀ (scope : Option String) (ss : SelSet),
    mergeSet S D cfuel fuel scope ss = ([], false) ↔ ∀ r ∈ setsOfSet S scope ss, SetOk S D cfuel fuel r
  | scope, .mk sels p => by
    simp only [mergeSet, setsOfSet, List.mem_cons, forall_eq_or_imp]
    cases hc : mergeCheckSet S D cfuel fuel scope (.mk sels p) with
    | errs alts => simp [SetOk, hc]
    | fuelOut => simp [SetOk, hc]
    | ok =>
      simp only [SetOk, hc, true_and]
      exact mergeSels_iff S D cfuel fuel scope sels
theorem mergeSels_iff (S : Schema) (D : Document) (cfuel fuel : Nat) : ∀ (scope : Option String) (sels : List Selection),
    mergeSels S D cfuel fuel scope sels = ([], false) ↔ ∀ r ∈ setsOfSels S scope sels, SetOk S D cfuel fuel r
  | scope, [] => by simp [mergeSels, setsOfSels]
  | scope, s :: rest => by
    simp only [mergeSels, setsOfSels, List.mem_append]
    rw [pair_nil_false, mergeSel_iff S D cfuel fuel scope s, mergeSels_iff S D cfuel fuel scope rest]
    constructor
    · rintro ⟨h1, h2⟩ r (hr | hr)
      · exact h1 r hr
      · exact h2 r hr
    · intro h
      exact ⟨fun r hr => h r (Or.inl hr), fun r hr => h r (Or.inr hr)⟩
end

theorem validateFields2_iff (S : Schema) (D : Document) (cfuel fuel : Nat) :
    validateFields2 S D cfuel fuel = ([], false) ↔ ∀ r ∈ allSets S D, SetOk S D cfuel fuel r := by
  unfold validateFields2 allSets
  have key : ∀ (E : Document) (acc : List Slot × Bool),
      E.foldl (fun (acc : List Slot × Bool) d =>
        let (a, fa) := mergeSet S D cfuel fuel (defScope S d) (defSel d)
        (acc.1 ++ a, acc.2 || fa)) acc = ([], false) ↔
      (acc = ([], false) ∧ ∀ d ∈ E, mergeSet S D cfuel fuel (defScope S d) (defSel d) = ([], false)) := by
    intro E
    induction E with
    | nil => intro acc; simp
    | cons d rest ih =>
      intro acc
      simp only [List.foldl_cons, List.mem_cons, forall_eq_or_imp]
      rw [ih]
      obtain ⟨a1, a2⟩ := acc
      cases hm : mergeSet S D cfuel fuel (defScope S d) (defSel d) with
      | mk a fa =>
        simp only
        rw [pair_nil_false]
        constructor
        · rintro ⟨⟨h1, h2⟩, h3⟩; exact ⟨h1, h2, h3⟩
        · rintro ⟨h1, h2, h3⟩; exact ⟨⟨h1, h2⟩, h3⟩
  rw [key]
  simp only [true_and, List.mem_flatMap]
  constructor
  · rintro h r ⟨d, hd, hr⟩
    exact (mergeSet_iff S D cfuel fuel _ _).1 (h d hd) r hr
  · intro h d hd
    exact (mergeSet_iff S D cfuel fuel _ _).2 (fun r hr => h r ⟨d, hd, hr⟩)

end ApiFu.C04
