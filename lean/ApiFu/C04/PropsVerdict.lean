/-
  C04 — the verdict: the model of `ValidateDocument` accepts a document exactly when the document
  satisfies all 26 rules of the specification, and it never reports secondary errors alone.
  Lemmas: SecArgs / SecValues / SecVars (the arguments, values and variables passes report nothing
  when the rules hold), SecPrimary, Merge16, Merge17 (passes that only emit primary errors).
-/
import ApiFu.C04.PropsOverlap
import ApiFu.C04.Merge17
import ApiFu.C04.SecArgs
import ApiFu.C04.SecValues
import ApiFu.C04.SecVars
import ApiFu.C04.SecPrimary
import ApiFu.C04.Hyp2

namespace ApiFu.C04
open Spec Model
set_option linter.unusedSimpArgs false
set_option linter.unusedVariables false

/-- `InputOk` plus: argument definitions of a field / directive have distinct names (Go keeps
    them in a map). -/
structure InputOk2 (S : Schema) (D : Document) : Prop extends InputOk S D where
  argDefs : Schema.argDefsUnique S = true

/-- The driver's per-case check (`hypFailures2`, reported as `(hyp ok)`) is exactly `InputOk2`. -/
theorem inputOk2_of_hyp {S : Schema} {D : Document} (h : hypFailures2 S D = []) : InputOk2 S D := by
  unfold hypFailures2 at h
  simp only [List.append_eq_nil_iff] at h
  refine { toInputOk := inputOk_of_hyp h.1, argDefs := ?_ }
  cases hw : Schema.argDefsUnique S with
  | true => rfl
  | false => simp [hw] at h

/-- **Completeness of the verdict**: a document that satisfies all 26 rules is accepted — no pass
    reports anything, primary or secondary, whatever Go's map iteration picks, within the fuel. -/
theorem accepts_complete {S : Schema} {D : Document} (hin : InputOk2 S D) (h : Spec.valid S D = true) :
    Model.accepts S D = true := by
  have ha := (allRules_iff_valid S D).2 h
  have hp := ha.toProvedRulesHold
  have hws := wellScoped_of_rules hin.wf hp
  have hc := validate_complete hin.toInputOk h
  obtain ⟨hf1, hsp⟩ := fields_and_spreads_silent hin.wf hin.wfDefaults hp
  have hargs := arguments_silent hws hin.argDefs hp.argumentsKnown hp.argumentsUnique hp.argumentsRequired
    hp.valuesCorrect hp.directivesDefined
  have hvals := values_silent hws hp.argumentsKnown hp.directivesDefined hp.valuesCorrect hp.variablesAreInputTypes
  have hvars := variables_silent hws hin.wfDefaults hp.fragmentNamesUnique hp.variablesUnique
    hp.variablesAreInputTypes hp.variableUsesDefined hp.variablesUsed hp.variableUsagesAllowed
    hp.argumentsKnown hp.directivesDefined hp.valuesCorrect
  have hspreads : Model.validateFragmentSpreads S D = ([], false) := by
    unfold Model.validateFragmentSpreads
    rw [hc.cycles]
    simp [hsp]
  unfold Model.accepts Model.allErrors
  simp only [hc.operationsFull, hc.merge, hvars, hspreads]
  simp [hf1, hargs, hc.declarations, hvals, hc.directives, Model.single, Model.validateDocument]

/-- **The validator accepts exactly the documents the validation rules allow** (the model of
    `ValidateDocument` against the June-2018 rules, all schemas and documents satisfying the input
    hypotheses). -/
theorem accepts_eq_valid {S : Schema} {D : Document} (hin : InputOk2 S D) :
    Model.accepts S D = Spec.valid S D := by
  cases hv : Spec.valid S D with
  | true => exact accepts_complete hin hv
  | false =>
    cases ha : Model.accepts S D with
    | false => rfl
    | true =>
      have := accepts_sound hin.toInputOk ha
      rw [hv] at this
      cases this

/-! ## No spurious secondary errors -/

theorem single_sec {es : List Err}
    (h : ∀ sl ∈ Model.single es, ∃ e ∈ sl.alts, e.secondary = true) : ∀ e ∈ es, e.secondary = true := by
  intro e he
  have := h { alts := [e] } (by unfold Model.single; exact List.mem_map.2 ⟨e, he, rfl⟩)
  obtain ⟨e', he', hs⟩ := this
  simp only [List.mem_singleton] at he'
  subst he'
  exact hs

theorem primaryFree_of_sec {es : List Err} (h : ∀ e ∈ es, e.secondary = true) : primaryFree es = true := by
  unfold primaryFree
  rw [List.all_eq_true]
  exact h

theorem nil_of_sec {es : List Err} (h : ∀ e ∈ es, e.secondary = true) (hp : AllPrimary es) : es = [] :=
  nil_of_primaryFree_allPrimary (primaryFree_of_sec h) hp

/-- **No spurious secondary error**: if every error the model reports has a secondary
    alternative — that is, if some run of the validator could come back with secondary errors
    only, which the filter of validator.go:82-91 would then return as they are — then the model
    reports nothing at all: the document is accepted. Secondary errors only ever accompany a
    primary error. -/
theorem no_spurious_secondary {S : Schema} {D : Document} (hin : InputOk2 S D)
    (hns : ∀ sl ∈ (Model.allErrors S D).slots, ∃ e ∈ sl.alts, e.secondary = true) :
    Model.accepts S D = true := by
  apply accepts_complete hin
  unfold Model.allErrors at hns
  cases hops : Model.validateOperationsGo S D (Model.fuelFor D) with
  | mk ops f1 =>
  cases hmerge : validateFields2 S D (Model.fuelFor D) (Model.pairFuelFor D) with
  | mk merge f2 =>
  cases hspreads : Model.validateFragmentSpreads S D with
  | mk spreads f3 =>
  cases hvars : Model.validateVariables S D (Model.fuelFor D) with
  | mk vars f4 =>
  simp only [hops, hmerge, hspreads, hvars, List.mem_append, or_imp, forall_and] at hns
  obtain ⟨⟨⟨⟨⟨⟨⟨⟨⟨_, s2⟩, s3⟩, s4⟩, s5⟩, s6⟩, s7⟩, s8⟩, s9⟩, s10⟩ := hns
  have t2 := single_sec s2
  have t3 := single_sec s3
  have t5 := single_sec s5
  have t6 := single_sec s6
  have t7 := single_sec s7
  have t8 := single_sec s8
  have t9 := single_sec s9
  have t10 := single_sec s10
  -- operations (without the subscription part) and declarations
  have hops' := hops
  unfold Model.validateOperationsGo at hops'
  cases hsub : subscriptionErrors S D (Model.fuelFor D) D with
  | mk sub fo =>
  rw [hsub] at hops'
  simp only [Prod.mk.injEq] at hops'
  obtain ⟨hopsE, hfo⟩ := hops'
  have hloop : operationLoopErrors S [] D = [] :=
    nil_of_sec (fun e he => t2 e (by rw [← hopsE]; simp [he])) (operationLoopErrors_allPrimary S [] D)
  have hlone : loneAnonymousErrors D = [] :=
    nil_of_sec (fun e he => t2 e (by rw [← hopsE]; simp [he])) (loneAnonymousErrors_allPrimary D)
  have hdecl : Model.validateFragmentDeclarations S D = [] :=
    nil_of_sec t6 (validateFragmentDeclarations_allPrimary S D)
  have hdirs : Model.validateDirectives S D = [] := nil_of_sec t9 (validateDirectives_allPrimary S D)
  -- spreads = cycles ++ spread checks
  unfold Model.validateFragmentSpreads at hspreads
  cases hcyc : Model.fragmentCycleErrors D with
  | mk cyc fo' =>
  rw [hcyc] at hspreads
  simp only [Prod.mk.injEq] at hspreads
  obtain ⟨hspE, _⟩ := hspreads
  have hcyc1 : cyc = [] := by
    have hall := fragmentCycleErrors_allPrimary D
    rw [hcyc] at hall
    exact nil_of_sec (fun e he => t7 e (by rw [← hspE]; simp [he])) hall
  have hcyc2 : fo' = false := by
    have := fragmentCycleErrors_total D
    rw [hcyc] at this
    exact this
  subst hcyc1 hcyc2
  have hspc : primaryFree (Model.spreadChecks S D) = true :=
    primaryFree_of_sec (fun e he => t7 e (by rw [← hspE]; simp [he]))
  -- scopes, well-scopedness, variables
  obtain ⟨o1, o2, o3⟩ := (model_operations_eq_spec_partial S D).1 (by simp [hloop, hlone])
  obtain ⟨g1, g2, g3, g4⟩ := (model_fragment_declarations_eq_spec S D).1 hdecl
  have hsr : ScopeRules S D := ⟨hin.wf, o3, g2, g3⟩
  have hf : primaryFree (Model.validateFields1 S D) = true := primaryFree_of_sec t3
  have hf' := hf
  rw [model_fields_eq_spec hsr, Bool.and_eq_true] at hf'
  have hws : WellScoped S D := { toScopeRules := hsr, fields := hf'.1, leaves := hf'.2 }
  obtain ⟨errs', he', hp'⟩ := model_variables_eq_spec hws hin.wfDefaults g1
  rw [hvars] at he'
  have hee : errs' = vars := (Prod.mk.inj he').1.symm
  have hf4 : f4 = false := (Prod.mk.inj he').2
  subst hee hf4
  have hvp : primaryFree errs' = true := primaryFree_of_sec t10
  have hvar := hp'.symm.trans hvp
  simp only [Bool.and_eq_true] at hvar
  have hclean : ProvedPassesClean S D :=
    { operations := by simp [hloop, hlone], declarations := hdecl, fields := hf,
      arguments := primaryFree_of_sec t5, spreads := hspc, values := primaryFree_of_sec t8,
      directives := hdirs,
      variableDefs := (model_variable_definitions_eq_spec S D).2 ⟨hvar.1.1.1.1, hvar.1.1.1.2⟩,
      cycles := hcyc, variables := ⟨errs', hvars, hvp⟩ }
  have hp := validate_sound_partial hin.wf hin.wfDefaults hclean
  have hm := mergeHyp2_of_rules hin.toInputOk hp
  -- the subscription part
  have hsubP := subscriptionErrors_allPrimary hm.toMergeHyp D (fun _ h => h)
  rw [hsub] at hsubP
  have hsubN : sub = [] := nil_of_sec (fun e he => t2 e (by rw [← hopsE]; simp [he])) hsubP
  obtain ⟨errsS, heS, _⟩ := subscriptionErrors_spec hm.toMergeHyp D (fun _ h => h)
  rw [hsub] at heS
  have hfo' : fo = false := (Prod.mk.inj heS).2
  have hopsFull : Model.validateOperationsGo S D (Model.fuelFor D) = ([], false) := by
    rw [hops, ← hopsE, ← hfo, hfo', hloop, hlone, hsubN]
    rfl
  -- the overlapping-fields pass
  have hgood := validateFields2_good hm.toMergeHyp ⟨hm.names, hp.noFragmentCycles⟩
  rw [hmerge] at hgood
  obtain ⟨hg1, hg2⟩ := hgood
  simp only at hg1 hg2
  have hmN : merge = [] := by
    cases merge with
    | nil => rfl
    | cons sl rest =>
      obtain ⟨e, he, hs⟩ := s4 sl (by simp)
      have := hg2 sl (by simp) e he
      rw [hs] at this
      cases this
  subst hmN hg1
  exact validate_sound hin.toInputOk
    { toProvedPassesClean := hclean, operationsFull := hopsFull, merge := hmerge }

end ApiFu.C04
