/-
  C04 — part 8: completeness of the model's overlapping-fields check: where there is no witness
  of a violation the check comes back with `ok` (within its fuel, on documents without spread cycles).
-/
import ApiFu.C04.Merge7

namespace ApiFu.C04
open Spec Model
set_option linter.unusedSimpArgs false
set_option linter.unusedVariables false

/-! ## Facts about table fields -/

theorem TField.hasType {S : Schema} {D : Document} (h : MergeHyp S D) {f : FRef} (hf : TField S D f) :
    HasType f ∧ ∃ p, f.setType = some p := by
  obtain ⟨r, hr, al, n, np, args, dirs, sub, hm, rfl⟩ := hf
  have hg := good_allSets h.ws r hr
  obtain ⟨p, hp', hp, ⟨d, hd⟩, _⟩ := hg.field h.ws.wf hm
  refine ⟨?_, p, by simp [mkRef, hp']⟩
  unfold HasType
  simp only [mkRef]
  by_cases hn : n = "__typename"
  · exact Or.inl hn
  · right
    have hagree := fieldDef_agree h.ws.wf hp n
    simp only [hn, if_false] at hagree
    rw [hp', ← hagree, hd]
    rfl

/-- The measure of the selection set a field is written in is below `k`. -/
def fmuLt (S : Schema) (D : Document) (f : FRef) (k : Nat) : Prop :=
  ∀ r ∈ allSets S D, r.pos = f.setPos → mu D r < k

/-- Going down through inline fragments and spreads does not increase the measure. -/
theorem Collects.parent_mu {S : Schema} {D : Document} (hac : Acyclic D) {scope : Option String} {sp : Pos}
    {sels : List Selection} {f : FRef} (hc : Collects S D scope sp sels f) :
    (⟨scope, sp, sels⟩ : SetRef) ∈ allSets S D →
    ∃ r ∈ allSets S D, r.pos = f.setPos ∧ mu D r ≤ mu D ⟨scope, sp, sels⟩ := by
  induction hc with
  | @field scope sp sels al n np args dirs sub hm => intro hr; exact ⟨_, hr, rfl, Nat.le_refl _⟩
  | @inline scope sp sels tc dirs ss p f hm _ ih =>
    intro hr
    have hch : Child S D ⟨scope, sp, sels⟩ ⟨Model.inlineScope S scope tc, ss.pos, ss.sels⟩ := .inline hm
    obtain ⟨r', hr', hp, hle⟩ := ih (hch.inTable hr)
    have := mu_child hac hr hch
    exact ⟨r', hr', hp, by omega⟩
  | @spread scope sp sels n np dirs p F f hm hF _ ih =>
    intro hr
    have hch : Child S D ⟨scope, sp, sels⟩ ⟨Model.namedType S F.tc, F.sel.pos, F.sel.sels⟩ := .spread hm hF
    obtain ⟨r', hr', hp, hle⟩ := ih (hch.inTable hr)
    have := mu_child hac hr hch
    exact ⟨r', hr', hp, by omega⟩

/-- The fields below a field have a strictly smaller measure. -/
theorem Sub.fmuLt {S : Schema} {D : Document} (h : MergeHyp S D) (hac : Acyclic D) {a x : FRef} {k : Nat}
    (ha : TField S D a) (hk : fmuLt S D a (k + 1)) (hs : Sub S D a x) : fmuLt S D x k := by
  obtain ⟨ss, hsel, hc⟩ := hs
  obtain ⟨ra, hra, al, n, np, args, dirs, sub, hm, rfl⟩ := ha
  simp only [mkRef] at hsel
  subst hsel
  have hch : Child S D ra ⟨Model.innerScope S ra.scope n, ss.pos, ss.sels⟩ := .field hm
  have hroot := hch.inTable hra
  obtain ⟨rx, hrx, hpx, hle⟩ := hc.parent_mu hac hroot
  have h1 := mu_child hac hra hch
  have h2 := hk ra hra (by simp [mkRef])
  intro r hr hp
  have : r = rx := set_of_pos h.posU hr hrx (hp.trans hpx.symm)
  subst this
  simp only [mkRef] at hle
  omega

/-! ## Sub-selections are collected -/

theorem sub_collect {S : Schema} {D : Document} (h : MergeHyp S D) {a : FRef} (ha : TField S D a) (acc : List FRef) :
    ∃ fs, addFieldSelections S D (Model.fuelFor D) a.inner a.sel acc = .ok fs ∧
      ∀ f, f ∈ fs ↔ (f ∈ acc ∨ Sub S D a f) := by
  cases hs : a.sel with
  | none =>
    refine ⟨acc, by simp [addFieldSelections], fun f => ?_⟩
    simp [Sub, hs]
  | some ss =>
    have hroot := ha.subSet hs
    obtain ⟨fs, hfs⟩ := addFieldSelections_ok h.posU (spreadsDefinedT_of_spec h.spreads) hroot acc
    refine ⟨fs, hfs, fun f => ?_⟩
    rw [addFieldSelections_mem h.posU hroot hfs f]
    simp [Sub, hs]

/-! ## The combinators -/

theorem mem_pairs {α : Type} : ∀ (l : List α) (p : α × α), p ∈ Model.pairs l → p.1 ∈ l ∧ p.2 ∈ l
  | [], p, h => by simp [Model.pairs] at h
  | x :: rest, p, h => by
    simp only [Model.pairs, List.mem_append, List.mem_map] at h
    rcases h with ⟨y, hy, rfl⟩ | h
    · exact ⟨by simp, by simp [hy]⟩
    · obtain ⟨h1, h2⟩ := mem_pairs rest p h
      exact ⟨List.mem_cons_of_mem _ h1, List.mem_cons_of_mem _ h2⟩

theorem mem_group (fs : List FRef) (n : String) (x : FRef) : x ∈ Model.group fs n ↔ (x ∈ fs ∧ x.rname = n) := by
  simp [Model.group, List.mem_filter]

theorem firstErr_ok {α : Type} (f : α → Memo → Alts × Memo) :
    ∀ (xs : List α) (m : Memo), (∀ x ∈ xs, ∀ m, ∃ m', f x m = (.ok, m')) → ∃ m', Model.firstErr xs m f = (.ok, m')
  | [], m, _ => ⟨m, rfl⟩
  | x :: rest, m, h => by
    obtain ⟨m1, h1⟩ := h x (by simp) m
    obtain ⟨m2, h2⟩ := firstErr_ok f rest m1 (fun y hy => h y (by simp [hy]))
    exact ⟨m2, by simp [Model.firstErr, h1, h2]⟩

theorem anyOrder_ok {α : Type} (f : α → Memo → Alts × Memo) (xs : List α) (m : Memo)
    (h : ∀ x ∈ xs, ∀ m, ∃ m', f x m = (.ok, m')) : ∃ m', Model.anyOrder xs m f = (.ok, m') := by
  unfold Model.anyOrder
  induction xs generalizing m with
  | nil => exact ⟨m, rfl⟩
  | cons x rest ih =>
    obtain ⟨m1, h1⟩ := h x (by simp) m
    simp only [List.foldl_cons, h1]
    exact ih m1 (fun y hy => h y (by simp [hy]))

/-! ## Completeness -/

theorem shape_complete {S : Schema} {D : Document} (h : MergeHyp S D) (hac : Acyclic D) :
    ∀ (fuel : Nat) (m : Memo) (a b : FRef), TField S D a → TField S D b → fmuLt S D a fuel → fmuLt S D b fuel →
      ¬ ShapeBad S D Loose a b →
      ∃ m', Model.sameResponseShape S D (Model.fuelFor D) (fuel + 1) m a b = (.ok, m') := by
  intro fuel
  induction fuel with
  | zero =>
    intro m a b ha hb hka _ _
    exfalso
    obtain ⟨r, hr, al, n, np, args, dirs, sub, hm, rfl⟩ := ha
    have := hka r hr (by simp [mkRef])
    omega
  | succ fuel ih =>
    intro m a b ha hb hka hkb hnb
    unfold Model.sameResponseShape
    cases hv : visitPair m.shape a.pos b.pos with
    | mk seen shape' =>
      cases seen with
      | true => exact ⟨m, rfl⟩
      | false =>
        simp only
        rw [shapeType_ok (ha.hasType h).1, shapeType_ok (hb.hasType h).1]
        simp only
        cases hu : unwrapShapes (typeOf a) (typeOf b) with
        | error msg =>
          exfalso
          exact hnb (.loc (by simp [shapeLocalOk, hu]))
        | ok pr =>
          obtain ⟨ua, ub⟩ := pr
          simp only
          by_cases hleaf : (isLeafRef S ua || isLeafRef S ub) = true
          · simp only [hleaf, if_true]
            by_cases he : ua = ub
            · rw [if_pos he]
              exact ⟨_, rfl⟩
            · exfalso
              exact hnb (.loc (by simp [shapeLocalOk, hu, hleaf, he]))
          · simp only [hleaf, if_false, Bool.false_eq_true]
            have hdeep : shapeDeep S a b = true := by simp [shapeDeep, hu, hleaf]
            obtain ⟨fs1, hfs1, hm1⟩ := sub_collect h ha []
            obtain ⟨fs, hfs, hm2⟩ := sub_collect h hb fs1
            rw [hfs1]
            simp only
            rw [hfs]
            simp only
            have hmem : ∀ f ∈ fs, Sub S D a f ∨ Sub S D b f := by
              intro f hf
              rcases (hm2 f).1 hf with h1 | h1
              · rcases (hm1 f).1 h1 with h2 | h2
                · simp at h2
                · exact Or.inl h2
              · exact Or.inr h1
            apply anyOrder_ok
            intro n _ m1
            apply firstErr_ok
            intro p hp m2
            obtain ⟨hp1, hp2⟩ := mem_pairs _ p hp
            rw [mem_group] at hp1 hp2
            have hx := hmem _ hp1.1
            have hy := hmem _ hp2.1
            have tx : TField S D p.1 := by
              rcases hx with hx | hx
              · exact hx.tfield ha
              · exact hx.tfield hb
            have ty : TField S D p.2 := by
              rcases hy with hy | hy
              · exact hy.tfield ha
              · exact hy.tfield hb
            have kx : fmuLt S D p.1 fuel := by
              rcases hx with hx | hx
              · exact hx.fmuLt h hac ha hka
              · exact hx.fmuLt h hac hb hkb
            have ky : fmuLt S D p.2 fuel := by
              rcases hy with hy | hy
              · exact hy.fmuLt h hac ha hka
              · exact hy.fmuLt h hac hb hkb
            exact ih m2 p.1 p.2 tx ty kx ky
              (fun hbad => hnb (.deep hdeep hx hy (hp1.2.trans hp2.2.symm) trivial hbad))

theorem TField.fmu_pos {S : Schema} {D : Document} {f : FRef} (hf : TField S D f) : ¬ fmuLt S D f 0 := by
  intro hk
  obtain ⟨r, hr, al, n, np, args, dirs, sub, hm, rfl⟩ := hf
  have := hk r hr (by simp [mkRef])
  omega

theorem merge_complete {S : Schema} {D : Document} (h : MergeHyp S D) (hac : Acyclic D) :
    ∀ (fuel : Nat) (m : Memo) (fs : List FRef), (∀ f ∈ fs, TField S D f ∧ fmuLt S D f fuel) →
      (∀ x ∈ fs, ∀ y ∈ fs, x.rname = y.rname → ¬ MergeBad S D Loose x y) →
      ∃ m', fieldsInSetCanMerge S D (Model.fuelFor D) (fuel + 1) m fs = (.ok, m') := by
  intro fuel
  induction fuel using Nat.strongRecOn with
  | _ fuel ih =>
    intro m fs hfs hnb
    unfold fieldsInSetCanMerge
    apply anyOrder_ok
    intro n _ m1
    apply firstErr_ok
    intro p hp m2
    obtain ⟨hp1, hp2⟩ := mem_pairs _ p hp
    rw [mem_group] at hp1 hp2
    obtain ⟨a, b⟩ := p
    simp only at hp1 hp2 ⊢
    obtain ⟨ta, ka⟩ := hfs a hp1.1
    obtain ⟨tb, kb⟩ := hfs b hp2.1
    have hno := hnb a hp1.1 b hp2.1 (hp1.2.trans hp2.2.symm)
    cases hv : visitPair m2.merge a.pos b.pos with
    | mk seen merge' =>
      cases seen with
      | true => exact ⟨m2, rfl⟩
      | false =>
        simp only
        obtain ⟨m3, hm3⟩ := shape_complete h hac fuel { m2 with merge := merge' } a b ta tb ka kb
          (fun hb => hno (.shape hb))
        rw [hm3]
        simp only
        obtain ⟨pa, hpa⟩ := (ta.hasType h).2
        obtain ⟨pb, hpb⟩ := (tb.hasType h).2
        rw [hpa, hpb]
        simp only
        by_cases hc : (pa = pb || !isObjectName S pa || !isObjectName S pb) = true
        · have hpc : parentsCond S a b = true := by simpa [parentsCond, hpa, hpb] using hc
          rw [if_pos hc]
          by_cases hn : a.name = b.name
          · have hn' : (a.name != b.name) = false := by simp [hn]
            rw [hn']
            simp only [Bool.false_eq_true, if_false]
            cases hd : argumentsDiffer a b with
            | some e =>
              exfalso
              exact hno (.loc hpc (by simp [mergeLocalOk, hd]))
            | none =>
              simp only
              obtain ⟨fs1, hfs1, hm1⟩ := sub_collect h ta []
              obtain ⟨merged, hmg, hm2⟩ := sub_collect h tb fs1
              rw [hfs1]
              simp only
              rw [hmg]
              simp only
              have hmem : ∀ f ∈ merged, Sub S D a f ∨ Sub S D b f := by
                intro f hf
                rcases (hm2 f).1 hf with h1 | h1
                · rcases (hm1 f).1 h1 with h2 | h2
                  · simp at h2
                  · exact Or.inl h2
                · exact Or.inr h1
              cases fuel with
              | zero => exact absurd ka ta.fmu_pos
              | succ k =>
                apply ih k (by omega)
                · intro f hf
                  rcases hmem f hf with hx | hx
                  · exact ⟨hx.tfield ta, hx.fmuLt h hac ta ka⟩
                  · exact ⟨hx.tfield tb, hx.fmuLt h hac tb kb⟩
                · intro x hx y hy hr hbad
                  exact hno (.deep hpc (hmem x hx) (hmem y hy) hr trivial hbad)
          · exfalso
            exact hno (.loc hpc (by simp [mergeLocalOk, hn]))
        · rw [if_neg hc]
          exact ⟨_, rfl⟩

theorem two_mul_le_sq (d : Nat) : 2 * d ≤ d * d + 1 := by
  cases d with
  | zero => simp
  | succ e =>
    have : (e + 1) * (e + 1) = e * e + 2 * e + 1 := by
      simp only [Nat.add_mul, Nat.mul_add]; omega
    omega

theorem mu_lt_pairFuel {S : Schema} {D : Document} {r : SetRef} (hr : r ∈ allSets S D) :
    mu D r + 1 < Model.pairFuelFor D := by
  unfold mu Model.pairFuelFor
  have h1 := clos_length_le hr
  have h2 := setSize_all hr
  have h3 : (clos D r).length * (Model.docSize D + 1) ≤ Model.docSize D * (Model.docSize D + 1) :=
    Nat.mul_le_mul_right _ h1
  have h4 : Model.docSize D * (Model.docSize D + 1) = Model.docSize D * Model.docSize D + Model.docSize D := by
    simp only [Nat.mul_add]; omega
  have h5 := two_mul_le_sq (Model.docSize D)
  omega

/-- Completeness for one selection set: no witness of a violation, so the check of the set passes. -/
theorem mergeCheckSet_complete {S : Schema} {D : Document} (h : MergeHyp S D) (hac : Acyclic D) {r : SetRef}
    (hr : r ∈ allSets S D) (hnb : ¬ SetBad S D Loose r) :
    mergeCheckSet S D (Model.fuelFor D) (Model.pairFuelFor D) r.scope (.mk r.sels r.pos) = .ok := by
  unfold mergeCheckSet
  have hroot : (⟨r.scope, (SelSet.mk r.sels r.pos).pos, (SelSet.mk r.sels r.pos).sels⟩ : SetRef) ∈ allSets S D := hr
  obtain ⟨fs, hfs⟩ := addFieldSelections_ok h.posU (spreadsDefinedT_of_spec h.spreads) hroot []
  have hmem := addFieldSelections_mem h.posU hroot hfs
  rw [hfs]
  simp only
  have hlt := mu_lt_pairFuel hr
  obtain ⟨k, hk⟩ : ∃ k, Model.pairFuelFor D = k + 1 := ⟨Model.pairFuelFor D - 1, by omega⟩
  rw [hk]
  have hcol : ∀ f ∈ fs, Collects S D r.scope r.pos r.sels f := by
    intro f hf
    rcases (hmem f).1 hf with h1 | h1
    · simp at h1
    · exact h1
  obtain ⟨m', hm'⟩ := merge_complete h hac k {} fs
    (by
      intro f hf
      have hc := hcol f hf
      refine ⟨hc.tfield hr, ?_⟩
      obtain ⟨rf, hrf, hpf, hle⟩ := hc.parent_mu hac hr
      intro r' hr' hp'
      have : r' = rf := set_of_pos h.posU hr' hrf (hp'.trans hpf.symm)
      subst this
      have : mu D r' ≤ mu D r := hle
      omega)
    (by
      intro x hx y hy hxy hbad
      exact hnb ⟨x, y, hcol x hx, hcol y hy, hxy, trivial, hbad⟩)
  rw [hm']

end ApiFu.C04
