/-
  C04 — the arguments pass (validate_arguments.go) is completely silent — it reports no secondary
  error either — on a well-scoped document that satisfies the argument rules (§5.4.1, §5.4.2,
  §5.4.2.1), §5.6.1 (values of correct type) and §5.7.1 (directives are defined), provided the
  schema description keeps argument definitions under pairwise distinct names (Go: a map).
-/
import ApiFu.C04.Props
namespace ApiFu.C04
open Spec Model
set_option linter.unusedSimpArgs false
set_option linter.unusedVariables false

/-- Argument definitions of every field and of every directive have pairwise distinct names
    (Go keeps them in a map). -/
def Schema.argDefsUnique (S : Schema) : Bool :=
  S.types.all (fun t => match t.kind with
    | .object fs _ => fs.all (fun f => Spec.nodup (f.args.map (·.name)))
    | .interface fs => fs.all (fun f => Spec.nodup (f.args.map (·.name)))
    | _ => true) &&
  S.metaFields.all (fun f => Spec.nodup (f.args.map (·.name))) &&
  S.directives.all (fun d => Spec.nodup (d.args.map (·.name)))

/-! ## One argument list -/

/-- With pairwise distinct definition names the lookup by name finds the definition itself. -/
theorem findInput_of_nodup {defs : List InputDef} (hn : Spec.nodup (defs.map (·.name)) = true)
    {d : InputDef} (hd : d ∈ defs) : findInput defs d.name = some d := by
  induction defs with
  | nil => simp at hd
  | cons x rest ih =>
    simp only [List.map_cons, nodup_cons, Bool.and_eq_true, Bool.not_eq_true'] at hn
    rcases List.mem_cons.mp hd with rfl | hd'
    · simp [findInput]
    · have hne : x.name ≠ d.name := by
        intro he
        have hc : (rest.map (·.name)).contains x.name = true := by
          simp only [List.contains_eq_mem, List.mem_map, decide_eq_true_eq]
          exact ⟨d, hd', he.symm⟩
        rw [hc] at hn
        exact absurd hn.1 (by simp)
      have := ih hn.2 hd'
      unfold findInput at this ⊢
      rw [List.find?_cons]
      simp [hne, this]

/-- `argumentsByName` only holds arguments of the accumulator and of the list. -/
theorem argumentsByName_sub (defs : List InputDef) (byName args : List Argument) :
    ∀ x ∈ argumentsByName defs byName args, x ∈ byName ∨ x ∈ args := by
  induction args generalizing byName with
  | nil => intro x hx; exact Or.inl (by simpa [argumentsByName] using hx)
  | cons a rest ih =>
    intro x hx
    unfold argumentsByName at hx
    cases hf : findInput defs a.name with
    | none =>
      simp only [hf] at hx
      rcases ih byName x hx with h | h
      · exact Or.inl h
      · exact Or.inr (List.mem_cons_of_mem _ h)
    | some d =>
      simp only [hf] at hx
      by_cases hb : (byName.any fun y => y.name = a.name) = true
      · rw [if_pos hb] at hx
        rcases ih byName x hx with h | h
        · exact Or.inl h
        · exact Or.inr (List.mem_cons_of_mem _ h)
      · rw [if_neg hb] at hx
        rcases ih (byName ++ [a]) x hx with h | h
        · simp only [List.mem_append, List.mem_singleton] at h
          rcases h with h | h
          · exact Or.inl h
          · subst h; exact Or.inr (by simp)
        · exact Or.inr (List.mem_cons_of_mem _ h)

theorem valueOk_null (S : Schema) (t : TRef) (allow : Bool) (p : Pos) :
    Spec.valueOk S t allow (.null p) = !t.isNonNull := by
  simp [Spec.valueOk]

/-- One argument list: nothing at all is reported when the three argument rules and the value rule
    hold for it and the definitions have pairwise distinct names. -/
theorem checkArguments_silent (S : Schema) (pos : Pos) (args : List Argument) (defs : List InputDef)
    (hok : siteOk { defs := defs, args := args } = true)
    (hv : Spec.siteValuesOk S { defs := defs, args := args } = true)
    (hn : Spec.nodup (defs.map (·.name)) = true) :
    checkArguments pos args defs = [] := by
  have hp := checkArguments_ok pos args defs
  rw [hok] at hp
  unfold checkArguments at hp ⊢
  by_cases he : (args.isEmpty && defs.isEmpty) = true
  · rw [if_pos he]
  · rw [if_neg he] at hp ⊢
    rw [primaryFree_append, Bool.and_eq_true, argumentLoopErrors_primary, requiredErrors_primary] at hp
    rw [List.append_eq_nil_iff]
    refine ⟨by simpa using hp.1, ?_⟩
    have hreq := hp.2
    simp only [List.all_eq_true] at hreq
    unfold requiredErrors
    rw [List.flatMap_eq_nil_iff]
    intro d hd
    by_cases hr : (d.type.isNonNull && d.dflt = .none) = true
    · rw [if_pos hr]
      have hany := hreq d hd
      simp only [hr, Bool.not_true, Bool.false_or, List.any_eq_true, decide_eq_true_eq] at hany
      cases hfind : (argumentsByName defs [] args).find? (fun x => x.name = d.name) with
      | none =>
        exfalso
        rw [List.find?_eq_none] at hfind
        obtain ⟨a, ha, hae⟩ := hany
        exact hfind a ha (by simpa using hae)
      | some a =>
        simp only
        have hmem := List.mem_of_find?_eq_some hfind
        have hname : a.name = d.name := by simpa using List.find?_some hfind
        have ha : a ∈ args := by
          rcases argumentsByName_sub defs [] args a hmem with h | h
          · simp at h
          · exact h
        have hva : Spec.argValueOk S { defs := defs, args := args } a = true := by
          unfold Spec.siteValuesOk at hv
          exact (List.all_eq_true.mp hv) a ha
        unfold Spec.argValueOk at hva
        simp only [hname, findInput_of_nodup hn hd] at hva
        cases hval : a.value with
        | null p =>
          rw [hval, valueOk_null] at hva
          simp only [Bool.and_eq_true] at hr
          rw [hr.1] at hva
          simp at hva
        | var _ _ => simp [Value.isNull]
        | int _ _ => simp [Value.isNull]
        | float _ _ => simp [Value.isNull]
        | str _ _ => simp [Value.isNull]
        | bool _ _ => simp [Value.isNull]
        | enum _ _ => simp [Value.isNull]
        | list _ _ => simp [Value.isNull]
        | obj _ _ => simp [Value.isNull]
    · rw [if_neg hr]

/-! ## Where argument definitions come from -/

theorem findDirective_mem {S : Schema} {n : String} {dd : DirDef} (h : S.findDirective n = some dd) :
    dd ∈ S.directives := by
  unfold Schema.findDirective at h
  exact List.mem_of_find?_eq_some h

theorem findField_mem {fs : List FieldDef} {n : String} {d : FieldDef} (h : findField fs n = some d) :
    d ∈ fs := by
  unfold findField at h
  exact List.mem_of_find?_eq_some h

theorem directive_args_nodup {S : Schema} (hdefs : Schema.argDefsUnique S = true) {n : String} {dd : DirDef}
    (h : S.findDirective n = some dd) : Spec.nodup (dd.args.map (·.name)) = true := by
  unfold Schema.argDefsUnique at hdefs
  simp only [Bool.and_eq_true, List.all_eq_true] at hdefs
  exact hdefs.2 dd (findDirective_mem h)

/-- The definition TypeInfo records for a field node is a field of a type of the schema or a meta
    field, so its argument definitions have pairwise distinct names. -/
theorem fieldDefinition_args_nodup {S : Schema} (hdefs : Schema.argDefsUnique S = true)
    {scope : Option String} {n : String} {d : FieldDef}
    (h : Model.fieldDefinition S scope n = some d) : Spec.nodup (d.args.map (·.name)) = true := by
  unfold Schema.argDefsUnique at hdefs
  simp only [Bool.and_eq_true, List.all_eq_true] at hdefs
  obtain ⟨⟨htypes, hmeta⟩, _⟩ := hdefs
  unfold Model.fieldDefinition at h
  cases scope with
  | none => simp at h
  | some p =>
    simp only at h
    unfold Model.kindOf at h
    cases hf : S.find p with
    | none => simp [hf] at h
    | some t =>
      have ht := htypes t (find_mem hf)
      simp only [hf, Option.map_some] at h
      cases hk : t.kind with
      | object fs ifs =>
        simp only [hk] at h ht
        cases hff : findField fs n with
        | some d' =>
          simp only [hff, Option.some.injEq] at h
          subst h
          exact (List.all_eq_true.mp ht) d' (findField_mem hff)
        | none =>
          simp only [hff] at h
          by_cases hq : p = S.query
          · simp only [hq, if_true] at h
            exact hmeta d (findField_mem h)
          · simp [hq] at h
      | interface fs =>
        simp only [hk] at h ht
        exact (List.all_eq_true.mp ht) d (findField_mem h)
      | union ms => simp [hk] at h
      | scalar sp => simp [hk] at h
      | enum vs => simp [hk] at h
      | input fs => simp [hk] at h

theorem modelArgDefs_nodup {S : Schema} (hdefs : Schema.argDefsUnique S = true)
    (scope : Option String) (n : String) :
    Spec.nodup ((modelArgDefs S scope n).map (·.name)) = true := by
  unfold modelArgDefs
  cases hd : Model.fieldDefinition S scope n with
  | none => simp [Spec.nodup]
  | some d => exact fieldDefinition_args_nodup hdefs hd

/-! ## Directive lists, occurrences, the document -/

theorem argsDirectives_silent {S : Schema} (hdefs : Schema.argDefsUnique S = true) (dirs : List Directive)
    (hdd : ∀ d ∈ dirs, (S.findDirective d.name).isSome = true)
    (hsite : ∀ s ∈ Spec.dirArgSites S dirs, siteOk s = true ∧ Spec.siteValuesOk S s = true) :
    argsDirectives S dirs = [] := by
  unfold argsDirectives
  rw [List.flatMap_eq_nil_iff]
  intro d hd
  unfold argsDirective
  cases hf : S.findDirective d.name with
  | none =>
    have := hdd d hd
    simp [hf] at this
  | some dd =>
    simp only
    have hm : ({ defs := dd.args, args := d.args } : ArgSite) ∈ Spec.dirArgSites S dirs := by
      unfold Spec.dirArgSites
      rw [List.mem_filterMap]
      exact ⟨d, hd, by simp [hf]⟩
    obtain ⟨h1, h2⟩ := hsite _ hm
    exact checkArguments_silent S d.pos d.args dd.args h1 h2 (directive_args_nodup hdefs hf)

theorem argsOcc_silent {S : Schema} (hwf : S.wf = true) (hdefs : Schema.argDefsUnique S = true) {o : Occ}
    (hinv : Inv S (occParent o)) (hs : scopedAt S o = true)
    (hdd : ∀ d ∈ Spec.occDirs o, (S.findDirective d.name).isSome = true)
    (hsite : ∀ s ∈ Spec.occArgSites S o, siteOk s = true ∧ Spec.siteValuesOk S s = true) :
    argsOcc S o = [] := by
  have hdirs : argsDirectives S (Spec.occDirs o) = [] := by
    apply argsDirectives_silent hdefs _ hdd
    intro s hs'
    apply hsite
    unfold Spec.occArgSites
    exact List.mem_append_right _ hs'
  cases o with
  | field parent al n np args dirs sel =>
    obtain ⟨p, hp', hp⟩ := hinv
    simp only [occParent] at hp'
    subst hp'
    simp only [scopedAt, Bool.and_eq_true, fieldDefinedAt, hp, Bool.not_true, Bool.false_or] at hs
    have hdef := hs.1.1.1
    have hagree := fieldDef_agree hwf hp n
    have htn := fieldDefinition_typename hwf (some p)
    simp only [Spec.occDirs] at hdirs
    simp only [argsOcc, hdirs, List.append_nil]
    cases hd : Spec.fieldDef? S p n with
    | none => simp [hd] at hdef
    | some d =>
      have hargs : modelArgDefs S (some p) n = d.args := by
        by_cases hn : n = "__typename"
        · subst hn
          simp only [if_true] at hagree
          rw [hd] at hagree
          simp only [Option.some.injEq] at hagree
          subst hagree
          simp [modelArgDefs, htn, Spec.typenameField]
        · simp only [hn, if_false] at hagree
          rw [hd] at hagree
          simp [modelArgDefs, ← hagree]
      have hm : ({ defs := d.args, args := args } : ArgSite) ∈ Spec.occArgSites S (.field (some p) al n np args dirs sel) := by
        simp [Spec.occArgSites, hd]
      obtain ⟨h1, h2⟩ := hsite _ hm
      have hnd := modelArgDefs_nodup hdefs (some p) n
      rw [hargs] at hnd ⊢
      exact checkArguments_silent S _ args d.args h1 h2 hnd
  | spread parent n np dirs p =>
    simpa [argsOcc, Spec.occDirs] using hdirs
  | inline parent tc dirs p =>
    simpa [argsOcc, Spec.occDirs] using hdirs

/-- **The arguments pass is silent**: on a well-scoped document over a schema whose argument
    definitions have pairwise distinct names, if §5.4.1, §5.4.2, §5.4.2.1, §5.6.1 and §5.7.1 hold
    then validate_arguments.go reports nothing, not even a secondary error. -/
theorem arguments_silent {S : Schema} {D : Document} (h : WellScoped S D)
    (hdefs : Schema.argDefsUnique S = true)
    (hk : Spec.argumentsKnown S D = true) (hu : Spec.argumentsUnique S D = true)
    (hr : Spec.argumentsRequired S D = true) (hv : Spec.valuesCorrect S D = true)
    (hd : Spec.directivesDefined S D = true) :
    Model.validateArguments S D = [] := by
  -- every argument site is fine
  have hsite : ∀ s ∈ Spec.argSites S D, siteOk s = true ∧ Spec.siteValuesOk S s = true := by
    intro s hs
    unfold Spec.argumentsKnown at hk
    unfold Spec.argumentsUnique at hu
    unfold Spec.argumentsRequired at hr
    unfold Spec.valuesCorrect at hv
    simp only [Bool.and_eq_true, List.all_eq_true] at hk hu hr hv
    refine ⟨?_, hv.1 s hs⟩
    simp [siteOk, hk s hs, hu s hs, hr s hs]
  -- every directive is defined
  have hdir : ∀ site ∈ Spec.dirSites S D, ∀ d ∈ site.2, (S.findDirective d.name).isSome = true := by
    unfold Spec.directivesDefined at hd
    simp only [List.all_eq_true] at hd
    intro site hs d hdm
    exact hd site hs d hdm
  unfold Model.validateArguments
  rw [List.flatMap_eq_nil_iff]
  intro d hdD
  rw [List.append_eq_nil_iff]
  constructor
  · rw [defDirs_eq]
    apply argsDirectives_silent hdefs
    · intro x hx
      refine hdir (Spec.defLocation d, Spec.defDirs d) ?_ x hx
      unfold Spec.dirSites
      exact List.mem_append_left _ (List.mem_map.mpr ⟨d, hdD, rfl⟩)
    · intro s hs
      apply hsite
      unfold Spec.argSites
      exact List.mem_append_right _ (List.mem_flatMap.mpr ⟨d, hdD, hs⟩)
  · obtain ⟨e, hocc⟩ := def_occs h hdD
    have hinfo : (moccSet S (Model.defScope S d) (Model.defSel d)).all (hasInfoAt S) = true := by
      rw [e, List.all_eq_true]
      intro o ho
      exact info_of_scoped h.wf (hocc o ho).1 (hocc o ho).2
    rw [args_set_flat S _ _ hinfo, e, List.flatMap_eq_nil_iff]
    intro o ho
    have hoD : o ∈ Spec.selOccs S D := by
      unfold Spec.selOccs
      exact List.mem_flatMap.mpr ⟨d, hdD, ho⟩
    apply argsOcc_silent h.wf hdefs (hocc o ho).1 (hocc o ho).2
    · intro x hx
      refine hdir (Spec.occLocation o, Spec.occDirs o) ?_ x hx
      unfold Spec.dirSites
      exact List.mem_append_right _ (List.mem_map.mpr ⟨o, hoD, rfl⟩)
    · intro s hs
      apply hsite
      unfold Spec.argSites
      exact List.mem_append_left _ (List.mem_flatMap.mpr ⟨o, hoD, hs⟩)

end ApiFu.C04
