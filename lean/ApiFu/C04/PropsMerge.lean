/-
  C04 — property theorems of the second phase (collections through fragments): single-root
  subscription, hence the whole operations group. Lemmas in Merge1–Merge5.lean.

  Extra hypotheses of this phase (`MergeHyp`): besides being well-scoped the document has distinct
  positions for distinct selection sets (`PosUnique`: true of parser output — the model identifies a
  selection set by its position, as the code does by its pointer), unique fragment names and defined
  spread targets (both are rules of proved groups).
-/
import ApiFu.C04.Merge5
import ApiFu.C04.Props

namespace ApiFu.C04
open Spec Model
set_option linter.unusedSimpArgs false

/-- **What addFieldSelections collects** (validate_fields.go:286-329 with fix 02): on a selection
    set of the document it succeeds within the pipeline's fuel, and the result holds exactly the
    fields reachable through inline fragments and spreads (`Collects`), whatever was reached twice. -/
theorem addFieldSelections_spec {S : Schema} {D : Document} (h : MergeHyp S D) {scope : Option String} {ss : SelSet}
    (hroot : (⟨scope, ss.pos, ss.sels⟩ : SetRef) ∈ allSets S D) :
    ∃ fs, addFieldSelections S D (Model.fuelFor D) scope (some ss) [] = .ok fs ∧
      ∀ f, f ∈ fs ↔ Collects S D scope ss.pos ss.sels f := by
  obtain ⟨fs, hfs⟩ := addFieldSelections_ok h.posU (spreadsDefinedT_of_spec h.spreads) hroot []
  refine ⟨fs, hfs, fun f => ?_⟩
  rw [addFieldSelections_mem h.posU hroot hfs f]
  simp

/-- **Single-root subscription** (validate_operations.go:36-43 = §5.2.3.1): see
    `model_single_root_eq_spec` in Merge5.lean. -/
theorem model_single_root_subscription_eq_spec {S : Schema} {D : Document} (h : MergeHyp S D) :
    ∃ errs, subscriptionErrors S D (Model.fuelFor D) D = (errs, false) ∧
      (errs = [] ↔ Spec.singleRootSubscription D = true) :=
  model_single_root_eq_spec h

/-- **Operations group** (validate_operations.go = §5.2.1.1, §5.2.2.1, §5.2.3.1 and supported
    operation types), full: the pass comes back within the pipeline's fuel and reports nothing iff
    the four rules hold. (`model_operations_eq_spec_partial` of Props.lean is the half that needs no
    hypothesis.) -/
theorem model_operations_eq_spec {S : Schema} {D : Document} (h : MergeHyp S D) :
    ∃ errs, Model.validateOperationsGo S D (Model.fuelFor D) = (errs, false) ∧
      (errs = [] ↔ (Spec.opNameUnique D = true ∧ Spec.loneAnonymous D = true ∧ Spec.opTypeSupported S D = true ∧
        Spec.singleRootSubscription D = true)) := by
  obtain ⟨sub, hsub, hiff⟩ := model_single_root_eq_spec h
  refine ⟨operationLoopErrors S [] D ++ sub ++ loneAnonymousErrors D, by simp [Model.validateOperationsGo, hsub], ?_⟩
  have hp := model_operations_eq_spec_partial S D
  simp only [List.append_eq_nil_iff] at hp ⊢
  constructor
  · rintro ⟨⟨h1, h2⟩, h3⟩
    obtain ⟨a, b, c⟩ := hp.1 ⟨h1, h3⟩
    exact ⟨a, b, c, hiff.1 h2⟩
  · rintro ⟨a, b, c, d⟩
    obtain ⟨h1, h3⟩ := hp.2 ⟨a, b, c⟩
    exact ⟨⟨h1, hiff.2 d⟩, h3⟩

end ApiFu.C04
