/-
  C04 — the validation rules of the GraphQL specification (June 2018, §5) as a decidable
  declarative judgement `Spec.valid S D : Bool`, written from the specification text and *not*
  from the Go sources. Every rule is one predicate over
    * `selOccs S D`   — every selection of the document together with the type in scope,
    * `dirSites D`    — every directive list together with its location,
    * `argSites S D`  — every argument list together with the argument definitions it is checked against,
    * `usages S D op` — every variable usage in scope of an operation with its expected type,
  so a rule reads "for every … in the document, …" exactly as in the specification.

  `Spec.violates r S D` is the per-rule negation (the semantic guard of the mutation generator).

  Conventions where the specification presupposes an earlier rule: a predicate is vacuously true
  where its premise is missing (a field whose parent type is unknown is not "undefined on" that
  type; the unknown type is reported by its own rule). `valid` is the conjunction of all rules,
  so these conventions do not change which documents are valid.

  Core Lean only.
-/
import ApiFu.C04.Ast

namespace ApiFu.C04.Spec

/-! ## Schema queries -/

def kindOf (S : Schema) (n : String) : Option TypeKind := (S.find n).map (·.kind)

def isComposite (S : Schema) (n : String) : Bool :=
  match kindOf S n with
  | some k => k.isComposite
  | none => false

def isLeaf (S : Schema) (n : String) : Bool :=
  match kindOf S n with
  | some k => k.isLeaf
  | none => false

def isObject (S : Schema) (n : String) : Bool :=
  match kindOf S n with
  | some k => k.isObject
  | none => false

def isInputType (S : Schema) (n : String) : Bool :=
  match kindOf S n with
  | some k => k.isInput
  | none => false

/-- The `__typename` meta field (§4.4): `String!` on every composite type. -/
def typenameField : FieldDef := { name := "__typename", type := .nonNull (.named "String"), args := [] }

/-- The field `name` as defined on the type `parent` (§5.3.1, §4.1, §4.4): own fields of objects
    and interfaces, `__typename` on every composite type, `__schema`/`__type` on the query root. -/
def fieldDef? (S : Schema) (parent name : String) : Option FieldDef :=
  match kindOf S parent with
  | some (.object fs _) =>
    if name = "__typename" then some typenameField else
    match findField fs name with
    | some d => some d
    | none => if parent = S.query then findField S.metaFields name else none
  | some (.interface fs) =>
    if name = "__typename" then some typenameField else findField fs name
  | some (.union _) =>
    if name = "__typename" then some typenameField else none
  | _ => none

/-- GetPossibleTypes (§5.5.2.3). -/
def possibleTypes (S : Schema) (n : String) : List String :=
  match kindOf S n with
  | some (.object _ _) => [n]
  | some (.interface _) =>
    S.types.filterMap fun t =>
      match t.kind with
      | .object _ ifs => if ifs.contains n then some t.name else none
      | _ => none
  | some (.union ms) => ms
  | _ => []

/-! ## Document queries -/

def nodup (xs : List String) : Bool :=
  match xs with
  | [] => true
  | x :: rest => !rest.contains x && nodup rest

def fragDefs (D : Document) : List (String × String × SelSet) :=
  D.filterMap fun
    | .frag n _ tc _ _ sel _ => some (n, tc, sel)
    | _ => none

def fragNames (D : Document) : List String := (fragDefs D).map (·.1)

/-- The fragment named `n` (unique in a valid document). -/
def findFrag (D : Document) (n : String) : Option (String × SelSet) :=
  ((fragDefs D).find? (fun f => f.1 = n)).map (·.2)

/-! ## Occurrences: every selection with the type in scope -/

/-- One selection of the document with the type in scope (`none`: no type is in scope because an
    enclosing construct is itself undefined). -/
inductive Occ where
  | field (parent : Option String) (alias : Option (String × Pos)) (name : String) (npos : Pos)
      (args : List Argument) (dirs : List Directive) (sel : Option SelSet)
  | spread (parent : Option String) (name : String) (npos : Pos) (dirs : List Directive) (pos : Pos)
  | inline (parent : Option String) (tc : Option (String × Pos)) (dirs : List Directive) (pos : Pos)

/-- Type in scope inside a field's selection set: the unwrapped return type of the field. -/
def fieldScope (S : Schema) (parent : Option String) (name : String) : Option String :=
  match parent with
  | none => none
  | some p => (fieldDef? S p name).map (·.type.base)

/-- Type named by a type condition (`none` when it is not a type of the schema). -/
def condScope (S : Schema) (tc : String) : Option String :=
  if (S.find tc).isSome then some tc else none

/-- Type in scope inside an inline fragment: its type condition, or the enclosing type. -/
def inlineScope (S : Schema) (parent : Option String) (tc : Option (String × Pos)) : Option String :=
  match tc with
  | none => parent
  | some (t, _) => condScope S t

mutual
def occSel (S : Schema) (parent : Option String) : Selection → List Occ
  | .field al n np args dirs sel =>
    .field parent al n np args dirs sel ::
      (match sel with
       | none => []
       | some ss => occSet S (fieldScope S parent n) ss)
  | .spread n np dirs p => [.spread parent n np dirs p]
  | .inline tc dirs ss p =>
    .inline parent tc dirs p :: occSet S (inlineScope S parent tc) ss
def occSet (S : Schema) (parent : Option String) : SelSet → List Occ
  | .mk sels _ => occSels S parent sels
def occSels (S : Schema) (parent : Option String) : List Selection → List Occ
  | [] => []
  | s :: rest => occSel S parent s ++ occSels S parent rest
end

def occDef (S : Schema) : Definition → List Occ
  | .op kind _ _ _ sel => occSet S (S.root (opKindOf kind)) sel
  | .frag _ _ tc _ _ sel _ => occSet S (condScope S tc) sel

/-- Every selection of the document with its type in scope. -/
def selOccs (S : Schema) (D : Document) : List Occ := D.flatMap (occDef S)

/-! ## §5.2 Operations -/

def opNames (D : Document) : List String :=
  D.filterMap fun
    | .op _ (some (n, _)) _ _ _ => some n
    | _ => none

def opCount (D : Document) : Nat :=
  (D.filter fun | .op .. => true | _ => false).length

def anonCount (D : Document) : Nat :=
  (D.filter fun | .op _ none _ _ _ => true | _ => false).length

/-- §5.2.1.1 Operation Name Uniqueness. -/
def opNameUnique (D : Document) : Bool := nodup (opNames D)

/-- §5.2.2.1 Lone Anonymous Operation. -/
def loneAnonymous (D : Document) : Bool := anonCount D = 0 || opCount D = 1

def opSupportedAt (S : Schema) : Definition → Bool
  | .op kind _ _ _ _ => (S.root (opKindOf kind)).isSome
  | _ => true

/-- The schema defines a root type for every operation's kind (§3.2.1; without one no field of the
    operation's selection set is defined). -/
def opTypeSupported (S : Schema) (D : Document) : Bool := D.all (opSupportedAt S)

/-- Response names selected by a selection set, visiting inline fragments and (each once) named
    fragments: the keys of CollectFields (§6.3.2) as used by §5.2.3.1. -/
def rootNames (D : Document) : Nat → List String → List Selection → List String × List String
  | 0, vis, _ => ([], vis)
  | _ + 1, vis, [] => ([], vis)
  | fuel + 1, vis, .field al n _ _ _ _ :: rest =>
    let (r, vis') := rootNames D fuel vis rest
    (responseName al n :: r, vis')
  | fuel + 1, vis, .inline _ _ ss _ :: rest =>
    let (a, vis1) := rootNames D fuel vis ss.sels
    let (b, vis2) := rootNames D fuel vis1 rest
    (a ++ b, vis2)
  | fuel + 1, vis, .spread n _ _ _ :: rest =>
    if vis.contains n then rootNames D fuel vis rest else
    match findFrag D n with
    | none => rootNames D fuel (n :: vis) rest
    | some (_, ss) =>
      let (a, vis1) := rootNames D fuel (n :: vis) ss.sels
      let (b, vis2) := rootNames D fuel vis1 rest
      (a ++ b, vis2)

mutual
def sizeSel : Selection → Nat
  | .field _ _ _ _ _ none => 1
  | .field _ _ _ _ _ (some ss) => 1 + sizeSet ss
  | .spread .. => 1
  | .inline _ _ ss _ => 1 + sizeSet ss
def sizeSet : SelSet → Nat
  | .mk sels _ => 1 + sizeSels sels
def sizeSels : List Selection → Nat
  | [] => 0
  | s :: rest => sizeSel s + sizeSels rest
end

/-- Number of selections and selection sets of the document (the fuel of every recursion that
    follows fragment spreads: it bounds the depth of any spread-free-of-cycles expansion). -/
def docSize (D : Document) : Nat :=
  (D.map fun
    | .op _ _ _ _ sel => 1 + sizeSet sel
    | .frag _ _ _ _ _ sel _ => 1 + sizeSet sel).sum

def fuelFor (D : Document) : Nat := 2 * docSize D + 8

/-- Fuel for the nesting of field pairs in §5.3.2: in a document without spread cycles every step
    from a pair to a pair of sub-fields strictly decreases (fragments still reachable, size of the
    enclosing selection set), which is bounded by this (`Merge*.lean`). -/
def pairFuel (D : Document) : Nat := (docSize D + 2) * (docSize D + 2)

def dedup (xs : List String) : List String :=
  xs.foldl (fun acc x => if acc.contains x then acc else acc ++ [x]) []

/-- §5.2.3.1 Single root field. -/
def singleRootSubscription (D : Document) : Bool :=
  D.all fun
    | .op (some (.subscription, _)) _ _ _ sel =>
      (dedup (rootNames D (fuelFor D) [] sel.sels).1).length = 1
    | _ => true

/-! ## §5.3.1, §5.3.3 Fields -/

/-- "fieldName must be defined on type in scope" for one selection. -/
def fieldDefinedAt (S : Schema) : Occ → Bool
  | .field (some p) _ n _ _ _ _ => !isComposite S p || (fieldDef? S p n).isSome
  | _ => true

/-- §5.3.1 Field Selections on Objects, Interfaces, and Unions Types. -/
def fieldsDefined (S : Schema) (D : Document) : Bool := (selOccs S D).all (fieldDefinedAt S)

def hasSubselection : Option SelSet → Bool
  | some ss => !ss.sels.isEmpty
  | none => false

/-- A leaf field has no sub-selection, a composite field has a non-empty one. -/
def leafOkAt (S : Schema) : Occ → Bool
  | .field (some p) _ n _ _ _ sel =>
    (match fieldDef? S p n with
     | none => true
     | some d => if isComposite S d.type.base then hasSubselection sel else sel.isNone)
  | _ => true

/-- §5.3.3 Leaf Field Selections. -/
def leafSelections (S : Schema) (D : Document) : Bool := (selOccs S D).all (leafOkAt S)

/-! ## §5.3.2 Field Selection Merging -/

/-- A field of a collected set: the node and the type in scope where it is written. -/
structure CF where
  rname : String
  name : String
  args : List Argument
  sel : Option SelSet
  parent : Option String
  /-- scope of the field's own selection set -/
  inner : Option String
  deriving Inhabited

/-- "The set of selections with a given response name in set including visiting fragments and
    inline fragments": every field node once (a named fragment is visited once). -/
def collect (S : Schema) (D : Document) :
    Nat → Option String → List String → List Selection → List CF × List String
  | 0, _, vis, _ => ([], vis)
  | _ + 1, _, vis, [] => ([], vis)
  | fuel + 1, parent, vis, .field al n _ args _ sel :: rest =>
    let (r, vis') := collect S D fuel parent vis rest
    ({ rname := responseName al n, name := n, args := args, sel := sel, parent := parent,
       inner := fieldScope S parent n } :: r, vis')
  | fuel + 1, parent, vis, .inline tc _ ss _ :: rest =>
    let (a, vis1) := collect S D fuel (inlineScope S parent tc) vis ss.sels
    let (b, vis2) := collect S D fuel parent vis1 rest
    (a ++ b, vis2)
  | fuel + 1, parent, vis, .spread n _ _ _ :: rest =>
    if vis.contains n then collect S D fuel parent vis rest else
    match findFrag D n with
    | none => collect S D fuel parent (n :: vis) rest
    | some (tc, ss) =>
      let (a, vis1) := collect S D fuel (condScope S tc) (n :: vis) ss.sels
      let (b, vis2) := collect S D fuel parent vis1 rest
      (a ++ b, vis2)

mutual
/-- Values are identical (syntactically, positions aside). -/
def sameValue : Value → Value → Bool
  | .var a _, .var b _ => a = b
  | .int a _, .int b _ => a = b
  | .float a _, .float b _ => a = b
  | .str a _, .str b _ => a = b
  | .bool a _, .bool b _ => a = b
  | .null _, .null _ => true
  | .enum a _, .enum b _ => a = b
  | .list xs _, .list ys _ => sameValues xs ys
  | .obj xs _, .obj ys _ => sameFields xs ys
  | _, _ => false
def sameValues : List Value → List Value → Bool
  | [], [] => true
  | x :: xs, y :: ys => sameValue x y && sameValues xs ys
  | _, _ => false
def sameFields : List ObjField → List ObjField → Bool
  | [], [] => true
  | .mk n _ x :: xs, .mk m _ y :: ys => n = m && sameValue x y && sameFields xs ys
  | _, _ => false
end

/-- "fieldA and fieldB must have identical sets of arguments." -/
def sameArguments (a b : List Argument) : Bool :=
  a.length = b.length &&
  a.all (fun x => b.any (fun y => x.name = y.name && sameValue x.value y.value)) &&
  b.all (fun y => a.any (fun x => x.name = y.name && sameValue x.value y.value))

/-- The wrappers of two types agree (non-null with non-null, list with list); result: the two
    innermost named types. -/
def sameWrappers : TRef → TRef → Option (String × String)
  | .nonNull a, .nonNull b => sameWrappers a b
  | .nonNull _, _ => none
  | .list a, .list b => sameWrappers a b
  | .list _, _ => none
  | .named a, .named b => some (a, b)
  | .named _, _ => none

def pairsOk {α : Type} (p : α → α → Bool) : List α → Bool
  | [] => true
  | x :: rest => rest.all (p x) && pairsOk p rest

def subsel (f : CF) : List Selection :=
  match f.sel with
  | some ss => ss.sels
  | none => []

def cfType (S : Schema) (f : CF) : Option TRef :=
  match f.parent with
  | none => none
  | some p => (fieldDef? S p f.name).map (·.type)

/-- SameResponseShape(fieldA, fieldB) (§5.3.2). Vacuous when a field is undefined (§5.3.1 reports it). -/
def sameResponseShape (S : Schema) (D : Document) : Nat → CF → CF → Bool
  | 0, _, _ => true
  | fuel + 1, a, b =>
    match cfType S a, cfType S b with
    | some ta, some tb =>
      match sameWrappers ta tb with
      | none => false
      | some (na, nb) =>
        if isLeaf S na || isLeaf S nb then na = nb else
        let (xs, vis) := collect S D (fuelFor D) a.inner [] (subsel a)
        let (ys, _) := collect S D (fuelFor D) b.inner vis (subsel b)
        pairsOk (fun x y => x.rname != y.rname || sameResponseShape S D fuel x y) (xs ++ ys)
    | _, _ => true

/-- FieldsInSetCanMerge(set) (§5.3.2) for an already collected set. -/
def fieldsCanMerge (S : Schema) (D : Document) : Nat → List CF → Bool
  | 0, _ => true
  | fuel + 1, fs =>
    pairsOk (fun a b =>
      a.rname != b.rname ||
      (sameResponseShape S D (pairFuel D) a b &&
        (match a.parent, b.parent with
         | some pa, some pb =>
           if pa = pb || !isObject S pa || !isObject S pb then
             a.name = b.name && sameArguments a.args b.args &&
               (let (xs, vis) := collect S D (fuelFor D) a.inner [] (subsel a)
                let (ys, _) := collect S D (fuelFor D) b.inner vis (subsel b)
                fieldsCanMerge S D fuel (xs ++ ys))
           else true
         | _, _ => true))) fs

mutual
def setsSel (S : Schema) (parent : Option String) : Selection → List (Option String × SelSet)
  | .field _ n _ _ _ sel =>
    (match sel with
     | none => []
     | some ss => setsSet S (fieldScope S parent n) ss)
  | .spread .. => []
  | .inline tc _ ss _ => setsSet S (inlineScope S parent tc) ss
def setsSet (S : Schema) (parent : Option String) : SelSet → List (Option String × SelSet)
  | .mk sels p => (parent, .mk sels p) :: setsSels S parent sels
def setsSels (S : Schema) (parent : Option String) : List Selection → List (Option String × SelSet)
  | [] => []
  | s :: rest => setsSel S parent s ++ setsSels S parent rest
end

/-- Every selection set of the document with its type in scope. -/
def selSets (S : Schema) (D : Document) : List (Option String × SelSet) :=
  D.flatMap fun
    | .op kind _ _ _ sel => setsSet S (S.root (opKindOf kind)) sel
    | .frag _ _ tc _ _ sel _ => setsSet S (condScope S tc) sel


/-! ## §5.4 Arguments -/

/-- An argument list with the definitions it is checked against. -/
structure ArgSite where
  defs : List InputDef
  args : List Argument

def dirArgSites (S : Schema) (dirs : List Directive) : List ArgSite :=
  dirs.filterMap fun d => (S.findDirective d.name).map fun dd => { defs := dd.args, args := d.args }

def occDirs : Occ → List Directive
  | .field _ _ _ _ _ dirs _ => dirs
  | .spread _ _ _ dirs _ => dirs
  | .inline _ _ dirs _ => dirs

def defDirs : Definition → List Directive
  | .op _ _ _ dirs _ => dirs
  | .frag _ _ _ _ dirs _ _ => dirs

/-- The argument lists at one selection: the field's own (when the field is defined) and those of
    its directives. -/
def occArgSites (S : Schema) (o : Occ) : List ArgSite :=
  (match o with
   | .field (some p) _ n _ args _ _ =>
     (match fieldDef? S p n with
      | some d => [{ defs := d.args, args := args }]
      | none => [])
   | _ => []) ++ dirArgSites S (occDirs o)

/-- Every argument list of the document whose field / directive is defined. -/
def argSites (S : Schema) (D : Document) : List ArgSite :=
  (selOccs S D).flatMap (occArgSites S) ++ D.flatMap (fun d => dirArgSites S (defDirs d))

def argsKnownAt (s : ArgSite) : Bool := s.args.all fun a => (findInput s.defs a.name).isSome

def argsUniqueAt (s : ArgSite) : Bool := nodup (s.args.map (·.name))

def argsRequiredAt (s : ArgSite) : Bool :=
  s.defs.all fun d => !(d.type.isNonNull && d.dflt = .none) || s.args.any (fun a => a.name = d.name)

/-- §5.4.1 Argument Names. -/
def argumentsKnown (S : Schema) (D : Document) : Bool := (argSites S D).all argsKnownAt

/-- §5.4.2 Argument Uniqueness. -/
def argumentsUnique (S : Schema) (D : Document) : Bool := (argSites S D).all argsUniqueAt

/-- §5.4.2.1 Required Arguments (the null-literal half is §5.6.1's). -/
def argumentsRequired (S : Schema) (D : Document) : Bool := (argSites S D).all argsRequiredAt

/-! ## §5.5 Fragments -/

/-- §5.5.1.1 Fragment Name Uniqueness. -/
def fragmentNamesUnique (D : Document) : Bool := nodup (fragNames D)

/-- The type condition of an inline fragment names a type of the schema. -/
def condExistsAt (S : Schema) : Occ → Bool
  | .inline _ (some (t, _)) _ _ => (S.find t).isSome
  | _ => true

/-- §5.5.1.2 Fragment Spread Type Existence (named fragments and inline fragments). -/
def fragmentTypesExist (S : Schema) (D : Document) : Bool :=
  (fragDefs D).all (fun f => (S.find f.2.1).isSome) && (selOccs S D).all (condExistsAt S)

/-- The type condition of an inline fragment, when it exists, is a composite type. -/
def condCompositeAt (S : Schema) : Occ → Bool
  | .inline _ (some (t, _)) _ _ => (S.find t).isNone || isComposite S t
  | _ => true

/-- §5.5.1.3 Fragments On Composite Types. -/
def fragmentsOnComposite (S : Schema) (D : Document) : Bool :=
  (fragDefs D).all (fun f => (S.find f.2.1).isNone || isComposite S f.2.1) &&
  (selOccs S D).all (condCompositeAt S)

def spreadNameOf : Occ → Option String
  | .spread _ n _ _ _ => some n
  | _ => none

def spreadNames (S : Schema) (D : Document) : List String := (selOccs S D).filterMap spreadNameOf

/-- §5.5.1.4 Fragments Must Be Used: "fragment must be the target of at least one spread in the document". -/
def fragmentsUsed (S : Schema) (D : Document) : Bool :=
  (fragNames D).all fun n => (spreadNames S D).contains n

/-- §5.5.2.1 Fragment spread target defined. -/
def spreadsDefined (S : Schema) (D : Document) : Bool :=
  (spreadNames S D).all fun n => (fragNames D).contains n

mutual
def spreadsInSel : Selection → List String
  | .field _ _ _ _ _ none => []
  | .field _ _ _ _ _ (some ss) => spreadsInSet ss
  | .spread n _ _ _ => [n]
  | .inline _ _ ss _ => spreadsInSet ss
def spreadsInSet : SelSet → List String
  | .mk sels _ => spreadsInSels sels
def spreadsInSels : List Selection → List String
  | [] => []
  | s :: rest => spreadsInSel s ++ spreadsInSels rest
end

/-- Fragments spread directly (at any depth) by the fragments named `n`. -/
def fragDeps (D : Document) (n : String) : List String :=
  (fragDefs D).flatMap fun f => if f.1 = n then spreadsInSet f.2.2 else []

/-- Fragments reachable from `acc` by spreads: `k` rounds of closure (each round adds the fragments
    spread directly by those found so far). -/
def reachable (D : Document) : Nat → List String → List String
  | 0, acc => acc
  | k + 1, acc => reachable D k (dedup (acc ++ acc.flatMap (fragDeps D)))

def defSelOf : Definition → SelSet
  | .op _ _ _ _ sel => sel
  | .frag _ _ _ _ _ sel _ => sel

/-- Every spread written in the document. A round of the closure that finds something new follows
    at least one of them for the first time, so this many rounds reach the fixed point
    (`Lemmas.mem_roundsOf_iff`). -/
def allSpreads (D : Document) : List String := D.flatMap fun d => spreadsInSet (defSelOf d)

/-- §5.5.2.2 Fragment spreads must not form cycles. -/
def noFragmentCycles (D : Document) : Bool :=
  (fragNames D).all fun n => !(reachable D (allSpreads D).length (dedup (fragDeps D n))).contains n

/-- §5.3.2 Field Selection Merging: FieldsInSetCanMerge holds for every selection set. The rule is
    stated for documents whose fragment spreads form no cycle (§5.5.2.2 is what makes the expansion
    of a selection set finite); for a document with a spread cycle it holds vacuously — such a
    document is invalid by §5.5.2.2. -/
def fieldsMerge (S : Schema) (D : Document) : Bool :=
  !noFragmentCycles D ||
  (selSets S D).all fun (scope, ss) =>
    fieldsCanMerge S D (pairFuel D) (collect S D (fuelFor D) scope [] ss.sels).1

def intersects (a b : List String) : Bool := a.any fun x => b.contains x

/-- §5.5.2.3 Fragment spread is possible. -/
def spreadsPossible (S : Schema) (D : Document) : Bool :=
  (selOccs S D).all fun
    | .spread (some p) n _ _ _ =>
      (match findFrag D n with
       | some (tc, _) =>
         !(isComposite S p && isComposite S tc) || intersects (possibleTypes S tc) (possibleTypes S p)
       | none => true)
    | .inline (some p) (some (tc, _)) _ _ =>
      !(isComposite S p && isComposite S tc) || intersects (possibleTypes S tc) (possibleTypes S p)
    | _ => true

/-! ## §5.6 Values -/

def scalarAccepts : ScalarSpec → Value → Bool
  | .int, .int lit _ =>
    (match lit.toInt? with
     | some n => decide (-2147483648 ≤ n) && decide (n ≤ 2147483647)
     | none => false)
  | .float, .int _ _ => true
  | .float, .float _ _ => true
  | .string, .str _ _ => true
  | .boolean, .bool _ _ => true
  | .id, .int lit _ =>
    (match lit.toInt? with
     | some n => decide (-9223372036854775808 ≤ n) && decide (n ≤ 9223372036854775807)
     | none => false)
  | .id, .str _ _ => true
  | .custom ks, .int _ _ => ks.contains "int"
  | .custom ks, .float _ _ => ks.contains "float"
  | .custom ks, .str _ _ => ks.contains "string"
  | .custom ks, .bool _ _ => ks.contains "bool"
  | .custom ks, .enum _ _ => ks.contains "enum"
  | .custom ks, .list _ _ => ks.contains "list"
  | .custom ks, .obj _ _ => ks.contains "object"
  | _, _ => false

/-- Input type a non-list literal is coerced to at a position of type `t` (§3.11 list input
    coercion accepts a single item for a list, recursively; not for the items of a list literal). -/
def literalTarget (t : TRef) (allowItem : Bool) : Option String :=
  if allowItem then some t.base else
  match t.nullable with
  | .named n => some n
  | _ => none

mutual
/-- §5.6.1 Values of Correct Type, with §5.6.2 Input Object Field Names, §5.6.3 Input Object
    Field Uniqueness, §5.6.4 Input Object Required Fields. Variables are the business of §5.8.5. -/
def valueOk (S : Schema) (t : TRef) (allowItem : Bool) : Value → Bool
  | .var _ _ => true
  | .null _ => !t.isNonNull
  | .list items p =>
    (match t.nullable with
     | .list inner => itemsOk S inner items
     | .named n =>
       (match kindOf S n with
        | some (.scalar spec) => scalarAccepts spec (.list items p)
        | _ => false)
     | .nonNull _ => false)
  | .obj fields p =>
    (match literalTarget t allowItem with
     | none => false
     | some n =>
       (match kindOf S n with
        | some (.scalar spec) => scalarAccepts spec (.obj fields p)
        | some (.input defs) =>
          nodup (fields.map (·.name)) &&
          defs.all (fun d => !(d.type.isNonNull && d.dflt = .none) || fields.any (fun f => f.name = d.name)) &&
          objFieldsOk S defs fields
        | _ => false))
  | .enum e p =>
    (match literalTarget t allowItem with
     | none => false
     | some n =>
       (match kindOf S n with
        | some (.scalar spec) => scalarAccepts spec (.enum e p)
        | some (.enum vs) => vs.contains e
        | _ => false))
  | v =>
    (match literalTarget t allowItem with
     | none => false
     | some n =>
       (match kindOf S n with
        | some (.scalar spec) => scalarAccepts spec v
        | _ => false))
def itemsOk (S : Schema) (t : TRef) : List Value → Bool
  | [] => true
  | v :: rest => valueOk S t false v && itemsOk S t rest
def objFieldsOk (S : Schema) (defs : List InputDef) : List ObjField → Bool
  | [] => true
  | .mk n _ v :: rest =>
    (match findInput defs n with
     | some d => valueOk S d.type true v
     | none => false) && objFieldsOk S defs rest
end

/-- AST type to schema type (`none`: names a type that does not exist). -/
def resolveType (S : Schema) : TypeExpr → Option TRef
  | .named n _ => if (S.find n).isSome then some (.named n) else none
  | .list t _ => (resolveType S t).map .list
  | .nonNull t => (resolveType S t).map .nonNull

def varDefsOf : Definition → List VarDef
  | .op _ _ vars _ _ => vars
  | .frag .. => []

/-- The value of a defined argument has the argument's type. -/
def argValueOk (S : Schema) (s : ArgSite) (a : Argument) : Bool :=
  match findInput s.defs a.name with
  | some d => valueOk S d.type true a.value
  | none => true

def siteValuesOk (S : Schema) (s : ArgSite) : Bool := s.args.all (argValueOk S s)

/-- The default value of a variable has the variable's type. -/
def defaultOk (S : Schema) (vd : VarDef) : Bool :=
  match vd.dflt, resolveType S vd.type with
  | some v, some t => valueOk S t true v
  | _, _ => true

/-- §5.6.1–§5.6.4 for every argument value and every variable default value. -/
def valuesCorrect (S : Schema) (D : Document) : Bool :=
  (argSites S D).all (siteValuesOk S) && D.all (fun d => (varDefsOf d).all (defaultOk S))

/-! ## §5.7 Directives -/

def opLocation : OpKind → String
  | .query => "QUERY"
  | .mutation => "MUTATION"
  | .subscription => "SUBSCRIPTION"

def occLocation : Occ → String
  | .field .. => "FIELD"
  | .spread .. => "FRAGMENT_SPREAD"
  | .inline .. => "INLINE_FRAGMENT"

def defLocation : Definition → String
  | .op kind _ _ _ _ => opLocation (opKindOf kind)
  | .frag .. => "FRAGMENT_DEFINITION"

/-- Every directive list of the document with its location. -/
def dirSites (S : Schema) (D : Document) : List (String × List Directive) :=
  D.map (fun d => (defLocation d, defDirs d)) ++ (selOccs S D).map (fun o => (occLocation o, occDirs o))

/-- §5.7.1 Directives Are Defined. -/
def directivesDefined (S : Schema) (D : Document) : Bool :=
  (dirSites S D).all fun (_, dirs) => dirs.all fun d => (S.findDirective d.name).isSome

/-- §5.7.2 Directives Are In Valid Locations. -/
def directivesInLocation (S : Schema) (D : Document) : Bool :=
  (dirSites S D).all fun (loc, dirs) => dirs.all fun d =>
    match S.findDirective d.name with
    | some dd => dd.locs.contains loc
    | none => true

/-- §5.7.3 Directives Are Unique Per Location. -/
def directivesUnique (S : Schema) (D : Document) : Bool :=
  (dirSites S D).all fun (_, dirs) => nodup (dirs.map (·.name))

/-! ## §5.8 Variables -/

/-- One variable usage: name, the expected type of the Argument / ObjectField / list entry where
    it is located (`none` when that position has no type because the literal around it is
    ill-typed or its argument is undefined), and whether that location has a default value. -/
structure Usage where
  name : String
  pos : Pos
  expected : Option TRef
  locDefault : Bool
  /-- The usage is nested inside a list or object literal that is given where a scalar type is
      expected (a custom scalar accepting such literals): it has no expected type by design, and
      §5.8.5 asks nothing of it. (Recorded for the correspondence with the implementation, which
      distinguishes this from a position that has no type because of an error elsewhere.) -/
  inScalar : Bool := false

/-- Input object type whose fields type the fields of an object literal at a position of type `t`
    (through non-null and — list input coercion of a single item — list wrappers). -/
def objectTarget (S : Schema) (t : Option TRef) : Option (List InputDef) :=
  match t with
  | none => none
  | some t =>
    match kindOf S t.base with
    | some (.input defs) => some defs
    | _ => none

def itemType (t : Option TRef) : Option TRef :=
  match t with
  | none => none
  | some t =>
    match t.nullable with
    | .list inner => some inner
    | _ => none

/-- The type (non-null removed) is a scalar type. -/
def nullableIsScalar (S : Schema) (t : Option TRef) : Bool :=
  match t with
  | none => false
  | some t =>
    match t.nullable with
    | .named n => (match kindOf S n with
                   | some (.scalar _) => true
                   | _ => false)
    | _ => false

/-- The named type under all wrappers is a scalar type. -/
def baseIsScalar (S : Schema) (t : Option TRef) : Bool :=
  match t with
  | none => false
  | some t =>
    match kindOf S t.base with
    | some (.scalar _) => true
    | _ => false

/-- The items of a list literal at a position of type `t` belong to a literal for a scalar. -/
def itemInScalar (S : Schema) (t : Option TRef) (sc : Bool) : Bool :=
  (itemType t).isNone && (sc || nullableIsScalar S t)

/-- The field values of an object literal at a position of type `t` belong to a literal for a scalar. -/
def fieldInScalar (S : Schema) (t : Option TRef) (sc : Bool) : Bool :=
  (objectTarget S t).isNone && (sc || baseIsScalar S t)

mutual
def usagesValue (S : Schema) (t : Option TRef) (locDefault : Bool) (sc : Bool) : Value → List Usage
  | .var n p => [{ name := n, pos := p, expected := t, locDefault := locDefault, inScalar := sc }]
  | .list items _ => usagesItems S (itemType t) (itemInScalar S t sc) items
  | .obj fields _ => usagesFields S (objectTarget S t) (fieldInScalar S t sc) fields
  | _ => []
def usagesItems (S : Schema) (t : Option TRef) (sc : Bool) : List Value → List Usage
  | [] => []
  | v :: rest => usagesValue S t false sc v ++ usagesItems S t sc rest
def usagesFields (S : Schema) (defs : Option (List InputDef)) (sc : Bool) : List ObjField → List Usage
  | [] => []
  | .mk n _ v :: rest =>
    (match defs.bind (findInput · n) with
     | some d => usagesValue S (some d.type) (d.dflt != .none) false v
     | none => usagesValue S none false sc v) ++ usagesFields S defs sc rest
end

def usagesArgs (S : Schema) (defs : Option (List InputDef)) (args : List Argument) : List Usage :=
  args.flatMap fun a =>
    match defs.bind (findInput · a.name) with
    | some d => usagesValue S (some d.type) (d.dflt != .none) false a.value
    | none => usagesValue S none false false a.value

def usagesDirs (S : Schema) (dirs : List Directive) : List Usage :=
  dirs.flatMap fun d => usagesArgs S ((S.findDirective d.name).map (·.args)) d.args

def usagesOcc (S : Schema) : Occ → List Usage
  | .field parent _ n _ args dirs _ =>
    usagesArgs S ((parent.bind (fieldDef? S · n)).map (·.args)) args ++ usagesDirs S dirs
  | .spread _ _ _ dirs _ => usagesDirs S dirs
  | .inline _ _ dirs _ => usagesDirs S dirs

/-- Fragment names reachable from a list of spread names (each once), by rounds of closure. -/
def reachableFrom (D : Document) (start : List String) : List String :=
  reachable D (allSpreads D).length (dedup start)

/-- The usages written in a definition if it is the fragment named `n`. -/
def fragUsagesOf (S : Schema) (n : String) : Definition → List Usage
  | .frag m _ tc _ dirs sel _ =>
    if m = n then usagesDirs S dirs ++ (occSet S (condScope S tc) sel).flatMap (usagesOcc S) else []
  | _ => []

def fragUsages (S : Schema) (D : Document) (n : String) : List Usage := D.flatMap (fragUsagesOf S n)

/-- Variable usages in scope of an operation: in its directives, its selection set, and all
    fragments it reaches transitively (§5.8.3). -/
def opUsages (S : Schema) (D : Document) (kind : Option (OpKind × Pos)) (dirs : List Directive)
    (sel : SelSet) : List Usage :=
  usagesDirs S dirs ++ (occSet S (S.root (opKindOf kind)) sel).flatMap (usagesOcc S) ++
  (reachableFrom D (spreadsInSet sel)).flatMap (fragUsages S D)

/-- §5.8.1 Variable Uniqueness. -/
def variablesUnique (D : Document) : Bool :=
  D.all fun d => nodup ((varDefsOf d).map (·.name))

def variableTypeOk (S : Schema) (vd : VarDef) : Bool :=
  match resolveType S vd.type with
  | some t => isInputType S t.base
  | none => false

/-- §5.8.2 Variables Are Input Types. -/
def variablesAreInputTypes (S : Schema) (D : Document) : Bool :=
  D.all fun d => (varDefsOf d).all (variableTypeOk S)

def usageDefinedIn (vars : List VarDef) (u : Usage) : Bool := vars.any fun vd => vd.name = u.name

/-- Usages in scope of a definition (`[]` for fragments: their usages are in scope of the operations
    that reach them). -/
def defUsages (S : Schema) (D : Document) : Definition → List Usage
  | .op kind _ _ dirs sel => opUsages S D kind dirs sel
  | .frag .. => []

/-- §5.8.3 All Variable Uses Defined. -/
def variableUsesDefined (S : Schema) (D : Document) : Bool :=
  D.all fun d => (defUsages S D d).all (usageDefinedIn (varDefsOf d))

/-- §5.8.4 All Variables Used. -/
def variablesUsed (S : Schema) (D : Document) : Bool :=
  D.all fun d => (varDefsOf d).all fun vd => (defUsages S D d).any fun u => u.name = vd.name

/-- AreTypesCompatible(variableType, locationType) (§5.8.5). -/
def typesCompatible : TRef → TRef → Bool
  | .nonNull v, .nonNull l => typesCompatible v l
  | .nonNull v, l => typesCompatible v l
  | .list v, .list l => typesCompatible v l
  | .list _, _ => false
  | .named a, .named b => a = b
  | .named _, _ => false

/-- IsVariableUsageAllowed(variableDefinition, variableUsage) (§5.8.5). -/
def usageAllowed (varType : TRef) (varDefault : Option Value) (u : Usage) : Bool :=
  match u.expected with
  | none => true
  | some loc =>
    match loc with
    | .nonNull inner =>
      if varType.isNonNull then typesCompatible varType loc else
      let hasNonNullVariableDefaultValue := match varDefault with
        | some v => !v.isNull
        | none => false
      if !hasNonNullVariableDefaultValue && !u.locDefault then false
      else typesCompatible varType inner
    | _ => typesCompatible varType loc

/-- The usage is allowed for the variable of that name (vacuous when the variable or its type is
    undefined: §5.8.3 / §5.8.2 report that). -/
def usageAllowedIn (S : Schema) (vars : List VarDef) (u : Usage) : Bool :=
  match vars.find? (fun vd => vd.name = u.name) with
  | none => true
  | some vd =>
    match resolveType S vd.type with
    | none => true
    | some t => usageAllowed t vd.dflt u

/-- §5.8.5 All Variable Usages are Allowed. -/
def variableUsagesAllowed (S : Schema) (D : Document) : Bool :=
  D.all fun d => (defUsages S D d).all (usageAllowedIn S (varDefsOf d))

/-! ## The judgement -/

/-- The rules, by name. -/
def rules (S : Schema) (D : Document) : List (String × Bool) :=
  [ ("opNameUnique", opNameUnique D),
    ("loneAnonymous", loneAnonymous D),
    ("opTypeSupported", opTypeSupported S D),
    ("singleRootSubscription", singleRootSubscription D),
    ("fieldsDefined", fieldsDefined S D),
    ("leafSelections", leafSelections S D),
    ("fieldsMerge", fieldsMerge S D),
    ("argumentsKnown", argumentsKnown S D),
    ("argumentsUnique", argumentsUnique S D),
    ("argumentsRequired", argumentsRequired S D),
    ("fragmentNamesUnique", fragmentNamesUnique D),
    ("fragmentTypesExist", fragmentTypesExist S D),
    ("fragmentsOnComposite", fragmentsOnComposite S D),
    ("fragmentsUsed", fragmentsUsed S D),
    ("spreadsDefined", spreadsDefined S D),
    ("noFragmentCycles", noFragmentCycles D),
    ("spreadsPossible", spreadsPossible S D),
    ("valuesCorrect", valuesCorrect S D),
    ("directivesDefined", directivesDefined S D),
    ("directivesInLocation", directivesInLocation S D),
    ("directivesUnique", directivesUnique S D),
    ("variablesUnique", variablesUnique D),
    ("variablesAreInputTypes", variablesAreInputTypes S D),
    ("variableUsesDefined", variableUsesDefined S D),
    ("variablesUsed", variablesUsed S D),
    ("variableUsagesAllowed", variableUsagesAllowed S D) ]

/-- The document satisfies every validation rule. -/
def valid (S : Schema) (D : Document) : Bool := (rules S D).all (·.2)

/-- Rule `r` is violated. -/
def violates (r : String) (S : Schema) (D : Document) : Bool :=
  (rules S D).any fun p => p.1 = r && !p.2

/-- Names of the violated rules. -/
def violated (S : Schema) (D : Document) : List String :=
  (rules S D).filterMap fun p => if p.2 then none else some p.1

end ApiFu.C04.Spec
