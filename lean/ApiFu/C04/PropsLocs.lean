/-
  C04 — `locations_in_document`: every location of every error the model of `ValidateDocument`
  can report (any pass, primary or secondary, any alternative of Go's map iteration) is the
  position of a node of the document. Lemmas in Locs.lean (one `_locs` theorem per pass; for the
  overlapping-fields pass an invariant of `addFieldSelections`: every collected field entry comes
  from a field node of the document or of a fragment definition of the document).

  (Locs.lean only imports Lemmas.lean and lives in its own namespace `ApiFu.C04.LocsProof`: some of
  its helper lemmas have the names of helpers of the Merge files.)
-/
import ApiFu.C04.Locs

namespace ApiFu.C04
open Spec Model LocsProof

/-- **Locations in document**, all schemas and all documents, no hypothesis. `docPositions D`
    lists every position stored in the AST the parser produced; the tie checks on every case that
    the model's locations are the implementation's and that they lie inside the text. -/
theorem error_locations_in_document (S : Schema) (D : Document) :
    ∀ sl ∈ (Model.allErrors S D).slots, ∀ e ∈ sl.alts, ∀ l ∈ e.locs, l ∈ docPositions D :=
  locations_in_document S D

/-- Non-vacuity: `{ nope }` — the position of the field node is a listed position. -/
example : (⟨1, 3⟩ : Pos) ∈ docPositions [.op none none [] [] (.mk [.field none "nope" ⟨1, 3⟩ [] [] none] ⟨1, 1⟩)] := by
  decide

end ApiFu.C04
