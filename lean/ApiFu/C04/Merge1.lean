/-
  C04 — towards the overlapping-fields group, part 1: what `addFieldSelections` collects.

  * `allSets S D`: every selection set of the document with TypeInfo's scope (the model's scoping);
    `PosUnique S D`: their positions are pairwise distinct (true of parser output; the model
    identifies a selection set by its position).
  * `Collects`: the fields reachable from a selection list through inline fragments and spreads
    (relational, no visited set, no fuel).
  * `addSel_inv`: the depth-first traversal with its visited set — what it returns is handled,
    every newly visited position belongs to a handled set.

  Not imported by the targets of the check until complete.
-/
import ApiFu.C04.Lemmas

namespace ApiFu.C04
open Spec Model
set_option linter.unusedSimpArgs false
set_option linter.unusedVariables false

/-- A selection set with TypeInfo's scope. -/
structure SetRef where
  scope : Option String
  pos : Pos
  sels : List Selection

mutual
def setsOfSel (S : Schema) (scope : Option String) : Selection → List SetRef
  | .field _ _ _ _ _ none => []
  | .field _ n _ _ _ (some ss) => setsOfSet S (Model.innerScope S scope n) ss
  | .spread .. => []
  | .inline tc _ ss _ => setsOfSet S (Model.inlineScope S scope tc) ss
def setsOfSet (S : Schema) (scope : Option String) : SelSet → List SetRef
  | .mk sels p => ⟨scope, p, sels⟩ :: setsOfSels S scope sels
def setsOfSels (S : Schema) (scope : Option String) : List Selection → List SetRef
  | [] => []
  | s :: rest => setsOfSel S scope s ++ setsOfSels S scope rest
end

/-- Every selection set of the document. -/
def allSets (S : Schema) (D : Document) : List SetRef :=
  D.flatMap fun d => setsOfSet S (Model.defScope S d) (Model.defSel d)

/-- Distinct selection sets have distinct positions. -/
def PosUnique (S : Schema) (D : Document) : Prop := ((allSets S D).map (·.pos)).Nodup

theorem setsOfSels_mem (S : Schema) (scope : Option String) :
    ∀ (sels : List Selection) (s : Selection), s ∈ sels → ∀ r ∈ setsOfSel S scope s, r ∈ setsOfSels S scope sels
  | [], s, h, _, _ => by simp at h
  | x :: rest, s, h, r, hr => by
    simp only [List.mem_cons] at h
    simp only [setsOfSels, List.mem_append]
    rcases h with rfl | h
    · exact Or.inl hr
    · exact Or.inr (setsOfSels_mem S scope rest s h r hr)

theorem setsOfSet_head (S : Schema) (scope : Option String) (ss : SelSet) :
    (⟨scope, ss.pos, ss.sels⟩ : SetRef) ∈ setsOfSet S scope ss := by
  cases ss with
  | mk sels p => simp [setsOfSet, SelSet.pos, SelSet.sels]

/-- The sets nested directly in a set of the table are in the table. -/
def ChildrenIn (S : Schema) (T : List SetRef) (r : SetRef) : Prop :=
  (∀ al n np args dirs ss, Selection.field al n np args dirs (some ss) ∈ r.sels →
      (⟨Model.innerScope S r.scope n, ss.pos, ss.sels⟩ : SetRef) ∈ T) ∧
  (∀ tc dirs ss p, Selection.inline tc dirs ss p ∈ r.sels →
      (⟨Model.inlineScope S r.scope tc, ss.pos, ss.sels⟩ : SetRef) ∈ T)

mutual
theorem children_sel (S : Schema) : ∀ (scope : Option String) (sel : Selection),
    ∀ r ∈ setsOfSel S scope sel, ChildrenIn S (setsOfSel S scope sel) r
  | scope, .field _ _ _ _ _ none, r, h => by simp [setsOfSel] at h
  | scope, .field _ n _ _ _ (some ss), r, h => by
    simp only [setsOfSel] at h ⊢
    exact children_set S _ ss r h
  | scope, .spread .., r, h => by simp [setsOfSel] at h
  | scope, .inline tc _ ss _, r, h => by
    simp only [setsOfSel] at h ⊢
    exact children_set S _ ss r h
theorem children_set (S : Schema) : ∀ (scope : Option String) (ss : SelSet),
    ∀ r ∈ setsOfSet S scope ss, ChildrenIn S (setsOfSet S scope ss) r
  | scope, .mk sels p, r, h => by
    simp only [setsOfSet, List.mem_cons] at h ⊢
    rcases h with rfl | h
    · constructor
      · intro al n np args dirs ss hs
        refine List.mem_cons_of_mem _ (setsOfSels_mem S scope sels _ hs _ ?_)
        simp only [setsOfSel]
        exact setsOfSet_head S _ ss
      · intro tc dirs ss q hs
        refine List.mem_cons_of_mem _ (setsOfSels_mem S scope sels _ hs _ ?_)
        simp only [setsOfSel]
        exact setsOfSet_head S _ ss
    · obtain ⟨c1, c2⟩ := children_sels S scope sels r h
      exact ⟨fun al n np args dirs ss hs => List.mem_cons_of_mem _ (c1 al n np args dirs ss hs),
        fun tc dirs ss q hs => List.mem_cons_of_mem _ (c2 tc dirs ss q hs)⟩
theorem children_sels (S : Schema) : ∀ (scope : Option String) (sels : List Selection),
    ∀ r ∈ setsOfSels S scope sels, ChildrenIn S (setsOfSels S scope sels) r
  | scope, [], r, h => by simp [setsOfSels] at h
  | scope, s :: rest, r, h => by
    simp only [setsOfSels, List.mem_append] at h ⊢
    rcases h with h | h
    · obtain ⟨c1, c2⟩ := children_sel S scope s r h
      exact ⟨fun al n np args dirs ss hs => List.mem_append_left _ (c1 al n np args dirs ss hs),
        fun tc dirs ss q hs => List.mem_append_left _ (c2 tc dirs ss q hs)⟩
    · obtain ⟨c1, c2⟩ := children_sels S scope rest r h
      exact ⟨fun al n np args dirs ss hs => List.mem_append_right _ (c1 al n np args dirs ss hs),
        fun tc dirs ss q hs => List.mem_append_right _ (c2 tc dirs ss q hs)⟩
end

theorem allSets_children (S : Schema) (D : Document) : ∀ r ∈ allSets S D, ChildrenIn S (allSets S D) r := by
  intro r hr
  unfold allSets at hr ⊢
  simp only [List.mem_flatMap] at hr
  obtain ⟨d, hd, hrd⟩ := hr
  obtain ⟨c1, c2⟩ := children_set S _ _ r hrd
  exact ⟨fun al n np args dirs ss hs => List.mem_flatMap.2 ⟨d, hd, c1 al n np args dirs ss hs⟩,
    fun tc dirs ss q hs => List.mem_flatMap.2 ⟨d, hd, c2 tc dirs ss q hs⟩⟩

/-- The selection set of a fragment found by `fragLast` is in the table, with the scope TypeInfo
    gives fragment definitions. -/
theorem allSets_frag {S : Schema} {D : Document} {n : String} {F : FragInfo} (h : Model.fragLast D n = some F) :
    (⟨Model.namedType S F.tc, F.sel.pos, F.sel.sels⟩ : SetRef) ∈ allSets S D := by
  obtain ⟨hd, _⟩ := fragLast_def h
  unfold allSets
  simp only [List.mem_flatMap]
  exact ⟨_, hd, by simpa [Model.defScope, Model.defSel] using setsOfSet_head S (Model.namedType S F.tc) F.sel⟩

theorem allSets_def {S : Schema} {D : Document} {d : Definition} (hd : d ∈ D) :
    (⟨Model.defScope S d, (Model.defSel d).pos, (Model.defSel d).sels⟩ : SetRef) ∈ allSets S D := by
  unfold allSets
  simp only [List.mem_flatMap]
  exact ⟨d, hd, setsOfSet_head S _ _⟩

/-- Under `PosUnique` the position determines the set. -/
theorem set_of_pos {S : Schema} {D : Document} (hu : PosUnique S D) {r1 r2 : SetRef}
    (h1 : r1 ∈ allSets S D) (h2 : r2 ∈ allSets S D) (hp : r1.pos = r2.pos) : r1 = r2 := by
  unfold PosUnique at hu
  generalize allSets S D = T at *
  induction T with
  | nil => simp at h1
  | cons x rest ih =>
    simp only [List.map_cons, List.nodup_cons, List.mem_map, not_exists, not_and] at hu
    simp only [List.mem_cons] at h1 h2
    rcases h1 with rfl | h1 <;> rcases h2 with rfl | h2
    · rfl
    · exact absurd hp.symm (hu.1 r2 h2)
    · exact absurd hp (hu.1 r1 h1)
    · exact ih hu.2 h1 h2

/-! ## What is collected -/

/-- The `fieldAndParent` entry addFieldSelections appends for a field written in the set at
    position `sp` with scope `scope`. -/
def mkRef (S : Schema) (scope : Option String) (sp : Pos) (al : Option (String × Pos)) (n : String) (np : Pos)
    (args : List Argument) (sel : Option SelSet) : FRef :=
  { rname := responseName al n, alias := al, name := n, npos := np, args := args, sel := sel,
    inner := Model.innerScope S scope n, setPos := sp, setType := scope,
    fdef := Model.fieldDefinition S scope n }

/-- The fields reachable from a selection list through inline fragments and fragment spreads. -/
inductive Collects (S : Schema) (D : Document) : Option String → Pos → List Selection → FRef → Prop where
  | field {scope sp sels al n np args dirs sub} :
      Selection.field al n np args dirs sub ∈ sels → Collects S D scope sp sels (mkRef S scope sp al n np args sub)
  | inline {scope sp sels tc dirs ss p f} :
      Selection.inline tc dirs ss p ∈ sels → Collects S D (Model.inlineScope S scope tc) ss.pos ss.sels f →
      Collects S D scope sp sels f
  | spread {scope sp sels n np dirs p F f} :
      Selection.spread n np dirs p ∈ sels → Model.fragLast D n = some F →
      Collects S D (Model.namedType S F.tc) F.sel.pos F.sel.sels f → Collects S D scope sp sels f

theorem Collects.mono {S : Schema} {D : Document} {scope : Option String} {sp : Pos} {l1 l2 : List Selection}
    (h : ∀ s ∈ l1, s ∈ l2) {f : FRef} (hc : Collects S D scope sp l1 f) : Collects S D scope sp l2 f := by
  cases hc with
  | field hm => exact .field (h _ hm)
  | inline hm hr => exact .inline (h _ hm) hr
  | spread hm hf hr => exact .spread (h _ hm) hf hr

/-- One selection of the set `(scope, sp)` has been dealt with: its field is in `acc`, the set it
    leads to has been entered. -/
def HandledSel (S : Schema) (D : Document) (acc : List FRef) (vis : List Pos) (scope : Option String) (sp : Pos) :
    Selection → Prop
  | .field al n np args _ sub => mkRef S scope sp al n np args sub ∈ acc
  | .inline _ _ ss _ => ss.pos ∈ vis
  | .spread n _ _ _ => ∀ F, Model.fragLast D n = some F → F.sel.pos ∈ vis

def Handled (S : Schema) (D : Document) (acc : List FRef) (vis : List Pos) (r : SetRef) : Prop :=
  ∀ s ∈ r.sels, HandledSel S D acc vis r.scope r.pos s

theorem HandledSel.mono {S : Schema} {D : Document} {acc acc' : List FRef} {vis vis' : List Pos}
    (ha : ∀ f ∈ acc, f ∈ acc') (hv : ∀ p ∈ vis, p ∈ vis') {scope : Option String} {sp : Pos} {s : Selection}
    (h : HandledSel S D acc vis scope sp s) : HandledSel S D acc' vis' scope sp s := by
  cases s with
  | field al n np args dirs sub => exact ha _ h
  | inline tc dirs ss p => exact hv _ h
  | spread n np dirs p => exact fun F hF => hv _ (h F hF)

theorem Handled.mono {S : Schema} {D : Document} {acc acc' : List FRef} {vis vis' : List Pos}
    (ha : ∀ f ∈ acc, f ∈ acc') (hv : ∀ p ∈ vis, p ∈ vis') {r : SetRef} (h : Handled S D acc vis r) :
    Handled S D acc' vis' r := fun s hs => (h s hs).mono ha hv

/-- What a successful call of `addSel` guarantees. -/
structure AddInv (S : Schema) (D : Document) (scope : Option String) (sp : Pos) (sels : List Selection)
    (acc : List FRef) (vis : List Pos) (acc' : List FRef) (vis' : List Pos) : Prop where
  visMono : ∀ p ∈ vis, p ∈ vis'
  accMono : ∀ f ∈ acc, f ∈ acc'
  sound : ∀ f ∈ acc', f ∈ acc ∨ Collects S D scope sp sels f
  handled : ∀ s ∈ sels, HandledSel S D acc' vis' scope sp s
  entered : ∀ p ∈ vis', p ∈ vis ∨ ∃ r ∈ allSets S D, r.pos = p ∧ Handled S D acc' vis' r

theorem addSel_inv (S : Schema) (D : Document) :
    ∀ (fuel : Nat) (scope : Option String) (sp : Pos) (sels : List Selection) (acc : List FRef) (vis : List Pos)
      (acc' : List FRef) (vis' : List Pos),
      (∃ r ∈ allSets S D, r.scope = scope ∧ r.pos = sp ∧ ∀ s ∈ sels, s ∈ r.sels) →
      addSel S D fuel scope sp sels acc vis = .ok (acc', vis') →
      AddInv S D scope sp sels acc vis acc' vis' := by
  intro fuel
  induction fuel with
  | zero => intro scope sp sels acc vis acc' vis' _ h; simp [addSel] at h
  | succ fuel ih =>
    intro scope sp sels acc vis acc' vis' hr h
    obtain ⟨r, hrT, hrs, hrp, hsub⟩ := hr
    cases sels with
    | nil =>
      simp only [addSel, Res.ok.injEq, Prod.mk.injEq] at h
      obtain ⟨rfl, rfl⟩ := h
      exact ⟨fun _ h => h, fun _ h => h, fun f hf => Or.inl hf, by simp, fun p hp => Or.inl hp⟩
    | cons s rest =>
      have hrest : ∃ r ∈ allSets S D, r.scope = scope ∧ r.pos = sp ∧ ∀ x ∈ rest, x ∈ r.sels :=
        ⟨r, hrT, hrs, hrp, fun x hx => hsub x (List.mem_cons_of_mem _ hx)⟩
      have hsr : s ∈ r.sels := hsub s (by simp)
      obtain ⟨ch1, ch2⟩ := allSets_children S D r hrT
      cases s with
      | field al n np args dirs sub =>
        simp only [addSel] at h
        have inv := ih scope sp rest _ vis acc' vis' hrest h
        refine ⟨inv.visMono, fun f hf => inv.accMono f (List.mem_append_left _ hf), ?_, ?_, ?_⟩
        · intro f hf
          rcases inv.sound f hf with h1 | h1
          · simp only [List.mem_append, List.mem_singleton] at h1
            rcases h1 with h1 | h1
            · exact Or.inl h1
            · right; rw [h1]; exact .field (List.mem_cons_self ..)
          · exact Or.inr (h1.mono (fun x hx => List.mem_cons_of_mem _ hx))
        · intro x hx
          simp only [List.mem_cons] at hx
          rcases hx with rfl | hx
          · exact inv.accMono _ (by simp [mkRef])
          · exact inv.handled x hx
        · intro p hp
          rcases inv.entered p hp with h1 | h1
          · exact Or.inl h1
          · exact Or.inr h1
      | inline tc dirs ss q =>
        simp only [addSel] at h
        by_cases hv : ss.pos ∈ vis
        · simp only [List.contains_eq_mem, hv, decide_true, if_true] at h
          have inv := ih scope sp rest acc vis acc' vis' hrest h
          refine ⟨inv.visMono, inv.accMono, ?_, ?_, inv.entered⟩
          · intro f hf
            rcases inv.sound f hf with h1 | h1
            · exact Or.inl h1
            · exact Or.inr (h1.mono (fun x hx => List.mem_cons_of_mem _ hx))
          · intro x hx
            simp only [List.mem_cons] at hx
            rcases hx with rfl | hx
            · exact inv.visMono _ hv
            · exact inv.handled x hx
        · simp only [List.contains_eq_mem, hv, decide_false, Bool.false_eq_true, if_false] at h
          have hchild : (⟨Model.inlineScope S r.scope tc, ss.pos, ss.sels⟩ : SetRef) ∈ allSets S D := ch2 tc dirs ss q hsr
          rw [hrs] at hchild
          cases hn : addSel S D fuel (Model.inlineScope S scope tc) ss.pos ss.sels acc (ss.pos :: vis) with
          | err e => rw [hn] at h; simp at h
          | fuelOut => rw [hn] at h; simp at h
          | ok pr =>
            obtain ⟨acc1, vis1⟩ := pr
            rw [hn] at h
            simp only at h
            have inv1 := ih _ _ _ _ _ acc1 vis1 ⟨_, hchild, rfl, rfl, fun x hx => hx⟩ hn
            have inv2 := ih scope sp rest acc1 vis1 acc' vis' hrest h
            have hssvis : ss.pos ∈ vis1 := inv1.visMono _ (by simp)
            refine ⟨fun p hp => inv2.visMono _ (inv1.visMono _ (List.mem_cons_of_mem _ hp)),
              fun f hf => inv2.accMono _ (inv1.accMono _ hf), ?_, ?_, ?_⟩
            · intro f hf
              rcases inv2.sound f hf with h1 | h1
              · rcases inv1.sound f h1 with h2 | h2
                · exact Or.inl h2
                · exact Or.inr (.inline (List.mem_cons_self ..) h2)
              · exact Or.inr (h1.mono (fun x hx => List.mem_cons_of_mem _ hx))
            · intro x hx
              simp only [List.mem_cons] at hx
              rcases hx with rfl | hx
              · exact inv2.visMono _ hssvis
              · exact inv2.handled x hx
            · intro p hp
              rcases inv2.entered p hp with h1 | h1
              · rcases inv1.entered p h1 with h2 | ⟨r2, hr2, hp2, hh2⟩
                · simp only [List.mem_cons] at h2
                  rcases h2 with rfl | h2
                  · -- the inline set itself: entered by this call
                    refine Or.inr ⟨_, hchild, rfl, ?_⟩
                    intro x hx
                    exact (inv1.handled x hx).mono inv2.accMono inv2.visMono
                  · exact Or.inl h2
                · exact Or.inr ⟨r2, hr2, hp2, hh2.mono inv2.accMono inv2.visMono⟩
              · exact Or.inr h1
      | spread n np dirs q =>
        simp only [addSel] at h
        cases hF : Model.fragLast D n with
        | none => rw [hF] at h; simp at h
        | some F =>
          rw [hF] at h
          simp only at h
          have hchild : (⟨Model.namedType S F.tc, F.sel.pos, F.sel.sels⟩ : SetRef) ∈ allSets S D := allSets_frag hF
          by_cases hv : F.sel.pos ∈ vis
          · simp only [List.contains_eq_mem, hv, decide_true, if_true] at h
            have inv := ih scope sp rest acc vis acc' vis' hrest h
            refine ⟨inv.visMono, inv.accMono, ?_, ?_, inv.entered⟩
            · intro f hf
              rcases inv.sound f hf with h1 | h1
              · exact Or.inl h1
              · exact Or.inr (h1.mono (fun x hx => List.mem_cons_of_mem _ hx))
            · intro x hx
              simp only [List.mem_cons] at hx
              rcases hx with rfl | hx
              · intro F' hF'
                rw [hF] at hF'
                simp only [Option.some.injEq] at hF'
                subst hF'
                exact inv.visMono _ hv
              · exact inv.handled x hx
          · simp only [List.contains_eq_mem, hv, decide_false, Bool.false_eq_true, if_false] at h
            cases hn : addSel S D fuel (Model.namedType S F.tc) F.sel.pos F.sel.sels acc (F.sel.pos :: vis) with
            | err e => rw [hn] at h; simp at h
            | fuelOut => rw [hn] at h; simp at h
            | ok pr =>
              obtain ⟨acc1, vis1⟩ := pr
              rw [hn] at h
              simp only at h
              have inv1 := ih _ _ _ _ _ acc1 vis1 ⟨_, hchild, rfl, rfl, fun x hx => hx⟩ hn
              have inv2 := ih scope sp rest acc1 vis1 acc' vis' hrest h
              have hssvis : F.sel.pos ∈ vis1 := inv1.visMono _ (by simp)
              refine ⟨fun p hp => inv2.visMono _ (inv1.visMono _ (List.mem_cons_of_mem _ hp)),
                fun f hf => inv2.accMono _ (inv1.accMono _ hf), ?_, ?_, ?_⟩
              · intro f hf
                rcases inv2.sound f hf with h1 | h1
                · rcases inv1.sound f h1 with h2 | h2
                  · exact Or.inl h2
                  · exact Or.inr (.spread (List.mem_cons_self ..) hF h2)
                · exact Or.inr (h1.mono (fun x hx => List.mem_cons_of_mem _ hx))
              · intro x hx
                simp only [List.mem_cons] at hx
                rcases hx with rfl | hx
                · intro F' hF'
                  rw [hF] at hF'
                  simp only [Option.some.injEq] at hF'
                  subst hF'
                  exact inv2.visMono _ hssvis
                · exact inv2.handled x hx
              · intro p hp
                rcases inv2.entered p hp with h1 | h1
                · rcases inv1.entered p h1 with h2 | ⟨r2, hr2, hp2, hh2⟩
                  · simp only [List.mem_cons] at h2
                    rcases h2 with rfl | h2
                    · refine Or.inr ⟨_, hchild, rfl, ?_⟩
                      intro x hx
                      exact (inv1.handled x hx).mono inv2.accMono inv2.visMono
                    · exact Or.inl h2
                  · exact Or.inr ⟨r2, hr2, hp2, hh2.mono inv2.accMono inv2.visMono⟩
                · exact Or.inr h1

/-! ## The result of a top-level collection -/

/-- Every visited set is handled at the end of a top-level collection, hence everything
    collectable from a visited set is in the result. -/
theorem collects_in_result {S : Schema} {D : Document} (hu : PosUnique S D) {acc' : List FRef} {vis' : List Pos}
    (hall : ∀ p ∈ vis', ∃ r ∈ allSets S D, r.pos = p ∧ Handled S D acc' vis' r) :
    ∀ {scope : Option String} {sp : Pos} {sels : List Selection} {f : FRef},
      Collects S D scope sp sels f → (⟨scope, sp, sels⟩ : SetRef) ∈ allSets S D → sp ∈ vis' → f ∈ acc' := by
  intro scope sp sels f hc
  induction hc with
  | @field scope sp sels al n np args dirs sub hm =>
    intro hr hv
    obtain ⟨r, hrT, hrp, hh⟩ := hall sp hv
    have : r = ⟨scope, sp, sels⟩ := set_of_pos hu hrT hr hrp
    subst this
    exact hh _ hm
  | @inline scope sp sels tc dirs ss p f hm _ ih =>
    intro hr hv
    obtain ⟨r, hrT, hrp, hh⟩ := hall sp hv
    have : r = ⟨scope, sp, sels⟩ := set_of_pos hu hrT hr hrp
    subst this
    have hvis : ss.pos ∈ vis' := hh _ hm
    exact ih ((allSets_children S D _ hrT).2 tc dirs ss p hm) hvis
  | @spread scope sp sels n np dirs p F f hm hF _ ih =>
    intro hr hv
    obtain ⟨r, hrT, hrp, hh⟩ := hall sp hv
    have : r = ⟨scope, sp, sels⟩ := set_of_pos hu hrT hr hrp
    subst this
    have hvis : F.sel.pos ∈ vis' := hh _ hm F hF
    exact ih (allSets_frag hF) hvis

/-- **What addFieldSelections collects**: exactly the fields reachable from the selection set
    (each field node once or more — the result is compared as a set), on top of what was there. -/
theorem addFieldSelections_mem {S : Schema} {D : Document} (hu : PosUnique S D) {fuel : Nat}
    {scope : Option String} {ss : SelSet} {acc acc' : List FRef}
    (hroot : (⟨scope, ss.pos, ss.sels⟩ : SetRef) ∈ allSets S D)
    (h : addFieldSelections S D fuel scope (some ss) acc = .ok acc') (f : FRef) :
    f ∈ acc' ↔ (f ∈ acc ∨ Collects S D scope ss.pos ss.sels f) := by
  unfold addFieldSelections at h
  simp only at h
  cases hn : addSel S D fuel scope ss.pos ss.sels acc [ss.pos] with
  | err e => rw [hn] at h; simp at h
  | fuelOut => rw [hn] at h; simp at h
  | ok pr =>
    obtain ⟨acc1, vis1⟩ := pr
    rw [hn] at h
    simp only [Res.ok.injEq] at h
    subst h
    have inv := addSel_inv S D fuel scope ss.pos ss.sels acc [ss.pos] acc1 vis1
      ⟨_, hroot, rfl, rfl, fun x hx => hx⟩ hn
    constructor
    · exact inv.sound f
    · rintro (hf | hc)
      · exact inv.accMono f hf
      · have hall : ∀ p ∈ vis1, ∃ r ∈ allSets S D, r.pos = p ∧ Handled S D acc1 vis1 r := by
          intro p hp
          rcases inv.entered p hp with h1 | h1
          · simp only [List.mem_singleton] at h1
            subst h1
            exact ⟨_, hroot, rfl, inv.handled⟩
          · exact h1
        exact collects_in_result hu hall hc hroot (inv.visMono _ (by simp))

/-! ## The traversal comes back within its fuel -/

/-- Work left: the selections of the sets not visited yet. -/
def setPot (T : List SetRef) (vis : List Pos) : Nat :=
  ((T.filter (fun r => !vis.contains r.pos)).map (fun r => r.sels.length + 1)).sum

theorem setPot_mono (T : List SetRef) {vis vis' : List Pos} (h : ∀ p ∈ vis, p ∈ vis') : setPot T vis' ≤ setPot T vis := by
  unfold setPot
  induction T with
  | nil => simp
  | cons r rest ih =>
    simp only [List.filter_cons]
    by_cases h1 : r.pos ∈ vis
    · have h2 := h _ h1
      simpa [h1, h2] using ih
    · by_cases h2 : r.pos ∈ vis'
      · simp only [List.contains_eq_mem, h1, h2, decide_false, decide_true, Bool.not_false, Bool.not_true, if_true,
          Bool.false_eq_true, if_false, List.map_cons, List.sum_cons]
        simp only [List.contains_eq_mem] at ih
        omega
      · simp only [List.contains_eq_mem, h1, h2, decide_false, Bool.not_false, if_true, List.map_cons, List.sum_cons]
        simp only [List.contains_eq_mem] at ih
        omega

theorem setPot_enter : ∀ (T : List SetRef) (vis : List Pos) (q : SetRef), (T.map (·.pos)).Nodup → q ∈ T →
    q.pos ∉ vis → setPot T (q.pos :: vis) + (q.sels.length + 1) = setPot T vis
  | [], _, _, _, h, _ => by simp at h
  | r :: rest, vis, q, hnd, hq, hv => by
    simp only [List.map_cons, List.nodup_cons, List.mem_map, not_exists, not_and] at hnd
    simp only [List.mem_cons] at hq
    unfold setPot
    simp only [List.filter_cons, List.contains_eq_mem, List.mem_cons]
    rcases hq with rfl | hq
    · -- the head is the set being entered; no other set has its position
      have hrest : ∀ x ∈ rest, (decide (x.pos = q.pos ∨ x.pos ∈ vis)) = decide (x.pos ∈ vis) := by
        intro x hx
        have : x.pos ≠ q.pos := hnd.1 x hx
        simp [this]
      have hf : rest.filter (fun r => !decide (r.pos = q.pos ∨ r.pos ∈ vis)) = rest.filter (fun r => !decide (r.pos ∈ vis)) := by
        apply List.filter_congr
        intro x hx
        rw [hrest x hx]
      simp only [true_or, decide_true, Bool.not_true, Bool.false_eq_true, if_false, hv, decide_false, Bool.not_false,
        if_true, List.map_cons, List.sum_cons, hf]
      omega
    · have hne : r.pos ≠ q.pos := fun he => hnd.1 q hq he.symm
      have ih := setPot_enter rest vis q hnd.2 hq hv
      unfold setPot at ih
      simp only [List.contains_eq_mem, List.mem_cons] at ih
      by_cases h1 : r.pos ∈ vis
      · simp only [hne, h1, or_true, decide_true, Bool.not_true, Bool.false_eq_true, if_false]
        exact ih
      · simp only [hne, h1, or_self, decide_false, Bool.not_false, if_true, List.map_cons, List.sum_cons]
        omega

/-- The traversal does not run out of fuel when the fuel exceeds the work left. -/
theorem addSel_total (S : Schema) (D : Document) (hu : PosUnique S D) :
    ∀ (fuel : Nat) (scope : Option String) (sp : Pos) (sels : List Selection) (acc : List FRef) (vis : List Pos),
      (∃ r ∈ allSets S D, r.scope = scope ∧ r.pos = sp ∧ ∀ s ∈ sels, s ∈ r.sels) →
      sels.length + 1 + setPot (allSets S D) vis ≤ fuel →
      addSel S D fuel scope sp sels acc vis ≠ .fuelOut := by
  intro fuel
  induction fuel with
  | zero => intro scope sp sels acc vis _ h; omega
  | succ fuel ih =>
    intro scope sp sels acc vis hr hf
    obtain ⟨r, hrT, hrs, hrp, hsub⟩ := hr
    cases sels with
    | nil => simp [addSel]
    | cons s rest =>
      simp only [List.length_cons] at hf
      have hrest : ∃ r ∈ allSets S D, r.scope = scope ∧ r.pos = sp ∧ ∀ x ∈ rest, x ∈ r.sels :=
        ⟨r, hrT, hrs, hrp, fun x hx => hsub x (List.mem_cons_of_mem _ hx)⟩
      have hsr : s ∈ r.sels := hsub s (by simp)
      obtain ⟨ch1, ch2⟩ := allSets_children S D r hrT
      cases s with
      | field al n np args dirs sub =>
        simp only [addSel]
        exact ih scope sp rest _ vis hrest (by omega)
      | inline tc dirs ss q =>
        simp only [addSel]
        by_cases hv : ss.pos ∈ vis
        · simp only [List.contains_eq_mem, hv, decide_true, if_true]
          exact ih scope sp rest acc vis hrest (by omega)
        · simp only [List.contains_eq_mem, hv, decide_false, Bool.false_eq_true, if_false]
          have hchild : (⟨Model.inlineScope S r.scope tc, ss.pos, ss.sels⟩ : SetRef) ∈ allSets S D := ch2 tc dirs ss q hsr
          rw [hrs] at hchild
          have hpe := setPot_enter (allSets S D) vis _ hu hchild hv
          simp only at hpe
          have hne := ih (Model.inlineScope S scope tc) ss.pos ss.sels acc (ss.pos :: vis)
            ⟨_, hchild, rfl, rfl, fun x hx => hx⟩ (by omega)
          cases hn : addSel S D fuel (Model.inlineScope S scope tc) ss.pos ss.sels acc (ss.pos :: vis) with
          | err e => simp
          | fuelOut => exact absurd hn hne
          | ok pr =>
            obtain ⟨acc1, vis1⟩ := pr
            simp only
            have inv1 := addSel_inv S D fuel _ _ _ _ _ acc1 vis1 ⟨_, hchild, rfl, rfl, fun x hx => hx⟩ hn
            have hm := setPot_mono (allSets S D) (vis := vis) (vis' := vis1)
              (fun p hp => inv1.visMono _ (List.mem_cons_of_mem _ hp))
            exact ih scope sp rest acc1 vis1 hrest (by omega)
      | spread n np dirs q =>
        simp only [addSel]
        cases hF : Model.fragLast D n with
        | none => simp
        | some F =>
          simp only
          have hchild : (⟨Model.namedType S F.tc, F.sel.pos, F.sel.sels⟩ : SetRef) ∈ allSets S D := allSets_frag hF
          by_cases hv : F.sel.pos ∈ vis
          · simp only [List.contains_eq_mem, hv, decide_true, if_true]
            exact ih scope sp rest acc vis hrest (by omega)
          · simp only [List.contains_eq_mem, hv, decide_false, Bool.false_eq_true, if_false]
            have hpe := setPot_enter (allSets S D) vis _ hu hchild hv
            simp only at hpe
            have hne := ih (Model.namedType S F.tc) F.sel.pos F.sel.sels acc (F.sel.pos :: vis)
              ⟨_, hchild, rfl, rfl, fun x hx => hx⟩ (by omega)
            cases hn : addSel S D fuel (Model.namedType S F.tc) F.sel.pos F.sel.sels acc (F.sel.pos :: vis) with
            | err e => simp
            | fuelOut => exact absurd hn hne
            | ok pr =>
              obtain ⟨acc1, vis1⟩ := pr
              simp only
              have inv1 := addSel_inv S D fuel _ _ _ _ _ acc1 vis1 ⟨_, hchild, rfl, rfl, fun x hx => hx⟩ hn
              have hm := setPot_mono (allSets S D) (vis := vis) (vis' := vis1)
                (fun p hp => inv1.visMono _ (List.mem_cons_of_mem _ hp))
              exact ih scope sp rest acc1 vis1 hrest (by omega)

/-- Every spread written in a selection set names a fragment (§5.5.2.1 in the table's terms). -/
def SpreadsDefinedT (S : Schema) (D : Document) : Prop :=
  ∀ r ∈ allSets S D, ∀ n np dirs p, Selection.spread n np dirs p ∈ r.sels → (Model.fragLast D n).isSome = true

theorem addSel_noErr (S : Schema) (D : Document) (hd : SpreadsDefinedT S D) :
    ∀ (fuel : Nat) (scope : Option String) (sp : Pos) (sels : List Selection) (acc : List FRef) (vis : List Pos) (e : Err),
      (∃ r ∈ allSets S D, r.scope = scope ∧ r.pos = sp ∧ ∀ s ∈ sels, s ∈ r.sels) →
      addSel S D fuel scope sp sels acc vis ≠ .err e := by
  intro fuel
  induction fuel with
  | zero => intro scope sp sels acc vis e _; simp [addSel]
  | succ fuel ih =>
    intro scope sp sels acc vis e hr
    obtain ⟨r, hrT, hrs, hrp, hsub⟩ := hr
    cases sels with
    | nil => simp [addSel]
    | cons s rest =>
      have hrest : ∃ r ∈ allSets S D, r.scope = scope ∧ r.pos = sp ∧ ∀ x ∈ rest, x ∈ r.sels :=
        ⟨r, hrT, hrs, hrp, fun x hx => hsub x (List.mem_cons_of_mem _ hx)⟩
      have hsr : s ∈ r.sels := hsub s (by simp)
      obtain ⟨ch1, ch2⟩ := allSets_children S D r hrT
      cases s with
      | field al n np args dirs sub =>
        simp only [addSel]
        exact ih scope sp rest _ vis e hrest
      | inline tc dirs ss q =>
        simp only [addSel]
        have hchild : (⟨Model.inlineScope S r.scope tc, ss.pos, ss.sels⟩ : SetRef) ∈ allSets S D := ch2 tc dirs ss q hsr
        rw [hrs] at hchild
        split
        · exact ih scope sp rest acc vis e hrest
        · cases hn : addSel S D fuel (Model.inlineScope S scope tc) ss.pos ss.sels acc (ss.pos :: vis) with
          | err e' => exact absurd hn (ih _ _ _ _ _ e' ⟨_, hchild, rfl, rfl, fun x hx => hx⟩)
          | fuelOut => simp
          | ok pr => exact ih scope sp rest _ _ e hrest
      | spread n np dirs q =>
        simp only [addSel]
        have hdef := hd r hrT n np dirs q hsr
        cases hF : Model.fragLast D n with
        | none => simp [hF] at hdef
        | some F =>
          simp only
          have hchild : (⟨Model.namedType S F.tc, F.sel.pos, F.sel.sels⟩ : SetRef) ∈ allSets S D := allSets_frag hF
          split
          · exact ih scope sp rest acc vis e hrest
          · cases hn : addSel S D fuel (Model.namedType S F.tc) F.sel.pos F.sel.sels acc (F.sel.pos :: vis) with
            | err e' => exact absurd hn (ih _ _ _ _ _ e' ⟨_, hchild, rfl, rfl, fun x hx => hx⟩)
            | fuelOut => simp
            | ok pr => exact ih scope sp rest _ _ e hrest

def setWeight (r : SetRef) : Nat := r.sels.length + 1

mutual
theorem weight_sel (S : Schema) : ∀ (scope : Option String) (sel : Selection),
    ((setsOfSel S scope sel).map setWeight).sum + 1 = Model.sizeSel sel
  | scope, .field _ _ _ _ _ none => by simp [setsOfSel, Model.sizeSel]
  | scope, .field _ n _ _ _ (some ss) => by
    have := weight_set S (Model.innerScope S scope n) ss
    simp only [setsOfSel, Model.sizeSel]; omega
  | scope, .spread .. => by simp [setsOfSel, Model.sizeSel]
  | scope, .inline tc _ ss _ => by
    have := weight_set S (Model.inlineScope S scope tc) ss
    simp only [setsOfSel, Model.sizeSel]; omega
theorem weight_set (S : Schema) : ∀ (scope : Option String) (ss : SelSet),
    ((setsOfSet S scope ss).map setWeight).sum = Model.sizeSet ss
  | scope, .mk sels p => by
    have := weight_sels S scope sels
    simp only [setsOfSet, Model.sizeSet, List.map_cons, List.sum_cons, setWeight]; omega
theorem weight_sels (S : Schema) : ∀ (scope : Option String) (sels : List Selection),
    ((setsOfSels S scope sels).map setWeight).sum + sels.length = Model.sizeSels sels
  | scope, [] => by simp [setsOfSels, Model.sizeSels]
  | scope, s :: rest => by
    have h1 := weight_sel S scope s
    have h2 := weight_sels S scope rest
    simp only [setsOfSels, Model.sizeSels, List.map_append, List.sum_append, List.length_cons]; omega
end

theorem weight_all (S : Schema) (D : Document) : ((allSets S D).map setWeight).sum ≤ Model.docSize D := by
  unfold allSets Model.docSize
  induction D with
  | nil => simp
  | cons d rest ih =>
    simp only [List.flatMap_cons, List.map_append, List.sum_append, List.map_cons, List.sum_cons, weight_set]
    omega

theorem le_sum_of_mem {α : Type} (l : List α) (w : α → Nat) (x : α) (h : x ∈ l) : w x ≤ (l.map w).sum := by
  induction l with
  | nil => simp at h
  | cons y rest ih =>
    simp only [List.mem_cons] at h
    simp only [List.map_cons, List.sum_cons]
    rcases h with rfl | h
    · omega
    · have := ih h; omega

theorem setPot_le (T : List SetRef) (vis : List Pos) : setPot T vis ≤ (T.map setWeight).sum := by
  unfold setPot
  induction T with
  | nil => simp
  | cons r rest ih =>
    simp only [List.filter_cons, List.map_cons, List.sum_cons]
    split
    · simp only [List.map_cons, List.sum_cons, setWeight]; omega
    · simp only [setWeight]; omega

/-- **addFieldSelections succeeds** on the selection sets of a document with unique positions and
    defined spread targets, with the fuel the pipeline gives it. -/
theorem addFieldSelections_ok {S : Schema} {D : Document} (hu : PosUnique S D) (hd : SpreadsDefinedT S D)
    {scope : Option String} {ss : SelSet} (hroot : (⟨scope, ss.pos, ss.sels⟩ : SetRef) ∈ allSets S D)
    (acc : List FRef) : ∃ acc', addFieldSelections S D (Model.fuelFor D) scope (some ss) acc = .ok acc' := by
  unfold addFieldSelections
  simp only
  have hr : ∃ r ∈ allSets S D, r.scope = scope ∧ r.pos = ss.pos ∧ ∀ s ∈ ss.sels, s ∈ r.sels :=
    ⟨_, hroot, rfl, rfl, fun x hx => hx⟩
  have h1 := le_sum_of_mem (allSets S D) setWeight _ hroot
  have h2 := setPot_le (allSets S D) [ss.pos]
  have h3 := weight_all S D
  simp only [setWeight] at h1
  have hne := addSel_total S D hu (Model.fuelFor D) scope ss.pos ss.sels acc [ss.pos] hr (by
    unfold Model.fuelFor; omega)
  cases hn : addSel S D (Model.fuelFor D) scope ss.pos ss.sels acc [ss.pos] with
  | err e => exact absurd hn (addSel_noErr S D hd _ _ _ _ _ _ e hr)
  | fuelOut => exact absurd hn hne
  | ok pr => exact ⟨pr.1, rfl⟩

end ApiFu.C04
