/-
  C04 — part 16: the overlapping-fields pass never runs out of fuel and never reports a secondary
  error (on documents without spread cycles, under `MergeHyp`).
-/
import ApiFu.C04.Merge15

namespace ApiFu.C04
open Spec Model
set_option linter.unusedSimpArgs false
set_option linter.unusedVariables false

/-- The outcome is `ok` or a list of primary errors (not: out of fuel). -/
def GoodAlts : Alts → Prop
  | .ok => True
  | .errs es => ∀ e ∈ es, e.secondary = false
  | .fuelOut => False

theorem goodAlts_single (ps : List Pos) (msg : String) : GoodAlts (.errs [newErrorWithNodes ps msg]) := by
  intro e he
  simp only [List.mem_singleton] at he
  subst he
  rfl

theorem argumentsDiffer_primary {a b : FRef} {e : Err} (hd : argumentsDiffer a b = some e) : e.secondary = false := by
  unfold argumentsDiffer at hd
  split at hd
  · simp only [Option.some.injEq] at hd
    subst hd; rfl
  · obtain ⟨argB, _, hB⟩ := List.exists_of_findSome?_eq_some hd
    simp only at hB
    split at hB
    · simp only [Option.some.injEq] at hB
      subst hB; rfl
    · split at hB
      · simp at hB
      · simp only [Option.some.injEq] at hB
        subst hB; rfl

theorem firstErr_good {α : Type} (f : α → Memo → Alts × Memo) :
    ∀ (xs : List α) (m : Memo), (∀ x ∈ xs, ∀ m, GoodAlts (f x m).1) → GoodAlts (Model.firstErr xs m f).1
  | [], m, _ => by simp [Model.firstErr, GoodAlts]
  | x :: rest, m, h => by
    unfold Model.firstErr
    have hx := h x (by simp) m
    cases hf : f x m with
    | mk alt m1 =>
      rw [hf] at hx
      cases alt with
      | ok => exact firstErr_good f rest m1 (fun y hy => h y (by simp [hy]))
      | errs es => exact hx
      | fuelOut => exact hx

theorem anyOrder_good {α : Type} (f : α → Memo → Alts × Memo) (xs : List α) (m : Memo)
    (h : ∀ x ∈ xs, ∀ m, GoodAlts (f x m).1) : GoodAlts (Model.anyOrder xs m f).1 := by
  unfold Model.anyOrder
  have key : ∀ (xs : List α) (st : Alts × Memo), GoodAlts st.1 → (∀ x ∈ xs, ∀ m, GoodAlts (f x m).1) →
      GoodAlts (xs.foldl (fun (st : Alts × Memo) x =>
        match st.1 with
        | .fuelOut => st
        | acc =>
          match f x st.2 with
          | (.fuelOut, _) => (.fuelOut, st.2)
          | (.ok, m') => (acc, m')
          | (.errs b, _) =>
            (match acc with
             | .errs a => (.errs (a ++ b), st.2)
             | _ => (.errs b, st.2))) st).1 := by
    intro xs
    induction xs with
    | nil => intro st hs _; exact hs
    | cons x rest ih =>
      intro st hs h
      simp only [List.foldl_cons]
      apply ih _ _ (fun y hy => h y (by simp [hy]))
      obtain ⟨acc, m0⟩ := st
      have hx := h x (by simp) m0
      cases hf : f x m0 with
      | mk alt m1 =>
        rw [hf] at hx
        cases acc with
        | fuelOut => exact hs
        | ok =>
          cases alt with
          | fuelOut => exact hx
          | ok => simp [GoodAlts]
          | errs b => exact hx
        | errs a =>
          cases alt with
          | fuelOut => exact hx
          | ok => exact hs
          | errs b =>
            simp only [GoodAlts] at hs hx ⊢
            intro e he
            simp only [List.mem_append] at he
            rcases he with he | he
            · exact hs e he
            · exact hx e he
  exact key xs (.ok, m) (by simp [GoodAlts]) h

theorem shape_good {S : Schema} {D : Document} (h : MergeHyp S D) (hac : Acyclic D) :
    ∀ (fuel : Nat) (m : Memo) (a b : FRef), TField S D a → TField S D b → fmuLt S D a fuel → fmuLt S D b fuel →
      GoodAlts (Model.sameResponseShape S D (Model.fuelFor D) (fuel + 1) m a b).1 := by
  intro fuel
  induction fuel with
  | zero => intro m a b ta _ ka _; exact absurd ka ta.fmu_pos
  | succ fuel ih =>
    intro m a b ta tb ka kb
    unfold Model.sameResponseShape
    cases hv : visitPair m.shape a.pos b.pos with
    | mk seen shape' =>
      cases seen with
      | true => simp [GoodAlts]
      | false =>
        simp only
        rw [shapeType_ok (ta.hasType h).1, shapeType_ok (tb.hasType h).1]
        simp only
        cases hu : unwrapShapes (typeOf a) (typeOf b) with
        | error msg => exact goodAlts_single _ _
        | ok pr =>
          obtain ⟨ua, ub⟩ := pr
          simp only
          by_cases hleaf : (isLeafRef S ua || isLeafRef S ub) = true
          · simp only [hleaf, if_true]
            by_cases he : ua = ub
            · rw [if_pos he]; simp [GoodAlts]
            · rw [if_neg he]; exact goodAlts_single _ _
          · simp only [hleaf, if_false, Bool.false_eq_true]
            obtain ⟨fs1, hfs1, hm1⟩ := sub_collect h ta []
            obtain ⟨fs, hfs, hm2⟩ := sub_collect h tb fs1
            have hmem := subU_of_collect hm1 hm2
            rw [hfs1]
            simp only
            rw [hfs]
            simp only
            apply anyOrder_good
            intro n _ m1
            apply firstErr_good
            intro p hp m2
            obtain ⟨hp1, hp2⟩ := mem_pairs _ p hp
            rw [mem_group] at hp1 hp2
            have hx := (hmem _).1 hp1.1
            have hy := (hmem _).1 hp2.1
            exact ih m2 p.1 p.2 (SubU.tfield ta tb hx) (SubU.tfield ta tb hy)
              (SubU.fmuLt h hac ta tb ka kb hx) (SubU.fmuLt h hac ta tb ka kb hy)

theorem merge_good {S : Schema} {D : Document} (h : MergeHyp S D) (hac : Acyclic D) :
    ∀ (fuel : Nat) (m : Memo) (fs : List FRef), (∀ f ∈ fs, TField S D f ∧ fmuLt S D f fuel) →
      GoodAlts (fieldsInSetCanMerge S D (Model.fuelFor D) (fuel + 1) m fs).1 := by
  intro fuel
  induction fuel using Nat.strongRecOn with
  | _ fuel ih =>
    intro m fs hfs
    unfold fieldsInSetCanMerge
    apply anyOrder_good
    intro n _ m1
    apply firstErr_good
    intro p hp m2
    obtain ⟨hp1, hp2⟩ := mem_pairs _ p hp
    rw [mem_group] at hp1 hp2
    obtain ⟨a, b⟩ := p
    simp only at hp1 hp2 ⊢
    obtain ⟨ta, ka⟩ := hfs a hp1.1
    obtain ⟨tb, kb⟩ := hfs b hp2.1
    cases hv : visitPair m2.merge a.pos b.pos with
    | mk seen merge' =>
      cases seen with
      | true => simp [GoodAlts]
      | false =>
        simp only
        have hsg := shape_good h hac fuel { m2 with merge := merge' } a b ta tb ka kb
        cases hsh : Model.sameResponseShape S D (Model.fuelFor D) (fuel + 1) { m2 with merge := merge' } a b with
        | mk alt mB =>
          rw [hsh] at hsg
          cases alt with
          | errs es => exact hsg
          | fuelOut => exact hsg
          | ok =>
            simp only
            obtain ⟨pa, hpa⟩ := (ta.hasType h).2
            obtain ⟨pb, hpb⟩ := (tb.hasType h).2
            rw [hpa, hpb]
            simp only
            by_cases hc : (pa = pb || !isObjectName S pa || !isObjectName S pb) = true
            · rw [if_pos hc]
              by_cases hn : a.name = b.name
              · have hn' : (a.name != b.name) = false := by simp [hn]
                rw [hn']
                simp only [Bool.false_eq_true, if_false]
                cases hd : argumentsDiffer a b with
                | some e =>
                  simp only
                  intro e' he'
                  simp only [List.mem_singleton] at he'
                  subst he'
                  exact argumentsDiffer_primary hd
                | none =>
                  simp only
                  obtain ⟨fs1, hfs1, hm1⟩ := sub_collect h ta []
                  obtain ⟨merged, hmg, hm2⟩ := sub_collect h tb fs1
                  have hmem := subU_of_collect hm1 hm2
                  rw [hfs1]
                  simp only
                  rw [hmg]
                  simp only
                  cases fuel with
                  | zero => exact absurd ka ta.fmu_pos
                  | succ k =>
                    apply ih k (by omega)
                    intro f hf
                    have hx := (hmem f).1 hf
                    exact ⟨SubU.tfield ta tb hx, SubU.fmuLt h hac ta tb ka kb hx⟩
              · have hn' : (a.name != b.name) = true := by simp [hn]
                rw [hn']
                simp only [if_true]
                exact goodAlts_single _ _
            · rw [if_neg hc]
              simp [GoodAlts]

theorem mergeCheckSet_good {S : Schema} {D : Document} (h : MergeHyp S D) (hac : Acyclic D) {r : SetRef}
    (hr : r ∈ allSets S D) :
    GoodAlts (mergeCheckSet S D (Model.fuelFor D) (Model.pairFuelFor D) r.scope (.mk r.sels r.pos)) := by
  unfold mergeCheckSet
  have hroot : (⟨r.scope, (SelSet.mk r.sels r.pos).pos, (SelSet.mk r.sels r.pos).sels⟩ : SetRef) ∈ allSets S D := hr
  obtain ⟨fs, hfs⟩ := addFieldSelections_ok h.posU (spreadsDefinedT_of_spec h.spreads) hroot []
  have hmem := addFieldSelections_mem h.posU hroot hfs
  rw [hfs]
  simp only
  have hlt := mu_lt_pairFuel hr
  obtain ⟨k, hk⟩ : ∃ k, Model.pairFuelFor D = k + 1 := ⟨Model.pairFuelFor D - 1, by omega⟩
  rw [hk]
  apply merge_good h hac k {} fs
  intro f hf
  have hc : Collects S D r.scope r.pos r.sels f := by
    rcases (hmem f).1 hf with h1 | h1
    · simp at h1
    · exact h1
  refine ⟨hc.tfield hr, ?_⟩
  obtain ⟨rf, hrf, hpf, hle⟩ := hc.parent_mu hac hr
  intro r' hr' hp'
  have : r' = rf := set_of_pos h.posU hr' hrf (hp'.trans hpf.symm)
  subst this
  have : mu D r' ≤ mu D r := hle
  omega

/-- Fuel left, and every alternative of every reported error is primary. -/
def SlotsPrimary (p : List Slot × Bool) : Prop :=
  p.2 = false ∧ ∀ sl ∈ p.1, ∀ e ∈ sl.alts, e.secondary = false

theorem slotsPrimary_nil : SlotsPrimary ([], false) := ⟨rfl, fun _ h => by simp at h⟩

theorem slotsPrimary_append {a b : List Slot} {fa fb : Bool} (ha : SlotsPrimary (a, fa)) (hb : SlotsPrimary (b, fb)) :
    SlotsPrimary (a ++ b, fa || fb) := by
  obtain ⟨ha1, ha2⟩ := ha
  obtain ⟨hb1, hb2⟩ := hb
  simp only at ha1 hb1 ha2 hb2
  refine ⟨by simp [ha1, hb1], fun sl hsl => ?_⟩
  simp only [List.mem_append] at hsl
  rcases hsl with hsl | hsl
  · exact ha2 sl hsl
  · exact hb2 sl hsl

mutual
theorem mergeSel_good (S : Schema) (D : Document) (cfuel fuel : Nat) : ∀ (scope : Option String) (sel : Selection),
    (∀ r ∈ setsOfSel S scope sel, GoodAlts (mergeCheckSet S D cfuel fuel r.scope (.mk r.sels r.pos))) →
    SlotsPrimary (mergeSel S D cfuel fuel scope sel)
  | scope, .field _ _ _ _ _ none, _ => by simp only [mergeSel]; exact slotsPrimary_nil
  | scope, .field _ n _ _ _ (some ss), h => by
    simp only [mergeSel, setsOfSel] at h ⊢
    exact mergeSet_good S D cfuel fuel _ ss h
  | scope, .spread .., _ => by simp only [mergeSel]; exact slotsPrimary_nil
  | scope, .inline tc _ ss _, h => by
    simp only [mergeSel, setsOfSel] at h ⊢
    exact mergeSet_good S D cfuel fuel _ ss h
theorem mergeSet_good (S : Schema) (D : Document) (cfuel fuel : Nat) : ∀ (scope : Option String) (ss : SelSet),
    (∀ r ∈ setsOfSet S scope ss, GoodAlts (mergeCheckSet S D cfuel fuel r.scope (.mk r.sels r.pos))) →
    SlotsPrimary (mergeSet S D cfuel fuel scope ss)
  | scope, .mk sels p, h => by
    simp only [setsOfSet, List.mem_cons, forall_eq_or_imp] at h
    obtain ⟨h1, h2⟩ := h
    simp only [mergeSet]
    cases hc : mergeCheckSet S D cfuel fuel scope (.mk sels p) with
    | errs alts =>
      simp only
      rw [hc] at h1
      refine ⟨rfl, fun sl hsl => ?_⟩
      simp only [List.mem_singleton] at hsl
      subst hsl
      exact h1
    | fuelOut => rw [hc] at h1; exact h1.elim
    | ok =>
      simp only
      exact mergeSels_good S D cfuel fuel scope sels h2
theorem mergeSels_good (S : Schema) (D : Document) (cfuel fuel : Nat) : ∀ (scope : Option String) (sels : List Selection),
    (∀ r ∈ setsOfSels S scope sels, GoodAlts (mergeCheckSet S D cfuel fuel r.scope (.mk r.sels r.pos))) →
    SlotsPrimary (mergeSels S D cfuel fuel scope sels)
  | scope, [], _ => by simp only [mergeSels]; exact slotsPrimary_nil
  | scope, s :: rest, h => by
    simp only [setsOfSels, List.mem_append] at h
    simp only [mergeSels]
    have h1 := mergeSel_good S D cfuel fuel scope s (fun r hr => h r (Or.inl hr))
    have h2 := mergeSels_good S D cfuel fuel scope rest (fun r hr => h r (Or.inr hr))
    cases hs : mergeSel S D cfuel fuel scope s with
    | mk a fa =>
      cases hr : mergeSels S D cfuel fuel scope rest with
      | mk b fb =>
        rw [hs] at h1
        rw [hr] at h2
        exact slotsPrimary_append h1 h2
end

/-- **The overlapping-fields pass never runs out of fuel and reports primary errors only** (on a
    document without spread cycles, under `MergeHyp`). -/
theorem validateFields2_good {S : Schema} {D : Document} (h : MergeHyp S D) (hac : Acyclic D) :
    SlotsPrimary (validateFields2 S D (Model.fuelFor D) (Model.pairFuelFor D)) := by
  unfold validateFields2
  have key : ∀ (E : Document) (acc : List Slot × Bool), SlotsPrimary acc → (∀ d ∈ E, d ∈ D) →
      SlotsPrimary (E.foldl (fun (acc : List Slot × Bool) d =>
        let (a, fa) := mergeSet S D (Model.fuelFor D) (Model.pairFuelFor D) (defScope S d) (defSel d)
        (acc.1 ++ a, acc.2 || fa)) acc) := by
    intro E
    induction E with
    | nil => intro acc ha _; exact ha
    | cons d rest ih =>
      intro acc ha hsub
      simp only [List.foldl_cons]
      apply ih _ _ (fun x hx => hsub x (by simp [hx]))
      have hd : d ∈ D := hsub d (by simp)
      have hg := mergeSet_good S D (Model.fuelFor D) (Model.pairFuelFor D) (defScope S d) (defSel d)
        (fun r hr => mergeCheckSet_good h hac (by
          unfold allSets
          exact List.mem_flatMap.2 ⟨d, hd, hr⟩))
      cases hm : mergeSet S D (Model.fuelFor D) (Model.pairFuelFor D) (defScope S d) (defSel d) with
      | mk a fa =>
        rw [hm] at hg
        obtain ⟨a1, a2⟩ := acc
        exact slotsPrimary_append ha hg
  exact key D ([], false) slotsPrimary_nil (fun _ h => h)

end ApiFu.C04
