import ApiFu.C04.Props
namespace ApiFu.C04
open Spec Model
set_option linter.unusedSimpArgs false
set_option linter.unusedVariables false

/-! # Passes of the model that only ever emit primary errors -/

/-! ## validate_operations.go -/

theorem operationLoopErrors_allPrimary (S : Schema) (seen : List String) (D : List Definition) :
    AllPrimary (Model.operationLoopErrors S seen D) := by
  induction D generalizing seen with
  | nil => simp only [Model.operationLoopErrors]; exact allPrimary_nil
  | cons d rest ih =>
    cases d with
    | frag n np tc tcp dirs sel p =>
      simp only [Model.operationLoopErrors]
      exact ih seen
    | op kind name vars dirs sel =>
      simp only [Model.operationLoopErrors]
      refine allPrimary_append (allPrimary_append ?_ ?_) (ih _)
      · cases name with
        | none => exact allPrimary_nil
        | some np =>
          obtain ⟨n, p⟩ := np
          simp only
          split
          · exact allPrimary_single _ _
          · exact allPrimary_nil
      · split
        · exact allPrimary_single _ _
        · exact allPrimary_nil

theorem loneAnonymousErrors_allPrimary (D : Document) : AllPrimary (Model.loneAnonymousErrors D) := by
  unfold Model.loneAnonymousErrors
  split
  · split
    · exact allPrimary_single _ _
    · exact allPrimary_nil
  · exact allPrimary_nil

/-! ## validate_fragments.go — declarations -/

theorem typeConditionErrors_allPrimary (S : Schema) (tc : String) (p : Pos) :
    AllPrimary (Model.typeConditionErrors S tc p) := by
  unfold Model.typeConditionErrors
  split
  · exact allPrimary_single _ _
  · split
    · exact allPrimary_nil
    · exact allPrimary_single _ _

theorem fragDeclLoop_allPrimary (S : Schema) (seen : List String) (fs : List FragInfo) :
    AllPrimary (Model.fragDeclLoop S seen fs) := by
  induction fs generalizing seen with
  | nil => simp only [Model.fragDeclLoop]; exact allPrimary_nil
  | cons f rest ih =>
    simp only [Model.fragDeclLoop]
    refine allPrimary_append (allPrimary_append ?_ (typeConditionErrors_allPrimary S _ _)) (ih _)
    split
    · exact allPrimary_single _ _
    · exact allPrimary_nil

mutual
theorem inlineCondSel_allPrimary (S : Schema) : ∀ (sel : Selection), AllPrimary (Model.inlineCondSel S sel)
  | .field al n np args dirs none => by simp only [Model.inlineCondSel]; exact allPrimary_nil
  | .field al n np args dirs (some ss) => by
    simp only [Model.inlineCondSel]; exact inlineCondSet_allPrimary S ss
  | .spread n np dirs p => by simp only [Model.inlineCondSel]; exact allPrimary_nil
  | .inline none dirs ss p => by
    simp only [Model.inlineCondSel]; exact inlineCondSet_allPrimary S ss
  | .inline (some (t, tp)) dirs ss p => by
    simp only [Model.inlineCondSel]
    exact allPrimary_append (typeConditionErrors_allPrimary S t tp) (inlineCondSet_allPrimary S ss)
theorem inlineCondSet_allPrimary (S : Schema) : ∀ (ss : SelSet), AllPrimary (Model.inlineCondSet S ss)
  | .mk sels p => by simp only [Model.inlineCondSet]; exact inlineCondSels_allPrimary S sels
theorem inlineCondSels_allPrimary (S : Schema) : ∀ (sels : List Selection), AllPrimary (Model.inlineCondSels S sels)
  | [] => by simp only [Model.inlineCondSels]; exact allPrimary_nil
  | s :: rest => by
    simp only [Model.inlineCondSels]
    exact allPrimary_append (inlineCondSel_allPrimary S s) (inlineCondSels_allPrimary S rest)
end

theorem validateFragmentDeclarations_allPrimary (S : Schema) (D : Document) :
    AllPrimary (Model.validateFragmentDeclarations S D) := by
  unfold Model.validateFragmentDeclarations
  refine allPrimary_append (allPrimary_append (fragDeclLoop_allPrimary S _ _) ?_) ?_
  · apply allPrimary_flatMap
    intro d _
    exact inlineCondSet_allPrimary S _
  · apply allPrimary_flatMap
    intro f _
    split
    · exact allPrimary_nil
    · exact allPrimary_single _ _

/-! ## validate_directives.go -/

theorem checkDirectivesFrom_allPrimary (S : Schema) (location : String) (seen : List String)
    (dirs : List Directive) : AllPrimary (Model.checkDirectivesFrom S location seen dirs) := by
  induction dirs generalizing seen with
  | nil => simp only [Model.checkDirectivesFrom]; exact allPrimary_nil
  | cons d rest ih =>
    simp only [Model.checkDirectivesFrom]
    refine allPrimary_append (allPrimary_append ?_ ?_) (ih _)
    · split
      · exact allPrimary_single _ _
      · split
        · exact allPrimary_nil
        · exact allPrimary_single _ _
    · split
      · exact allPrimary_single _ _
      · exact allPrimary_nil

theorem checkDirectives_allPrimary (S : Schema) (location : String) (dirs : List Directive) :
    AllPrimary (Model.checkDirectives S location dirs) := by
  unfold Model.checkDirectives
  exact checkDirectivesFrom_allPrimary S location [] dirs

mutual
theorem dirsSel_allPrimary (S : Schema) : ∀ (sel : Selection), AllPrimary (Model.dirsSel S sel)
  | .field al n np args dirs none => by
    simp only [Model.dirsSel]
    exact allPrimary_append (checkDirectives_allPrimary S _ _) allPrimary_nil
  | .field al n np args dirs (some ss) => by
    simp only [Model.dirsSel]
    exact allPrimary_append (checkDirectives_allPrimary S _ _) (dirsSet_allPrimary S ss)
  | .spread n np dirs p => by
    simp only [Model.dirsSel]; exact checkDirectives_allPrimary S _ _
  | .inline tc dirs ss p => by
    simp only [Model.dirsSel]
    exact allPrimary_append (checkDirectives_allPrimary S _ _) (dirsSet_allPrimary S ss)
theorem dirsSet_allPrimary (S : Schema) : ∀ (ss : SelSet), AllPrimary (Model.dirsSet S ss)
  | .mk sels p => by simp only [Model.dirsSet]; exact dirsSels_allPrimary S sels
theorem dirsSels_allPrimary (S : Schema) : ∀ (sels : List Selection), AllPrimary (Model.dirsSels S sels)
  | [] => by simp only [Model.dirsSels]; exact allPrimary_nil
  | s :: rest => by
    simp only [Model.dirsSels]
    exact allPrimary_append (dirsSel_allPrimary S s) (dirsSels_allPrimary S rest)
end

theorem validateDirectives_allPrimary (S : Schema) (D : Document) :
    AllPrimary (Model.validateDirectives S D) := by
  unfold Model.validateDirectives
  apply allPrimary_flatMap
  intro d _
  cases d with
  | op kind name vars dirs sel =>
    exact allPrimary_append (checkDirectives_allPrimary S _ _) (dirsSet_allPrimary S _)
  | frag n np tc tcp dirs sel p =>
    exact allPrimary_append (checkDirectives_allPrimary S _ _) (dirsSet_allPrimary S _)

/-! ## validate_fragments.go — the cycle search -/

theorem cycleLoop_allPrimary (D : Document) : ∀ (names : List String),
    AllPrimary (Model.cycleLoop D names).1 ∧ (Model.cycleLoop D names).2 = false
  | [] => by
    exact ⟨by simp only [Model.cycleLoop]; exact allPrimary_nil, by simp only [Model.cycleLoop]⟩
  | n :: rest => by
    have ih := cycleLoop_allPrimary D rest
    obtain ⟨b, hb, _⟩ := cycleSearch_start D n
    unfold Model.cycleLoop
    cases hl : Model.cycleLoop D rest with
    | mk r fo =>
      rw [hl] at ih
      simp only at ih
      simp only [hb]
      cases b with
      | true =>
        cases hf : Model.fragLast D n with
        | none => exact ih
        | some f =>
          refine ⟨?_, ih.2⟩
          have : AllPrimary ([newError f.pos "fragment cycle detected"] ++ r) :=
            allPrimary_append (allPrimary_single _ _) ih.1
          simpa using this
      | false => exact ih

theorem fragmentCycleErrors_allPrimary (D : Document) : AllPrimary (Model.fragmentCycleErrors D).1 :=
  (cycleLoop_allPrimary D _).1

/-- the cycle search never runs out of its fuel -/
theorem fragmentCycleErrors_total (D : Document) : (Model.fragmentCycleErrors D).2 = false :=
  (cycleLoop_allPrimary D _).2

end ApiFu.C04
