/-
  C04 — wire format between the Go harness (which parses the document with the real parser and
  describes the real schema object) and the Lean driver. Decoding only; total (`none` on junk).

  pos      := "L:C"                                   (one atom)
  value    := (var n P) | (int lit P) | (float lit P) | (str s P) | (bool true|false P) | (null P)
            | (enum n P) | (list P v…) | (obj P (n P v)…)
  arg      := (n P value)
  dir      := (n P arg…)
  sel      := (field (alias P)|- n P (arg…) (dir…) selset|-)
            | (spread n P Pellipsis (dir…))
            | (inline (tc P)|- Pellipsis (dir…) selset)
  selset   := (ss P sel…)
  texpr    := (named n P) | (listt P texpr) | (nonnull texpr)
  vardef   := (n Pdollar Pname texpr value|-)
  def      := (op (kind P)|- (name P)|- (vardef…) (dir…) selset)
            | (frag n P tc Ptc Pfragment (dir…) selset)
  doc      := (doc def…)

  tref     := n | (list tref) | (nn tref)
  inputdef := (n tref none|null|value)
  fielddef := (n tref (inputdef…))
  type     := (scalar n Int|Float|String|Boolean|ID|(custom kind…)) | (object n (fielddef…) (iface…))
            | (interface n (fielddef…)) | (union n (member…)) | (enum n (value…)) | (input n (inputdef…))
  dirdef   := (n (loc…) (inputdef…))
  schema   := (schema Q M|- S|- (type…) (dirdef…) (fielddef…))
-/
import ApiFu.Common.Sexp
import ApiFu.C04.Ast

namespace ApiFu.C04.Wire
open ApiFu

def pos? : Sexp → Option Pos
  | .atom s =>
    match s.splitOn ":" with
    | [l, c] =>
      match l.toNat?, c.toNat? with
      | some l, some c => some ⟨l, c⟩
      | _, _ => none
    | _ => none
  | _ => none

def mapM? {α β : Type} (f : α → Option β) : List α → Option (List β)
  | [] => some []
  | x :: xs =>
    match f x, mapM? f xs with
    | some y, some ys => some (y :: ys)
    | _, _ => none

partial def value? : Sexp → Option Value
  | .list [.atom "var", .atom n, p] => (pos? p).map (.var n)
  | .list [.atom "int", .atom n, p] => (pos? p).map (.int n)
  | .list [.atom "float", .atom n, p] => (pos? p).map (.float n)
  | .list [.atom "str", .atom n, p] => (pos? p).map (.str n)
  | .list [.atom "bool", .atom b, p] => (pos? p).map (.bool (b == "true"))
  | .list [.atom "null", p] => (pos? p).map .null
  | .list [.atom "enum", .atom n, p] => (pos? p).map (.enum n)
  | .list (.atom "list" :: p :: items) =>
    match pos? p, mapM? value? items with
    | some p, some vs => some (.list vs p)
    | _, _ => none
  | .list (.atom "obj" :: p :: fields) =>
    match pos? p, mapM? (fun
        | .list [.atom n, fp, v] =>
          (match pos? fp, value? v with
           | some fp, some v => some (ObjField.mk n fp v)
           | _, _ => none)
        | _ => none) fields with
    | some p, some fs => some (.obj fs p)
    | _, _ => none
  | _ => none

def arg? : Sexp → Option Argument
  | .list [.atom n, p, v] =>
    match pos? p, value? v with
    | some p, some v => some { name := n, pos := p, value := v }
    | _, _ => none
  | _ => none

def dir? : Sexp → Option Directive
  | .list (.atom n :: p :: args) =>
    match pos? p, mapM? arg? args with
    | some p, some args => some { name := n, pos := p, args := args }
    | _, _ => none
  | _ => none

def named? : Sexp → Option (Option (String × Pos))
  | .atom "-" => some none
  | .list [.atom n, p] => (pos? p).map fun p => some (n, p)
  | _ => none

mutual
partial def sel? : Sexp → Option Selection
  | .list [.atom "field", al, .atom n, np, .list args, .list dirs, ss] =>
    match named? al, pos? np, mapM? arg? args, mapM? dir? dirs with
    | some al, some np, some args, some dirs =>
      (match ss with
       | .atom "-" => some (.field al n np args dirs none)
       | _ => (selset? ss).map fun ss => .field al n np args dirs (some ss))
    | _, _, _, _ => none
  | .list [.atom "spread", .atom n, np, p, .list dirs] =>
    match pos? np, pos? p, mapM? dir? dirs with
    | some np, some p, some dirs => some (.spread n np dirs p)
    | _, _, _ => none
  | .list [.atom "inline", tc, p, .list dirs, ss] =>
    match named? tc, pos? p, mapM? dir? dirs, selset? ss with
    | some tc, some p, some dirs, some ss => some (.inline tc dirs ss p)
    | _, _, _, _ => none
  | _ => none
partial def selset? : Sexp → Option SelSet
  | .list (.atom "ss" :: p :: sels) =>
    match pos? p, mapM? sel? sels with
    | some p, some sels => some (.mk sels p)
    | _, _ => none
  | _ => none
end

partial def texpr? : Sexp → Option TypeExpr
  | .list [.atom "named", .atom n, p] => (pos? p).map (.named n)
  | .list [.atom "listt", p, t] =>
    match pos? p, texpr? t with
    | some p, some t => some (.list t p)
    | _, _ => none
  | .list [.atom "nonnull", t] => (texpr? t).map .nonNull
  | _ => none

def vardef? : Sexp → Option VarDef
  | .list [.atom n, p, np, t, d] =>
    match pos? p, pos? np, texpr? t with
    | some p, some np, some t =>
      (match d with
       | .atom "-" => some { name := n, pos := p, npos := np, type := t, dflt := none }
       | _ => (value? d).map fun v => { name := n, pos := p, npos := np, type := t, dflt := some v })
    | _, _, _ => none
  | _ => none

def opKind? : Sexp → Option (Option (OpKind × Pos))
  | .atom "-" => some none
  | .list [.atom k, p] =>
    match pos? p with
    | some p =>
      if k == "query" then some (some (.query, p))
      else if k == "mutation" then some (some (.mutation, p))
      else if k == "subscription" then some (some (.subscription, p))
      else none
    | none => none
  | _ => none

def def? : Sexp → Option Definition
  | .list [.atom "op", k, n, .list vars, .list dirs, ss] =>
    match opKind? k, named? n, mapM? vardef? vars, mapM? dir? dirs, selset? ss with
    | some k, some n, some vars, some dirs, some ss => some (.op k n vars dirs ss)
    | _, _, _, _, _ => none
  | .list [.atom "frag", .atom n, np, .atom tc, tcp, p, .list dirs, ss] =>
    match pos? np, pos? tcp, pos? p, mapM? dir? dirs, selset? ss with
    | some np, some tcp, some p, some dirs, some ss => some (.frag n np tc tcp dirs ss p)
    | _, _, _, _, _ => none
  | _ => none

def doc? : Sexp → Option Document
  | .list (.atom "doc" :: defs) => mapM? def? defs
  | _ => none

/-! ### schema -/

partial def tref? : Sexp → Option TRef
  | .atom n => some (.named n)
  | .list [.atom "list", t] => (tref? t).map .list
  | .list [.atom "nn", t] => (tref? t).map .nonNull
  | _ => none

def inputdef? : Sexp → Option InputDef
  | .list [.atom n, t, .atom d] =>
    match tref? t with
    | some t =>
      if d == "none" then some { name := n, type := t, dflt := .none }
      else if d == "null" then some { name := n, type := t, dflt := .null }
      else if d == "value" then some { name := n, type := t, dflt := .value }
      else none
    | none => none
  | _ => none

def fielddef? : Sexp → Option FieldDef
  | .list [.atom n, t, .list args] =>
    match tref? t, mapM? inputdef? args with
    | some t, some args => some { name := n, type := t, args := args }
    | _, _ => none
  | _ => none

def atoms? (xs : List Sexp) : Option (List String) := mapM? Sexp.atom? xs

def scalarSpec? : Sexp → Option ScalarSpec
  | .atom "Int" => some .int
  | .atom "Float" => some .float
  | .atom "String" => some .string
  | .atom "Boolean" => some .boolean
  | .atom "ID" => some .id
  | .list (.atom "custom" :: ks) => (atoms? ks).map .custom
  | _ => none

def typedef? : Sexp → Option TypeDef
  | .list [.atom "scalar", .atom n, s] => (scalarSpec? s).map fun s => { name := n, kind := .scalar s }
  | .list [.atom "object", .atom n, .list fs, .list ifs] =>
    match mapM? fielddef? fs, atoms? ifs with
    | some fs, some ifs => some { name := n, kind := .object fs ifs }
    | _, _ => none
  | .list [.atom "interface", .atom n, .list fs] =>
    (mapM? fielddef? fs).map fun fs => { name := n, kind := .interface fs }
  | .list [.atom "union", .atom n, .list ms] => (atoms? ms).map fun ms => { name := n, kind := .union ms }
  | .list [.atom "enum", .atom n, .list vs] => (atoms? vs).map fun vs => { name := n, kind := .enum vs }
  | .list [.atom "input", .atom n, .list fs] =>
    (mapM? inputdef? fs).map fun fs => { name := n, kind := .input fs }
  | _ => none

def dirdef? : Sexp → Option DirDef
  | .list [.atom n, .list locs, .list args] =>
    match atoms? locs, mapM? inputdef? args with
    | some locs, some args => some { name := n, locs := locs, args := args }
    | _, _ => none
  | _ => none

def optName? : Sexp → Option (Option String)
  | .atom "-" => some none
  | .atom n => some (some n)
  | _ => none

def schema? : Sexp → Option Schema
  | .list [.atom "schema", .atom q, m, s, .list types, .list dirs, .list metas] =>
    match optName? m, optName? s, mapM? typedef? types, mapM? dirdef? dirs, mapM? fielddef? metas with
    | some m, some s, some types, some dirs, some metas =>
      some { types := types, query := q, mutation := m, subscription := s, directives := dirs,
             metaFields := metas }
    | _, _, _, _, _ => none
  | _ => none

end ApiFu.C04.Wire
