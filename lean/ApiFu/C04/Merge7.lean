/-
  C04 — part 7: the overlapping-fields rule, relationally. A violation is a finite witness: a pair
  of same-named fields with a local conflict, or with a conflicting pair among the fields their
  sub-selections reach.
-/
import ApiFu.C04.Merge6

namespace ApiFu.C04
open Spec Model
set_option linter.unusedSimpArgs false
set_option linter.unusedVariables false

/-! ## Fields of the table -/

/-- `f` is the entry of a field written in a selection set of the document. -/
def TField (S : Schema) (D : Document) (f : FRef) : Prop :=
  ∃ r ∈ allSets S D, ∃ al n np args dirs sub,
    Selection.field al n np args dirs sub ∈ r.sels ∧ f = mkRef S r.scope r.pos al n np args sub

theorem Collects.tfield {S : Schema} {D : Document} {scope : Option String} {sp : Pos} {sels : List Selection} {f : FRef}
    (hc : Collects S D scope sp sels f) : (⟨scope, sp, sels⟩ : SetRef) ∈ allSets S D → TField S D f := by
  induction hc with
  | @field scope sp sels al n np args dirs sub hm => intro hr; exact ⟨_, hr, al, n, np, args, dirs, sub, hm, rfl⟩
  | @inline scope sp sels tc dirs ss p f hm _ ih => intro hr; exact ih ((allSets_children S D _ hr).2 tc dirs ss p hm)
  | @spread scope sp sels n np dirs p F f hm hF _ ih => intro hr; exact ih (allSets_frag hF)

/-- The fields the sub-selection of `a` reaches. -/
def Sub (S : Schema) (D : Document) (a x : FRef) : Prop :=
  ∃ ss, a.sel = some ss ∧ Collects S D a.inner ss.pos ss.sels x

/-- The sub-selection set of a table field is in the table. -/
theorem TField.subSet {S : Schema} {D : Document} {f : FRef} (h : TField S D f) {ss : SelSet} (hs : f.sel = some ss) :
    (⟨f.inner, ss.pos, ss.sels⟩ : SetRef) ∈ allSets S D := by
  obtain ⟨r, hr, al, n, np, args, dirs, sub, hm, rfl⟩ := h
  simp only [mkRef] at hs
  subst hs
  exact (allSets_children S D r hr).1 al n np args dirs ss hm

theorem Sub.tfield {S : Schema} {D : Document} {a x : FRef} (ha : TField S D a) (h : Sub S D a x) : TField S D x := by
  obtain ⟨ss, hs, hc⟩ := h
  exact hc.tfield (ha.subSet hs)

/-! ## Local conditions -/

/-- TypeInfo's type of the field (`String!` for `__typename`). -/
def typeOf (f : FRef) : TRef :=
  if f.name = "__typename" then typenameType else
  match f.fdef with
  | some d => d.type
  | none => typenameType

def HasType (f : FRef) : Prop := f.name = "__typename" ∨ f.fdef.isSome = true

theorem shapeType_ok {f : FRef} (h : HasType f) : shapeType f = .ok (typeOf f) := by
  unfold shapeType typeOf
  by_cases hn : f.name = "__typename"
  · simp [hn]
  · simp only [hn, if_false]
    rcases h with h | h
    · exact absurd h hn
    · cases hd : f.fdef with
      | none => simp [hd] at h
      | some d => rfl

/-- The two types have the same shape down to their named types, and leaf types are the same. -/
def shapeLocalOk (S : Schema) (a b : FRef) : Bool :=
  match unwrapShapes (typeOf a) (typeOf b) with
  | .error _ => false
  | .ok (ua, ub) => if isLeafRef S ua || isLeafRef S ub then decide (ua = ub) else true

/-- Both are composite: the check goes on with the sub-selections. -/
def shapeDeep (S : Schema) (a b : FRef) : Bool :=
  match unwrapShapes (typeOf a) (typeOf b) with
  | .error _ => false
  | .ok (ua, ub) => !(isLeafRef S ua || isLeafRef S ub)

/-- Same parent type, or one of them not an object type: the fields can be selected together. -/
def parentsCond (S : Schema) (a b : FRef) : Bool :=
  match a.setType, b.setType with
  | some pa, some pb => decide (pa = pb) || !isObjectName S pa || !isObjectName S pb
  | _, _ => false

def mergeLocalOk (a b : FRef) : Bool := decide (a.name = b.name) && (argumentsDiffer a b).isNone

/-! ## Witnesses -/

/-- SameResponseShape is violated. `P` says which pairs of sub-fields count (all / distinct ones). -/
inductive ShapeBad (S : Schema) (D : Document) (P : FRef → FRef → Prop) : FRef → FRef → Prop where
  | loc {a b} : shapeLocalOk S a b = false → ShapeBad S D P a b
  | deep {a b x y} : shapeDeep S a b = true → (Sub S D a x ∨ Sub S D b x) → (Sub S D a y ∨ Sub S D b y) →
      x.rname = y.rname → P x y → ShapeBad S D P x y → ShapeBad S D P a b

/-- The pair cannot merge. -/
inductive MergeBad (S : Schema) (D : Document) (P : FRef → FRef → Prop) : FRef → FRef → Prop where
  | shape {a b} : ShapeBad S D P a b → MergeBad S D P a b
  | loc {a b} : parentsCond S a b = true → mergeLocalOk a b = false → MergeBad S D P a b
  | deep {a b x y} : parentsCond S a b = true → (Sub S D a x ∨ Sub S D b x) → (Sub S D a y ∨ Sub S D b y) →
      x.rname = y.rname → P x y → MergeBad S D P x y → MergeBad S D P a b

/-- FieldsInSetCanMerge is violated for the selection set. -/
def SetBad (S : Schema) (D : Document) (P : FRef → FRef → Prop) (r : SetRef) : Prop :=
  ∃ x y, Collects S D r.scope r.pos r.sels x ∧ Collects S D r.scope r.pos r.sels y ∧ x.rname = y.rname ∧ P x y ∧
    MergeBad S D P x y

def Loose : FRef → FRef → Prop := fun _ _ => True

theorem ShapeBad.mono {S : Schema} {D : Document} {P Q : FRef → FRef → Prop} (h : ∀ x y, P x y → Q x y) {a b : FRef}
    (hb : ShapeBad S D P a b) : ShapeBad S D Q a b := by
  induction hb with
  | loc hl => exact .loc hl
  | deep hd hx hy hr hp _ ih => exact .deep hd hx hy hr (h _ _ hp) ih

theorem MergeBad.mono {S : Schema} {D : Document} {P Q : FRef → FRef → Prop} (h : ∀ x y, P x y → Q x y) {a b : FRef}
    (hb : MergeBad S D P a b) : MergeBad S D Q a b := by
  induction hb with
  | shape hs => exact .shape (hs.mono h)
  | loc hp hl => exact .loc hp hl
  | deep hp hx hy hr hpp _ ih => exact .deep hp hx hy hr (h _ _ hpp) ih

end ApiFu.C04
