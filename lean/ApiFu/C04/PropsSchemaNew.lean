/-
  C04 — what `schema.New` establishes: the schema-side hypotheses of the verdict theorems hold of
  the description of every definition the model of `schema.New` accepts, so `accepts_eq_valid`
  holds for those without a schema-side hypothesis that `New` itself checks.
  Model: SchemaNew.lean; lemmas: SchemaNewLemmas.lean.
-/
import ApiFu.C04.SchemaNewLemmas

namespace ApiFu.C04.SchemaNew
open ApiFu ApiFu.C04
set_option linter.unusedSimpArgs false
set_option linter.unusedVariables false

/-! ## The theorems -/

/-- **`schema.New` establishes the schema-side hypotheses it checks.** For every definition `D`
    the model of `schema.New` accepts (`D.goTyped`: the invariants Go's type system and map types
    give; `I.ok`: the decidable facts about the library's introspection constants) and every feature
    set `rf` of a request that can see the root types, the description of `D` that request sees
    satisfies `Schema.wf` (no field is called `__typename`, `String` is not a composite type, the
    roots are composite), `Schema.typesProper` (no non-null directly under a non-null) and
    `Schema.argDefsUnique`.

    Full statement asked for: `schemaNew D → wf ∧ wfDefaults ∧ typesProper ∧ argDefsUnique`. That is
    false of the code as it is, twice: `New` accepts `f(x: Int! = null)` (input_value_definition.go:21-33
    never compares a `Null` default with the type), so `wfDefaults` needs `D.nullDefaultsOk`
    (`schemaNew_establishes_hypotheses`); and `New` accepts a root type that requires features
    (`Query: &ObjectType{RequiredFeatures: …}`), which a request without them does not see, so
    `wf` needs `D.rootsVisible rf`. Also not covered: directives applied to types, nil types. -/
theorem schemaNew_establishes_hypotheses_partial {I : Intro} {D : SDef} {rf : List String}
    (h : schemaNew D = true) (hg : D.goTyped = true) (hi : I.ok = true) (hv : D.rootsVisible rf = true) :
    (describe I D rf).wf = true ∧ (describe I D rf).typesProper = true ∧
      Schema.argDefsUnique (describe I D rf) = true :=
  ⟨describe_wf h hg hi hv, describe_typesProper h hi, describe_argDefsUnique hg hi⟩

/-- With the premise `New` does not check (no `null` default on a non-null input field or
    directive argument) all four schema-side hypotheses hold. -/
theorem schemaNew_establishes_hypotheses {I : Intro} {D : SDef} {rf : List String}
    (h : schemaNew D = true) (hg : D.goTyped = true) (hi : I.ok = true) (hv : D.rootsVisible rf = true)
    (hn : D.nullDefaultsOk = true) :
    (describe I D rf).wf = true ∧ Schema.wfDefaults (describe I D rf) = true ∧
      (describe I D rf).typesProper = true ∧ Schema.argDefsUnique (describe I D rf) = true :=
  ⟨describe_wf h hg hi hv, describe_wfDefaults hn hi, describe_typesProper h hi, describe_argDefsUnique hg hi⟩

/-- **The verdict for every schema the library accepts**: for a definition accepted by the model of
    `schema.New` (without `null` defaults on non-null positions), a request whose features let it
    see the root types, and a document whose selection sets and fields have distinct positions
    (parser output), the model of `ValidateDocument` on the description that request sees accepts
    exactly the documents that satisfy the 26 rules. -/
theorem accepts_eq_valid_of_schemaNew {I : Intro} {D : SDef} {rf : List String} {Doc : Document}
    (h : schemaNew D = true) (hg : D.goTyped = true) (hi : I.ok = true) (hv : D.rootsVisible rf = true)
    (hn : D.nullDefaultsOk = true)
    (hp : PosUnique (describe I D rf) Doc) (hfp : FPosUnique (describe I D rf) Doc) :
    Model.accepts (describe I D rf) Doc = Spec.valid (describe I D rf) Doc := by
  obtain ⟨h1, h2, h3, h4⟩ := schemaNew_establishes_hypotheses h hg hi hv hn
  exact accepts_eq_valid { wf := h1, wfDefaults := h2, typesProper := h3, setPos := hp, fieldPos := hfp, argDefs := h4 }

/-! ## Non-vacuity: a definition that is accepted (one field needs a feature), and some that are not -/

def exQuery : SType :=
  { key := "Q", name := "Query", feats := [],
    kind := .object [{ name := "a", type := .named "Int", args := [], feats := [] },
                     { name := "b", type := .named "Int", args := [], feats := ["fx"] }] [] false }
def exInt : SType := { key := "Int", name := "Int", kind := .scalar true .int, feats := [] }
def exDef : SDef := { types := [exQuery, exInt], directives := [], query := some "Q", mutation := none, subscription := none }
def exIntro : Intro := { types := [], metas := [] }
def fld (n : String) (t : TRef) (fs : List String := []) : SField := { name := n, type := t, args := [], feats := fs }

example : schemaNew exDef = true ∧ exDef.goTyped = true ∧ exIntro.ok = true ∧ exDef.nullDefaultsOk = true ∧
    exDef.rootsVisible [] = true := by decide
/-- the request without the feature sees one field, the one with it two -/
example : ((describe exIntro exDef []).types.map (fun t => match t.kind with | .object fs _ => fs.length | _ => 0)) = [1, 0] ∧
    ((describe exIntro exDef ["fx"]).types.map (fun t => match t.kind with | .object fs _ => fs.length | _ => 0)) = [2, 0] := by decide
/-- a reserved field name -/
example : schemaNew { exDef with types := [{ exQuery with kind := .object [fld "__typename" (.named "Int")] [] false }, exInt] } = false := by decide
/-- a user type called `String` -/
example : schemaNew { exDef with types := [{ exQuery with name := "String" }, exInt] } = false := by decide
/-- non-null of non-null -/
example : schemaNew { exDef with types := [{ exQuery with kind := .object [fld "a" (.nonNull (.nonNull (.named "Int")))] [] false }, exInt] } = false := by decide
/-- every field needs a feature the type does not -/
example : schemaNew { exDef with types := [{ exQuery with kind := .object [fld "a" (.named "Int") ["fx"]] [] false }, exInt] } = false := by decide
/-- a gated root type is accepted by `New`, but a request without the feature does not see it -/
example : schemaNew { exDef with types := [{ exQuery with feats := ["fx"] }, exInt] } = true ∧
    SDef.rootsVisible { exDef with types := [{ exQuery with feats := ["fx"] }, exInt] } [] = false := by decide

end ApiFu.C04.SchemaNew
