/-
  C04 — the input hypotheses of the verdict theorems (`InputOk2`) as one computable check.
-/
import ApiFu.C04.Hyp
import ApiFu.C04.SecArgs

namespace ApiFu.C04

/-- Names of the input hypotheses that fail for the case (none: the verdict theorems apply). -/
def hypFailures2 (S : Schema) (D : Document) : List String :=
  hypFailures S D ++ (if Schema.argDefsUnique S then [] else ["Schema.argDefsUnique"])

end ApiFu.C04
