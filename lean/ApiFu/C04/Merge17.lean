/-
  C04 — part 17: the subscription check reports primary errors only (under `MergeHyp`).
-/
import ApiFu.C04.Merge16

namespace ApiFu.C04
open Spec Model
set_option linter.unusedSimpArgs false
set_option linter.unusedVariables false

theorem subscriptionErrors_allPrimary {S : Schema} {D : Document} (h : MergeHyp S D) :
    ∀ (ds : List Definition), (∀ d ∈ ds, d ∈ D) → AllPrimary (subscriptionErrors S D (Model.fuelFor D) ds).1
  | [], _ => by simp [subscriptionErrors, AllPrimary]
  | d :: rest, hm => by
    have ih := subscriptionErrors_allPrimary h rest (fun x hx => hm x (List.mem_cons_of_mem _ hx))
    have hdD : d ∈ D := hm d (List.mem_cons_self ..)
    cases d with
    | frag n np tc tcp dirs sel p => simpa [subscriptionErrors] using ih
    | op kind name vars dirs sel =>
      cases kind with
      | none => simpa [subscriptionErrors] using ih
      | some kp =>
        obtain ⟨k, kpos⟩ := kp
        cases k with
        | query => simpa [subscriptionErrors] using ih
        | mutation => simpa [subscriptionErrors] using ih
        | subscription =>
          have hroot : (⟨Model.opScope S (some (OpKind.subscription, kpos)), sel.pos, sel.sels⟩ : SetRef) ∈ allSets S D := by
            have := allSets_def (S := S) hdD
            simpa [Model.defScope, Model.defSel] using this
          obtain ⟨fs, hfs⟩ := addFieldSelections_ok h.posU (spreadsDefinedT_of_spec h.spreads) hroot []
          cases hr : subscriptionErrors S D (Model.fuelFor D) rest with
          | mk r fo =>
            rw [hr] at ih
            simp only [subscriptionErrors, hr, hfs]
            split
            · intro e he
              simp only [List.mem_cons] at he
              rcases he with rfl | he
              · rfl
              · exact ih e he
            · exact ih

end ApiFu.C04
