/-
  C04 — the hypotheses of the assembly theorems as one computable check; the driver reports it for
  every case, so that the tie shows the theorems apply to the inputs the harness generates.
-/
import ApiFu.C04.Merge12

namespace ApiFu.C04

instance (S : Schema) (D : Document) : Decidable (PosUnique S D) := by unfold PosUnique; infer_instance
instance (S : Schema) (D : Document) : Decidable (FPosUnique S D) := by unfold FPosUnique; infer_instance

/-- Names of the input hypotheses that fail for the case (none: the theorems apply). -/
def hypFailures (S : Schema) (D : Document) : List String :=
  (if S.wf then [] else ["Schema.wf"]) ++
  (if Schema.wfDefaults S then [] else ["Schema.wfDefaults"]) ++
  (if S.typesProper then [] else ["Schema.typesProper"]) ++
  (if decide (PosUnique S D) then [] else ["PosUnique"]) ++
  (if decide (FPosUnique S D) then [] else ["FPosUnique"])

end ApiFu.C04
