/-
  C04 — identical arguments (§5.3.2 "fieldA and fieldB must have identical sets of arguments").
-/
import ApiFu.C04.ValueIdentity

namespace ApiFu.C04
open Spec Model

/-- **Identical values are equal literals.** The specification's (and, by
    `valuesAreIdentical_eq`, the model's) identity of two argument values is equality of the two
    literals once source positions are forgotten — kind, text / string value, items in order,
    object fields in order. Nothing else is identified: in particular not the same text in another
    literal kind, not numerically equal numbers written differently; and two spellings of one
    string (`"A"`, `"A"`, `"""A"""`) are the same literal because the AST carries the string
    value (§2.9.4), not its spelling. -/
theorem sameValue_iff_equal_up_to_positions (a b : Value) :
    Spec.sameValue a b = true ↔ eraseV a = eraseV b := sv_erase a b

/-- The model's `valuesAreIdentical` is the same relation. -/
theorem valuesAreIdentical_iff_equal_up_to_positions (a b : Value) :
    Model.valuesAreIdentical a b = true ↔ eraseV a = eraseV b := by
  rw [valuesAreIdentical_eq]
  exact sv_erase a b

/-- **Identical values have the same literal kind** (what seed C04-24 broke in the code: `1` and
    `"1"`, `RED` and `"RED"` were merged). -/
theorem sameValue_same_kind {a b : Value} (h : Spec.sameValue a b = true) : a.kindTag = b.kindTag := by
  have := (sv_erase a b).1 h
  rw [← eraseV_kindTag a, ← eraseV_kindTag b, this]

/-- Non-vacuity and the cases of the seed: same text, different kinds — not identical, at top level
    and inside list / object literals; the same literal at other positions — identical. -/
example : Spec.sameValue (.int "1" ⟨1, 5⟩) (.str "1" ⟨1, 9⟩) = false := by decide
example : Spec.sameValue (.enum "RED" ⟨1, 5⟩) (.str "RED" ⟨1, 9⟩) = false := by decide
example : Spec.sameValue (.list [.int "1" ⟨1, 5⟩, .str "2" ⟨1, 7⟩] ⟨1, 4⟩) (.list [.str "1" ⟨2, 5⟩, .int "2" ⟨2, 7⟩] ⟨2, 4⟩) = false := by decide
example : Spec.sameValue (.obj [.mk "k" ⟨1, 1⟩ (.float "1.5" ⟨1, 4⟩)] ⟨1, 0⟩) (.obj [.mk "k" ⟨2, 1⟩ (.str "1.5" ⟨2, 4⟩)] ⟨2, 0⟩) = false := by decide
example : Spec.sameValue (.int "1" ⟨1, 5⟩) (.float "1.0" ⟨1, 9⟩) = false := by decide
example : Spec.sameValue (.list [.int "1" ⟨1, 5⟩, .str "2" ⟨1, 7⟩] ⟨1, 4⟩) (.list [.int "1" ⟨2, 5⟩, .str "2" ⟨2, 7⟩] ⟨2, 4⟩) = true := by decide

end ApiFu.C04
