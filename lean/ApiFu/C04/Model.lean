/-
  C04 — executable model of `graphql/validator` *as written* (after the `fix:` patches of
  /verif/repo-patches/C04 and the spread-parent fix 232ca6d), rule file by rule file.

  How Go constructs are modelled
  * `ast.Inspect(doc, f)`: every rule is a structural recursion over the AST that visits the
    children of a node in the order of `ast/inspect.go`; a callback that `return false`s is an
    explicit "do not descend" (`descend := false`) at that node, exactly where the Go code has it.
  * `TypeInfo` (type_info.go) fills maps keyed by node pointers in a first pass and the rules look
    them up later. The parser allocates one node per occurrence, so a lookup at a node returns what
    was computed *for that node*; the model therefore threads TypeInfo's scope stack as an
    inherited attribute and recomputes the entry at the node with TypeInfo's own per-node transfer
    functions (`fieldDefinition`, `innerScope`, `itemExpected`, `objectFields`, …). The one place
    where the same node is reached twice — fragment definitions through spreads — goes through the
    fragment's own scope (`namedType(typeCondition)`), as in TypeInfo.
  * `map[*ast.SelectionSet]struct{}` (the visited set of addFieldSelections): selection sets are
    identified by the position of their opening brace (distinct sets have distinct positions in a
    parsed document; the harness checks the model's verdict against the code on every case).
  * Go map iteration: where only the *order* of errors depends on it, the model uses declaration
    order (the observable is a multiset). Where iteration order decides *which* error is returned
    (`for _, fields := range fieldsForName { … return err }` in the overlapping-fields check), the
    model returns the set of errors the code may return (`alts`).
  * Recursion that follows fragment spreads takes explicit fuel; running out is a distinct outcome
    (`fuelOut`), never a verdict.

  Core Lean only.
-/
import ApiFu.C04.Ast

namespace ApiFu.C04.Model

/-! ## validator.go -/

def newError (p : Pos) (msg : String) : Err := { msg := msg, locs := [p] }
def newErrorWithNodes (ps : List Pos) (msg : String) : Err := { msg := msg, locs := ps }
def newSecondaryError (p : Pos) (msg : String) : Err := { msg := msg, locs := [p], secondary := true }

/-! ## type_info.go — per-node transfer functions -/

def kindOf (S : Schema) (n : String) : Option TypeKind := (S.find n).map (·.kind)

/-- `namedType(s, features, name)` as a name (the schema description is already the visible one). -/
def namedType (S : Schema) (n : String) : Option String :=
  match S.find n with
  | some t => some t.name
  | none => none

/-- `schemaType(t, s, features)`. -/
def schemaType (S : Schema) : TypeExpr → Option TRef
  | .named n _ => (namedType S n).map .named
  | .list t _ => (schemaType S t).map .list
  | .nonNull t => (schemaType S t).map .nonNull

/-- type_info.go:103-116: the field definition TypeInfo records for a field node whose enclosing
    scope is `scope` (`nil` for `__typename`, for unions, for non-composite or missing scopes). -/
def fieldDefinition (S : Schema) (scope : Option String) (name : String) : Option FieldDef :=
  match scope with
  | none => none
  | some p =>
    match kindOf S p with
    | some (.interface fs) => findField fs name
    | some (.object fs _) =>
      (match findField fs name with
       | some d => some d
       | none => if p = S.query then findField S.metaFields name else none)
    | _ => none

/-- Scope pushed for a field node: `schema.UnwrappedType(field.Type)` (type_info.go:128). -/
def innerScope (S : Schema) (scope : Option String) (name : String) : Option String :=
  (fieldDefinition S scope name).map (·.type.base)

/-- Scope pushed for an inline fragment (type_info.go:131-136). -/
def inlineScope (S : Schema) (scope : Option String) (tc : Option (String × Pos)) : Option String :=
  match tc with
  | none => scope
  | some (t, _) => namedType S t

/-- Scope pushed for an operation (type_info.go:137-148). -/
def opScope (S : Schema) (kind : Option (OpKind × Pos)) : Option String := S.root (opKindOf kind)

/-- Expected type and "has a location default" (`typeInfo.DefaultValues[v] != nil`) of a value. -/
structure VCtx where
  exp : Option TRef
  locDefault : Bool
  /-- `typeInfo.ScalarLiteralValues[v]` (fix 07): the value is nested inside a list or object
      literal that is given where a scalar type is expected; it has no expected type by design. -/
  inScalar : Bool := false
  deriving Inhabited

def noCtx : VCtx := { exp := none, locDefault := false }

/-- type_info.go:118-125: argument of a field (a `schema.Null` default is a non-nil interface). -/
def fieldArgCtx (defs : Option (List InputDef)) (name : String) : VCtx :=
  match defs.bind (findInput · name) with
  | some d => { exp := some d.type, locDefault := d.dflt != .none }
  | none => noCtx

/-- type_info.go:71-101: argument of a directive / field of an input object (`schema.Null`
    defaults are stored as `nil`). -/
def inputCtx (defs : Option (List InputDef)) (name : String) : VCtx :=
  match defs.bind (findInput · name) with
  | some d => { exp := some d.type, locDefault := d.dflt == .value }
  | none => noCtx

/-- type_info.go:64-69: expected type of the items of a list literal. -/
def itemExpected (t : Option TRef) : Option TRef :=
  match t with
  | none => none
  | some t =>
    match t.nullable with
    | .list inner => some inner
    | _ => none

/-- type_info.go:70-90 (with fix 05): the input object type that types the fields of an object
    literal: non-null and list wrappers are removed first. -/
def objectFields (S : Schema) (t : Option TRef) : Option (List InputDef) :=
  match t with
  | none => none
  | some t =>
    match kindOf S t.base with
    | some (.input defs) => some defs
    | _ => none

/-- `inScalarLiteral(node, NullableType(expected))` for a list literal (type_info.go, fix 07): the
    node is itself inside a scalar literal, or its expected type is a scalar type. -/
def nullableIsScalar (S : Schema) (t : Option TRef) : Bool :=
  match t with
  | none => false
  | some t =>
    match t.nullable with
    | .named n => (match kindOf S n with
                   | some (.scalar _) => true
                   | _ => false)
    | _ => false

/-- The same for an object literal, whose expected type is unwrapped through lists first. -/
def baseIsScalar (S : Schema) (t : Option TRef) : Bool :=
  match t with
  | none => false
  | some t =>
    match kindOf S t.base with
    | some (.scalar _) => true
    | _ => false

/-- Are the items of a list literal with context `c` recorded in `ScalarLiteralValues`? -/
def itemInScalar (S : Schema) (c : VCtx) : Bool :=
  (itemExpected c.exp).isNone && (c.inScalar || nullableIsScalar S c.exp)

/-- Are the field values of an object literal with context `c` recorded in `ScalarLiteralValues`? -/
def fieldInScalar (S : Schema) (c : VCtx) : Bool :=
  (objectFields S c.exp).isNone && (c.inScalar || baseIsScalar S c.exp)

/-! ## fragment lookup tables -/

structure FragInfo where
  name : String
  npos : Pos
  tc : String
  tcpos : Pos
  dirs : List Directive
  sel : SelSet
  pos : Pos
  deriving Inhabited

def fragsOf (D : Document) : List FragInfo :=
  D.filterMap fun
    | .frag n np tc tcp dirs sel p => some { name := n, npos := np, tc := tc, tcpos := tcp, dirs := dirs, sel := sel, pos := p }
    | _ => none

/-- `fragmentDefinitions[name]` where later definitions overwrite earlier ones. -/
def fragLast (D : Document) (n : String) : Option FragInfo :=
  ((fragsOf D).reverse.find? (fun f => f.name = n))

/-- `fragmentsByName[name]` where the first definition is kept (validateFragmentDeclarations). -/
def fragFirst (D : Document) (n : String) : Option FragInfo :=
  ((fragsOf D).find? (fun f => f.name = n))

/-! ## validate_document.go -/

/-- Every definition the parser produces is an operation or a fragment. -/
def validateDocument (_ : Schema) (_ : Document) : List Err := []

/-! ## addFieldSelections (validate_fields.go:286-329, with fix 02) -/

/-- `fieldAndParent` with the two TypeInfo entries the callers look up. -/
structure FRef where
  rname : String
  alias : Option (String × Pos)
  name : String
  npos : Pos
  args : List Argument
  sel : Option SelSet
  /-- scope TypeInfo pushed for the field (type of its own selection set) -/
  inner : Option String
  /-- the parent selection set (identity = position) and `typeInfo.SelectionSetTypes[parent]` -/
  setPos : Pos
  setType : Option String
  /-- `typeInfo.FieldDefinitions[field]` -/
  fdef : Option FieldDef
  deriving Inhabited

def FRef.pos (f : FRef) : Pos := fieldPos f.alias f.npos

inductive Res (α : Type) where
  | ok (a : α)
  | err (e : Err)
  | fuelOut
  deriving Inhabited

/-- `addFieldSelectionsWithCycleDetection`: appends to `acc` (per response name the Go code
    appends in this order), `visited` are the selection sets already collected. -/
def addSel (S : Schema) (D : Document) :
    Nat → Option String → Pos → List Selection → List FRef → List Pos → Res (List FRef × List Pos)
  | 0, _, _, _, _, _ => .fuelOut
  | _ + 1, _, _, [], acc, vis => .ok (acc, vis)
  | fuel + 1, scope, sp, .field al n np args _ sel :: rest, acc, vis =>
    addSel S D fuel scope sp rest
      (acc ++ [{ rname := responseName al n, alias := al, name := n, npos := np, args := args, sel := sel,
                 inner := innerScope S scope n, setPos := sp, setType := scope,
                 fdef := fieldDefinition S scope n }]) vis
  | fuel + 1, scope, sp, .inline tc _ ss _ :: rest, acc, vis =>
    if vis.contains ss.pos then addSel S D fuel scope sp rest acc vis else
    match addSel S D fuel (inlineScope S scope tc) ss.pos ss.sels acc (ss.pos :: vis) with
    | .ok (acc', vis') => addSel S D fuel scope sp rest acc' vis'
    | r => r
  | fuel + 1, scope, sp, .spread n np _ _ :: rest, acc, vis =>
    match fragLast D n with
    | none => .err (newSecondaryError np "undefined fragment")
    | some f =>
      if vis.contains f.sel.pos then addSel S D fuel scope sp rest acc vis else
      match addSel S D fuel (namedType S f.tc) f.sel.pos f.sel.sels acc (f.sel.pos :: vis) with
      | .ok (acc', vis') => addSel S D fuel scope sp rest acc' vis'
      | r => r

/-- `addFieldSelections(set, selectionSet, defs)` into an existing collection, with a fresh
    visited set. `none` selection set: nothing to add. -/
def addFieldSelections (S : Schema) (D : Document) (fuel : Nat) (scope : Option String)
    (ss : Option SelSet) (acc : List FRef) : Res (List FRef) :=
  match ss with
  | none => .ok acc
  | some ss =>
    match addSel S D fuel scope ss.pos ss.sels acc [ss.pos] with
    | .ok (acc', _) => .ok acc'
    | .err e => .err e
    | .fuelOut => .fuelOut

/-- Response names in first-occurrence order (the key set of `fieldsForName`). -/
def responseNames (fs : List FRef) : List String :=
  fs.foldl (fun acc f => if acc.contains f.rname then acc else acc ++ [f.rname]) []

def group (fs : List FRef) (n : String) : List FRef := fs.filter (fun f => f.rname = n)

/-! ## validate_operations.go -/

def opDefs (D : Document) : List Definition :=
  D.filter fun | .op .. => true | _ => false

/-- The name and operation-type checks of the first loop (validate_operations.go:24-35);
    `seen` is `operationNames`. -/
def operationLoopErrors (S : Schema) : List String → List Definition → List Err
  | _, [] => []
  | seen, .frag .. :: rest => operationLoopErrors S seen rest
  | seen, .op kind name _ _ sel :: rest =>
    (match name with
     | some (n, p) => if seen.contains n then [newError p "an operation with this name already exists"] else []
     | none => []) ++
    (if (opScope S kind).isNone then [newError (opPos kind sel) "unsupported operation type"] else []) ++
    operationLoopErrors S
      (match name with
       | some (n, _) => if seen.contains n then seen else seen ++ [n]
       | none => seen) rest

def anonymousCount : List Definition → Nat
  | [] => 0
  | .op _ none _ _ _ :: rest => anonymousCount rest + 1
  | _ :: rest => anonymousCount rest

/-- The second loop (validate_operations.go:47-58). -/
def loneAnonymousErrors (D : Document) : List Err :=
  if anonymousCount D > 0 then
    match (opDefs D).drop 1 with
    | .op kind _ _ _ sel :: _ =>
      [newError (opPos kind sel) "only one operation is allowed when an anonymous operation is present"]
    | _ => []
  else []

/-- The subscription part of the first loop (validate_operations.go:36-43). -/
def subscriptionErrors (S : Schema) (D : Document) (fuel : Nat) : List Definition → List Err × Bool
  | [] => ([], false)
  | .op (some (.subscription, kp)) _ _ _ sel :: rest =>
    let kind : Option (OpKind × Pos) := some (.subscription, kp)
    let (r, fo) := subscriptionErrors S D fuel rest
    (match addFieldSelections S D fuel (opScope S kind) (some sel) [] with
     | .err e => (e :: r, fo)
     | .fuelOut => (r, true)
     | .ok fs =>
       if (responseNames fs).length != 1 then
         (newError (opPos kind sel) "subscriptions may only have one root field" :: r, fo)
       else (r, fo))
  | _ :: rest => subscriptionErrors S D fuel rest

/-- validate_operations.go. The code interleaves the three checks of the first loop per
    definition; the observable is a multiset, the model groups them. -/
def validateOperationsGo (S : Schema) (D : Document) (fuel : Nat) : List Err × Bool :=
  let (sub, fo) := subscriptionErrors S D fuel D
  (operationLoopErrors S [] D ++ sub ++ loneAnonymousErrors D, fo)

/-! ## validate_fields.go — first pass: existence and leaf/composite -/

def isCompositeName (S : Schema) (n : String) : Bool :=
  match kindOf S n with
  | some k => k.isComposite
  | none => false

/-- `switch parent := selectionSetTypes[len-1].(type)` (validate_fields.go:52-68): the "does not
    exist" error, for fields other than `__typename`. -/
def missingFieldErrors (S : Schema) (scope : Option String) (name : String) (npos : Pos) : List Err :=
  let missing (p : String) := [newError npos ("field " ++ name ++ " does not exist on " ++ p)]
  if name != "__typename" then
    match scope with
    | none => []
    | some p =>
      match kindOf S p with
      | some (.object fs _) =>
        if (findField fs name).isNone && (p != S.query || (findField S.metaFields name).isNone) then missing p else []
      | some (.interface fs) => if (findField fs name).isNone then missing p else []
      | some (.union _) => missing p
      | _ => []
  else []

/-- validate_fields.go:70-79: sub-selection present / absent as the field's type requires. -/
def subselectionErrors (shouldHaveSubselection : Bool) (name : String) (fp : Pos) (sel : Option SelSet) : List Err :=
  if shouldHaveSubselection then
    (match sel with
     | none => [newError fp (name ++ " field must have a subselection")]
     | some ss => if ss.sels.isEmpty then [newError fp (name ++ " field must have a subselection")] else [])
  else
    (match sel with
     | some _ => [newError fp (name ++ " field cannot have a subselection")]
     | none => [])

/-- The callback's work at a field node (validate_fields.go:33-79). -/
def fieldNodeErrors (S : Schema) (scope : Option String) (alias : Option (String × Pos))
    (name : String) (npos : Pos) (sel : Option SelSet) : List Err :=
  let fp := fieldPos alias npos
  let fdef := fieldDefinition S scope name
  let shouldHaveSubselection :=
    match fdef with
    | some d => isCompositeName S d.type.base
    | none => false
  let e1 := if fdef.isNone && name != "__typename" then [newSecondaryError fp "no type info for field"] else []
  let e2 := missingFieldErrors S scope name npos
  let fieldExists := e2.isEmpty
  let e3 := if fieldExists then subselectionErrors shouldHaveSubselection name fp sel else []
  e1 ++ e2 ++ e3

mutual
def fields1Sel (S : Schema) (scope : Option String) : Selection → List Err
  | .field al n np _ _ sel =>
    fieldNodeErrors S scope al n np sel ++
      (match sel with
       | none => []
       | some ss => fields1Set S (innerScope S scope n) ss)
  | .spread .. => []
  | .inline tc _ ss _ => fields1Set S (inlineScope S scope tc) ss
def fields1Set (S : Schema) (scope : Option String) : SelSet → List Err
  | .mk sels _ => fields1Sels S scope sels
def fields1Sels (S : Schema) (scope : Option String) : List Selection → List Err
  | [] => []
  | s :: rest => fields1Sel S scope s ++ fields1Sels S scope rest
end

def defScope (S : Schema) : Definition → Option String
  | .op kind _ _ _ _ => opScope S kind
  | .frag _ _ tc _ _ _ _ => namedType S tc

def defSel : Definition → SelSet
  | .op _ _ _ _ sel => sel
  | .frag _ _ _ _ _ sel _ => sel

def validateFields1 (S : Schema) (D : Document) : List Err :=
  D.flatMap fun d => fields1Set S (defScope S d) (defSel d)

/-! ## validate_fields.go — second pass: overlapping fields -/

mutual
/-- `valuesAreIdentical`. -/
def valuesAreIdentical : Value → Value → Bool
  | .var a _, .var b _ => a = b
  | .bool a _, .bool b _ => a = b
  | .float a _, .float b _ => a = b
  | .int a _, .int b _ => a = b
  | .str a _, .str b _ => a = b
  | .enum a _, .enum b _ => a = b
  | .null _, .null _ => true
  | .list xs _, .list ys _ => xs.length = ys.length && valuesIdenticalList xs ys
  | .obj xs _, .obj ys _ => xs.length = ys.length && fieldsIdenticalList xs ys
  | _, _ => false
def valuesIdenticalList : List Value → List Value → Bool
  | x :: xs, y :: ys => valuesAreIdentical x y && valuesIdenticalList xs ys
  | _, _ => true
def fieldsIdenticalList : List ObjField → List ObjField → Bool
  | .mk n _ x :: xs, .mk m _ y :: ys => n = m && valuesAreIdentical x y && fieldsIdenticalList xs ys
  | _, _ => true
end

/-- Outcome of a check that may return one of several errors depending on map iteration. -/
inductive Alts where
  | ok
  | errs (alts : List Err)
  | fuelOut
  deriving Inhabited

/-- `mergeMemo` (fix 06): the unordered pairs of field nodes compared so far (or in progress) by
    the check of one selection set, per relation. A field node is identified by its position. -/
structure Memo where
  shape : List (Pos × Pos) := []
  merge : List (Pos × Pos) := []
  deriving Inhabited

/-- `visitFieldPair`: is the unordered pair in the set already? Otherwise add it. -/
def visitPair (set : List (Pos × Pos)) (a b : Pos) : Bool × List (Pos × Pos) :=
  if set.contains (a, b) || set.contains (b, a) then (true, set) else (false, (a, b) :: set)

/-- `for _, x := range aMap { if err := f(x); err != nil { return err } }`: any failing entry may
    be the one that is reached first, so the alternatives of all failing entries are collected.
    The memo is threaded through the entries that succeed (an entry that fails ends the check in
    the code; its marks never reach another entry). -/
def anyOrder {α : Type} (xs : List α) (m : Memo) (f : α → Memo → Alts × Memo) : Alts × Memo :=
  xs.foldl (fun (st : Alts × Memo) x =>
    match st.1 with
    | .fuelOut => st
    | acc =>
      match f x st.2 with
      | (.fuelOut, _) => (.fuelOut, st.2)
      | (.ok, m') => (acc, m')
      | (.errs b, _) =>
        (match acc with
         | .errs a => (.errs (a ++ b), st.2)
         | _ => (.errs b, st.2))) (.ok, m)

/-- Ordered pairs i < j of a list, in the order of the two nested `for` loops. -/
def pairs {α : Type} : List α → List (α × α)
  | [] => []
  | x :: rest => rest.map (fun y => (x, y)) ++ pairs rest

/-- `for … { if err := f(x); err != nil { return err } }` over a slice: the first error. -/
def firstErr {α : Type} (xs : List α) (m : Memo) (f : α → Memo → Alts × Memo) : Alts × Memo :=
  match xs with
  | [] => (.ok, m)
  | x :: rest =>
    match f x m with
    | (.ok, m') => firstErr rest m' f
    | r => r

/-- The unwrapping loop of validateSameResponseShape (validate_fields.go:226-252). -/
def unwrapShapes : TRef → TRef → Except String (TRef × TRef)
  | .nonNull a, .nonNull b => afterNonNull a b
  | .nonNull _, _ => .error "cannot merge non-null and nullable fields"
  | _, .nonNull _ => .error "cannot merge non-null and nullable fields"
  | a, b => afterNonNull a b
where
  afterNonNull : TRef → TRef → Except String (TRef × TRef)
    | .list a, .list b => unwrapShapes a b
    | .list _, _ => .error "cannot merge list and non-list fields"
    | _, .list _ => .error "cannot merge list and non-list fields"
    | a, b => .ok (a, b)

def isLeafRef (S : Schema) : TRef → Bool
  | .named n => (match kindOf S n with
                 | some k => k.isLeaf
                 | none => false)
  | _ => false

def typenameType : TRef := .nonNull (.named "String")

/-- `typeInfo.FieldDefinitions[field].Type`, `String!` for `__typename`, or the secondary error. -/
def shapeType (f : FRef) : Except Err TRef :=
  if f.name = "__typename" then .ok typenameType else
  match f.fdef with
  | none => .error (newSecondaryError f.pos "no type info for field")
  | some d => .ok d.type

/-- `validateSameResponseShape` (validate_fields.go:199-284, with the memo of fix 06). `fuel`
    bounds the recursion depth, `cfuel` is the fuel of every `addFieldSelections`. -/
def sameResponseShape (S : Schema) (D : Document) (cfuel : Nat) : Nat → Memo → FRef → FRef → Alts × Memo
  | 0, m, _, _ => (.fuelOut, m)
  | fuel + 1, m, a, b =>
    match visitPair m.shape a.pos b.pos with
    | (true, _) => (.ok, m)
    | (false, shape') =>
    let m := { m with shape := shape' }
    match shapeType a with
    | .error e => (.errs [e], m)
    | .ok ta =>
    match shapeType b with
    | .error e => (.errs [e], m)
    | .ok tb =>
    match unwrapShapes ta tb with
    | .error msg => (.errs [newErrorWithNodes [a.pos, b.pos] msg], m)
    | .ok (ua, ub) =>
      if isLeafRef S ua || isLeafRef S ub then
        if ua = ub then (.ok, m)
        else (.errs [newErrorWithNodes [a.pos, b.pos] "non-composite fields of the same name must be the same"], m)
      else
      match addFieldSelections S D cfuel a.inner a.sel [] with
      | .err e => (.errs [e], m)
      | .fuelOut => (.fuelOut, m)
      | .ok fs1 =>
      match addFieldSelections S D cfuel b.inner b.sel fs1 with
      | .err e => (.errs [e], m)
      | .fuelOut => (.fuelOut, m)
      | .ok fs =>
        anyOrder (responseNames fs) m fun n m =>
          firstErr (pairs (group fs n)) m fun p m => sameResponseShape S D cfuel fuel m p.1 p.2

def isObjectName (S : Schema) (n : String) : Bool :=
  match kindOf S n with
  | some k => k.isObject
  | none => false

/-- The argument comparison of validateFieldsInSetCanMerge (validate_fields.go:139-153, fix 01). -/
def argumentsDiffer (a b : FRef) : Option Err :=
  if a.args.length != b.args.length then
    some (newErrorWithNodes [a.pos, b.pos] "cannot merge fields with differing arguments")
  else
    -- argsA: later arguments of the same name overwrite earlier ones
    let lookupA (n : String) : Option Argument := a.args.reverse.find? (fun x => x.name = n)
    b.args.findSome? fun argB =>
      match lookupA argB.name with
      | none => some (newErrorWithNodes [a.pos, b.pos] "cannot merge fields with differing arguments")
      | some argA =>
        if valuesAreIdentical argA.value argB.value then none
        else some (newErrorWithNodes [argA.pos, argB.pos] "cannot merge fields with differing arguments")

/-- `validateFieldsInSetCanMerge` (validate_fields.go:110-169, with the memo of fix 06). -/
def fieldsInSetCanMerge (S : Schema) (D : Document) (cfuel : Nat) : Nat → Memo → List FRef → Alts × Memo
  | 0, m, _ => (.fuelOut, m)
  | fuel + 1, m, fs =>
    anyOrder (responseNames fs) m fun n m =>
      firstErr (pairs (group fs n)) m fun (a, b) m =>
        match visitPair m.merge a.pos b.pos with
        | (true, _) => (.ok, m)
        | (false, merge') =>
        let m := { m with merge := merge' }
        match sameResponseShape S D cfuel (fuel + 1) m a b with
        | (.ok, m) =>
          (match a.setType, b.setType with
           | none, _ => (.errs [newSecondaryError a.setPos "no type info for selection set"], m)
           | _, none => (.errs [newSecondaryError b.setPos "no type info for selection set"], m)
           | some pa, some pb =>
             if pa = pb || !isObjectName S pa || !isObjectName S pb then
               if a.name != b.name then
                 (.errs [newErrorWithNodes [a.npos, b.npos] "cannot merge fields with different names"], m)
               else
               match argumentsDiffer a b with
               | some e => (.errs [e], m)
               | none =>
                 match addFieldSelections S D cfuel a.inner a.sel [] with
                 | .err e => (.errs [e], m)
                 | .fuelOut => (.fuelOut, m)
                 | .ok fs1 =>
                 match addFieldSelections S D cfuel b.inner b.sel fs1 with
                 | .err e => (.errs [e], m)
                 | .fuelOut => (.fuelOut, m)
                 | .ok merged => fieldsInSetCanMerge S D cfuel fuel m merged
             else (.ok, m))
        | r => r

/-- One selection set of the second `ast.Inspect` of validateFields (validate_fields.go:95-107):
    a fresh memo per selection set. -/
def mergeCheckSet (S : Schema) (D : Document) (cfuel fuel : Nat) (scope : Option String) (ss : SelSet) : Alts :=
  match addFieldSelections S D cfuel scope (some ss) [] with
  | .err e => .errs [e]
  | .fuelOut => .fuelOut
  | .ok fs => (fieldsInSetCanMerge S D cfuel fuel {} fs).1

/-- One reported error of the overlapping-fields pass: the code returns one of `alts`. -/
structure Slot where
  alts : List Err
  deriving Inhabited

mutual
def mergeSel (S : Schema) (D : Document) (cfuel fuel : Nat) (scope : Option String) : Selection → List Slot × Bool
  | .field _ n _ _ _ sel =>
    (match sel with
     | none => ([], false)
     | some ss => mergeSet S D cfuel fuel (innerScope S scope n) ss)
  | .spread .. => ([], false)
  | .inline tc _ ss _ => mergeSet S D cfuel fuel (inlineScope S scope tc) ss
def mergeSet (S : Schema) (D : Document) (cfuel fuel : Nat) (scope : Option String) : SelSet → List Slot × Bool
  | .mk sels p =>
    match mergeCheckSet S D cfuel fuel scope (.mk sels p) with
    | .errs alts => ([{ alts := alts }], false)      -- `return false`: nothing beneath is checked
    | .fuelOut => ([], true)
    | .ok => mergeSels S D cfuel fuel scope sels
def mergeSels (S : Schema) (D : Document) (cfuel fuel : Nat) (scope : Option String) : List Selection → List Slot × Bool
  | [] => ([], false)
  | s :: rest =>
    let (a, fa) := mergeSel S D cfuel fuel scope s
    let (b, fb) := mergeSels S D cfuel fuel scope rest
    (a ++ b, fa || fb)
end

def validateFields2 (S : Schema) (D : Document) (cfuel fuel : Nat) : List Slot × Bool :=
  D.foldl (fun (acc : List Slot × Bool) d =>
    let (a, fa) := mergeSet S D cfuel fuel (defScope S d) (defSel d)
    (acc.1 ++ a, acc.2 || fa)) ([], false)

/-! ## validate_arguments.go (with fix 03) -/

/-- The loop over the arguments given (validate_arguments.go:39-48): errors, in order. `byName`
    is `argumentsByName` so far. -/
def argumentLoopErrors (defs : List InputDef) : List Argument → List Argument → List Err
  | _, [] => []
  | byName, a :: rest =>
    match findInput defs a.name with
    | none => newError a.pos "undefined argument" :: argumentLoopErrors defs byName rest
    | some _ =>
      if byName.any (fun x => x.name = a.name) then
        newError a.pos "duplicate argument" :: argumentLoopErrors defs byName rest
      else argumentLoopErrors defs (byName ++ [a]) rest

/-- `argumentsByName` after the loop: the first argument of every defined name. -/
def argumentsByName (defs : List InputDef) : List Argument → List Argument → List Argument
  | byName, [] => byName
  | byName, a :: rest =>
    match findInput defs a.name with
    | none => argumentsByName defs byName rest
    | some _ =>
      if byName.any (fun x => x.name = a.name) then argumentsByName defs byName rest
      else argumentsByName defs (byName ++ [a]) rest

/-- The loop over the argument definitions (validate_arguments.go:50-59); Go iterates a map, the
    observable is a multiset, the model uses declaration order. -/
def requiredErrors (nodePos : Pos) (byName : List Argument) (defs : List InputDef) : List Err :=
  defs.flatMap fun d =>
    if d.type.isNonNull && d.dflt = .none then
      match byName.find? (fun x => x.name = d.name) with
      | none => [newError nodePos ("the " ++ d.name ++ " argument is required")]
      | some a =>
        if a.value.isNull then [newSecondaryError a.value.pos ("the " ++ d.name ++ " argument cannot be null")] else []
    else []

/-- The common tail of the callback (validate_arguments.go:35-60) for one argument list. -/
def checkArguments (nodePos : Pos) (args : List Argument) (defs : List InputDef) : List Err :=
  if args.isEmpty && defs.isEmpty then [] else
  argumentLoopErrors defs [] args ++ requiredErrors nodePos (argumentsByName defs [] args) defs

/-- A directive node (validate_arguments.go:16-23). -/
def argsDirective (S : Schema) (d : Directive) : List Err :=
  match S.findDirective d.name with
  | none => [newSecondaryError d.pos "undefined directive"]
  | some dd => checkArguments d.pos d.args dd.args

def argsDirectives (S : Schema) (ds : List Directive) : List Err := ds.flatMap (argsDirective S)

mutual
def argsSel (S : Schema) (scope : Option String) : Selection → List Err
  | .field al n np args dirs sel =>
    match fieldDefinition S scope n with
    | some d =>
      checkArguments (fieldPos al np) args d.args ++ argsDirectives S dirs ++
        (match sel with
         | none => []
         | some ss => argsSet S (innerScope S scope n) ss)
    | none =>
      if n != "__typename" then
        -- `return false`: neither the directives nor the selection set of this field are visited
        [newSecondaryError (fieldPos al np) "no type info for field"]
      else
        checkArguments (fieldPos al np) args [] ++ argsDirectives S dirs ++
          (match sel with
           | none => []
           | some ss => argsSet S (innerScope S scope n) ss)
  | .spread _ _ dirs _ => argsDirectives S dirs
  | .inline tc dirs ss _ => argsDirectives S dirs ++ argsSet S (inlineScope S scope tc) ss
def argsSet (S : Schema) (scope : Option String) : SelSet → List Err
  | .mk sels _ => argsSels S scope sels
def argsSels (S : Schema) (scope : Option String) : List Selection → List Err
  | [] => []
  | s :: rest => argsSel S scope s ++ argsSels S scope rest
end

def defDirs : Definition → List Directive
  | .op _ _ _ dirs _ => dirs
  | .frag _ _ _ _ dirs _ _ => dirs

def validateArguments (S : Schema) (D : Document) : List Err :=
  D.flatMap fun d => argsDirectives S (defDirs d) ++ argsSet S (defScope S d) (defSel d)

/-! ## validate_directives.go (with fix 04) -/

/-- The loop of the callback (validate_directives.go:45-68); `seen` is `directiveNames`. -/
def checkDirectivesFrom (S : Schema) (location : String) : List String → List Directive → List Err
  | _, [] => []
  | seen, d :: rest =>
    (match S.findDirective d.name with
     | none => [newError d.pos "undefined directive"]
     | some dd =>
       if dd.locs.contains location then [] else [newError d.pos "this directive is not allowed at this location"]) ++
    (if seen.contains d.name then [newError d.pos "duplicate directive"] else []) ++
    checkDirectivesFrom S location (if seen.contains d.name then seen else seen ++ [d.name]) rest

def checkDirectives (S : Schema) (location : String) (dirs : List Directive) : List Err :=
  checkDirectivesFrom S location [] dirs

mutual
def dirsSel (S : Schema) : Selection → List Err
  | .field _ _ _ _ dirs sel =>
    checkDirectives S "FIELD" dirs ++
      (match sel with
       | none => []
       | some ss => dirsSet S ss)
  | .spread _ _ dirs _ => checkDirectives S "FRAGMENT_SPREAD" dirs
  | .inline _ dirs ss _ => checkDirectives S "INLINE_FRAGMENT" dirs ++ dirsSet S ss
def dirsSet (S : Schema) : SelSet → List Err
  | .mk sels _ => dirsSels S sels
def dirsSels (S : Schema) : List Selection → List Err
  | [] => []
  | s :: rest => dirsSel S s ++ dirsSels S rest
end

def opLocation : OpKind → String
  | .query => "QUERY"
  | .mutation => "MUTATION"
  | .subscription => "SUBSCRIPTION"

def validateDirectives (S : Schema) (D : Document) : List Err :=
  D.flatMap fun
    | .op kind _ _ dirs sel => checkDirectives S (opLocation (opKindOf kind)) dirs ++ dirsSet S sel
    | .frag _ _ _ _ dirs sel _ => checkDirectives S "FRAGMENT_DEFINITION" dirs ++ dirsSet S sel

/-! ## validate_fragments.go -/

/-- `validateTypeCondition`. -/
def typeConditionErrors (S : Schema) (tc : String) (p : Pos) : List Err :=
  match kindOf S tc with
  | none => [newError p "undefined type"]
  | some k =>
    if k.isComposite then [] else [newError p "fragments may only be defined on objects, interfaces, and unions"]

mutual
/-- The `ast.InlineFragment` case of the inspection in validateFragmentDeclarations
    (validate_fragments.go:44-54): `validateTypeCondition` on every inline type condition. -/
def inlineCondSel (S : Schema) : Selection → List Err
  | .field _ _ _ _ _ none => []
  | .field _ _ _ _ _ (some ss) => inlineCondSet S ss
  | .spread .. => []
  | .inline none _ ss _ => inlineCondSet S ss
  | .inline (some (t, p)) _ ss _ => typeConditionErrors S t p ++ inlineCondSet S ss
def inlineCondSet (S : Schema) : SelSet → List Err
  | .mk sels _ => inlineCondSels S sels
def inlineCondSels (S : Schema) : List Selection → List Err
  | [] => []
  | s :: rest => inlineCondSel S s ++ inlineCondSels S rest
end

mutual
/-- Names of the fragments spread inside a selection (at any depth), in document order. -/
def spreadNamesSel : Selection → List String
  | .field _ _ _ _ _ none => []
  | .field _ _ _ _ _ (some ss) => spreadNamesSet ss
  | .spread n _ _ _ => [n]
  | .inline _ _ ss _ => spreadNamesSet ss
def spreadNamesSet : SelSet → List String
  | .mk sels _ => spreadNamesSels sels
def spreadNamesSels : List Selection → List String
  | [] => []
  | s :: rest => spreadNamesSel s ++ spreadNamesSels rest
end

/-- The first loop of validateFragmentDeclarations (validate_fragments.go:32-41): duplicate names
    and the definitions' type conditions; `seen` are the keys of `fragmentsByName`. -/
def fragDeclLoop (S : Schema) : List String → List FragInfo → List Err
  | _, [] => []
  | seen, f :: rest =>
    (if seen.contains f.name then [newError f.npos "a fragment with this name already exists"] else []) ++
    typeConditionErrors S f.tc f.tcpos ++
    fragDeclLoop S (if seen.contains f.name then seen else seen ++ [f.name]) rest

/-- The values of `fragmentsByName` after that loop: the first definition of every name. -/
def firstDefs : List String → List FragInfo → List FragInfo
  | _, [] => []
  | seen, f :: rest =>
    if seen.contains f.name then firstDefs seen rest else f :: firstDefs (seen ++ [f.name]) rest

/-- `usedFragments`: every spread anywhere in the document. -/
def usedFragments (D : Document) : List String := D.flatMap fun d => spreadNamesSet (defSel d)

def validateFragmentDeclarations (S : Schema) (D : Document) : List Err :=
  fragDeclLoop S [] (fragsOf D) ++
  D.flatMap (fun d => inlineCondSet S (defSel d)) ++
  (firstDefs [] (fragsOf D)).flatMap fun f =>
    if (usedFragments D).contains f.name then [] else [newError f.pos "unused fragment"]

def dedup (xs : List String) : List String :=
  xs.foldl (fun acc x => if acc.contains x then acc else acc ++ [x]) []

/-- `directFragmentDependencies[name]` (the last definition's spreads, as a set). -/
def directDeps (D : Document) (n : String) : List String :=
  match fragLast D n with
  | some f => dedup (spreadNamesSet f.sel)
  | none => []

/-- GetPossibleTypes as a list of names (`getPossibleTypes`, validate_fragments.go:157-174). -/
def possibleTypes (S : Schema) (n : String) : List String :=
  match kindOf S n with
  | some (.object _ _) => [n]
  | some (.interface _) =>
    S.types.filterMap fun t =>
      match t.kind with
      | .object _ ifs => if ifs.contains n then some t.name else none
      | _ => none
  | some (.union ms) => ms
  | _ => []

/-- `validateSpread(tc, parentType)` (with the parent-kind guard of 232ca6d). -/
def validateSpread (S : Schema) (tc : String) (tcpos : Pos) (parent : Option String) : List Err :=
  match parent with
  | none => [newSecondaryError tcpos "no type info for fragment spread parent"]
  | some p =>
    if !isCompositeName S p then [] else
    if isCompositeName S tc then
      if (possibleTypes S tc).any (fun x => (possibleTypes S p).contains x) then []
      else [newError tcpos "impossible fragment spread"]
    else []

/-- The `ast.FragmentSpread` case (validate_fragments.go:139-145). -/
def spreadTargetErrors (S : Schema) (D : Document) (scope : Option String) (n : String) (np : Pos) : List Err :=
  match fragLast D n with
  | none => [newError np "undefined fragment"]
  | some f => validateSpread S f.tc f.tcpos scope

mutual
def spreadsSel (S : Schema) (D : Document) (scope : Option String) : Selection → List Err
  | .field _ n _ _ _ sel =>
    (match sel with
     | none => []
     | some ss => spreadsSet S D (innerScope S scope n) ss)
  | .spread n np _ _ => spreadTargetErrors S D scope n np
  | .inline none _ ss _ => spreadsSet S D (inlineScope S scope none) ss
  | .inline (some (t, p)) _ ss _ =>
    validateSpread S t p scope ++ spreadsSet S D (inlineScope S scope (some (t, p))) ss
def spreadsSet (S : Schema) (D : Document) (scope : Option String) : SelSet → List Err
  | .mk sels _ => spreadsSels S D scope sels
def spreadsSels (S : Schema) (D : Document) (scope : Option String) : List Selection → List Err
  | [] => []
  | s :: rest => spreadsSel S D scope s ++ spreadsSels S D scope rest
end

/-- The inner loop of the search (validate_fragments.go:89-97) over the dependencies of
    `toVisit[i]`: state = (toVisit, encountered, cycleFound). -/
def visitDeps (name : String) : List String × List String × Bool → List String → List String × List String × Bool
  | st, [] => st
  | (tv, enc, found), dep :: rest =>
    if found then (tv, enc, found)
    else if enc.contains dep then visitDeps name (tv, enc, false) rest
    else if dep = name then (tv, enc, true)
    else visitDeps name (tv ++ [dep], enc ++ [dep], false) rest

/-- The breadth-first search of validateFragmentSpreads (validate_fragments.go:84-98): `i` walks
    `toVisit`; returns `cycleFound`, or `none` when the fuel is exhausted. -/
def cycleSearch (D : Document) (name : String) : Nat → List String → Nat → List String → Option Bool
  | 0, _, _, _ => none
  | fuel + 1, toVisit, i, encountered =>
    match toVisit[i]? with
    | none => some false
    | some cur =>
      match visitDeps name (toVisit, encountered, false) (directDeps D cur) with
      | (_, _, true) => some true
      | (toVisit', enc', false) => cycleSearch D name fuel toVisit' (i + 1) enc'

def cycleFuel (D : Document) : Nat := (D.flatMap fun d => spreadNamesSet (defSel d)).length + 2

/-- The loop over the fragment names (validate_fragments.go:84-102). -/
def cycleLoop (D : Document) : List String → List Err × Bool
  | [] => ([], false)
  | n :: rest =>
    let (r, fo) := cycleLoop D rest
    match cycleSearch D n (cycleFuel D) [n] 0 [] with
    | none => (r, true)
    | some true =>
      (match fragLast D n with
       | some f => (newError f.pos "fragment cycle detected" :: r, fo)
       | none => (r, fo))
    | some false => (r, fo)

/-- The cycle search for every fragment name; the flag says that a search ran out of fuel. -/
def fragmentCycleErrors (D : Document) : List Err × Bool :=
  cycleLoop D (dedup ((fragsOf D).map (·.name)))

/-- The last inspection of validateFragmentSpreads (validate_fragments.go:131-153). -/
def spreadChecks (S : Schema) (D : Document) : List Err :=
  D.flatMap fun d => spreadsSet S D (defScope S d) (defSel d)

def validateFragmentSpreads (S : Schema) (D : Document) : List Err × Bool :=
  let (cyc, fo) := fragmentCycleErrors D
  (cyc ++ spreadChecks S D, fo)

/-! ## validate_values.go -/

def scalarAccepts : ScalarSpec → Value → Bool
  | .int, .int lit _ =>
    (match lit.toInt? with
     | some n => decide (-2147483648 ≤ n) && decide (n ≤ 2147483647)
     | none => false)
  | .float, .int _ _ => true
  | .float, .float _ _ => true
  | .string, .str _ _ => true
  | .boolean, .bool _ _ => true
  | .id, .int lit _ =>
    (match lit.toInt? with
     | some n => decide (-9223372036854775808 ≤ n) && decide (n ≤ 9223372036854775807)
     | none => false)
  | .id, .str _ _ => true
  | .custom ks, .int _ _ => ks.contains "int"
  | .custom ks, .float _ _ => ks.contains "float"
  | .custom ks, .str _ _ => ks.contains "string"
  | .custom ks, .bool _ _ => ks.contains "bool"
  | .custom ks, .enum _ _ => ks.contains "enum"
  | .custom ks, .list _ _ => ks.contains "list"
  | .custom ks, .obj _ _ => ks.contains "object"
  | _, _ => false

/-- The type-directed descent of validateCoercion over the wrappers of `to` for a value that is
    neither a variable nor null nor (for list types) a list literal: which named type decides, or
    the error. `none` = "cannot coerce to <list type>". -/
def namedTarget : TRef → Bool → Except TRef String
  | .named n, _ => .ok n
  | .nonNull t, allow => namedTarget t allow
  | .list t, allow => if allow then namedTarget t true else .error (.list t)

mutual
/-- `validateCoercion(from, to, allowItemToListCoercion)`. -/
def validateCoercion (S : Schema) (to : TRef) (allow : Bool) : Value → List Err
  | .var _ _ => []
  | .null p => if to.isNonNull then [newError p "cannot coerce null to non-null type"] else []
  | .list items p =>
    (match to.nullable with
     | .list inner => coerceItems S inner items
     | .named n => coerceNamed S n (.list items p)
     | .nonNull _ => [newError p "panic: unsupported input coercion type"])   -- unreachable: `nullable`
  | .obj fields p =>
    (match namedTarget to allow with
     | .error lt => [newError p ("cannot coerce to " ++ lt.toString)]
     | .ok n =>
       (match kindOf S n with
        | some (.input defs) =>
          -- the loop over the literal's fields: errors accumulate, a nested error returns alone
          (match coerceFields S n defs fields [] [] with
           | .inl nested => nested
           | .inr (errs, seen) =>
             errs ++ defs.flatMap fun d =>
               if d.type.isNonNull && d.dflt = .none && !seen.contains d.name then
                 [newError p ("the " ++ d.name ++ " field is required")]
               else [])
        | _ => coerceNamed S n (.obj fields p)))
  | v =>
    (match namedTarget to allow with
     | .error lt => [newError v.pos ("cannot coerce to " ++ lt.toString)]
     | .ok n => coerceNamed S n v)
/-- `for _, value := range fromList.Values { if err := …; err != nil { return err } }`. -/
def coerceItems (S : Schema) (inner : TRef) : List Value → List Err
  | [] => []
  | v :: rest =>
    match validateCoercion S inner false v with
    | [] => coerceItems S inner rest
    | errs => errs
/-- The field loop of the input-object case: `.inl errs` = a nested coercion failed (returned
    alone), `.inr (errs, names seen)` otherwise. -/
def coerceFields (S : Schema) (tn : String) (defs : List InputDef) :
    List ObjField → List Err → List String → Sum (List Err) (List Err × List String)
  | [], errs, seen => .inr (errs, seen)
  | .mk n p v :: rest, errs, seen =>
    let errs := if seen.contains n then errs ++ [newError p "duplicate field"] else errs
    let seen := if seen.contains n then seen else seen ++ [n]
    match findInput defs n with
    | some d =>
      (match validateCoercion S d.type true v with
       | [] => coerceFields S tn defs rest errs seen
       | nested => .inl nested)
    | none => coerceFields S tn defs rest (errs ++ [newError p ("field does not exist on " ++ tn)]) seen
/-- Scalar / enum / (non-object literal for) input object cases for a value that is neither a
    variable nor null. -/
def coerceNamed (S : Schema) (n : String) : Value → List Err
  | v =>
    match kindOf S n with
    | some (.scalar spec) => if scalarAccepts spec v then [] else [newError v.pos ("cannot coerce to " ++ n)]
    | some (.enum vs) =>
      (match v with
       | .enum e _ => if vs.contains e then [] else [newError v.pos ("cannot coerce to " ++ n)]
       | _ => [newError v.pos ("cannot coerce to " ++ n)])
    | some (.input _) => [newError v.pos ("cannot coerce to " ++ n)]
    -- `default:` (2c76e2a): a type that is not an input type (a variable declared with an object
    -- type and given a default value); the variable rules report the type itself
    | _ => [newError v.pos ("cannot coerce to " ++ n)]
end

/-- The callback of validateValues at a top-level value (validate_values.go:14-27). -/
def valueNode (S : Schema) (c : VCtx) (v : Value) : List Err :=
  if v.isVar then [] else
  match c.exp with
  | some t => validateCoercion S t true v
  | none => [newSecondaryError v.pos "no type info for value"]

def valuesArgs (S : Schema) (ctxOf : String → VCtx) (args : List Argument) : List Err :=
  args.flatMap fun a => valueNode S (ctxOf a.name) a.value

def valuesDirectives (S : Schema) (dirs : List Directive) : List Err :=
  dirs.flatMap fun d => valuesArgs S (inputCtx ((S.findDirective d.name).map (·.args))) d.args

mutual
def valuesSel (S : Schema) (scope : Option String) : Selection → List Err
  | .field _ n _ args dirs sel =>
    valuesArgs S (fieldArgCtx ((fieldDefinition S scope n).map (·.args))) args ++ valuesDirectives S dirs ++
      (match sel with
       | none => []
       | some ss => valuesSet S (innerScope S scope n) ss)
  | .spread _ _ dirs _ => valuesDirectives S dirs
  | .inline tc dirs ss _ => valuesDirectives S dirs ++ valuesSet S (inlineScope S scope tc) ss
def valuesSet (S : Schema) (scope : Option String) : SelSet → List Err
  | .mk sels _ => valuesSels S scope sels
def valuesSels (S : Schema) (scope : Option String) : List Selection → List Err
  | [] => []
  | s :: rest => valuesSel S scope s ++ valuesSels S scope rest
end

def varDefsOf : Definition → List VarDef
  | .op _ _ vars _ _ => vars
  | .frag .. => []

/-- Default values of variable definitions (the `ast.Value` reached under a VariableDefinition). -/
def defaultValueErrors (S : Schema) (vars : List VarDef) : List Err :=
  vars.flatMap fun vd =>
    match vd.dflt with
    | none => []
    | some v => valueNode S { exp := schemaType S vd.type, locDefault := false } v

def validateValues (S : Schema) (D : Document) : List Err :=
  D.flatMap fun d =>
    defaultValueErrors S (varDefsOf d) ++ valuesDirectives S (defDirs d) ++ valuesSet S (defScope S d) (defSel d)

/-! ## validate_variables.go -/

def isInputRef (S : Schema) (t : TRef) : Bool :=
  match kindOf S t.base with
  | some k => k.isInput
  | none => false

/-- `areTypesCompatible`. -/
def areTypesCompatible : TRef → TRef → Bool
  | .nonNull v, .nonNull l => areTypesCompatible v l
  | .nonNull v, l => areTypesCompatible v l
  | .list v, .list l => areTypesCompatible v l
  | .list _, _ => false
  | .named a, .named b => a = b
  | .named _, _ => false

/-- `validateVariableUsage(def, usage, typeInfo)`. -/
def validateVariableUsage (S : Schema) (vd : VarDef) (usagePos : Pos) (c : VCtx) : List Err :=
  match schemaType S vd.type, c.exp with
  | none, _ => [newSecondaryError vd.pos "no type info for variable type"]
  | _, none =>
    -- fix 07: a variable inside a literal for a scalar has no location type to be checked against
    if c.inScalar then [] else [newSecondaryError usagePos "no type info for location type"]
  | some variableType, some locationType =>
    match locationType with
    | .nonNull inner =>
      if !variableType.isNonNull then
        let hasNonNullVariableDefaultValue := match vd.dflt with
          | some v => !v.isNull
          | none => false
        if !hasNonNullVariableDefaultValue && !c.locDefault then
          [newError usagePos "cannot use nullable variable where non-null type is expected"]
        else if !areTypesCompatible variableType inner then [newError usagePos "incompatible variable type"]
        else []
      else if !areTypesCompatible variableType locationType then [newError usagePos "incompatible variable type"]
      else []
    | _ =>
      if !areTypesCompatible variableType locationType then [newError usagePos "incompatible variable type"] else []

/-- What `validate(node)` accumulates: errors, encountered variable names, spread names seen. -/
structure VarAcc where
  errs : List Err := []
  encountered : List String := []
  spreads : List String := []

def VarAcc.append (a b : VarAcc) : VarAcc :=
  { errs := a.errs ++ b.errs, encountered := a.encountered ++ b.encountered, spreads := a.spreads ++ b.spreads }

instance : Append VarAcc := ⟨VarAcc.append⟩

mutual
/-- Variables inside a value, each with TypeInfo's expected type for that node. -/
def varsValue (S : Schema) (vars : List VarDef) (c : VCtx) : Value → VarAcc
  | .var n p =>
    (match vars.find? (fun vd => vd.name = n) with
     | none => { errs := [newError p "undefined variable"], encountered := [n] }
     | some vd => { errs := validateVariableUsage S vd p c, encountered := [n] })
  | .list items _ => varsItems S vars (itemExpected c.exp) (itemInScalar S c) items
  | .obj fields _ => varsFields S vars (objectFields S c.exp) (fieldInScalar S c) fields
  | _ => {}
def varsItems (S : Schema) (vars : List VarDef) (t : Option TRef) (sc : Bool) : List Value → VarAcc
  | [] => {}
  | v :: rest =>
    varsValue S vars { exp := t, locDefault := false, inScalar := sc } v ++ varsItems S vars t sc rest
def varsFields (S : Schema) (vars : List VarDef) (defs : Option (List InputDef)) (sc : Bool) :
    List ObjField → VarAcc
  | [] => {}
  | .mk n _ v :: rest =>
    varsValue S vars { inputCtx defs n with inScalar := sc } v ++ varsFields S vars defs sc rest
end

def varsArgs (S : Schema) (vars : List VarDef) (ctxOf : String → VCtx) : List Argument → VarAcc
  | [] => {}
  | a :: rest => varsValue S vars (ctxOf a.name) a.value ++ varsArgs S vars ctxOf rest

def varsDirectives (S : Schema) (vars : List VarDef) : List Directive → VarAcc
  | [] => {}
  | d :: rest =>
    varsArgs S vars (inputCtx ((S.findDirective d.name).map (·.args))) d.args ++ varsDirectives S vars rest

mutual
def varsSel (S : Schema) (vars : List VarDef) (scope : Option String) : Selection → VarAcc
  | .field _ n _ args dirs sel =>
    varsArgs S vars (fieldArgCtx ((fieldDefinition S scope n).map (·.args))) args ++ varsDirectives S vars dirs ++
      (match sel with
       | none => {}
       | some ss => varsSet S vars (innerScope S scope n) ss)
  | .spread n _ dirs _ => ({ spreads := [n] } : VarAcc) ++ varsDirectives S vars dirs
  | .inline tc dirs ss _ => varsDirectives S vars dirs ++ varsSet S vars (inlineScope S scope tc) ss
def varsSet (S : Schema) (vars : List VarDef) (scope : Option String) : SelSet → VarAcc
  | .mk sels _ => varsSels S vars scope sels
def varsSels (S : Schema) (vars : List VarDef) (scope : Option String) : List Selection → VarAcc
  | [] => {}
  | s :: rest => varsSel S vars scope s ++ varsSels S vars scope rest
end

/-- The worklist loop over `unvalidatedFragmentSpreads` (validate_variables.go:65-73): fragments
    are validated once each, in the order they were discovered. `none` = out of fuel. -/
def varsFragments (S : Schema) (D : Document) (vars : List VarDef) :
    Nat → List String → List String → VarAcc → Option VarAcc
  | 0, _, _, _ => none
  | _ + 1, [], _, acc => some acc
  | fuel + 1, n :: todo, validated, acc =>
    if validated.contains n then varsFragments S D vars fuel todo validated acc else
    match fragLast D n with
    | none => varsFragments S D vars fuel todo (n :: validated) acc
    | some f =>
      let a := varsDirectives S vars f.dirs ++ varsSet S vars (namedType S f.tc) f.sel
      varsFragments S D vars fuel (todo ++ a.spreads) (n :: validated) (acc ++ { a with spreads := [] })

/-- validate_variables.go:31-35. -/
def variableTypeErrors (S : Schema) (vd : VarDef) : List Err :=
  match schemaType S vd.type with
  | none => [newError vd.type.pos "unknown type"]
  | some t => if isInputRef S t then [] else [newError vd.type.pos (t.toString ++ " is not an input type")]

/-- The loop over the variable definitions (validate_variables.go:21-36); `seen` are the keys of
    `variableDefinitions` (the first definition of a name is kept, which is what `find?` on the
    definition list returns). -/
def variableDefErrors (S : Schema) : List String → List VarDef → List Err
  | _, [] => []
  | seen, vd :: rest =>
    (if seen.contains vd.name then [newError vd.npos "a variable with this name already exists"] else []) ++
    variableTypeErrors S vd ++
    variableDefErrors S (if seen.contains vd.name then seen else seen ++ [vd.name]) rest

def unusedVariableErrors (encountered : List String) (vars : List VarDef) : List Err :=
  vars.flatMap fun vd => if encountered.contains vd.name then [] else [newError vd.pos "unused variable"]

def validateVariablesOp (S : Schema) (D : Document) (fuel : Nat) (kind : Option (OpKind × Pos))
    (vars : List VarDef) (dirs : List Directive) (sel : SelSet) : List Err × Bool :=
  -- validate(def), then the fragments it reaches
  let a := varsDirectives S vars dirs ++ varsSet S vars (opScope S kind) sel
  match varsFragments S D vars fuel a.spreads [] { a with spreads := [] } with
  | none => (variableDefErrors S [] vars, true)
  | some acc =>
    (variableDefErrors S [] vars ++ acc.errs ++ unusedVariableErrors acc.encountered vars, false)

/-- The loop over the definitions (validate_variables.go:17-85). -/
def validateVariablesDefs (S : Schema) (D : Document) (fuel : Nat) : List Definition → List Err × Bool
  | [] => ([], false)
  | .op kind _ vars dirs sel :: rest =>
    let (e, fo) := validateVariablesOp S D fuel kind vars dirs sel
    let (r, fo') := validateVariablesDefs S D fuel rest
    (e ++ r, fo || fo')
  | .frag .. :: rest => validateVariablesDefs S D fuel rest

def validateVariables (S : Schema) (D : Document) (fuel : Nat) : List Err × Bool :=
  validateVariablesDefs S D fuel D

/-! ## validator.go:67-92 — the pipeline and the primary/secondary filter -/

mutual
def sizeSel : Selection → Nat
  | .field _ _ _ _ _ none => 1
  | .field _ _ _ _ _ (some ss) => 1 + sizeSet ss
  | .spread .. => 1
  | .inline _ _ ss _ => 1 + sizeSet ss
def sizeSet : SelSet → Nat
  | .mk sels _ => 1 + sizeSels sels
def sizeSels : List Selection → Nat
  | [] => 0
  | s :: rest => sizeSel s + sizeSels rest
end

def docSize (D : Document) : Nat := (D.map fun d => 1 + sizeSet (defSel d)).sum

/-- Fuel for everything that follows spreads: enough for any expansion in which no selection set
    is entered twice (the visited sets guarantee that). -/
def fuelFor (D : Document) : Nat := 2 * docSize D + 8

/-- Fuel for the pair recursion of the overlapping-fields check: with the memo, a chain of nested
    comparisons never repeats an unordered pair of field nodes. -/
def pairFuelFor (D : Document) : Nat := 2 * (docSize D * docSize D) + 8

/-- All errors of all rules, in rule order, before the filter. The overlapping-fields pass
    contributes slots with alternatives; everything else single-alternative slots. -/
structure Outcome where
  slots : List Slot
  fuelOut : Bool

def single (es : List Err) : List Slot := es.map fun e => { alts := [e] }

def allErrors (S : Schema) (D : Document) : Outcome :=
  let fuel := fuelFor D
  let (ops, f1) := validateOperationsGo S D fuel
  let (merge, f2) := validateFields2 S D fuel (pairFuelFor D)
  let (spreads, f3) := validateFragmentSpreads S D
  let (vars, f4) := validateVariables S D fuel
  { slots :=
      single (validateDocument S D) ++ single ops ++ single (validateFields1 S D) ++ merge ++
      single (validateArguments S D) ++
      single (validateFragmentDeclarations S D) ++ single spreads ++
      single (validateValues S D) ++ single (validateDirectives S D) ++ single vars,
    fuelOut := f1 || f2 || f3 || f4 }

/-- The document is accepted: no rule reports anything (primary or secondary), whatever Go's map
    iteration picks. -/
def accepts (S : Schema) (D : Document) : Bool :=
  let o := allErrors S D
  !o.fuelOut && o.slots.isEmpty

end ApiFu.C04.Model
