import ApiFu.C04.Lemmas
namespace ApiFu.C04
open Spec Model
set_option linter.unusedSimpArgs false
set_option linter.unusedVariables false

/-! # Local comparisons of the overlapping-fields check

The three comparisons `validateFieldsInSetCanMerge`/`validateSameResponseShape` make on one pair of
fields — wrappers of the two types, values, argument lists — against the specification's. -/

/-- no `nonNull` directly under a `nonNull` -/
def TRef.proper : TRef → Bool
  | .named _ => true
  | .list t => t.proper
  | .nonNull (.nonNull _) => false
  | .nonNull t => t.proper

/-! ## wrappers -/

/-- Both statements about one pair of types: the loop from its head, and the loop after a
    non-null wrapper was removed (then neither type is non-null, the types being proper). -/
private theorem unwrap_aux : ∀ (a b : TRef), a.proper = true → b.proper = true → ∀ (ua ub : TRef),
    (Model.unwrapShapes a b = .ok (ua, ub) ↔
      ∃ na nb, ua = .named na ∧ ub = .named nb ∧ Spec.sameWrappers a b = some (na, nb)) ∧
    (a.isNonNull = false → b.isNonNull = false →
      (Model.unwrapShapes.afterNonNull a b = .ok (ua, ub) ↔
        ∃ na nb, ua = .named na ∧ ub = .named nb ∧ Spec.sameWrappers a b = some (na, nb))) := by
  intro a
  induction a with
  | named n =>
    intro b ha hb ua ub
    cases b with
    | named m =>
      simp only [Model.unwrapShapes, Model.unwrapShapes.afterNonNull, Spec.sameWrappers,
        Except.ok.injEq, Prod.mk.injEq, Option.some.injEq]
      constructor
      · constructor
        · rintro ⟨rfl, rfl⟩; exact ⟨n, m, rfl, rfl, rfl, rfl⟩
        · rintro ⟨na, nb, rfl, rfl, rfl, rfl⟩; exact ⟨rfl, rfl⟩
      · intro _ _
        constructor
        · rintro ⟨rfl, rfl⟩; exact ⟨n, m, rfl, rfl, rfl, rfl⟩
        · rintro ⟨na, nb, rfl, rfl, rfl, rfl⟩; exact ⟨rfl, rfl⟩
    | list b' =>
      simp [Model.unwrapShapes, Model.unwrapShapes.afterNonNull, Spec.sameWrappers]
    | nonNull b' =>
      simp [Model.unwrapShapes, Model.unwrapShapes.afterNonNull, Spec.sameWrappers, TRef.isNonNull]
  | list a' ih =>
    intro b ha hb ua ub
    cases b with
    | named m =>
      simp [Model.unwrapShapes, Model.unwrapShapes.afterNonNull, Spec.sameWrappers]
    | list b' =>
      have h := (ih b' (by simpa [TRef.proper] using ha) (by simpa [TRef.proper] using hb) ua ub).1
      simp only [Model.unwrapShapes, Model.unwrapShapes.afterNonNull, Spec.sameWrappers]
      exact ⟨h, fun _ _ => h⟩
    | nonNull b' =>
      simp [Model.unwrapShapes, Model.unwrapShapes.afterNonNull, Spec.sameWrappers, TRef.isNonNull]
  | nonNull a' ih =>
    intro b ha hb ua ub
    cases b with
    | named m =>
      simp [Model.unwrapShapes, Model.unwrapShapes.afterNonNull, Spec.sameWrappers, TRef.isNonNull]
    | list b' =>
      simp [Model.unwrapShapes, Model.unwrapShapes.afterNonNull, Spec.sameWrappers, TRef.isNonNull]
    | nonNull b' =>
      have ha' : a'.proper = true ∧ a'.isNonNull = false := by
        cases a' <;> simp_all [TRef.proper, TRef.isNonNull]
      have hb' : b'.proper = true ∧ b'.isNonNull = false := by
        cases b' <;> simp_all [TRef.proper, TRef.isNonNull]
      have h := (ih b' ha'.1 hb'.1 ua ub).2 ha'.2 hb'.2
      simp only [Model.unwrapShapes, Spec.sameWrappers, TRef.isNonNull]
      exact ⟨h, fun h => by simp at h⟩

theorem unwrap_ok_iff {a b : TRef} (ha : a.proper = true) (hb : b.proper = true) (ua ub : TRef) :
    Model.unwrapShapes a b = .ok (ua, ub) ↔
      ∃ na nb, ua = .named na ∧ ub = .named nb ∧ Spec.sameWrappers a b = some (na, nb) :=
  (unwrap_aux a b ha hb ua ub).1

theorem unwrap_error_iff {a b : TRef} (ha : a.proper = true) (hb : b.proper = true) :
    (∃ e, Model.unwrapShapes a b = .error e) ↔ Spec.sameWrappers a b = none := by
  constructor
  · rintro ⟨e, he⟩
    cases hs : Spec.sameWrappers a b with
    | none => rfl
    | some p =>
      have := (unwrap_ok_iff ha hb (.named p.1) (.named p.2)).2 ⟨p.1, p.2, rfl, rfl, hs⟩
      rw [he] at this
      cases this
  · intro hs
    cases hu : Model.unwrapShapes a b with
    | error e => exact ⟨e, rfl⟩
    | ok p =>
      obtain ⟨na, nb, _, _, h⟩ := (unwrap_ok_iff ha hb p.1 p.2).1 hu
      rw [hs] at h
      cases h

theorem sameWrappers_symm (a b : TRef) :
    Spec.sameWrappers b a = (Spec.sameWrappers a b).map (fun p => (p.2, p.1)) := by
  induction a generalizing b with
  | named n => cases b <;> simp [Spec.sameWrappers]
  | list a' ih => cases b <;> simp [Spec.sameWrappers, ih]
  | nonNull a' ih => cases b <;> simp [Spec.sameWrappers, ih]

theorem sameWrappers_refl (a : TRef) : ∃ n, Spec.sameWrappers a a = some (n, n) := by
  induction a with
  | named n => exact ⟨n, by simp [Spec.sameWrappers]⟩
  | list a' ih => simpa [Spec.sameWrappers] using ih
  | nonNull a' ih => simpa [Spec.sameWrappers] using ih

/-! ## values -/

mutual
private theorem vai_eq : ∀ (a b : Value), Model.valuesAreIdentical a b = Spec.sameValue a b
  | .var _ _, b => by cases b <;> simp [Model.valuesAreIdentical, Spec.sameValue]
  | .int _ _, b => by cases b <;> simp [Model.valuesAreIdentical, Spec.sameValue]
  | .float _ _, b => by cases b <;> simp [Model.valuesAreIdentical, Spec.sameValue]
  | .str _ _, b => by cases b <;> simp [Model.valuesAreIdentical, Spec.sameValue]
  | .bool _ _, b => by cases b <;> simp [Model.valuesAreIdentical, Spec.sameValue]
  | .null _, b => by cases b <;> simp [Model.valuesAreIdentical, Spec.sameValue]
  | .enum _ _, b => by cases b <;> simp [Model.valuesAreIdentical, Spec.sameValue]
  | .list xs _, b => by
    cases b <;> simp only [Model.valuesAreIdentical, Spec.sameValue]
    exact vil_eq xs _
  | .obj xs _, b => by
    cases b <;> simp only [Model.valuesAreIdentical, Spec.sameValue]
    exact fil_eq xs _
private theorem vil_eq : ∀ (xs ys : List Value),
    (decide (xs.length = ys.length) && Model.valuesIdenticalList xs ys) = Spec.sameValues xs ys
  | [], ys => by cases ys <;> simp [Model.valuesIdenticalList, Spec.sameValues]
  | x :: xs, [] => by simp [Model.valuesIdenticalList, Spec.sameValues]
  | x :: xs, y :: ys => by
    simp only [Model.valuesIdenticalList, Spec.sameValues, List.length_cons, Nat.add_right_cancel_iff,
      ← vil_eq xs ys, vai_eq x y]
    cases Spec.sameValue x y <;> simp
private theorem fil_eq : ∀ (xs ys : List ObjField),
    (decide (xs.length = ys.length) && Model.fieldsIdenticalList xs ys) = Spec.sameFields xs ys
  | [], ys => by cases ys <;> simp [Model.fieldsIdenticalList, Spec.sameFields]
  | x :: xs, [] => by cases x; simp [Model.fieldsIdenticalList, Spec.sameFields]
  | .mk n _ x :: xs, .mk m _ y :: ys => by
    simp only [Model.fieldsIdenticalList, Spec.sameFields, List.length_cons, Nat.add_right_cancel_iff,
      ← fil_eq xs ys, vai_eq x y]
    cases Spec.sameValue x y <;> cases decide (n = m) <;> simp
end

theorem valuesAreIdentical_eq (a b : Value) : Model.valuesAreIdentical a b = Spec.sameValue a b :=
  vai_eq a b

mutual
private theorem sv_symm : ∀ (a b : Value), Spec.sameValue a b = Spec.sameValue b a
  | .var _ _, b => by cases b <;> simp [Spec.sameValue, eq_comm]
  | .int _ _, b => by cases b <;> simp [Spec.sameValue, eq_comm]
  | .float _ _, b => by cases b <;> simp [Spec.sameValue, eq_comm]
  | .str _ _, b => by cases b <;> simp [Spec.sameValue, eq_comm]
  | .bool _ _, b => by cases b <;> simp [Spec.sameValue, eq_comm]
  | .null _, b => by cases b <;> simp [Spec.sameValue]
  | .enum _ _, b => by cases b <;> simp [Spec.sameValue, eq_comm]
  | .list xs _, b => by
    cases b <;> simp only [Spec.sameValue]
    exact svs_symm xs _
  | .obj xs _, b => by
    cases b <;> simp only [Spec.sameValue]
    exact sfs_symm xs _
private theorem svs_symm : ∀ (xs ys : List Value), Spec.sameValues xs ys = Spec.sameValues ys xs
  | [], ys => by cases ys <;> simp [Spec.sameValues]
  | x :: xs, [] => by simp [Spec.sameValues]
  | x :: xs, y :: ys => by
    simp only [Spec.sameValues, svs_symm xs ys, sv_symm x y]
private theorem sfs_symm : ∀ (xs ys : List ObjField), Spec.sameFields xs ys = Spec.sameFields ys xs
  | [], ys => by cases ys <;> simp [Spec.sameFields]
  | x :: xs, [] => by cases x; simp [Spec.sameFields]
  | .mk n _ x :: xs, .mk m _ y :: ys => by
    simp only [Spec.sameFields, sfs_symm xs ys, sv_symm x y]
    rw [show decide (n = m) = decide (m = n) from by simp [eq_comm]]
end

theorem sameValue_symm (a b : Value) : Spec.sameValue a b = Spec.sameValue b a := sv_symm a b

mutual
private theorem sv_refl : ∀ (a : Value), Spec.sameValue a a = true
  | .var _ _ => by simp [Spec.sameValue]
  | .int _ _ => by simp [Spec.sameValue]
  | .float _ _ => by simp [Spec.sameValue]
  | .str _ _ => by simp [Spec.sameValue]
  | .bool _ _ => by simp [Spec.sameValue]
  | .null _ => by simp [Spec.sameValue]
  | .enum _ _ => by simp [Spec.sameValue]
  | .list xs _ => by simp only [Spec.sameValue]; exact svs_refl xs
  | .obj xs _ => by simp only [Spec.sameValue]; exact sfs_refl xs
private theorem svs_refl : ∀ (xs : List Value), Spec.sameValues xs xs = true
  | [] => by simp [Spec.sameValues]
  | x :: xs => by simp [Spec.sameValues, sv_refl x, svs_refl xs]
private theorem sfs_refl : ∀ (xs : List ObjField), Spec.sameFields xs xs = true
  | [] => by simp [Spec.sameFields]
  | .mk n _ x :: xs => by simp [Spec.sameFields, sv_refl x, sfs_refl xs]
end

theorem sameValue_refl (a : Value) : Spec.sameValue a a = true := sv_refl a

/-! ## arguments -/

theorem sameArguments_symm (a b : List Argument) : Spec.sameArguments a b = Spec.sameArguments b a := by
  unfold Spec.sameArguments
  have h1 : ∀ (l m : List Argument),
      l.all (fun x => m.any (fun y => decide (x.name = y.name) && Spec.sameValue x.value y.value)) =
      l.all (fun y => m.any (fun x => decide (x.name = y.name) && Spec.sameValue x.value y.value)) := by
    intro l m
    apply all_congr_mem
    intro x _
    congr 1
    funext y
    rw [sameValue_symm x.value y.value, show decide (x.name = y.name) = decide (y.name = x.name) from by
      simp [eq_comm]]
  rw [h1 a b, ← h1 b a, show decide (a.length = b.length) = decide (b.length = a.length) from by
    simp [eq_comm]]
  cases decide (b.length = a.length) <;> simp [Bool.and_comm]

theorem sameArguments_refl (a : List Argument) : Spec.sameArguments a a = true := by
  unfold Spec.sameArguments
  simp only [decide_true, Bool.true_and, Bool.and_eq_true, List.all_eq_true, List.any_eq_true,
    decide_eq_true_eq]
  exact ⟨fun x hx => ⟨x, hx, rfl, sameValue_refl _⟩, fun x hx => ⟨x, hx, rfl, sameValue_refl _⟩⟩

/-- With unique keys, looking a member's key up finds that member. -/
private theorem find_of_mem_unique {α : Type} (key : α → String) : ∀ (xs : List α) (x : α),
    Spec.nodup (xs.map key) = true → x ∈ xs → xs.find? (fun y => key y = key x) = some x
  | [], x, _, hx => by cases hx
  | z :: rest, x, hn, hx => by
    simp only [List.map_cons, nodup_cons, Bool.and_eq_true, Bool.not_eq_true', List.contains_eq_mem,
      decide_eq_false_iff_not, List.mem_map, not_exists, not_and] at hn
    simp only [List.find?_cons]
    by_cases hz : key z = key x
    · simp only [hz, decide_true]
      rcases List.mem_cons.1 hx with rfl | hx'
      · rfl
      · exact absurd hz.symm (hn.1 x hx')
    · simp only [hz, decide_false]
      rcases List.mem_cons.1 hx with rfl | hx'
      · exact absurd rfl hz
      · exact find_of_mem_unique key rest x hn.2 hx'

/-- with unique argument names on both sides, the model's comparison of argument lists (later
    duplicates win, lookup by name) is the specification's "identical sets of arguments" -/
theorem argumentsDiffer_none_iff (a b : FRef)
    (ha : Spec.nodup (a.args.map (·.name)) = true) (hb : Spec.nodup (b.args.map (·.name)) = true) :
    (Model.argumentsDiffer a b).isNone = Spec.sameArguments a.args b.args := by
  unfold Model.argumentsDiffer Spec.sameArguments
  by_cases hl : a.args.length = b.args.length
  case neg => simp [hl]
  have hl' : (a.args.length != b.args.length) = false := by simp [hl]
  simp only [hl', Bool.false_eq_true, if_false, decide_eq_true hl, Bool.true_and]
  -- the lookup in `argsA`
  have hlook : ∀ n : String, a.args.reverse.find? (fun x => x.name = n) = a.args.find? (fun x => x.name = n) :=
    fun n => find_reverse_unique a.args (·.name) n ha
  simp only [hlook]
  rw [Bool.eq_iff_iff]
  simp only [Option.isNone_iff_eq_none, List.findSome?_eq_none_iff, Bool.and_eq_true, List.all_eq_true,
    List.any_eq_true, decide_eq_true_eq]
  constructor
  · intro hm
    -- what the model's loop says about one argument of `b`
    have hb2 : ∀ y ∈ b.args, ∃ x, x ∈ a.args ∧ x.name = y.name ∧ Spec.sameValue x.value y.value = true := by
      intro y hy
      have h := hm y hy
      cases hf : a.args.find? (fun x => x.name = y.name) with
      | none => simp [hf] at h
      | some x =>
        simp only [hf] at h
        have hx := List.find?_some hf
        have hxm := List.mem_of_find?_eq_some hf
        simp only [decide_eq_true_eq] at hx
        by_cases hv : Model.valuesAreIdentical x.value y.value = true
        · exact ⟨x, hxm, hx, by rw [← valuesAreIdentical_eq]; exact hv⟩
        · simp [hv] at h
    refine ⟨?_, hb2⟩
    intro x hx
    -- pigeonhole: the name of `x` occurs in `b`
    have hsub : ∀ n ∈ b.args.map (·.name), n ∈ a.args.map (·.name) := by
      intro n hn
      obtain ⟨y, hy, rfl⟩ := List.mem_map.1 hn
      obtain ⟨x', hx', hxn, _⟩ := hb2 y hy
      exact List.mem_map.2 ⟨x', hx', hxn⟩
    have hxin : x.name ∈ b.args.map (·.name) := by
      apply Classical.byContradiction
      intro hnot
      have := length_lt_of_new (b.args.map (·.name)) (a.args.map (·.name)) hb ha hsub x.name
        (List.mem_map.2 ⟨x, hx, rfl⟩) hnot
      simp only [List.length_map] at this
      omega
    obtain ⟨y, hy, hyn⟩ := List.mem_map.1 hxin
    obtain ⟨x', hx', hxn, hv⟩ := hb2 y hy
    -- `x'` and `x` have the same name, so they are the same argument
    have h1 := find_of_mem_unique (·.name) a.args x ha hx
    have h2 := find_of_mem_unique (·.name) a.args x' ha hx'
    have hnn : x'.name = x.name := hxn.trans hyn
    simp only [hnn] at h2
    have hxx : x' = x := by
      rw [h1] at h2
      exact (Option.some.inj h2).symm
    subst hxx
    exact ⟨y, hy, hyn.symm, hv⟩
  · rintro ⟨_, hs⟩ y hy
    obtain ⟨x, hx, hxn, hv⟩ := hs y hy
    have h1 := find_of_mem_unique (·.name) a.args x ha hx
    simp only [hxn] at h1
    simp only [h1, valuesAreIdentical_eq, hv, if_true]

end ApiFu.C04
