/-
  C04 — property theorems of the overlapping-fields group (§5.3.2) and the assembly over all 26
  rules. Lemmas in Merge6–Merge15.lean and MergeLocal.lean.

  Hypotheses (`InputOk`): the schema description is well-formed (`Schema.wf`, `wfDefaults`, and no
  field type has a non-null directly under a non-null: `typesProper`), and the positions the
  parser gave to selection sets and to field nodes are pairwise distinct (`PosUnique`,
  `FPosUnique`) — the model identifies a selection set and a field node by its position, as the
  code does by its pointer (the memo of fix 06 is keyed by field nodes).
-/
import ApiFu.C04.Merge15
import ApiFu.C04.Hyp
import ApiFu.C04.PropsMerge

namespace ApiFu.C04
open Spec Model
set_option linter.unusedSimpArgs false
set_option linter.unusedVariables false

/-- What the theorems of this file assume about the input. -/
structure InputOk (S : Schema) (D : Document) : Prop where
  wf : S.wf = true
  wfDefaults : Schema.wfDefaults S = true
  typesProper : S.typesProper = true
  setPos : PosUnique S D
  fieldPos : FPosUnique S D

/-- The driver's per-case check (`hypFailures`, reported as `(hyp ok)`) is exactly `InputOk`. -/
theorem inputOk_of_hyp {S : Schema} {D : Document} (h : hypFailures S D = []) : InputOk S D := by
  unfold hypFailures at h
  simp only [List.append_eq_nil_iff] at h
  obtain ⟨⟨⟨⟨h1, h2⟩, h3⟩, h4⟩, h5⟩ := h
  refine ⟨?_, ?_, ?_, ?_, ?_⟩
  · cases hw : S.wf with
    | true => rfl
    | false => simp [hw] at h1
  · cases hw : Schema.wfDefaults S with
    | true => rfl
    | false => simp [hw] at h2
  · cases hw : S.typesProper with
    | true => rfl
    | false => simp [hw] at h3
  · by_cases hp : PosUnique S D
    · exact hp
    · simp [hp] at h4
  · by_cases hp : FPosUnique S D
    · exact hp
    · simp [hp] at h5

/-- **Overlapping fields** (validate_fields.go:95-284 with fixes 01, 02, 06 = §5.3.2
    FieldsInSetCanMerge + SameResponseShape): on a well-scoped document with unique fragment
    names, defined spread targets, unique argument names and no spread cycle, the second pass of
    validateFields — with its per-selection-set memo and whatever order Go iterates its maps in —
    reports nothing at all (no error, no secondary error, fuel not exhausted) exactly when every
    selection set of the document satisfies FieldsInSetCanMerge. -/
theorem model_merge_eq_spec {S : Schema} {D : Document} (h : MergeHyp2 S D)
    (hnc : Spec.noFragmentCycles D = true) :
    validateFields2 S D (Model.fuelFor D) (Model.pairFuelFor D) = ([], false) ↔ Spec.fieldsMerge S D = true :=
  merge_group_eq_spec h hnc

/-- The semantic content of the rule, model side: the check of one selection set passes for every
    selection set iff no selection set contains two fields with the same response name that differ
    (in name, arguments, sub-selection or parent type) and conflict — by a local condition or by a
    conflicting pair among the fields beneath them, to any depth through fragments. -/
theorem model_merge_semantics {S : Schema} {D : Document} (h : MergeHyp2 S D) (hnc : Spec.noFragmentCycles D = true) :
    validateFields2 S D (Model.fuelFor D) (Model.pairFuelFor D) = ([], false) ↔
      ∀ r ∈ allSets S D, ¬ SetBad S D DiffCF r := by
  rw [validateFields2_iff]
  exact model_sets_iff h ⟨h.names, hnc⟩

/-- All 26 rules. -/
structure AllRulesHold (S : Schema) (D : Document) : Prop extends ProvedRulesHold S D where
  singleRootSubscription : Spec.singleRootSubscription D = true
  fieldsMerge : Spec.fieldsMerge S D = true

theorem allRules_iff_valid (S : Schema) (D : Document) : AllRulesHold S D ↔ Spec.valid S D = true := by
  constructor
  · intro h
    have p := h.toProvedRulesHold
    unfold Spec.valid Spec.rules
    simp [p.opNameUnique, p.loneAnonymous, p.opTypeSupported, h.singleRootSubscription, p.fieldsDefined,
      p.leafSelections, h.fieldsMerge, p.argumentsKnown, p.argumentsUnique, p.argumentsRequired,
      p.fragmentNamesUnique, p.fragmentTypesExist, p.fragmentsOnComposite, p.fragmentsUsed, p.spreadsDefined,
      p.noFragmentCycles, p.spreadsPossible, p.valuesCorrect, p.directivesDefined, p.directivesInLocation,
      p.directivesUnique, p.variablesUnique, p.variablesAreInputTypes, p.variableUsesDefined, p.variablesUsed,
      p.variableUsagesAllowed]
  · intro h
    refine { toProvedRulesHold := provedRules_of_valid h, singleRootSubscription := ?_, fieldsMerge := ?_ }
    all_goals
      unfold Spec.valid Spec.rules at h
      simp only [List.all_cons, List.all_nil, Bool.and_true, Bool.and_eq_true] at h
    · exact h.2.2.2.1
    · exact h.2.2.2.2.2.2.1

theorem mergeHyp2_of_rules {S : Schema} {D : Document} (hin : InputOk S D) (h : ProvedRulesHold S D) :
    MergeHyp2 S D :=
  { ws := wellScoped_of_rules hin.wf h, posU := hin.setPos, names := h.fragmentNamesUnique,
    spreads := h.spreadsDefined, proper := hin.typesProper, args := h.argumentsUnique, fpos := hin.fieldPos }

/-- The passes of the validator, all clean (primary errors for the passes whose secondary errors
    are not characterised yet; nothing at all for operations and the overlapping-fields pass). -/
structure AllPassesClean (S : Schema) (D : Document) : Prop extends ProvedPassesClean S D where
  operationsFull : Model.validateOperationsGo S D (Model.fuelFor D) = ([], false)
  merge : validateFields2 S D (Model.fuelFor D) (Model.pairFuelFor D) = ([], false)

/-- **Completeness, all 26 rules**: a document that satisfies every rule of the specification
    (`Spec.valid`) gets no primary error from any pass of the validator, and nothing at all from
    the operations pass and the overlapping-fields pass. -/
theorem validate_complete {S : Schema} {D : Document} (hin : InputOk S D) (h : Spec.valid S D = true) :
    AllPassesClean S D := by
  have ha := (allRules_iff_valid S D).2 h
  have hp := ha.toProvedRulesHold
  have hm := mergeHyp2_of_rules hin hp
  refine { toProvedPassesClean := validate_complete_partial hin.wf hin.wfDefaults hp, operationsFull := ?_,
           merge := (model_merge_eq_spec hm hp.noFragmentCycles).2 ha.fieldsMerge }
  obtain ⟨errs, he, hiff⟩ := model_operations_eq_spec hm.toMergeHyp
  rw [he, hiff.2 ⟨hp.opNameUnique, hp.loneAnonymous, hp.opTypeSupported, ha.singleRootSubscription⟩]

/-- **Soundness, all 26 rules**: if no pass of the validator reports a primary error, and the
    operations pass and the overlapping-fields pass report nothing, the document satisfies every
    rule of the specification. The order is the code's: operations and declarations establish the
    scopes, the first field pass makes the document well-scoped, arguments / spreads / cycles then
    give what the collections through fragments need. -/
theorem validate_sound {S : Schema} {D : Document} (hin : InputOk S D) (h : AllPassesClean S D) :
    Spec.valid S D = true := by
  have hp := validate_sound_partial hin.wf hin.wfDefaults h.toProvedPassesClean
  have hm := mergeHyp2_of_rules hin hp
  obtain ⟨errs, he, hiff⟩ := model_operations_eq_spec hm.toMergeHyp
  rw [h.operationsFull] at he
  have hnil : errs = [] := (Prod.mk.inj he).1.symm
  have hall : AllRulesHold S D :=
    { toProvedRulesHold := hp
      singleRootSubscription := (hiff.1 hnil).2.2.2
      fieldsMerge := (model_merge_eq_spec hm hp.noFragmentCycles).1 h.merge }
  exact (allRules_iff_valid S D).1 hall

/-! ## The verdict -/

theorem single_nil (es : List Err) : Model.single es = [] ↔ es = [] := by
  unfold Model.single
  simp

/-- **The validator accepts only documents the rules allow**: if the model of `ValidateDocument`
    returns no error whatever Go's map iteration picks (`Model.accepts`: every slot list empty,
    fuel not exhausted), the document satisfies all 26 rules of the specification. -/
theorem accepts_sound {S : Schema} {D : Document} (hin : InputOk S D) (h : Model.accepts S D = true) :
    Spec.valid S D = true := by
  unfold Model.accepts Model.allErrors at h
  cases hops : Model.validateOperationsGo S D (Model.fuelFor D) with
  | mk ops f1 =>
  cases hmerge : validateFields2 S D (Model.fuelFor D) (Model.pairFuelFor D) with
  | mk merge f2 =>
  cases hspreads : Model.validateFragmentSpreads S D with
  | mk spreads f3 =>
  cases hvars : Model.validateVariables S D (Model.fuelFor D) with
  | mk vars f4 =>
  simp only [hops, hmerge, hspreads, hvars, Bool.and_eq_true, Bool.not_eq_true', Bool.or_eq_false_iff,
    List.isEmpty_iff, List.append_eq_nil_iff, single_nil] at h
  obtain ⟨⟨⟨⟨hf1, hf2⟩, hf3⟩, hf4⟩, ⟨⟨⟨⟨⟨⟨⟨⟨⟨_, e2⟩, e3⟩, e4⟩, e5⟩, e6⟩, e7⟩, e8⟩, e9⟩, e10⟩⟩ := h
  subst hf1 hf2 hf3 hf4 e2 e4 e7 e10
  apply validate_sound hin
  have hops' := hops
  unfold Model.validateOperationsGo at hops'
  cases hsub : subscriptionErrors S D (Model.fuelFor D) D with
  | mk sub fo =>
    rw [hsub] at hops'
    simp only [Prod.mk.injEq, List.append_eq_nil_iff] at hops'
    unfold Model.validateFragmentSpreads at hspreads
    cases hcyc : Model.fragmentCycleErrors D with
    | mk cyc fo' =>
      rw [hcyc] at hspreads
      simp only [Prod.mk.injEq, List.append_eq_nil_iff] at hspreads
      obtain ⟨⟨hc1, hc2⟩, hc3⟩ := hspreads
      subst hc1 hc3
      refine { operations := by simp [hops'.1.1.1, hops'.1.2], declarations := e6,
               fields := by rw [e3]; rfl, arguments := by rw [e5]; rfl, spreads := by rw [hc2]; rfl,
               values := by rw [e8]; rfl, directives := e9, variableDefs := ?_, cycles := hcyc,
               variables := ⟨[], hvars, rfl⟩, operationsFull := hops, merge := hmerge }
      -- the variable definitions: from the rules the variables pass gives
      obtain ⟨o1, o2, o3⟩ := (model_operations_eq_spec_partial S D).1 (by simp [hops'.1.1.1, hops'.1.2])
      obtain ⟨g1, g2, g3, g4⟩ := (model_fragment_declarations_eq_spec S D).1 e6
      have hsr : ScopeRules S D := ⟨hin.wf, o3, g2, g3⟩
      have hf : primaryFree (Model.validateFields1 S D) = true := by rw [e3]; rfl
      rw [model_fields_eq_spec hsr, Bool.and_eq_true] at hf
      have hws : WellScoped S D := { toScopeRules := hsr, fields := hf.1, leaves := hf.2 }
      obtain ⟨errs', he', hp'⟩ := model_variables_eq_spec hws hin.wfDefaults g1
      rw [hvars] at he'
      have hee : errs' = [] := (Prod.mk.inj he').1.symm
      rw [hee] at hp'
      have hvar : (Spec.variablesUnique D && Spec.variablesAreInputTypes S D && Spec.variableUsesDefined S D &&
          Spec.variablesUsed S D && Spec.variableUsagesAllowed S D) = true := by rw [← hp']; rfl
      simp only [Bool.and_eq_true] at hvar
      exact (model_variable_definitions_eq_spec S D).2 ⟨hvar.1.1.1.1, hvar.1.1.1.2⟩

/-! ## Non-vacuity: the hypotheses are satisfiable and both outcomes occur under them. `decide`
    evaluates concrete instances only; the claims are the theorems above. -/

/-- `{ a: f(a: 1) a: f(a: 2) }`: the input of F-04a. -/
def exConflict : Document :=
  q [.field (some ("a", ⟨1, 3⟩)) "f" ⟨1, 6⟩ [{ name := "a", pos := ⟨1, 8⟩, value := .int "1" ⟨1, 11⟩ }] [] none,
     .field (some ("a", ⟨1, 14⟩)) "f" ⟨1, 17⟩ [{ name := "a", pos := ⟨1, 19⟩, value := .int "2" ⟨1, 22⟩ }] [] none]

/-- `{ o { s } o { s } }` -/
def exSame : Document :=
  q [.field none "o" ⟨1, 3⟩ [] [] (some (.mk [.field none "s" ⟨1, 7⟩ [] [] none] ⟨1, 5⟩)),
     .field none "o" ⟨1, 11⟩ [] [] (some (.mk [.field none "s" ⟨1, 15⟩ [] [] none] ⟨1, 13⟩))]

theorem mergeHyp2_ex (D : Document) (h1 : Spec.opTypeSupported exS D = true)
    (h2 : Spec.fragmentTypesExist exS D = true) (h3 : Spec.fragmentsOnComposite exS D = true)
    (h4 : Spec.fieldsDefined exS D = true) (h5 : Spec.leafSelections exS D = true) (h6 : PosUnique exS D)
    (h7 : Spec.fragmentNamesUnique D = true) (h8 : Spec.spreadsDefined exS D = true)
    (h9 : Spec.argumentsUnique exS D = true) (h10 : FPosUnique exS D) : MergeHyp2 exS D :=
  { ws := { toScopeRules := scopeRules_ex D h1 h2 h3, fields := h4, leaves := h5 },
    posU := h6, names := h7, spreads := h8, proper := by decide, args := h9, fpos := h10 }

/-- `MergeHyp2` is satisfiable, and `model_merge_eq_spec` has both outcomes under it. -/
example : MergeHyp2 exS exConflict :=
  mergeHyp2_ex _ (by decide) (by decide) (by decide) (by decide) (by decide) (by decide) (by decide) (by decide)
    (by decide) (by decide)
example : Spec.noFragmentCycles exConflict = true := by decide
example : Spec.fieldsMerge exS exConflict = false := by decide
example : MergeHyp2 exS exSame :=
  mergeHyp2_ex _ (by decide) (by decide) (by decide) (by decide) (by decide) (by decide) (by decide) (by decide)
    (by decide) (by decide)
example : Spec.fieldsMerge exS exSame = true := by decide
example : Spec.valid exS exSame = true := by decide
example : InputOk exS exSame := ⟨exS_wf, by decide, by decide, by decide, by decide⟩
example : hypFailures exS exConflict = [] := by decide

end ApiFu.C04
