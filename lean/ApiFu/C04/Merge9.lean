/-
  C04 — part 9: soundness of the model's overlapping-fields check with its memo: when the check of
  a selection set comes back with `ok`, the memo it leaves is closed under the rule's conditions,
  and every pair of the set is in it.
-/
import ApiFu.C04.Merge8

namespace ApiFu.C04
open Spec Model
set_option linter.unusedSimpArgs false
set_option linter.unusedVariables false

/-- The unordered pair is in the memo. -/
def InM (M : List (Pos × Pos)) (a b : FRef) : Prop := (a.pos, b.pos) ∈ M ∨ (b.pos, a.pos) ∈ M

theorem InM.symm {M : List (Pos × Pos)} {a b : FRef} (h : InM M a b) : InM M b a := Or.symm h

theorem InM.mono {M M' : List (Pos × Pos)} (hs : ∀ p ∈ M, p ∈ M') {a b : FRef} (h : InM M a b) : InM M' a b :=
  h.elim (fun h => Or.inl (hs _ h)) (fun h => Or.inr (hs _ h))

def SubU (S : Schema) (D : Document) (a b x : FRef) : Prop := Sub S D a x ∨ Sub S D b x

/-- The shape conditions hold locally for the pair, with the pairs beneath it in the memo. -/
def LCs (S : Schema) (D : Document) (M : List (Pos × Pos)) (a b : FRef) : Prop :=
  shapeLocalOk S a b = true ∧
  (shapeDeep S a b = true → ∀ x y, SubU S D a b x → SubU S D a b y → x.rname = y.rname → x ≠ y → InM M x y)

/-- The merge conditions hold locally for the pair, with the pairs beneath it in the memo. -/
def LCm (S : Schema) (D : Document) (Ms Mm : List (Pos × Pos)) (a b : FRef) : Prop :=
  InM Ms a b ∧
  (parentsCond S a b = true → mergeLocalOk a b = true ∧
    ∀ x y, SubU S D a b x → SubU S D a b y → x.rname = y.rname → x ≠ y → InM Mm x y)

theorem LCs.mono {S : Schema} {D : Document} {M M' : List (Pos × Pos)} (hs : ∀ p ∈ M, p ∈ M') {a b : FRef}
    (h : LCs S D M a b) : LCs S D M' a b :=
  ⟨h.1, fun hd x y hx hy hr hne => (h.2 hd x y hx hy hr hne).mono hs⟩

theorem LCm.mono {S : Schema} {D : Document} {Ms Ms' Mm Mm' : List (Pos × Pos)} (hs : ∀ p ∈ Ms, p ∈ Ms')
    (hm : ∀ p ∈ Mm, p ∈ Mm') {a b : FRef} (h : LCm S D Ms Mm a b) : LCm S D Ms' Mm' a b :=
  ⟨h.1.mono hs, fun hp => ⟨(h.2 hp).1, fun x y hx hy hr hne => ((h.2 hp).2 x y hx hy hr hne).mono hm⟩⟩

/-- `M'` extends `M` by pairs whose shape conditions hold relative to `M'`. -/
def ShapeExt (S : Schema) (D : Document) (M M' : List (Pos × Pos)) : Prop :=
  (∀ p ∈ M, p ∈ M') ∧
  ∀ p ∈ M', p ∈ M ∨ ∃ a b, TField S D a ∧ TField S D b ∧ p = (a.pos, b.pos) ∧ LCs S D M' a b

theorem ShapeExt.refl (S : Schema) (D : Document) (M : List (Pos × Pos)) : ShapeExt S D M M :=
  ⟨fun _ h => h, fun _ h => Or.inl h⟩

theorem ShapeExt.trans {S : Schema} {D : Document} {M1 M2 M3 : List (Pos × Pos)} (h1 : ShapeExt S D M1 M2)
    (h2 : ShapeExt S D M2 M3) : ShapeExt S D M1 M3 := by
  refine ⟨fun p hp => h2.1 p (h1.1 p hp), fun p hp => ?_⟩
  rcases h2.2 p hp with h | h
  · rcases h1.2 p h with h' | ⟨a, b, ta, tb, rfl, hl⟩
    · exact Or.inl h'
    · exact Or.inr ⟨a, b, ta, tb, rfl, hl.mono h2.1⟩
  · exact Or.inr h

/-- Both memos extended. -/
def MemoExt (S : Schema) (D : Document) (m m' : Memo) : Prop :=
  ShapeExt S D m.shape m'.shape ∧ (∀ p ∈ m.merge, p ∈ m'.merge) ∧
  ∀ p ∈ m'.merge, p ∈ m.merge ∨
    ∃ a b, TField S D a ∧ TField S D b ∧ p = (a.pos, b.pos) ∧ LCm S D m'.shape m'.merge a b

theorem MemoExt.refl (S : Schema) (D : Document) (m : Memo) : MemoExt S D m m :=
  ⟨ShapeExt.refl S D _, fun _ h => h, fun _ h => Or.inl h⟩

theorem MemoExt.trans {S : Schema} {D : Document} {m1 m2 m3 : Memo} (h1 : MemoExt S D m1 m2)
    (h2 : MemoExt S D m2 m3) : MemoExt S D m1 m3 := by
  refine ⟨h1.1.trans h2.1, fun p hp => h2.2.1 p (h1.2.1 p hp), fun p hp => ?_⟩
  rcases h2.2.2 p hp with h | h
  · rcases h1.2.2 p h with h' | ⟨a, b, ta, tb, rfl, hl⟩
    · exact Or.inl h'
    · exact Or.inr ⟨a, b, ta, tb, rfl, hl.mono h2.1.1 h2.2.1⟩
  · exact Or.inr h

/-! ## The loops, when they come back with `ok` -/

theorem firstErr_inv {α : Type} (R : Memo → Memo → Prop) (hrefl : ∀ m, R m m)
    (htrans : ∀ a b c, R a b → R b c → R a c) (Q : α → Memo → Prop)
    (hmono : ∀ x m m', R m m' → Q x m → Q x m') (f : α → Memo → Alts × Memo) :
    ∀ (xs : List α) (m m' : Memo), (∀ x ∈ xs, ∀ m1 m2, f x m1 = (.ok, m2) → R m1 m2 ∧ Q x m2) →
      Model.firstErr xs m f = (.ok, m') → R m m' ∧ ∀ x ∈ xs, Q x m'
  | [], m, m', _, h => by
    simp only [Model.firstErr, Prod.mk.injEq, true_and] at h
    subst h
    exact ⟨hrefl _, fun _ hx => by simp at hx⟩
  | x :: rest, m, m', hall, h => by
    unfold Model.firstErr at h
    cases hf : f x m with
    | mk alt m1 =>
      rw [hf] at h
      cases alt with
      | ok =>
        simp only at h
        obtain ⟨hr, hq⟩ := hall x (by simp) m m1 hf
        obtain ⟨hr', hq'⟩ := firstErr_inv R hrefl htrans Q hmono f rest m1 m'
          (fun y hy => hall y (by simp [hy])) h
        refine ⟨htrans _ _ _ hr hr', fun y hy => ?_⟩
        simp only [List.mem_cons] at hy
        rcases hy with rfl | hy
        · exact hmono _ _ _ hr' hq
        · exact hq' y hy
      | errs e => simp at h
      | fuelOut => simp at h

theorem anyOrder_inv {α : Type} (R : Memo → Memo → Prop) (hrefl : ∀ m, R m m)
    (htrans : ∀ a b c, R a b → R b c → R a c) (Q : α → Memo → Prop)
    (hmono : ∀ x m m', R m m' → Q x m → Q x m') (f : α → Memo → Alts × Memo)
    (xs : List α) (m m' : Memo) (hall : ∀ x ∈ xs, ∀ m1 m2, f x m1 = (.ok, m2) → R m1 m2 ∧ Q x m2)
    (h : Model.anyOrder xs m f = (.ok, m')) : R m m' ∧ ∀ x ∈ xs, Q x m' := by
  unfold Model.anyOrder at h
  have key : ∀ (xs : List α) (st : Alts × Memo),
      (∀ x ∈ xs, ∀ m1 m2, f x m1 = (.ok, m2) → R m1 m2 ∧ Q x m2) →
      xs.foldl (fun (st : Alts × Memo) x =>
        match st.1 with
        | .fuelOut => st
        | acc =>
          match f x st.2 with
          | (.fuelOut, _) => (.fuelOut, st.2)
          | (.ok, m') => (acc, m')
          | (.errs b, _) =>
            (match acc with
             | .errs a => (.errs (a ++ b), st.2)
             | _ => (.errs b, st.2))) st = (.ok, m') →
      st.1 = .ok ∧ R st.2 m' ∧ ∀ x ∈ xs, Q x m' := by
    intro xs
    induction xs with
    | nil =>
      intro st _ h
      simp only [List.foldl_nil] at h
      subst h
      exact ⟨rfl, hrefl _, fun _ hx => by simp at hx⟩
    | cons x rest ih =>
      intro st hall h
      simp only [List.foldl_cons] at h
      obtain ⟨h1, h2, h3⟩ := ih _ (fun y hy => hall y (by simp [hy])) h
      obtain ⟨acc, m0⟩ := st
      cases acc with
      | fuelOut => simp at h1
      | errs a =>
        simp only at h1
        cases hf : f x m0 with
        | mk alt m1 =>
          rw [hf] at h1
          cases alt <;> simp at h1
      | ok =>
        simp only at h1 h2 h3 ⊢
        cases hf : f x m0 with
        | mk alt m1 =>
          rw [hf] at h1 h2
          cases alt with
          | fuelOut => simp at h1
          | errs b => simp at h1
          | ok =>
            simp only at h2
            obtain ⟨hr, hq⟩ := hall x (by simp) m0 m1 hf
            refine ⟨trivial, htrans _ _ _ hr h2, fun y hy => ?_⟩
            simp only [List.mem_cons] at hy
            rcases hy with rfl | hy
            · exact hmono _ _ _ h2 hq
            · exact h3 y hy
  obtain ⟨_, h2, h3⟩ := key xs (.ok, m) hall h
  exact ⟨h2, h3⟩

theorem pairs_of_ne {α : Type} : ∀ (l : List α) (x y : α), x ∈ l → y ∈ l → x ≠ y →
    (x, y) ∈ Model.pairs l ∨ (y, x) ∈ Model.pairs l
  | [], x, y, hx, _, _ => by simp at hx
  | z :: rest, x, y, hx, hy, hne => by
    simp only [List.mem_cons] at hx hy
    simp only [Model.pairs, List.mem_append, List.mem_map]
    rcases hx with rfl | hx
    · rcases hy with rfl | hy
      · exact absurd rfl hne
      · exact Or.inl (Or.inl ⟨y, hy, rfl⟩)
    · rcases hy with rfl | hy
      · exact Or.inr (Or.inl ⟨x, hx, rfl⟩)
      · rcases pairs_of_ne rest x y hx hy hne with h | h
        · exact Or.inl (Or.inr h)
        · exact Or.inr (Or.inr h)

theorem mem_responseNames (fs : List FRef) (x : FRef) (hx : x ∈ fs) : x.rname ∈ Model.responseNames fs := by
  rw [responseNames_eq, mem_dedup]
  exact List.mem_map.2 ⟨x, hx, rfl⟩

theorem visitPair_true {M M' : List (Pos × Pos)} {p q : Pos} (h : Model.visitPair M p q = (true, M')) :
    (p, q) ∈ M ∨ (q, p) ∈ M := by
  unfold Model.visitPair at h
  by_cases hc : (p, q) ∈ M ∨ (q, p) ∈ M
  · exact hc
  · simp [hc] at h

theorem visitPair_false {M M' : List (Pos × Pos)} {p q : Pos} (h : Model.visitPair M p q = (false, M')) :
    M' = (p, q) :: M := by
  unfold Model.visitPair at h
  by_cases hc : (p, q) ∈ M ∨ (q, p) ∈ M
  · simp [hc] at h
  · simp [hc] at h
    exact h.symm

/-! ## The shape check -/

/-- What a shape check that comes back with `ok` does to the memo. -/
def ShR (S : Schema) (D : Document) (m1 m2 : Memo) : Prop :=
  m2.merge = m1.merge ∧ ShapeExt S D m1.shape m2.shape

theorem ShR.refl (S : Schema) (D : Document) (m : Memo) : ShR S D m m := ⟨rfl, ShapeExt.refl S D _⟩

theorem ShR.trans {S : Schema} {D : Document} {a b c : Memo} (h1 : ShR S D a b) (h2 : ShR S D b c) : ShR S D a c :=
  ⟨h2.1.trans h1.1, h1.2.trans h2.2⟩

theorem subU_of_collect {S : Schema} {D : Document} {a b : FRef} {fs1 fs : List FRef}
    (hm1 : ∀ f, f ∈ fs1 ↔ (f ∈ ([] : List FRef) ∨ Sub S D a f)) (hm2 : ∀ f, f ∈ fs ↔ (f ∈ fs1 ∨ Sub S D b f)) (f : FRef) :
    f ∈ fs ↔ SubU S D a b f := by
  rw [hm2, hm1]
  simp [SubU]

theorem SubU.tfield {S : Schema} {D : Document} {a b x : FRef} (ta : TField S D a) (tb : TField S D b)
    (h : SubU S D a b x) : TField S D x :=
  h.elim (fun h => h.tfield ta) (fun h => h.tfield tb)

theorem shape_sound {S : Schema} {D : Document} (h : MergeHyp S D) :
    ∀ (fuel : Nat) (m m' : Memo) (a b : FRef), TField S D a → TField S D b →
      Model.sameResponseShape S D (Model.fuelFor D) fuel m a b = (.ok, m') →
      ShR S D m m' ∧ InM m'.shape a b := by
  intro fuel
  induction fuel with
  | zero =>
    intro m m' a b _ _ hr
    simp [Model.sameResponseShape] at hr
  | succ fuel ih =>
    intro m m' a b ta tb hr
    unfold Model.sameResponseShape at hr
    cases hv : visitPair m.shape a.pos b.pos with
    | mk seen shape' =>
      rw [hv] at hr
      cases seen with
      | true =>
        simp only [Prod.mk.injEq, true_and] at hr
        subst hr
        exact ⟨ShR.refl S D _, visitPair_true hv⟩
      | false =>
        have hs' := visitPair_false hv
        simp only at hr
        rw [shapeType_ok (ta.hasType h).1, shapeType_ok (tb.hasType h).1] at hr
        simp only at hr
        cases hu : unwrapShapes (typeOf a) (typeOf b) with
        | error msg => rw [hu] at hr; simp at hr
        | ok pr =>
          obtain ⟨ua, ub⟩ := pr
          rw [hu] at hr
          simp only at hr
          by_cases hleaf : (isLeafRef S ua || isLeafRef S ub) = true
          · simp only [hleaf, if_true] at hr
            by_cases he : ua = ub
            · rw [if_pos he] at hr
              simp only [Prod.mk.injEq, true_and] at hr
              subst hr
              refine ⟨⟨rfl, ?_, ?_⟩, ?_⟩
              · intro p hp; simp only [hs']; exact List.mem_cons_of_mem _ hp
              · intro p hp
                simp only [hs', List.mem_cons] at hp
                rcases hp with rfl | hp
                · refine Or.inr ⟨a, b, ta, tb, rfl, by simp [shapeLocalOk, hu, hleaf, he], ?_⟩
                  intro hd
                  simp [shapeDeep, hu, hleaf] at hd
                · exact Or.inl hp
              · simp only [hs']; exact Or.inl (by simp)
            · rw [if_neg he] at hr
              simp at hr
          · simp only [hleaf, if_false, Bool.false_eq_true] at hr
            obtain ⟨fs1, hfs1, hm1⟩ := sub_collect h ta []
            obtain ⟨fs, hfs, hm2⟩ := sub_collect h tb fs1
            have hmem := subU_of_collect hm1 hm2
            rw [hfs1] at hr
            simp only at hr
            rw [hfs] at hr
            simp only at hr
            have tf : ∀ f ∈ fs, TField S D f := fun f hf => ((hmem f).1 hf).tfield ta tb
            obtain ⟨hR, hQ⟩ := anyOrder_inv (ShR S D) (ShR.refl S D) (fun _ _ _ => ShR.trans)
              (fun (n : String) (m : Memo) => ∀ p ∈ Model.pairs (Model.group fs n), InM m.shape p.1 p.2)
              (fun n m1 m2 hR hq p hp => (hq p hp).mono hR.2.1) _ _ _ _
              (by
                intro n _ m1 m2 hf
                exact firstErr_inv (ShR S D) (ShR.refl S D) (fun _ _ _ => ShR.trans)
                  (fun (p : FRef × FRef) (m : Memo) => InM m.shape p.1 p.2)
                  (fun p m1 m2 hR hq => hq.mono hR.2.1) _ _ _ _
                  (by
                    intro p hp m3 m4 hf'
                    obtain ⟨hp1, hp2⟩ := mem_pairs _ p hp
                    rw [mem_group] at hp1 hp2
                    exact ih m3 m4 p.1 p.2 (tf _ hp1.1) (tf _ hp2.1) hf')
                  hf)
              hr
            have hsub : ∀ p ∈ shape', p ∈ m'.shape := hR.2.1
            refine ⟨⟨hR.1, ?_, ?_⟩, ?_⟩
            · intro p hp
              apply hsub
              simp only [hs']; exact List.mem_cons_of_mem _ hp
            · intro p hp
              rcases hR.2.2 p hp with hp' | hnew
              · simp only [hs', List.mem_cons] at hp'
                rcases hp' with rfl | hp'
                · refine Or.inr ⟨a, b, ta, tb, rfl, by simp [shapeLocalOk, hu, hleaf], ?_⟩
                  intro _ x y hx hy hxy hne
                  have hx' := (hmem x).2 hx
                  have hy' := (hmem y).2 hy
                  have hn := mem_responseNames fs x hx'
                  have gx : x ∈ Model.group fs x.rname := (mem_group _ _ _).2 ⟨hx', rfl⟩
                  have gy : y ∈ Model.group fs x.rname := (mem_group _ _ _).2 ⟨hy', hxy.symm⟩
                  rcases pairs_of_ne _ x y gx gy hne with hp | hp
                  · exact hQ _ hn _ hp
                  · exact (hQ _ hn _ hp).symm
                · exact Or.inl hp'
              · exact Or.inr hnew
            · exact Or.inl (hsub _ (by simp [hs']))

/-! ## The merge check -/

theorem merge_sound {S : Schema} {D : Document} (h : MergeHyp S D) :
    ∀ (fuel : Nat) (m m' : Memo) (fs : List FRef), (∀ f ∈ fs, TField S D f) →
      fieldsInSetCanMerge S D (Model.fuelFor D) fuel m fs = (.ok, m') →
      MemoExt S D m m' ∧ ∀ x ∈ fs, ∀ y ∈ fs, x.rname = y.rname → x ≠ y → InM m'.merge x y := by
  intro fuel
  induction fuel with
  | zero =>
    intro m m' fs _ hr
    simp [fieldsInSetCanMerge] at hr
  | succ fuel ih =>
    intro m m' fs tf hr
    unfold fieldsInSetCanMerge at hr
    obtain ⟨hR, hQ⟩ := anyOrder_inv (MemoExt S D) (MemoExt.refl S D) (fun _ _ _ => MemoExt.trans)
      (fun (n : String) (m : Memo) => ∀ p ∈ Model.pairs (Model.group fs n), InM m.merge p.1 p.2)
      (fun n m1 m2 hR hq p hp => (hq p hp).mono hR.2.1) _ _ _ _
      (by
        intro n _ m1 m2 hf
        exact firstErr_inv (MemoExt S D) (MemoExt.refl S D) (fun _ _ _ => MemoExt.trans)
          (fun (p : FRef × FRef) (m : Memo) => InM m.merge p.1 p.2)
          (fun p m1 m2 hR hq => hq.mono hR.2.1) _ _ _ _
          (by
            intro p hp m3 m4 hf'
            obtain ⟨hp1, hp2⟩ := mem_pairs _ p hp
            rw [mem_group] at hp1 hp2
            obtain ⟨a, b⟩ := p
            simp only at hp1 hp2 hf' ⊢
            have ta := tf a hp1.1
            have tb := tf b hp2.1
            cases hv : visitPair m3.merge a.pos b.pos with
            | mk seen merge' =>
              rw [hv] at hf'
              cases seen with
              | true =>
                simp only [Prod.mk.injEq, true_and] at hf'
                subst hf'
                exact ⟨MemoExt.refl S D _, visitPair_true hv⟩
              | false =>
                have hs' := visitPair_false hv
                simp only at hf'
                cases hsh : Model.sameResponseShape S D (Model.fuelFor D) (fuel + 1) { m3 with merge := merge' } a b with
                | mk alt mB =>
                  rw [hsh] at hf'
                  cases alt with
                  | errs e => simp at hf'
                  | fuelOut => simp at hf'
                  | ok =>
                    obtain ⟨⟨hBm, hBs⟩, hBin⟩ := shape_sound h _ _ _ a b ta tb hsh
                    simp only at hBm hBs hf'
                    obtain ⟨pa, hpa⟩ := (ta.hasType h).2
                    obtain ⟨pb, hpb⟩ := (tb.hasType h).2
                    rw [hpa, hpb] at hf'
                    simp only at hf'
                    by_cases hc : (pa = pb || !isObjectName S pa || !isObjectName S pb) = true
                    · rw [if_pos hc] at hf'
                      by_cases hn : a.name = b.name
                      · have hn' : (a.name != b.name) = false := by simp [hn]
                        rw [hn'] at hf'
                        simp only [Bool.false_eq_true, if_false] at hf'
                        cases hd : argumentsDiffer a b with
                        | some e => rw [hd] at hf'; simp at hf'
                        | none =>
                          rw [hd] at hf'
                          simp only at hf'
                          obtain ⟨fs1, hfs1, hm1⟩ := sub_collect h ta []
                          obtain ⟨merged, hmg, hm2⟩ := sub_collect h tb fs1
                          have hmem := subU_of_collect hm1 hm2
                          rw [hfs1] at hf'
                          simp only at hf'
                          rw [hmg] at hf'
                          simp only at hf'
                          obtain ⟨hE, hP⟩ := ih mB m4 merged (fun f hf => ((hmem f).1 hf).tfield ta tb) hf'
                          have hsubm : ∀ p ∈ merge', p ∈ m4.merge := fun p hp => hE.2.1 p (hBm ▸ hp)
                          refine ⟨⟨hBs.trans hE.1, ?_, ?_⟩, ?_⟩
                          · intro p hp
                            apply hsubm
                            simp only [hs']; exact List.mem_cons_of_mem _ hp
                          · intro p hp
                            rcases hE.2.2 p hp with hp' | hnew
                            · rw [hBm] at hp'
                              simp only [hs', List.mem_cons] at hp'
                              rcases hp' with rfl | hp'
                              · refine Or.inr ⟨a, b, ta, tb, rfl, hBin.mono hE.1.1, fun _ => ⟨?_, ?_⟩⟩
                                · simp [mergeLocalOk, hn, hd]
                                · intro x y hx hy hxy hne
                                  exact hP x ((hmem x).2 hx) y ((hmem y).2 hy) hxy hne
                              · exact Or.inl hp'
                            · exact Or.inr hnew
                          · exact Or.inl (hsubm _ (by simp [hs']))
                      · have hn' : (a.name != b.name) = true := by simp [hn]
                        rw [hn'] at hf'
                        simp at hf'
                    · rw [if_neg hc] at hf'
                      simp only [Prod.mk.injEq, true_and] at hf'
                      subst hf'
                      have hpc : parentsCond S a b = false := by
                        simp only [parentsCond, hpa, hpb]
                        simpa using hc
                      refine ⟨⟨hBs, ?_, ?_⟩, ?_⟩
                      · intro p hp
                        rw [hBm]
                        simp only [hs']; exact List.mem_cons_of_mem _ hp
                      · intro p hp
                        rw [hBm] at hp
                        simp only [hs', List.mem_cons] at hp
                        rcases hp with rfl | hp
                        · refine Or.inr ⟨a, b, ta, tb, rfl, hBin, fun hpc' => ?_⟩
                          rw [hpc] at hpc'
                          simp at hpc'
                        · exact Or.inl hp
                      · rw [hBm]
                        exact Or.inl (by simp [hs']))
          hf)
      hr
    refine ⟨hR, ?_⟩
    intro x hx y hy hxy hne
    have hn := mem_responseNames fs x hx
    have gx : x ∈ Model.group fs x.rname := (mem_group _ _ _).2 ⟨hx, rfl⟩
    have gy : y ∈ Model.group fs x.rname := (mem_group _ _ _).2 ⟨hy, hxy.symm⟩
    rcases pairs_of_ne _ x y gx gy hne with hp | hp
    · exact hQ _ hn _ hp
    · exact (hQ _ hn _ hp).symm

end ApiFu.C04
