/-
  C04 — part 9: soundness of the model's overlapping-fields check with its memo: when the check of
  a selection set comes back with `ok`, the memo it leaves is closed under the rule's conditions,
  and every pair of the set is in it.
-/
import ApiFu.C04.Merge8

namespace ApiFu.C04
open Spec Model
set_option linter.unusedSimpArgs false
set_option linter.unusedVariables false

/-- The unordered pair is in the memo. -/
def InM (M : List (Pos × Pos)) (a b : FRef) : Prop := (a.pos, b.pos) ∈ M ∨ (b.pos, a.pos) ∈ M

theorem InM.symm {M : List (Pos × Pos)} {a b : FRef} (h : InM M a b) : InM M b a := Or.symm h

theorem InM.mono {M M' : List (Pos × Pos)} (hs : ∀ p ∈ M, p ∈ M') {a b : FRef} (h : InM M a b) : InM M' a b :=
  h.elim (fun h => Or.inl (hs _ h)) (fun h => Or.inr (hs _ h))

def SubU (S : Schema) (D : Document) (a b x : FRef) : Prop := Sub S D a x ∨ Sub S D b x

/-- The shape conditions hold locally for the pair, with the pairs beneath it in the memo. -/
def LCs (S : Schema) (D : Document) (M : List (Pos × Pos)) (a b : FRef) : Prop :=
  shapeLocalOk S a b = true ∧
  (shapeDeep S a b = true → ∀ x y, SubU S D a b x → SubU S D a b y → x.rname = y.rname → x ≠ y → InM M x y)

/-- The merge conditions hold locally for the pair, with the pairs beneath it in the memo. -/
def LCm (S : Schema) (D : Document) (Ms Mm : List (Pos × Pos)) (a b : FRef) : Prop :=
  InM Ms a b ∧
  (parentsCond S a b = true → mergeLocalOk a b = true ∧
    ∀ x y, SubU S D a b x → SubU S D a b y → x.rname = y.rname → x ≠ y → InM Mm x y)

theorem LCs.mono {S : Schema} {D : Document} {M M' : List (Pos × Pos)} (hs : ∀ p ∈ M, p ∈ M') {a b : FRef}
    (h : LCs S D M a b) : LCs S D M' a b :=
  ⟨h.1, fun hd x y hx hy hr hne => (h.2 hd x y hx hy hr hne).mono hs⟩

theorem LCm.mono {S : Schema} {D : Document} {Ms Ms' Mm Mm' : List (Pos × Pos)} (hs : ∀ p ∈ Ms, p ∈ Ms')
    (hm : ∀ p ∈ Mm, p ∈ Mm') {a b : FRef} (h : LCm S D Ms Mm a b) : LCm S D Ms' Mm' a b :=
  ⟨h.1.mono hs, fun hp => ⟨(h.2 hp).1, fun x y hx hy hr hne => ((h.2 hp).2 x y hx hy hr hne).mono hm⟩⟩

/-- `M'` extends `M` by pairs whose shape conditions hold relative to `M'`. -/
def ShapeExt (S : Schema) (D : Document) (M M' : List (Pos × Pos)) : Prop :=
  (∀ p ∈ M, p ∈ M') ∧
  ∀ p ∈ M', p ∈ M ∨ ∃ a b, TField S D a ∧ TField S D b ∧ p = (a.pos, b.pos) ∧ LCs S D M' a b

theorem ShapeExt.refl (S : Schema) (D : Document) (M : List (Pos × Pos)) : ShapeExt S D M M :=
  ⟨fun _ h => h, fun _ h => Or.inl h⟩

theorem ShapeExt.trans {S : Schema} {D : Document} {M1 M2 M3 : List (Pos × Pos)} (h1 : ShapeExt S D M1 M2)
    (h2 : ShapeExt S D M2 M3) : ShapeExt S D M1 M3 := by
  refine ⟨fun p hp => h2.1 p (h1.1 p hp), fun p hp => ?_⟩
  rcases h2.2 p hp with h | h
  · rcases h1.2 p h with h' | ⟨a, b, ta, tb, rfl, hl⟩
    · exact Or.inl h'
    · exact Or.inr ⟨a, b, ta, tb, rfl, hl.mono h2.1⟩
  · exact Or.inr h

/-- Both memos extended. -/
def MemoExt (S : Schema) (D : Document) (m m' : Memo) : Prop :=
  ShapeExt S D m.shape m'.shape ∧ (∀ p ∈ m.merge, p ∈ m'.merge) ∧
  ∀ p ∈ m'.merge, p ∈ m.merge ∨
    ∃ a b, TField S D a ∧ TField S D b ∧ p = (a.pos, b.pos) ∧ LCm S D m'.shape m'.merge a b

theorem MemoExt.refl (S : Schema) (D : Document) (m : Memo) : MemoExt S D m m :=
  ⟨ShapeExt.refl S D _, fun _ h => h, fun _ h => Or.inl h⟩

theorem MemoExt.trans {S : Schema} {D : Document} {m1 m2 m3 : Memo} (h1 : MemoExt S D m1 m2)
    (h2 : MemoExt S D m2 m3) : MemoExt S D m1 m3 := by
  refine ⟨h1.1.trans h2.1, fun p hp => h2.2.1 p (h1.2.1 p hp), fun p hp => ?_⟩
  rcases h2.2.2 p hp with h | h
  · rcases h1.2.2 p h with h' | ⟨a, b, ta, tb, rfl, hl⟩
    · exact Or.inl h'
    · exact Or.inr ⟨a, b, ta, tb, rfl, hl.mono h2.1.1 h2.2.1⟩
  · exact Or.inr h

/-! ## The loops, when they come back with `ok` -/

theorem firstErr_inv {α : Type} (R : Memo → Memo → Prop) (hrefl : ∀ m, R m m)
    (htrans : ∀ a b c, R a b → R b c → R a c) (Q : α → Memo → Prop)
    (hmono : ∀ x m m', R m m' → Q x m → Q x m') (f : α → Memo → Alts × Memo) :
    ∀ (xs : List α) (m m' : Memo), (∀ x ∈ xs, ∀ m1 m2, f x m1 = (.ok, m2) → R m1 m2 ∧ Q x m2) →
      Model.firstErr xs m f = (.ok, m') → R m m' ∧ ∀ x ∈ xs, Q x m'
  | [], m, m', _, h => by
    simp only [Model.firstErr, Prod.mk.injEq, true_and] at h
    subst h
    exact ⟨hrefl _, fun _ hx => by simp at hx⟩
  | x :: rest, m, m', hall, h => by
    unfold Model.firstErr at h
    cases hf : f x m with
    | mk alt m1 =>
      rw [hf] at h
      cases alt with
      | ok =>
        simp only at h
        obtain ⟨hr, hq⟩ := hall x (by simp) m m1 hf
        obtain ⟨hr', hq'⟩ := firstErr_inv R hrefl htrans Q hmono f rest m1 m'
          (fun y hy => hall y (by simp [hy])) h
        refine ⟨htrans _ _ _ hr hr', fun y hy => ?_⟩
        simp only [List.mem_cons] at hy
        rcases hy with rfl | hy
        · exact hmono _ _ _ hr' hq
        · exact hq' y hy
      | errs e => simp at h
      | fuelOut => simp at h

theorem anyOrder_inv {α : Type} (R : Memo → Memo → Prop) (hrefl : ∀ m, R m m)
    (htrans : ∀ a b c, R a b → R b c → R a c) (Q : α → Memo → Prop)
    (hmono : ∀ x m m', R m m' → Q x m → Q x m') (f : α → Memo → Alts × Memo)
    (xs : List α) (m m' : Memo) (hall : ∀ x ∈ xs, ∀ m1 m2, f x m1 = (.ok, m2) → R m1 m2 ∧ Q x m2)
    (h : Model.anyOrder xs m f = (.ok, m')) : R m m' ∧ ∀ x ∈ xs, Q x m' := by
  unfold Model.anyOrder at h
  have key : ∀ (xs : List α) (st : Alts × Memo),
      (∀ x ∈ xs, ∀ m1 m2, f x m1 = (.ok, m2) → R m1 m2 ∧ Q x m2) →
      xs.foldl (fun (st : Alts × Memo) x =>
        match st.1 with
        | .fuelOut => st
        | acc =>
          match f x st.2 with
          | (.fuelOut, _) => (.fuelOut, st.2)
          | (.ok, m') => (acc, m')
          | (.errs b, _) =>
            (match acc with
             | .errs a => (.errs (a ++ b), st.2)
             | _ => (.errs b, st.2))) st = (.ok, m') →
      st.1 = .ok ∧ R st.2 m' ∧ ∀ x ∈ xs, Q x m' := by
    intro xs
    induction xs with
    | nil =>
      intro st _ h
      simp only [List.foldl_nil] at h
      subst h
      exact ⟨rfl, hrefl _, fun _ hx => by simp at hx⟩
    | cons x rest ih =>
      intro st hall h
      simp only [List.foldl_cons] at h
      obtain ⟨h1, h2, h3⟩ := ih _ (fun y hy => hall y (by simp [hy])) h
      obtain ⟨acc, m0⟩ := st
      cases acc with
      | fuelOut => simp at h1
      | errs a =>
        simp only at h1
        cases hf : f x m0 with
        | mk alt m1 =>
          rw [hf] at h1
          cases alt <;> simp at h1
      | ok =>
        simp only at h1 h2 h3 ⊢
        cases hf : f x m0 with
        | mk alt m1 =>
          rw [hf] at h1 h2
          cases alt with
          | fuelOut => simp at h1
          | errs b => simp at h1
          | ok =>
            simp only at h2
            obtain ⟨hr, hq⟩ := hall x (by simp) m0 m1 hf
            refine ⟨trivial, htrans _ _ _ hr h2, fun y hy => ?_⟩
            simp only [List.mem_cons] at hy
            rcases hy with rfl | hy
            · exact hmono _ _ _ h2 hq
            · exact h3 y hy
  obtain ⟨_, h2, h3⟩ := key xs (.ok, m) hall h
  exact ⟨h2, h3⟩

theorem pairs_of_ne {α : Type} : ∀ (l : List α) (x y : α), x ∈ l → y ∈ l → x ≠ y →
    (x, y) ∈ Model.pairs l ∨ (y, x) ∈ Model.pairs l
  | [], x, y, hx, _, _ => by simp at hx
  | z :: rest, x, y, hx, hy, hne => by
    simp only [List.mem_cons] at hx hy
    simp only [Model.pairs, List.mem_append, List.mem_map]
    rcases hx with rfl | hx
    · rcases hy with rfl | hy
      · exact absurd rfl hne
      · exact Or.inl (Or.inl ⟨y, hy, rfl⟩)
    · rcases hy with rfl | hy
      · exact Or.inr (Or.inl ⟨x, hx, rfl⟩)
      · rcases pairs_of_ne rest x y hx hy hne with h | h
        · exact Or.inl (Or.inr h)
        · exact Or.inr (Or.inr h)

theorem mem_responseNames (fs : List FRef) (x : FRef) (hx : x ∈ fs) : x.rname ∈ Model.responseNames fs := by
  rw [responseNames_eq, mem_dedup]
  exact List.mem_map.2 ⟨x, hx, rfl⟩

theorem visitPair_true {M M' : List (Pos × Pos)} {p q : Pos} (h : Model.visitPair M p q = (true, M')) :
    (p, q) ∈ M ∨ (q, p) ∈ M := by
  unfold Model.visitPair at h
  by_cases hc : (p, q) ∈ M ∨ (q, p) ∈ M
  · exact hc
  · simp [hc] at h

theorem visitPair_false {M M' : List (Pos × Pos)} {p q : Pos} (h : Model.visitPair M p q = (false, M')) :
    M' = (p, q) :: M := by
  unfold Model.visitPair at h
  by_cases hc : (p, q) ∈ M ∨ (q, p) ∈ M
  · simp [hc] at h
  · simp [hc] at h
    exact h.symm

end ApiFu.C04
