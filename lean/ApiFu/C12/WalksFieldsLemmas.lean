/-
  C12 — lemmas for the overlapping-fields model of WalksFields.lean: the potential-function arguments for
  addFieldSelections (`colRun_spec`: every step pays 1 from the weight of the open loops plus the weight of
  the selection sets not yet visited) and for the pair machine (`mstep_spec`: every step pays 1 from the
  weight of the agenda plus the room left in the two memos, which are duplicate-free lists of pairs of
  field positions of the table), the resulting bounds for one selection set and for the whole rule, and the
  size of the table in tokens. Core Lean only.
-/
import ApiFu.C12.WalksFields
import ApiFu.C12.WalksLemmas
namespace ApiFu.C12
open ApiFu.C06

/-! ### addFieldSelections: invariant, potential, bound -/

def itemsAll (T : List (Pos × List Item)) : List Item := T.flatMap (·.2)

/-- Weight of the rows whose selection set was not visited yet. -/
def unv (T : List (Pos × List Item)) (visited : List Pos) : Nat :=
  ((T.filter (fun r => !visited.contains r.1)).map (fun r => 2 * r.2.length + 1)).sum

def framesW : List (List Item) → Nat
  | [] => 0
  | f :: fs => (2 * f.length + 1) + framesW fs

/-- Potential of a collect state. -/
def colPhi (T : List (Pos × List Item)) (st : ColSt) : Nat := framesW st.frames + unv T st.visited

theorem rowOf_sub (T : List (Pos × List Item)) (p : Pos) : ∀ it ∈ rowOf T p, it ∈ itemsAll T := by
  intro it hit
  unfold rowOf at hit
  cases hf : T.find? (fun r => r.1 == p) with
  | none => rw [hf] at hit; cases hit
  | some r =>
    rw [hf] at hit
    have hm := List.mem_of_find?_eq_some hf
    exact List.mem_flatMap.mpr ⟨r, hm, hit⟩

theorem contains_cons_true {p q : Pos} {v : List Pos} (h : v.contains q = true) : (p :: v).contains q = true := by
  simp only [List.contains_iff_mem, List.mem_cons] at *; exact Or.inr h
theorem contains_cons_self {p : Pos} {v : List Pos} : (p :: v).contains p = true := by
  simp [List.contains_iff_mem]
theorem contains_cons_ne {p q : Pos} {v : List Pos} (h : q ≠ p) : (p :: v).contains q = v.contains q := by
  cases hv : v.contains q
  · rw [Bool.eq_false_iff] at hv ⊢
    intro hc
    simp only [List.contains_iff_mem, List.mem_cons] at hc hv
    rcases hc with hc | hc
    · exact h hc
    · exact hv (List.contains_iff_mem.mpr hc)
  · exact contains_cons_true hv

/-- Visiting `p` removes at least the weight of the row that is entered. -/
theorem unv_enter (T : List (Pos × List Item)) (visited : List Pos) (p : Pos) (hp : visited.contains p = false) :
    (2 * (rowOf T p).length + 1) + unv T (p :: visited) ≤ unv T visited + 1 := by
  induction T with
  | nil => simp [rowOf, unv]
  | cons r rs ih =>
    unfold rowOf unv at *
    by_cases hr : r.1 = p
    · -- this row is the one entered; the rest only shrinks
      have hfind : List.find? (fun r => r.1 == p) (r :: rs) = some r := by simp [List.find?, hr]
      rw [hfind]
      have hrest : ((rs.filter (fun r => !(p :: visited).contains r.1)).map (fun r => 2 * r.2.length + 1)).sum ≤
          ((rs.filter (fun r => !visited.contains r.1)).map (fun r => 2 * r.2.length + 1)).sum := by
        clear ih hfind
        induction rs with
        | nil => simp
        | cons q qs ihq =>
          simp only [List.filter_cons]
          by_cases hq1 : visited.contains q.1 = true
          · have : (p :: visited).contains q.1 = true := contains_cons_true hq1
            simp only [hq1, this, Bool.not_true, Bool.false_eq_true, if_false]
            exact ihq
          · have hq1' : visited.contains q.1 = false := by simpa using hq1
            by_cases hq2 : (p :: visited).contains q.1 = true
            · simp only [hq1', hq2, Bool.not_true, Bool.not_false, Bool.false_eq_true, if_false, if_true, List.map_cons, List.sum_cons]
              omega
            · have hq2' : (p :: visited).contains q.1 = false := by simpa using hq2
              simp only [hq1', hq2', Bool.not_false, if_true, List.map_cons, List.sum_cons]
              omega
      have h1 : (p :: visited).contains r.1 = true := by rw [hr]; exact contains_cons_self
      have h2 : visited.contains r.1 = false := by rw [hr]; exact hp
      simp only [List.filter_cons, h1, h2, Bool.not_true, Bool.not_false, Bool.false_eq_true, if_false, if_true,
        List.map_cons, List.sum_cons]
      omega
    · have hne : (r.1 == p) = false := by simpa using hr
      have hfind : List.find? (fun r => r.1 == p) (r :: rs) = List.find? (fun r => r.1 == p) rs := by
        simp [List.find?, hne]
      rw [hfind]
      have hc : (p :: visited).contains r.1 = visited.contains r.1 := contains_cons_ne hr
      simp only [List.filter_cons, hc]
      by_cases hv : visited.contains r.1 = true
      · simp only [hv, Bool.not_true, Bool.false_eq_true, if_false]
        exact ih
      · have hv' : visited.contains r.1 = false := by simpa using hv
        simp only [hv', Bool.not_false, if_true, List.map_cons, List.sum_cons]
        omega


structure ColInv (T : List (Pos × List Item)) (st : ColSt) : Prop where
  frames : ∀ fr ∈ st.frames, ∀ it ∈ fr, it ∈ itemsAll T
  fields : ∀ fp ∈ st.fields, fp.field ∈ fldPos T

theorem fld_mem_fldPos {T : List (Pos × List Item)} {fp : FP} (h : Item.fld fp ∈ itemsAll T) : fp.field ∈ fldPos T := by
  unfold fldPos
  exact List.mem_filterMap.mpr ⟨.fld fp, h, rfl⟩

theorem enter_spec (T : List (Pos × List Item)) (st : ColSt) (p : Pos) (hi : ColInv T st) :
    ColInv T (st.enter T p) ∧ colPhi T (st.enter T p) ≤ colPhi T st + 1 ∧
      (st.enter T p).steps = st.steps ∧ (st.enter T p).fields = st.fields ∧ (st.enter T p).err = st.err := by
  unfold ColSt.enter
  split
  · exact ⟨hi, Nat.le_succ _, rfl, rfl, rfl⟩
  · rename_i hc
    have hc' : st.visited.contains p = false := by simpa using hc
    refine ⟨⟨?_, hi.fields⟩, ?_, rfl, rfl, rfl⟩
    · intro fr hfr it hit
      rcases List.mem_cons.mp hfr with rfl | hfr
      · exact rowOf_sub T p it hit
      · exact hi.frames fr hfr it hit
    · have := unv_enter T st.visited p hc'
      simp only [colPhi, framesW]
      omega

theorem colRun_spec (T : List (Pos × List Item)) (ftop : String → Option Pos) :
    ∀ (f : Nat) (st : ColSt), ColInv T st → colPhi T st < f →
      ∃ st', colRun T ftop f st = some st' ∧ (∀ fp ∈ st'.fields, fp.field ∈ fldPos T) ∧
        st'.steps ≤ st.steps + colPhi T st ∧ st'.fields.length + st.steps ≤ st.fields.length + st'.steps
  | 0, st, _, h => by omega
  | f + 1, st, hi, hf => by
    unfold colRun
    split
    · exact ⟨st, rfl, hi.fields, Nat.le_add_right _ _, Nat.le_refl _⟩
    · cases hfr : st.frames with
      | nil => exact ⟨st, rfl, hi.fields, Nat.le_add_right _ _, Nat.le_refl _⟩
      | cons fr rest =>
        cases fr with
        | nil =>
          simp only
          have hinv : ColInv T { st with frames := rest } :=
            ⟨fun fr h => hi.frames fr (by rw [hfr]; exact List.mem_cons_of_mem _ h), hi.fields⟩
          have hphi : colPhi T { st with frames := rest } + 1 = colPhi T st := by
            simp only [colPhi, hfr, framesW, List.length_nil]; omega
          obtain ⟨st', hs, h1, h2, h3⟩ := colRun_spec T ftop f _ hinv (by omega)
          exact ⟨st', hs, h1, by simp only at h2; omega, h3⟩
        | cons it its =>
          simp only
          have hits : ∀ x ∈ its, x ∈ itemsAll T := fun x hx => hi.frames (it :: its) (by rw [hfr]; simp) x (by simp [hx])
          have hit : it ∈ itemsAll T := hi.frames (it :: its) (by rw [hfr]; simp) it (by simp)
          have hfrs : ∀ fr ∈ its :: rest, ∀ x ∈ fr, x ∈ itemsAll T := by
            intro fr h x hx
            rcases List.mem_cons.mp h with rfl | h
            · exact hits x hx
            · exact hi.frames fr (by rw [hfr]; exact List.mem_cons_of_mem _ h) x hx
          -- the state after taking `it` off its frame
          have hinv0 : ColInv T { st with frames := its :: rest, steps := st.steps + 1 } := ⟨hfrs, hi.fields⟩
          have hphi0 : colPhi T { st with frames := its :: rest, steps := st.steps + 1 } + 2 = colPhi T st := by
            simp only [colPhi, hfr, framesW, List.length_cons]; omega
          cases it with
          | fld fp =>
            simp only
            have hinv1 : ColInv T { st with frames := its :: rest, steps := st.steps + 1, fields := st.fields ++ [fp] } :=
              ⟨hfrs, fun x hx => by
                rcases List.mem_append.mp hx with hx | hx
                · exact hi.fields x hx
                · simp only [List.mem_singleton] at hx; subst hx; exact fld_mem_fldPos hit⟩
            have hphi1 : colPhi T { st with frames := its :: rest, steps := st.steps + 1, fields := st.fields ++ [fp] } + 2 = colPhi T st := hphi0
            obtain ⟨st', hs, h1, h2, h3⟩ := colRun_spec T ftop f _ hinv1 (by omega)
            refine ⟨st', hs, h1, by simp only at h2; omega, ?_⟩
            simp only [List.length_append, List.length_cons, List.length_nil] at h3
            omega
          | sub p =>
            simp only
            obtain ⟨e1, e2, e3, e4, _⟩ := enter_spec T { st with frames := its :: rest, steps := st.steps + 1 } p hinv0
            obtain ⟨st', hs, h1, h2, h3⟩ := colRun_spec T ftop f _ e1 (by omega)
            refine ⟨st', hs, h1, by rw [e3] at h2; simp only at h2; omega, ?_⟩
            rw [e3, e4] at h3
            simp only at h3
            omega
          | spread n =>
            simp only
            cases hft : ftop n with
            | none =>
              simp only
              exact ⟨_, rfl, hi.fields, by simp only; omega, by simp only; omega⟩
            | some p =>
              simp only
              obtain ⟨e1, e2, e3, e4, _⟩ := enter_spec T { st with frames := its :: rest, steps := st.steps + 1 } p hinv0
              obtain ⟨st', hs, h1, h2, h3⟩ := colRun_spec T ftop f _ e1 (by omega)
              refine ⟨st', hs, h1, by rw [e3] at h2; simp only at h2; omega, ?_⟩
              rw [e3, e4] at h3
              simp only at h3
              omega


theorem unv_nil_le (T : List (Pos × List Item)) : unv T [] ≤ 2 * (T.map (fun r => r.2.length + 1)).sum := by
  induction T with
  | nil => simp [unv]
  | cons r rs ih =>
    simp only [unv, List.contains_nil, Bool.not_false, List.filter_cons, if_true, List.map_cons, List.sum_cons] at *
    omega

/-- One addFieldSelections call: it ends within the model's fuel, takes at most `colFuel T` steps, adds at
    most one field per step, and every field it returns is a field of the table. -/
theorem collect_spec (T : List (Pos × List Item)) (ftop : String → Option Pos) (start : Option Pos) (sofar : List FP)
    (hs : ∀ fp ∈ sofar, fp.field ∈ fldPos T) :
    ∃ l n e, collect T ftop start sofar = some (l, n, e) ∧ (∀ fp ∈ l, fp.field ∈ fldPos T) ∧
      n ≤ colFuel T ∧ l.length ≤ sofar.length + n := by
  cases start with
  | none => exact ⟨sofar, 0, false, rfl, hs, Nat.zero_le _, Nat.le_refl _⟩
  | some p =>
    have hinv : ColInv T { frames := [rowOf T p], visited := [p], fields := sofar, steps := 0, err := false } :=
      ⟨fun fr h it hit => by
         simp only [List.mem_singleton] at h; subst h; exact rowOf_sub T p it hit, hs⟩
    have hphi : colPhi T { frames := [rowOf T p], visited := [p], fields := sofar, steps := 0, err := false } < colFuel T := by
      have h1 := unv_enter T [] p (by simp)
      have h2 := unv_nil_le T
      simp only [colPhi, framesW, colFuel]
      omega
    obtain ⟨st', hs', h1, h2, h3⟩ := colRun_spec T ftop (colFuel T) _ hinv hphi
    refine ⟨st'.fields, st'.steps, st'.err, by simp only [collect, hs'], h1, ?_, by simp only at h3; omega⟩
    simp only [Nat.zero_add] at h2
    omega

theorem collect2_spec (T : List (Pos × List Item)) (ftop : String → Option Pos) (a b : FP) :
    ∃ l n e, collect2 T ftop a b = some (l, n, e) ∧ (∀ fp ∈ l, fp.field ∈ fldPos T) ∧
      n ≤ 2 * colFuel T ∧ l.length ≤ 2 * colFuel T := by
  obtain ⟨l1, n1, e1, hc1, hf1, hn1, hl1⟩ := collect_spec T ftop a.sub [] (by simp)
  unfold collect2
  rw [hc1]
  simp only
  cases e1 with
  | true => exact ⟨l1, n1, true, by simp, hf1, by omega, by simp only [List.length_nil] at hl1; omega⟩
  | false =>
    obtain ⟨l2, n2, e2, hc2, hf2, hn2, hl2⟩ := collect_spec T ftop b.sub l1 hf1
    rw [hc2]
    exact ⟨l2, n1 + n2, e2, by simp, hf2, by omega, by simp only [List.length_nil] at hl1; omega⟩

theorem keyPairs_length_le : ∀ l : List FP, (keyPairs l).length ≤ l.length * l.length
  | [] => by simp [keyPairs]
  | a :: l => by
    have ih := keyPairs_length_le l
    have hf := List.length_filter_le (fun b => b.key == a.key) l
    simp only [keyPairs, List.length_append, List.length_map, List.length_cons]
    have : (l.length + 1) * (l.length + 1) = l.length * l.length + 2 * l.length + 1 := by
      rw [Nat.add_mul, Nat.mul_add, Nat.mul_add]; omega
    omega

theorem keyPairs_mem : ∀ (l : List FP) (pr : FP × FP), pr ∈ keyPairs l → pr.1 ∈ l ∧ pr.2 ∈ l
  | [], pr, h => by simp [keyPairs] at h
  | a :: l, pr, h => by
    simp only [keyPairs, List.mem_append, List.mem_map, List.mem_filter] at h
    rcases h with ⟨b, ⟨hb, _⟩, rfl⟩ | h
    · exact ⟨by simp, by simp [hb]⟩
    · obtain ⟨h1, h2⟩ := keyPairs_mem l pr h
      exact ⟨List.mem_cons_of_mem _ h1, List.mem_cons_of_mem _ h2⟩


/-! ### The pair machine: invariant, potential, bound -/

/-- All ordered pairs of field positions. -/
def PP (T : List (Pos × List Item)) : List (Pos × Pos) :=
  (fldPos T).flatMap (fun a => (fldPos T).map (fun b => (a, b)))

theorem mem_PP {T : List (Pos × List Item)} {a b : Pos} (ha : a ∈ fldPos T) (hb : b ∈ fldPos T) : (a, b) ∈ PP T :=
  List.mem_flatMap.mpr ⟨a, ha, List.mem_map.mpr ⟨b, hb, rfl⟩⟩

theorem length_flatMap_const {α β : Type} (l : List α) (g : α → List β) (k : Nat) (h : ∀ a, (g a).length = k) :
    (l.flatMap g).length = l.length * k := by
  induction l with
  | nil => simp
  | cons a l ih => simp only [List.flatMap_cons, List.length_append, h a, ih, List.length_cons, Nat.add_mul, Nat.one_mul]; omega

theorem PP_length (T : List (Pos × List Item)) : (PP T).length = fieldCount T * fieldCount T := by
  unfold PP fieldCount
  exact length_flatMap_const _ _ _ (fun a => by simp)

def frameW (Q : Nat) : Frame → Nat
  | .cm ps => 3 * ps.length + 1
  | .ss ps => 2 * ps.length + 1
  | .ssCall _ _ => 1
  | .cmAfter _ _ => 3 * Q + 2

def agendaW (Q : Nat) : List Frame → Nat
  | [] => 0
  | f :: fs => frameW Q f + agendaW Q fs

def qOf (T : List (Pos × List Item)) : Nat := (2 * colFuel T) * (2 * colFuel T)

/-- Potential of a machine state. -/
def mPhi (T : List (Pos × List Item)) (st : MSt) : Nat :=
  agendaW (qOf T) st.agenda + (3 * qOf T + 1) * ((PP T).length - st.memoCM.length) +
    (2 * qOf T + 1) * ((PP T).length - st.memoSS.length)

def pairsOK (T : List (Pos × List Item)) (ps : List (FP × FP)) : Prop :=
  ∀ pr ∈ ps, pr.1.field ∈ fldPos T ∧ pr.2.field ∈ fldPos T

def frameOK (T : List (Pos × List Item)) : Frame → Prop
  | .cm ps => pairsOK T ps
  | .ss ps => pairsOK T ps
  | .ssCall a b => a.field ∈ fldPos T ∧ b.field ∈ fldPos T
  | .cmAfter a b => a.field ∈ fldPos T ∧ b.field ∈ fldPos T

structure MInv (T : List (Pos × List Item)) (st : MSt) : Prop where
  cmNodup : st.memoCM.Nodup
  ssNodup : st.memoSS.Nodup
  cmSub : ∀ pr ∈ st.memoCM, pr ∈ PP T
  ssSub : ∀ pr ∈ st.memoSS, pr ∈ PP T
  frames : ∀ fr ∈ st.agenda, frameOK T fr

def heads (st : MSt) : Nat := st.canMergePair + st.sameShape + st.sameShapePair

theorem memoHas_false {m : List (Pos × Pos)} {a b : Pos} (h : memoHas m a b = false) : (a, b) ∉ m := by
  unfold memoHas at h
  simp only [Bool.or_eq_false_iff] at h
  intro hm
  have := h.1
  rw [Bool.eq_false_iff] at this
  exact this (List.contains_iff_mem.mpr hm)

/-- Adding a new pair of the table to a memo: the room left shrinks by exactly one. -/
theorem memo_room {T : List (Pos × List Item)} {m : List (Pos × Pos)} {pr : Pos × Pos}
    (hn : m.Nodup) (hs : ∀ x ∈ m, x ∈ PP T) (hnew : pr ∉ m) (hp : pr ∈ PP T) :
    (pr :: m).Nodup ∧ (∀ x ∈ pr :: m, x ∈ PP T) ∧ (PP T).length - m.length = ((PP T).length - (pr :: m).length) + 1 := by
  have hn' : (pr :: m).Nodup := List.nodup_cons.mpr ⟨hnew, hn⟩
  have hs' : ∀ x ∈ pr :: m, x ∈ PP T := by
    intro x hx
    rcases List.mem_cons.mp hx with rfl | hx
    · exact hp
    · exact hs x hx
  have := nodup_length_le hn' hs'
  simp only [List.length_cons] at this ⊢
  exact ⟨hn', hs', by omega⟩

theorem keyPairs_ok {T : List (Pos × List Item)} {l : List FP} (h : ∀ fp ∈ l, fp.field ∈ fldPos T) : pairsOK T (keyPairs l) := by
  intro pr hpr
  obtain ⟨h1, h2⟩ := keyPairs_mem l pr hpr
  exact ⟨h _ h1, h _ h2⟩

theorem keyPairs_le_q {T : List (Pos × List Item)} {l : List FP} (h : l.length ≤ 2 * colFuel T) : (keyPairs l).length ≤ qOf T :=
  Nat.le_trans (keyPairs_length_le l) (Nat.mul_le_mul h h)


theorem mstep_spec (T : List (Pos × List Item)) (ftop : String → Option Pos) (O : Oracles) (st : MSt)
    (hi : MInv T st) (hne : st.agenda ≠ []) :
    ∃ st', mstep T ftop O st = some st' ∧ MInv T st' ∧ mPhi T st' + 1 ≤ mPhi T st ∧
      heads st' ≤ heads st + 1 ∧ st'.collect ≤ st.collect + 2 * colFuel T := by
  unfold mstep
  cases hag : st.agenda with
  | nil => exact absurd hag hne
  | cons fr rest =>
    have hrestOK : ∀ x ∈ rest, frameOK T x := fun x hx => hi.frames x (by rw [hag]; exact List.mem_cons_of_mem _ hx)
    have hfrOK : frameOK T fr := hi.frames fr (by rw [hag]; simp)
    cases fr with
    | cm ps =>
      cases ps with
      | nil =>
        simp only
        refine ⟨_, rfl, ⟨hi.cmNodup, hi.ssNodup, hi.cmSub, hi.ssSub, hrestOK⟩, ?_, Nat.le_succ _, Nat.le_add_right _ _⟩
        simp only [mPhi, hag, agendaW, frameW, List.length_nil]; omega
      | cons pr ps =>
        obtain ⟨a, b⟩ := pr
        simp only
        have hab : a.field ∈ fldPos T ∧ b.field ∈ fldPos T := hfrOK (a, b) (by simp)
        have hps : pairsOK T ps := fun x hx => hfrOK x (by simp [hx])
        split
        · -- memo hit
          refine ⟨_, rfl, ⟨hi.cmNodup, hi.ssNodup, hi.cmSub, hi.ssSub, ?_⟩, ?_, ?_, Nat.le_add_right _ _⟩
          · intro x hx
            rcases List.mem_cons.mp hx with rfl | hx
            · exact hps
            · exact hrestOK x hx
          · simp only [mPhi, hag, agendaW, frameW, List.length_cons]; omega
          · simp only [heads]; omega
        · rename_i hm
          have hm' : memoHas st.memoCM a.field b.field = false := by simpa using hm
          obtain ⟨n1, n2, n3⟩ := memo_room hi.cmNodup hi.cmSub (memoHas_false hm') (mem_PP hab.1 hab.2)
          refine ⟨_, rfl, ⟨n1, hi.ssNodup, n2, hi.ssSub, ?_⟩, ?_, ?_, Nat.le_add_right _ _⟩
          · intro x hx
            simp only [List.mem_cons] at hx
            rcases hx with rfl | rfl | rfl | hx
            · exact hab
            · exact hab
            · exact hps
            · exact hrestOK x hx
          · have hroom : (3 * qOf T + 1) * ((PP T).length - st.memoCM.length) =
                (3 * qOf T + 1) * ((PP T).length - ((a.field, b.field) :: st.memoCM).length) + (3 * qOf T + 1) := by
              rw [n3, Nat.mul_add, Nat.mul_one]
            simp only [mPhi, hag, agendaW, frameW, hroom]
            simp only [List.length_cons]
            omega
          · simp only [heads]; omega
    | ss ps =>
      cases ps with
      | nil =>
        simp only
        refine ⟨_, rfl, ⟨hi.cmNodup, hi.ssNodup, hi.cmSub, hi.ssSub, hrestOK⟩, ?_, Nat.le_succ _, Nat.le_add_right _ _⟩
        simp only [mPhi, hag, agendaW, frameW, List.length_nil]; omega
      | cons pr ps =>
        obtain ⟨a, b⟩ := pr
        simp only
        have hab : a.field ∈ fldPos T ∧ b.field ∈ fldPos T := hfrOK (a, b) (by simp)
        have hps : pairsOK T ps := fun x hx => hfrOK x (by simp [hx])
        refine ⟨_, rfl, ⟨hi.cmNodup, hi.ssNodup, hi.cmSub, hi.ssSub, ?_⟩, ?_, ?_, Nat.le_add_right _ _⟩
        · intro x hx
          simp only [List.mem_cons] at hx
          rcases hx with rfl | rfl | hx
          · exact hab
          · exact hps
          · exact hrestOK x hx
        · simp only [mPhi, hag, agendaW, frameW, List.length_cons]; omega
        · simp only [heads]; omega
    | ssCall a b =>
      simp only
      have hab : a.field ∈ fldPos T ∧ b.field ∈ fldPos T := hfrOK
      have hbase : agendaW (qOf T) st.agenda = 1 + agendaW (qOf T) rest := by simp only [hag, agendaW, frameW]
      split
      · refine ⟨_, rfl, ⟨hi.cmNodup, hi.ssNodup, hi.cmSub, hi.ssSub, hrestOK⟩, ?_, ?_, Nat.le_add_right _ _⟩
        · simp only [mPhi, hbase]; omega
        · simp only [heads]; omega
      · rename_i hm
        have hm' : memoHas st.memoSS a.field b.field = false := by simpa using hm
        obtain ⟨n1, n2, n3⟩ := memo_room hi.ssNodup hi.ssSub (memoHas_false hm') (mem_PP hab.1 hab.2)
        have hroom : (2 * qOf T + 1) * ((PP T).length - st.memoSS.length) =
            (2 * qOf T + 1) * ((PP T).length - ((a.field, b.field) :: st.memoSS).length) + (2 * qOf T + 1) := by
          rw [n3, Nat.mul_add, Nat.mul_one]
        cases O.shape a.field b.field with
        | err =>
          refine ⟨_, rfl, ⟨hi.cmNodup, n1, hi.cmSub, n2, hrestOK⟩, ?_, ?_, Nat.le_add_right _ _⟩
          · simp only [mPhi, hbase, hroom]; omega
          · simp only [heads]; omega
        | leaf =>
          refine ⟨_, rfl, ⟨hi.cmNodup, n1, hi.cmSub, n2, hrestOK⟩, ?_, ?_, Nat.le_add_right _ _⟩
          · simp only [mPhi, hbase, hroom]; omega
          · simp only [heads]; omega
        | comp =>
          simp only
          obtain ⟨l, n, e, hc, hf, hn, hl⟩ := collect2_spec T ftop a b
          rw [hc]
          simp only
          cases e with
          | true =>
            refine ⟨_, rfl, ⟨hi.cmNodup, n1, hi.cmSub, n2, hrestOK⟩, ?_, ?_, by simp only; omega⟩
            · simp only [mPhi, hbase, hroom, if_true]; omega
            · simp only [heads, if_true]; omega
          | false =>
            have hq := keyPairs_le_q (T := T) hl
            refine ⟨_, rfl, ⟨hi.cmNodup, n1, hi.cmSub, n2, ?_⟩, ?_, ?_, by simp only [Bool.false_eq_true, if_false]; omega⟩
            · intro x hx
              simp only [Bool.false_eq_true, if_false, List.mem_cons] at hx
              rcases hx with rfl | hx
              · exact keyPairs_ok hf
              · exact hrestOK x hx
            · simp only [mPhi, hbase, hroom, Bool.false_eq_true, if_false, agendaW, frameW]; omega
            · simp only [heads, Bool.false_eq_true, if_false]; omega
    | cmAfter a b =>
      simp only
      have hab : a.field ∈ fldPos T ∧ b.field ∈ fldPos T := hfrOK
      have hbase : agendaW (qOf T) st.agenda = (3 * qOf T + 2) + agendaW (qOf T) rest := by simp only [hag, agendaW, frameW]
      cases O.merge a.field b.field a.parent b.parent with
      | err =>
        refine ⟨_, rfl, ⟨hi.cmNodup, hi.ssNodup, hi.cmSub, hi.ssSub, hrestOK⟩, ?_, Nat.le_succ _, Nat.le_add_right _ _⟩
        simp only [mPhi, hbase]; omega
      | skip =>
        refine ⟨_, rfl, ⟨hi.cmNodup, hi.ssNodup, hi.cmSub, hi.ssSub, hrestOK⟩, ?_, Nat.le_succ _, Nat.le_add_right _ _⟩
        simp only [mPhi, hbase]; omega
      | recurse =>
        simp only
        obtain ⟨l, n, e, hc, hf, hn, hl⟩ := collect2_spec T ftop a b
        rw [hc]
        simp only
        cases e with
        | true =>
          refine ⟨_, rfl, ⟨hi.cmNodup, hi.ssNodup, hi.cmSub, hi.ssSub, hrestOK⟩, ?_, ?_, by simp only; omega⟩
          · simp only [mPhi, hbase, if_true]; omega
          · simp only [heads, if_true]; omega
        | false =>
          have hq := keyPairs_le_q (T := T) hl
          refine ⟨_, rfl, ⟨hi.cmNodup, hi.ssNodup, hi.cmSub, hi.ssSub, ?_⟩, ?_, ?_, by simp only [Bool.false_eq_true, if_false]; omega⟩
          · intro x hx
            simp only [Bool.false_eq_true, if_false, List.mem_cons] at hx
            rcases hx with rfl | hx
            · exact keyPairs_ok hf
            · exact hrestOK x hx
          · simp only [mPhi, hbase, Bool.false_eq_true, if_false, agendaW, frameW]; omega
          · simp only [heads, Bool.false_eq_true, if_false]; omega


theorem mrun_spec (T : List (Pos × List Item)) (ftop : String → Option Pos) (O : Oracles) :
    ∀ (f : Nat) (st : MSt), MInv T st → mPhi T st < f →
      ∃ st', mrun T ftop O f st = some st' ∧ heads st' ≤ heads st + mPhi T st ∧
        st'.collect ≤ st.collect + 2 * colFuel T * mPhi T st
  | 0, st, _, h => by omega
  | f + 1, st, hi, hf => by
    unfold mrun
    split
    · exact ⟨st, rfl, Nat.le_add_right _ _, Nat.le_add_right _ _⟩
    · cases hag : st.agenda with
      | nil => exact ⟨st, rfl, Nat.le_add_right _ _, Nat.le_add_right _ _⟩
      | cons fr rest =>
        simp only
        obtain ⟨st1, hs1, hi1, hphi, hh, hc⟩ := mstep_spec T ftop O st hi (by rw [hag]; simp)
        rw [hs1]
        simp only
        obtain ⟨st', hs', hh', hc'⟩ := mrun_spec T ftop O f st1 hi1 (by omega)
        refine ⟨st', hs', by omega, ?_⟩
        have : 2 * colFuel T * mPhi T st1 + 2 * colFuel T ≤ 2 * colFuel T * mPhi T st := by
          have := Nat.mul_le_mul_left (2 * colFuel T) hphi
          rw [Nat.mul_add, Nat.mul_one] at this
          exact this
        omega

def mst0 (l : List FP) (n : Nat) : MSt :=
  { agenda := [.cm (keyPairs l)], memoCM := [], memoSS := [], err := false, collect := n, canMergePair := 0,
    sameShape := 0, sameShapePair := 0 }

/-- The check of one selection set: it ends within `checkFuel T`; the three pair-loop heads together are
    reached fewer than `checkFuel T` times and addFieldSelections looks at fewer than
    `colFuel T · (1 + 2·checkFuel T)` selections. -/
theorem checkSet_bound (T : List (Pos × List Item)) (ftop : String → Option Pos) (O : Oracles) (p : Pos) :
    ∃ st, checkSet T ftop O (checkFuel T) p = some st ∧ heads st ≤ checkFuel T ∧
      st.collect ≤ colFuel T + 2 * colFuel T * checkFuel T := by
  obtain ⟨l, n, e, hc, hf, hn, hl⟩ := collect_spec T ftop (some p) [] (by simp)
  unfold checkSet
  rw [hc]
  simp only
  cases e with
  | true =>
    refine ⟨_, rfl, by simp [heads], ?_⟩
    simp only [if_true]
    omega
  | false =>
    simp only [Bool.false_eq_true, if_false]
    have hl' : l.length ≤ colFuel T := by simp only [List.length_nil] at hl; omega
    have hpairs : (keyPairs l).length ≤ colFuel T * colFuel T :=
      Nat.le_trans (keyPairs_length_le l) (Nat.mul_le_mul hl' hl')
    have hinv : MInv T (mst0 l n) :=
      ⟨List.nodup_nil, List.nodup_nil, by simp [mst0], by simp [mst0], fun fr h => by
        simp only [mst0, List.mem_singleton] at h; subst h; exact keyPairs_ok hf⟩
    have hphi : mPhi T (mst0 l n) < checkFuel T := by
      simp only [mPhi, mst0, agendaW, frameW, List.length_nil, Nat.sub_zero, PP_length, checkFuel, qOf]
      have e1 : (3 * (2 * colFuel T * (2 * colFuel T)) + 1) * (fieldCount T * fieldCount T) +
          (2 * (2 * colFuel T * (2 * colFuel T)) + 1) * (fieldCount T * fieldCount T) =
          (5 * (2 * colFuel T * (2 * colFuel T)) + 2) * (fieldCount T * fieldCount T) := by
        rw [← Nat.add_mul]; congr 1; omega
      have e2 : (5 * (2 * colFuel T * (2 * colFuel T)) + 4) * (fieldCount T * fieldCount T) =
          (5 * (2 * colFuel T * (2 * colFuel T)) + 2) * (fieldCount T * fieldCount T) + 2 * (fieldCount T * fieldCount T) := by
        rw [← Nat.add_mul]
      omega
    obtain ⟨st', hs', hh, hcol⟩ := mrun_spec T ftop O (checkFuel T) _ hinv hphi
    have hh0 : heads (mst0 l n) = 0 := rfl
    have hc0 : (mst0 l n).collect = n := rfl
    have hmul := Nat.mul_le_mul_left (2 * colFuel T) (Nat.le_of_lt hphi)
    refine ⟨st', hs', by omega, by omega⟩

theorem checkAll_bound (T : List (Pos × List Item)) (ftop : String → Option Pos) (O : Oracles) :
    ∀ rows : List (Pos × List Item), ∃ t, checkAll T ftop O (checkFuel T) rows = some t ∧ t.sets = rows.length ∧
      t.canMergePair + t.sameShape + t.sameShapePair ≤ rows.length * checkFuel T ∧
      t.collect ≤ rows.length * (colFuel T + 2 * colFuel T * checkFuel T)
  | [] => ⟨_, rfl, rfl, by simp, by simp⟩
  | r :: rs => by
    obtain ⟨st, hs, hh, hc⟩ := checkSet_bound T ftop O r.1
    obtain ⟨t, ht, h1, h2, h3⟩ := checkAll_bound T ftop O rs
    refine ⟨{ sets := t.sets + 1, collect := st.collect + t.collect, canMergePair := st.canMergePair + t.canMergePair,
              sameShape := st.sameShape + t.sameShape, sameShapePair := st.sameShapePair + t.sameShapePair,
              errors := t.errors + (if st.err then 1 else 0) }, by simp only [checkAll, hs, ht], by simp [h1], ?_, ?_⟩
    · simp only [heads] at hh
      show st.canMergePair + t.canMergePair + (st.sameShape + t.sameShape) + (st.sameShapePair + t.sameShapePair) ≤
        (rs.length + 1) * checkFuel T
      rw [Nat.add_mul, Nat.one_mul]; omega
    · show st.collect + t.collect ≤ (rs.length + 1) * (colFuel T + 2 * colFuel T * checkFuel T)
      rw [Nat.add_mul, Nat.one_mul]; omega

/-- The overlapping-fields check of a document, for every pair of oracles (every schema, every TypeInfo):
    it ends within the model's fuel; with `N` selection sets, `K = colFuel T` (twice the number of
    selections plus sets, plus 4) and `P` fields, `B = checkFuel T = 3K² + 3 + (20K² + 4)·P²`, the three
    pair-loop heads are reached at most `N·B` times and addFieldSelections looks at at most
    `N·(K + 2·K·B)` selections. -/
theorem fieldsCheck_bound (O : Oracles) (d : Document) :
    ∃ t, fieldsCheck O d = some t ∧ t.sets = (setTable d.defs).length ∧
      t.canMergePair + t.sameShape + t.sameShapePair ≤ (setTable d.defs).length * checkFuel (setTable d.defs) ∧
      t.collect ≤ (setTable d.defs).length *
        (colFuel (setTable d.defs) + 2 * colFuel (setTable d.defs) * checkFuel (setTable d.defs)) :=
  checkAll_bound (setTable d.defs) (fragTop (fragDefs d.defs)) O (setTable d.defs)


/-! ### Table size in tokens -/

def tableW (T : List (Pos × List Item)) : Nat := (T.map (fun r => r.2.length + 1)).sum

theorem tableW_append (a b : List (Pos × List Item)) : tableW (a ++ b) = tableW a + tableW b := by
  simp [tableW]

theorem itemsOf_length (p : Pos) : ∀ sels : List Selection, (itemsOf p sels).length = sels.length
  | [] => rfl
  | s :: ss => by simp [itemsOf, itemsOf_length p ss]

mutual
theorem rowsSet_le : ∀ s : SelSet, tableW (rowsSet s) ≤ s.stoks.length
  | .mk sels o c => by
    rw [stoks_selSet]
    have := rowsSels_le sels
    simp only [rowsSet, tableW, List.map_cons, List.sum_cons, itemsOf_length, List.length_cons, List.length_append] at *
    omega
theorem rowsSels_le : ∀ sels : List Selection, tableW (rowsSels sels) + sels.length ≤ (stoksSels sels).length
  | [] => by simp [rowsSels, tableW, stoksSels]
  | .field none n args dirs (some s) :: ss => by
    have h1 := rowsSet_le s
    have h2 := rowsSels_le ss
    rw [stoksSels_cons, stoks_field_none]
    simp only [rowsSels, tableW_append, List.length_cons, List.length_append, optSelStoks, Name.stoks]
    omega
  | .field (some a) n args dirs (some s) :: ss => by
    have h1 := rowsSet_le s
    have h2 := rowsSels_le ss
    rw [stoksSels_cons, stoks_field_some]
    simp only [rowsSels, tableW_append, List.length_cons, List.length_append, optSelStoks, Name.stoks]
    omega
  | .field none n args dirs none :: ss => by
    have h2 := rowsSels_le ss
    rw [stoksSels_cons, stoks_field_none]
    simp only [rowsSels, List.length_cons, List.length_append, optSelStoks, Name.stoks]
    omega
  | .field (some a) n args dirs none :: ss => by
    have h2 := rowsSels_le ss
    rw [stoksSels_cons, stoks_field_some]
    simp only [rowsSels, List.length_cons, List.length_append, optSelStoks, Name.stoks]
    omega
  | .spread e n dirs :: ss => by
    have h2 := rowsSels_le ss
    rw [stoksSels_cons, stoks_spread]
    simp only [rowsSels, List.length_cons, List.length_append]
    omega
  | .inline e none dirs s :: ss => by
    have h1 := rowsSet_le s
    have h2 := rowsSels_le ss
    rw [stoksSels_cons, stoks_inline_none]
    simp only [rowsSels, tableW_append, List.length_cons, List.length_append]
    omega
  | .inline e (some n) dirs s :: ss => by
    have h1 := rowsSet_le s
    have h2 := rowsSels_le ss
    rw [stoksSels_cons, stoks_inline_some]
    simp only [rowsSels, tableW_append, List.length_cons, List.length_append]
    omega
end

theorem setTable_le : ∀ ds : List Definition, tableW (setTable ds) ≤ (stoksDefs ds).length
  | [] => by simp [setTable, tableW, stoksDefs]
  | .frag p n tc dirs s :: ds => by
    have e : stoksDefs (.frag p n tc dirs s :: ds) = (Definition.frag p n tc dirs s).stoks ++ stoksDefs ds := rfl
    have h1 := Nat.le_trans (rowsSet_le s) (def_sel_stoks_le (.frag p n tc dirs s) s rfl)
    have h2 := setTable_le ds
    rw [e, List.length_append]
    simp only [setTable, tableW_append]
    omega
  | .op t name vars dirs s :: ds => by
    have e : stoksDefs (.op t name vars dirs s :: ds) = (Definition.op t name vars dirs s).stoks ++ stoksDefs ds := rfl
    have h1 := Nat.le_trans (rowsSet_le s) (def_sel_stoks_le (.op t name vars dirs s) s rfl)
    have h2 := setTable_le ds
    rw [e, List.length_append]
    simp only [setTable, tableW_append]
    omega

theorem length_le_tableW (T : List (Pos × List Item)) : T.length ≤ tableW T := by
  induction T with
  | nil => simp [tableW]
  | cons r rs ih => simp only [tableW, List.map_cons, List.sum_cons, List.length_cons] at *; omega

theorem fieldCount_le_tableW (T : List (Pos × List Item)) : fieldCount T ≤ tableW T := by
  unfold fieldCount fldPos
  refine Nat.le_trans (List.length_filterMap_le _ _) ?_
  induction T with
  | nil => simp [tableW]
  | cons r rs ih =>
    simp only [List.flatMap_cons, List.length_append, tableW, List.map_cons, List.sum_cons] at *
    omega

theorem colFuel_eq (T : List (Pos × List Item)) : colFuel T = 2 * tableW T + 4 := by
  simp only [colFuel, tableW]; omega

end ApiFu.C12
