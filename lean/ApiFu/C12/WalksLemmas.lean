/-
  C12 — lemmas for the walk models of Walks.lean: pigeonhole on duplicate-free lists, the invariants and
  bounds of the cycle search (a) and of the variable walk (b), and the relation of the document measures
  (fragment definitions, operations, fragment spreads) to the number of tokens.
  Core Lean only (imports C12.Lemmas for the selection / token counting lemmas).
-/
import ApiFu.C12.Walks
import ApiFu.C12.Lemmas
namespace ApiFu.C12
open ApiFu.C06

/-! ### Lists: pigeonhole, dedup -/

theorem nodup_length_le {α : Type} [DecidableEq α] : ∀ {l m : List α}, l.Nodup → (∀ x ∈ l, x ∈ m) → l.length ≤ m.length
  | [], _, _, _ => Nat.zero_le _
  | a :: l, m, hn, hs => by
    have ha : a ∈ m := hs a (by simp)
    have hn' := (List.nodup_cons.mp hn)
    have hsub : ∀ x ∈ l, x ∈ m.erase a := by
      intro x hx
      have hxa : x ≠ a := fun h => hn'.1 (h ▸ hx)
      exact (List.mem_erase_of_ne hxa).mpr (hs x (by simp [hx]))
    have ih := nodup_length_le hn'.2 hsub
    have hl := List.length_erase_of_mem ha
    have hpos : 0 < m.length := List.length_pos_of_mem ha
    simp only [List.length_cons]
    omega

theorem dedup_subset : ∀ (l : List String) (x : String), x ∈ dedup l → x ∈ l
  | [], _, h => by simp [dedup] at h
  | a :: l, x, h => by
    simp only [dedup, List.mem_cons, List.mem_filter] at h
    rcases h with rfl | ⟨h, _⟩
    · simp
    · exact List.mem_cons_of_mem _ (dedup_subset l x h)

theorem dedup_length_le : ∀ (l : List String), (dedup l).length ≤ l.length
  | [] => Nat.le_refl _
  | a :: l => by
    simp only [dedup, List.length_cons]
    have := List.length_filter_le (fun y => y != a) (dedup l)
    have := dedup_length_le l
    omega

/-! ### (a) cycle search -/

/-- Invariant of one search over a universe `U` of dependency names. -/
structure CycleInv (U : List String) (st : CycleSt) : Prop where
  nodup : st.encountered.Nodup
  sub : ∀ x ∈ st.encountered, x ∈ U
  len : st.outer + st.pending.length = st.encountered.length + 1

theorem cycleInner_inv (brk : Bool) (name : String) (U : List String) :
    ∀ (l : List String) (st : CycleSt), (∀ x ∈ l, x ∈ U) → CycleInv U st →
      CycleInv U (cycleInner brk name l st) ∧ (cycleInner brk name l st).outer = st.outer ∧
      (cycleInner brk name l st).inner ≤ st.inner + l.length ∧
      st.encountered.length ≤ (cycleInner brk name l st).encountered.length
  | [], st, _, hi => ⟨hi, rfl, by simp [cycleInner], by simp [cycleInner]⟩
  | dep :: rest, st, hl, hi => by
    have hrest : ∀ x ∈ rest, x ∈ U := fun x hx => hl x (by simp [hx])
    unfold cycleInner
    simp only
    split
    · obtain ⟨h1, h2, h3, h4⟩ := cycleInner_inv brk name U rest { st with inner := st.inner + 1 } hrest ⟨hi.nodup, hi.sub, hi.len⟩
      exact ⟨h1, h2, by simp only [List.length_cons] at h3 ⊢; omega, h4⟩
    · rename_i hnc
      split
      · split
        · exact ⟨⟨hi.nodup, hi.sub, hi.len⟩, rfl, by simp, Nat.le_refl _⟩
        · obtain ⟨h1, h2, h3, h4⟩ := cycleInner_inv brk name U rest { st with inner := st.inner + 1, found := true } hrest ⟨hi.nodup, hi.sub, hi.len⟩
          exact ⟨h1, h2, by simp only [List.length_cons] at h3 ⊢; omega, h4⟩
      · have hnot : dep ∉ st.encountered := by simpa using hnc
        have hinv : CycleInv U { st with inner := st.inner + 1, pending := st.pending ++ [dep], encountered := dep :: st.encountered } :=
          ⟨List.nodup_cons.mpr ⟨hnot, hi.nodup⟩,
           fun x hx => by
             rcases List.mem_cons.mp hx with rfl | hx
             · exact hl _ (by simp)
             · exact hi.sub x hx,
           by simp only [List.length_append, List.length_cons, List.length_nil]; have := hi.len; omega⟩
        obtain ⟨h1, h2, h3, h4⟩ := cycleInner_inv brk name U rest _ hrest hinv
        exact ⟨h1, h2, by simp only [List.length_cons] at h3 ⊢; omega, by simp only [List.length_cons] at h4; omega⟩

/-- The outer loop: with enough fuel it ends, the invariant holds at the end, and the inner counter grew
    by at most `Dmax` per outer iteration. -/
theorem cycleOuter_spec (brk : Bool) (deps : String → List String) (name : String) (U : List String) (Dmax : Nat)
    (hU : ∀ v, ∀ x ∈ deps v, x ∈ U) (hD : ∀ v, (deps v).length ≤ Dmax) :
    ∀ (f : Nat) (st : CycleSt), CycleInv U st → (U.length - st.encountered.length) + st.pending.length < f →
      ∃ st', cycleOuter brk deps name f st = some st' ∧ CycleInv U st' ∧
        st'.inner + st.outer * Dmax ≤ st.inner + st'.outer * Dmax ∧ st.outer ≤ st'.outer
  | 0, st, _, h => by omega
  | f + 1, st, hi, hf => by
    unfold cycleOuter
    cases hp : st.pending with
    | nil => exact ⟨st, rfl, hi, Nat.le_refl _, Nat.le_refl _⟩
    | cons v rest =>
      simp only
      split
      · exact ⟨st, rfl, hi, Nat.le_refl _, Nat.le_refl _⟩
      · have hinv0 : CycleInv U { st with pending := rest, outer := st.outer + 1 } :=
          ⟨hi.nodup, hi.sub, by have := hi.len; simp only [hp, List.length_cons] at this; simp only; omega⟩
        obtain ⟨h1, h2, h3, h4⟩ := cycleInner_inv brk name U (deps v) _ (hU v) hinv0
        have hle : (cycleInner brk name (deps v) { st with pending := rest, outer := st.outer + 1 }).encountered.length ≤ U.length :=
          nodup_length_le h1.nodup h1.sub
        have hlen := h1.len
        have hlen0 := hi.len
        simp only [hp, List.length_cons] at hlen0 hf
        simp only at h2 h3 h4
        obtain ⟨st', hs, hinv', hin, hout⟩ := cycleOuter_spec brk deps name U Dmax hU hD f _ h1 (by omega)
        refine ⟨st', hs, hinv', ?_, by omega⟩
        have hd := hD v
        rw [h2] at hin
        have : (st.outer + 1) * Dmax = st.outer * Dmax + Dmax := by rw [Nat.add_mul, Nat.one_mul]
        omega

/-- One search: it ends, visits at most `|U| + 1` fragments and looks at most `(|U| + 1)·Dmax` dependencies. -/
theorem cycleFrom_bound (brk : Bool) (deps : String → List String) (name : String) (U : List String) (Dmax : Nat)
    (hU : ∀ v, ∀ x ∈ deps v, x ∈ U) (hD : ∀ v, (deps v).length ≤ Dmax) (fuel : Nat) (hf : U.length + 2 ≤ fuel) :
    ∃ st, cycleFrom brk deps name fuel = some st ∧ st.outer ≤ U.length + 1 ∧ st.inner ≤ (U.length + 1) * Dmax := by
  have hinv : CycleInv U { pending := [name], encountered := [], found := false, outer := 0, inner := 0 } :=
    ⟨List.nodup_nil, by simp, by simp⟩
  obtain ⟨st, hs, hi, hin, _⟩ := cycleOuter_spec brk deps name U Dmax hU hD fuel _ hinv (by simp; omega)
  have hle : st.encountered.length ≤ U.length := nodup_length_le hi.nodup hi.sub
  have hlen := hi.len
  have ho : st.outer ≤ U.length + 1 := by omega
  refine ⟨st, hs, ho, ?_⟩
  simp only [Nat.zero_mul, Nat.add_zero, Nat.zero_add] at hin
  exact Nat.le_trans hin (Nat.mul_le_mul_right _ ho)

theorem cycleAll_bound (brk : Bool) (deps : String → List String) (U : List String) (Dmax : Nat)
    (hU : ∀ v, ∀ x ∈ deps v, x ∈ U) (hD : ∀ v, (deps v).length ≤ Dmax) (fuel : Nat) (hf : U.length + 2 ≤ fuel) :
    ∀ names : List String, ∃ t, cycleAll brk deps fuel names = some t ∧
      t.outer ≤ names.length * (U.length + 1) ∧ t.inner ≤ names.length * ((U.length + 1) * Dmax)
  | [] => ⟨_, rfl, by simp, by simp⟩
  | n :: ns => by
    obtain ⟨st, hs, ho, hi⟩ := cycleFrom_bound brk deps n U Dmax hU hD fuel hf
    obtain ⟨t, ht, hto, hti⟩ := cycleAll_bound brk deps U Dmax hU hD fuel hf ns
    refine ⟨{ outer := st.outer + t.outer, inner := st.inner + t.inner, cycles := t.cycles + (if st.found then 1 else 0) },
      by simp only [cycleAll, hs, ht], ?_, ?_⟩
    · show st.outer + t.outer ≤ (ns.length + 1) * (U.length + 1)
      rw [Nat.add_mul, Nat.one_mul]; omega
    · show st.inner + t.inner ≤ (ns.length + 1) * ((U.length + 1) * Dmax)
      rw [Nat.add_mul, Nat.one_mul]; omega


/-! instantiation on a document -/

/-- All spread names in the fragment definitions, with repetitions. -/
def allSpreads : List (String × SelSet × List Directive) → List String
  | [] => []
  | p :: ps => spreadsSet p.2.1 ++ allSpreads ps

theorem allSpreads_length (fs : List (String × SelSet × List Directive)) :
    (allSpreads fs).length = (fs.map (fun p => (spreadsSet p.2.1).length)).sum := by
  induction fs with
  | nil => rfl
  | cons p ps ih => simp [allSpreads, ih]

theorem mem_allSpreads {fs : List (String × SelSet × List Directive)} {p : String × SelSet × List Directive} (hp : p ∈ fs)
    {x : String} (hx : x ∈ spreadsSet p.2.1) : x ∈ allSpreads fs := by
  induction fs with
  | nil => cases hp
  | cons q qs ih =>
    simp only [allSpreads, List.mem_append]
    rcases List.mem_cons.mp hp with rfl | hp
    · exact Or.inl hx
    · exact Or.inr (ih hp)

theorem length_le_allSpreads {fs : List (String × SelSet × List Directive)} {p : String × SelSet × List Directive} (hp : p ∈ fs) :
    (spreadsSet p.2.1).length ≤ (allSpreads fs).length := by
  induction fs with
  | nil => cases hp
  | cons q qs ih =>
    simp only [allSpreads, List.length_append]
    rcases List.mem_cons.mp hp with rfl | hp
    · omega
    · have := ih hp; omega

theorem lookupFrag_mem {fs : List (String × SelSet × List Directive)} {name : String} {r : SelSet × List Directive}
    (h : lookupFrag fs name = some r) : (name, r) ∈ fs := by
  unfold lookupFrag at h
  cases hf : fs.reverse.find? (fun p => p.1 == name) with
  | none => rw [hf] at h; cases h
  | some p =>
    rw [hf] at h
    simp only [Option.some.injEq] at h
    have hm := List.mem_of_find?_eq_some hf
    have hn := List.find?_some hf
    simp only [beq_iff_eq] at hn
    have : p = (name, r) := by cases p; simp_all
    rw [← this]
    exact List.mem_reverse.mp hm

theorem depsOf_sub (fs : List (String × SelSet × List Directive)) (v x : String) (h : x ∈ depsOf fs v) :
    x ∈ allSpreads fs := by
  unfold depsOf at h
  cases hl : lookupFrag fs v with
  | none => rw [hl] at h; cases h
  | some r =>
    rw [hl] at h
    obtain ⟨s, dirs⟩ := r
    exact mem_allSpreads (lookupFrag_mem hl) (dedup_subset _ _ h)

theorem depsOf_length (fs : List (String × SelSet × List Directive)) (v : String) :
    (depsOf fs v).length ≤ (allSpreads fs).length := by
  unfold depsOf
  cases hl : lookupFrag fs v with
  | none => simp
  | some r =>
    obtain ⟨s, dirs⟩ := r
    exact Nat.le_trans (dedup_length_le _) (length_le_allSpreads (p := (v, s, dirs)) (lookupFrag_mem hl))

/-- The cycle search of a document ends within the model's fuel; with `F` fragment definitions and `S`
    fragment spreads inside fragment definitions it takes at most `F·(S+1)` entries of `toVisit` and looks
    at at most `F·(S+1)·S` dependencies (with the `break` and without it). -/
theorem cycleSearch_bound (brk : Bool) (d : Document) :
    ∃ t, cycleSearch brk d = some t ∧
      t.outer ≤ (fragDefs d.defs).length * ((allSpreads (fragDefs d.defs)).length + 1) ∧
      t.inner ≤ (fragDefs d.defs).length * (((allSpreads (fragDefs d.defs)).length + 1) * (allSpreads (fragDefs d.defs)).length) := by
  let fs := fragDefs d.defs
  obtain ⟨t, ht, ho, hi⟩ := cycleAll_bound brk (depsOf fs) (allSpreads fs) (allSpreads fs).length (depsOf_sub fs) (depsOf_length fs)
    (cycleFuel fs) (by simp [cycleFuel, allSpreads_length]) (dedup (fs.map (·.1)))
  have hn : (dedup (fs.map (·.1))).length ≤ fs.length := by
    have := dedup_length_le (fs.map (·.1)); simpa using this
  refine ⟨t, ht, Nat.le_trans ho (Nat.mul_le_mul_right _ hn), Nat.le_trans hi (Nat.mul_le_mul_right _ hn)⟩


/-- The same bound for every order in which Go may iterate its maps: any dependency function that lists,
    for every fragment, (some of) the model's dependencies in any order, and any list of start names no
    longer than the list of fragment definitions. -/
theorem cycleSearch_bound_any_order (brk : Bool) (d : Document) (deps' : String → List String) (names : List String)
    (hsub : ∀ v, ∀ x ∈ deps' v, x ∈ depsOf (fragDefs d.defs) v)
    (hlen : ∀ v, (deps' v).length ≤ (depsOf (fragDefs d.defs) v).length)
    (hnames : names.length ≤ (fragDefs d.defs).length) :
    ∃ t, cycleAll brk deps' (cycleFuel (fragDefs d.defs)) names = some t ∧
      t.outer ≤ (fragDefs d.defs).length * ((allSpreads (fragDefs d.defs)).length + 1) ∧
      t.inner ≤ (fragDefs d.defs).length * (((allSpreads (fragDefs d.defs)).length + 1) * (allSpreads (fragDefs d.defs)).length) := by
  let fs := fragDefs d.defs
  obtain ⟨t, ht, ho, hi⟩ := cycleAll_bound brk deps' (allSpreads fs) (allSpreads fs).length
    (fun v x hx => depsOf_sub fs v x (hsub v x hx)) (fun v => Nat.le_trans (hlen v) (depsOf_length fs v))
    (cycleFuel fs) (by simp [cycleFuel, allSpreads_length]) names
  exact ⟨t, ht, Nat.le_trans ho (Nat.mul_le_mul_right _ hnames), Nat.le_trans hi (Nat.mul_le_mul_right _ hnames)⟩

/-! ### (b) variable walk -/

structure VarsInv (U : List String) (st : VarsSt) : Prop where
  vnodup : st.validated.Nodup
  unodup : st.unvalidated.Nodup
  disj : ∀ x ∈ st.unvalidated, x ∉ st.validated
  vsub : ∀ x ∈ st.validated, x ∈ U
  usub : ∀ x ∈ st.unvalidated, x ∈ U
  frags : st.frags = st.validated.length

theorem noteSpreads_inv (U : List String) : ∀ (l : List String) (st : VarsSt), (∀ x ∈ l, x ∈ U) → VarsInv U st →
    VarsInv U (noteSpreads l st) ∧ (noteSpreads l st).nodes = st.nodes ∧ (noteSpreads l st).validated = st.validated
  | [], st, _, hi => ⟨hi, rfl, rfl⟩
  | n :: ns, st, hl, hi => by
    have hrest : ∀ x ∈ ns, x ∈ U := fun x hx => hl x (by simp [hx])
    unfold noteSpreads
    split
    · exact noteSpreads_inv U ns st hrest hi
    · rename_i hc
      simp only [Bool.or_eq_true, List.contains_iff_mem, not_or] at hc
      have hinv : VarsInv U { st with unvalidated := st.unvalidated ++ [n] } :=
        ⟨hi.vnodup,
         by
           rw [List.nodup_append]
           refine ⟨hi.unodup, by simp, ?_⟩
           intro a ha b hb
           simp only [List.mem_singleton] at hb
           subst hb
           intro h; subst h; exact hc.2 ha,
         fun x hx => by
           rcases List.mem_append.mp hx with hx | hx
           · exact hi.disj x hx
           · simp only [List.mem_singleton] at hx; subst hx; exact hc.1,
         hi.vsub,
         fun x hx => by
           rcases List.mem_append.mp hx with hx | hx
           · exact hi.usub x hx
           · simp only [List.mem_singleton] at hx; subst hx; exact hl _ (by simp),
         hi.frags⟩
      obtain ⟨h1, h2, h3⟩ := noteSpreads_inv U ns _ hrest hinv
      exact ⟨h1, h2, h3⟩

/-- The worklist loop: it ends within `|U| − |validated| + 1` fuel; every fragment name is taken at most
    once; the callback calls grow by at most `Cmax` per name taken. -/
theorem varsLoop_spec (fs : List (String × SelSet × List Directive)) (U : List String) (Cmax : Nat)
    (hU : ∀ p ∈ fs, ∀ x ∈ spreadsSet p.2.1, x ∈ U) (hC : ∀ p ∈ fs, callsFragDef p.2.1 p.2.2 ≤ Cmax) :
    ∀ (f : Nat) (st : VarsSt), VarsInv U st → U.length - st.validated.length < f →
      ∃ st', varsLoop fs f st = some st' ∧ VarsInv U st' ∧ st'.unvalidated = [] ∧
        st'.nodes + st.frags * Cmax ≤ st.nodes + st'.frags * Cmax ∧ st.frags ≤ st'.frags
  | 0, st, _, h => by omega
  | f + 1, st, hi, hf => by
    unfold varsLoop
    cases hu : st.unvalidated with
    | nil => exact ⟨st, rfl, hi, hu, Nat.le_refl _, Nat.le_refl _⟩
    | cons n rest =>
      simp only
      have hn_notv : n ∉ st.validated := hi.disj n (by simp [hu])
      have hun := hi.unodup
      rw [hu] at hun
      have hinv0 : VarsInv U { st with unvalidated := rest, validated := n :: st.validated, frags := st.frags + 1 } :=
        ⟨List.nodup_cons.mpr ⟨hn_notv, hi.vnodup⟩, (List.nodup_cons.mp hun).2,
         fun x hx => by
           intro hv
           rcases List.mem_cons.mp hv with rfl | hv
           · exact (List.nodup_cons.mp hun).1 hx
           · exact hi.disj x (by simp [hu, hx]) hv,
         fun x hx => by
           rcases List.mem_cons.mp hx with rfl | hx
           · exact hi.usub _ (by simp [hu])
           · exact hi.vsub x hx,
         fun x hx => hi.usub x (by simp [hu, hx]),
         by simp [hi.frags]⟩
      have hvl : (n :: st.validated).length ≤ U.length := nodup_length_le hinv0.vnodup hinv0.vsub
      simp only [List.length_cons] at hvl
      cases hl : lookupFrag fs n with
      | none =>
        simp only
        obtain ⟨st', hs, hinv', hemp, hno, hfr⟩ := varsLoop_spec fs U Cmax hU hC f _ hinv0 (by simp only [List.length_cons]; omega)
        refine ⟨st', hs, hinv', hemp, ?_, by simp only at hfr; omega⟩
        simp only at hno hfr
        rw [Nat.add_mul, Nat.one_mul] at hno
        omega
      | some r =>
        obtain ⟨s, dirs⟩ := r
        simp only
        have hmem := lookupFrag_mem hl
        obtain ⟨h1, h2, h3⟩ := noteSpreads_inv U (spreadsSet s) { st with unvalidated := rest, validated := n :: st.validated, frags := st.frags + 1, nodes := st.nodes + callsFragDef s dirs }
          (hU (n, s, dirs) hmem) ⟨hinv0.vnodup, hinv0.unodup, hinv0.disj, hinv0.vsub, hinv0.usub, hinv0.frags⟩
        obtain ⟨st', hs, hinv', hemp, hno, hfr⟩ := varsLoop_spec fs U Cmax hU hC f _ h1 (by rw [h3]; simp only [List.length_cons]; omega)
        refine ⟨st', hs, hinv', hemp, ?_, ?_⟩
        · have hc := hC (n, s, dirs) hmem
          simp only at hc
          rw [h2] at hno
          have hfr1 := h1.frags
          rw [h3] at hfr1
          simp only [List.length_cons] at hfr1
          have hfr0 := hi.frags
          rw [hfr1, hfr0, Nat.add_mul, Nat.one_mul] at hno
          rw [hfr0]
          simp only at hno
          omega
        · have hfr1 := h1.frags
          rw [h3] at hfr1
          simp only [List.length_cons] at hfr1
          have hfr0 := hi.frags
          omega


/-- All spread names of the document (operations and fragments), with repetitions. -/
def docSpreads : List Definition → List String
  | [] => []
  | .frag _ _ _ _ s :: ds => spreadsSet s ++ docSpreads ds
  | .op _ _ _ _ s :: ds => spreadsSet s ++ docSpreads ds

/-- Callback calls of one `validate` over every definition of the document, summed. -/
def docCalls : List Definition → Nat
  | [] => 0
  | .frag _ _ _ dirs s :: ds => callsFragDef s dirs + docCalls ds
  | .op t name vars dirs s :: ds => callsOpDef t name vars dirs s + docCalls ds

def opCount : List Definition → Nat
  | [] => 0
  | .frag _ _ _ _ _ :: ds => opCount ds
  | .op _ _ _ _ _ :: ds => 1 + opCount ds

mutual
theorem spreadsSel_length : ∀ s : Selection, (spreadsSel s).length = spreadCountSel s
  | .field _ _ _ _ (some ss) => by simp only [spreadsSel, spreadCountSel]; exact spreadsSet_length ss
  | .field _ _ _ _ none => rfl
  | .spread _ _ _ => rfl
  | .inline _ _ _ ss => by simp only [spreadsSel, spreadCountSel]; exact spreadsSet_length ss
theorem spreadsSet_length : ∀ s : SelSet, (spreadsSet s).length = spreadCountSet s
  | .mk sels _ _ => by simp only [spreadsSet, spreadCountSet]; exact spreadsSels_length sels
theorem spreadsSels_length : ∀ ss : List Selection, (spreadsSels ss).length = spreadCountSels ss
  | [] => rfl
  | s :: ss => by
    simp only [spreadsSels, spreadCountSels, List.length_append]
    rw [spreadsSel_length s, spreadsSels_length ss]
end

theorem docSpreads_length : ∀ ds : List Definition, (docSpreads ds).length = spreadCountDefs ds
  | [] => rfl
  | .frag _ _ _ _ s :: ds => by simp [docSpreads, spreadCountDefs, spreadsSet_length, docSpreads_length ds]
  | .op _ _ _ _ s :: ds => by simp [docSpreads, spreadCountDefs, spreadsSet_length, docSpreads_length ds]

theorem fragDefs_spreads_sub : ∀ (ds : List Definition), ∀ p ∈ fragDefs ds, ∀ x ∈ spreadsSet p.2.1, x ∈ docSpreads ds
  | [], p, hp, _, _ => by simp [fragDefs] at hp
  | .frag _ n _ dirs s :: ds, p, hp, x, hx => by
    simp only [fragDefs, List.mem_cons] at hp
    simp only [docSpreads, List.mem_append]
    rcases hp with rfl | hp
    · exact Or.inl hx
    · exact Or.inr (fragDefs_spreads_sub ds p hp x hx)
  | .op _ _ _ _ s :: ds, p, hp, x, hx => by
    simp only [fragDefs] at hp
    simp only [docSpreads, List.mem_append]
    exact Or.inr (fragDefs_spreads_sub ds p hp x hx)

theorem fragDefs_calls_le : ∀ (ds : List Definition), ∀ p ∈ fragDefs ds, callsFragDef p.2.1 p.2.2 ≤ docCalls ds
  | [], p, hp => by simp [fragDefs] at hp
  | .frag _ n _ dirs s :: ds, p, hp => by
    simp only [fragDefs, List.mem_cons] at hp
    simp only [docCalls]
    rcases hp with rfl | hp
    · simp
    · have := fragDefs_calls_le ds p hp; omega
  | .op _ _ _ _ s :: ds, p, hp => by
    simp only [fragDefs] at hp
    simp only [docCalls]
    have := fragDefs_calls_le ds p hp; omega

/-- One operation: the walk ends; at most `|U|` fragment names are taken, the callback is called at most
    `calls(op) + |U|·Cmax` times. -/
theorem varsOp_bound (fs : List (String × SelSet × List Directive)) (U : List String) (Cmax : Nat)
    (hU : ∀ p ∈ fs, ∀ x ∈ spreadsSet p.2.1, x ∈ U) (hC : ∀ p ∈ fs, callsFragDef p.2.1 p.2.2 ≤ Cmax)
    (fuel : Nat) (hf : U.length + 1 ≤ fuel)
    (t : Option OpType) (name : Option Name) (vars : List VarDef) (dirs : List Directive) (s : SelSet)
    (hs : ∀ x ∈ spreadsSet s, x ∈ U) :
    ∃ st, varsOp fs fuel t name vars dirs s = some st ∧ st.frags ≤ U.length ∧
      st.nodes ≤ callsOpDef t name vars dirs s + U.length * Cmax := by
  have hinv0 : VarsInv U { unvalidated := [], validated := [], nodes := callsOpDef t name vars dirs s, frags := 0 } :=
    ⟨List.nodup_nil, List.nodup_nil, by simp, by simp, by simp, rfl⟩
  obtain ⟨h1, h2, h3⟩ := noteSpreads_inv U (spreadsSet s) _ hs hinv0
  obtain ⟨st, hst, hinv, _, hno, _⟩ := varsLoop_spec fs U Cmax hU hC fuel _ h1 (by rw [h3]; simp; omega)
  have hfr : st.frags ≤ U.length := by rw [hinv.frags]; exact nodup_length_le hinv.vnodup hinv.vsub
  refine ⟨st, hst, hfr, ?_⟩
  rw [h2, h1.frags, h3] at hno
  simp only [List.length_nil, Nat.zero_mul, Nat.add_zero] at hno
  have := Nat.mul_le_mul_right Cmax hfr
  omega

theorem varsAll_bound (fs : List (String × SelSet × List Directive)) (U : List String) (Cmax : Nat)
    (hU : ∀ p ∈ fs, ∀ x ∈ spreadsSet p.2.1, x ∈ U) (hC : ∀ p ∈ fs, callsFragDef p.2.1 p.2.2 ≤ Cmax)
    (fuel : Nat) (hf : U.length + 1 ≤ fuel) :
    ∀ ds : List Definition, (∀ x ∈ docSpreads ds, x ∈ U) →
      ∃ tot, varsAll fs fuel ds = some tot ∧ tot.frags ≤ opCount ds * U.length ∧
        tot.nodes ≤ docCalls ds + opCount ds * (U.length * Cmax)
  | [], _ => ⟨_, rfl, by simp [opCount], by simp [docCalls]⟩
  | .frag _ _ _ dirs s :: ds, hd => by
    obtain ⟨tot, ht, hfr, hno⟩ := varsAll_bound fs U Cmax hU hC fuel hf ds
      (fun x hx => hd x (by simp only [docSpreads, List.mem_append]; exact Or.inr hx))
    refine ⟨tot, by simp only [varsAll, ht], by simpa [opCount] using hfr, ?_⟩
    simp only [docCalls, opCount]
    omega
  | .op t name vars dirs s :: ds, hd => by
    obtain ⟨tot, ht, hfr, hno⟩ := varsAll_bound fs U Cmax hU hC fuel hf ds
      (fun x hx => hd x (by simp only [docSpreads, List.mem_append]; exact Or.inr hx))
    obtain ⟨st, hst, hsf, hsn⟩ := varsOp_bound fs U Cmax hU hC fuel hf t name vars dirs s
      (fun x hx => hd x (by simp only [docSpreads, List.mem_append]; exact Or.inl hx))
    refine ⟨{ nodes := st.nodes + tot.nodes, frags := st.frags + tot.frags }, by simp only [varsAll, hst, ht], ?_, ?_⟩
    · show st.frags + tot.frags ≤ (1 + opCount ds) * U.length
      rw [Nat.add_mul, Nat.one_mul]; omega
    · show st.nodes + tot.nodes ≤ docCalls (.op t name vars dirs s :: ds) + (1 + opCount ds) * (U.length * Cmax)
      simp only [docCalls]
      rw [Nat.add_mul, Nat.one_mul]; omega

/-- The variable walk of a document ends within the model's fuel; with `O` operations, `S` fragment
    spreads and `C` callback calls for one pass over all definitions it takes at most `O·S` names from the
    worklist and calls the callback at most `C + O·S·C` times. -/
theorem varsWalk_bound (d : Document) :
    ∃ tot, varsWalk d = some tot ∧ tot.frags ≤ opCount d.defs * spreadCountDefs d.defs ∧
      tot.nodes ≤ docCalls d.defs + opCount d.defs * (spreadCountDefs d.defs * docCalls d.defs) := by
  have := varsAll_bound (fragDefs d.defs) (docSpreads d.defs) (docCalls d.defs) (fragDefs_spreads_sub d.defs)
    (fragDefs_calls_le d.defs) (varsFuel d) (by simp [varsFuel, docSpreads_length]) d.defs (fun _ h => h)
  rw [docSpreads_length] at this
  exact this


/-! ### Sizes in tokens -/

mutual
theorem spreadCountSel_le_sel : ∀ s : Selection, spreadCountSel s ≤ selCountSel s
  | .field _ _ _ _ (some ss) => by simp only [spreadCountSel, selCountSel]; have := spreadCountSet_le_sel ss; omega
  | .field _ _ _ _ none => by simp [spreadCountSel]
  | .spread _ _ _ => by simp [spreadCountSel, selCountSel]
  | .inline _ _ _ ss => by simp only [spreadCountSel, selCountSel]; exact spreadCountSet_le_sel ss
theorem spreadCountSet_le_sel : ∀ s : SelSet, spreadCountSet s ≤ selCountSet s
  | .mk sels _ _ => by simp only [spreadCountSet, selCountSet]; exact spreadCountSels_le_sel sels
theorem spreadCountSels_le_sel : ∀ ss : List Selection, spreadCountSels ss ≤ selCountSels ss
  | [] => by simp [spreadCountSels]
  | s :: ss => by
    simp only [spreadCountSels, selCountSels]
    have := spreadCountSel_le_sel s
    have := spreadCountSels_le_sel ss
    omega
end

theorem def_sel_stoks_le : ∀ d : Definition, ∀ s, (match d with
    | .frag _ _ _ _ s' => s' = s
    | .op _ _ _ _ s' => s' = s) → s.stoks.length ≤ d.stoks.length
  | .frag p n tc dirs s', s, h => by
    simp only at h; subst h
    rw [stoks_frag]; simp only [List.length_cons, List.length_append]; omega
  | .op none name vars dirs s', s, h => by
    simp only at h; subst h
    rw [stoks_op_none]; exact Nat.le_refl _
  | .op (some t) name vars dirs s', s, h => by
    simp only at h; subst h
    rw [stoks_op_some]; simp only [List.length_cons, List.length_append]; omega

/-- Fragment spreads, fragment definitions and operations are each at most the number of tokens. -/
theorem counts_le_tokens : ∀ ds : List Definition,
    spreadCountDefs ds ≤ (stoksDefs ds).length ∧ (fragDefs ds).length + opCount ds ≤ (stoksDefs ds).length
  | [] => by simp [spreadCountDefs, fragDefs, opCount, stoksDefs]
  | .frag p n tc dirs s :: ds => by
    obtain ⟨h1, h2⟩ := counts_le_tokens ds
    have e : stoksDefs (.frag p n tc dirs s :: ds) = (Definition.frag p n tc dirs s).stoks ++ stoksDefs ds := rfl
    have hs := def_sel_stoks_le (.frag p n tc dirs s) s rfl
    have h3 := Nat.le_trans (spreadCountSet_le_sel s) (selCountSet_le s)
    have hpos : 1 ≤ (Definition.frag p n tc dirs s).stoks.length := by rw [stoks_frag]; simp
    rw [e, List.length_append]
    simp only [spreadCountDefs, fragDefs, opCount, List.length_cons]
    omega
  | .op t name vars dirs s :: ds => by
    obtain ⟨h1, h2⟩ := counts_le_tokens ds
    have e : stoksDefs (.op t name vars dirs s :: ds) = (Definition.op t name vars dirs s).stoks ++ stoksDefs ds := rfl
    have hs := def_sel_stoks_le (.op t name vars dirs s) s rfl
    have h3 := Nat.le_trans (spreadCountSet_le_sel s) (selCountSet_le s)
    have hpos : 1 ≤ s.stoks.length := by obtain ⟨sels, o, c⟩ := s; rw [stoks_selSet]; simp
    rw [e, List.length_append]
    simp only [spreadCountDefs, fragDefs, opCount]
    omega

theorem allSpreads_le_docSpreads : ∀ ds : List Definition, (allSpreads (fragDefs ds)).length ≤ spreadCountDefs ds
  | [] => by simp [fragDefs, allSpreads, spreadCountDefs]
  | .frag _ n _ dirs s :: ds => by
    have := allSpreads_le_docSpreads ds
    simp only [fragDefs, allSpreads, spreadCountDefs, List.length_append, spreadsSet_length]
    omega
  | .op _ _ _ _ s :: ds => by
    have := allSpreads_le_docSpreads ds
    simp only [fragDefs, spreadCountDefs]
    omega

/-! ### Callback calls of one ast.Inspect pass, in tokens -/

mutual
theorem callsValue_le : ∀ v : Value, callsValue v ≤ 4 * v.stoks.length
  | .var v => by simp [callsValue, callsName, Value.stoks, Variable.stoks, Name.stoks]
  | .int _ _ => by simp [callsValue, Value.stoks]
  | .float _ _ => by simp [callsValue, Value.stoks]
  | .str _ _ => by simp [callsValue, Value.stoks]
  | .bool _ _ => by simp [callsValue, Value.stoks]
  | .null _ => by simp [callsValue, Value.stoks]
  | .enum _ _ => by simp [callsValue, Value.stoks]
  | .list vs o c => by
    have := callsValues_le vs
    simp only [callsValue, Value.stoks, List.length_cons, List.length_append, List.length_nil]
    omega
  | .obj fs o c => by
    have := callsFields_le fs
    simp only [callsValue, Value.stoks, List.length_cons, List.length_append, List.length_nil]
    omega
theorem callsValues_le : ∀ vs : List Value, callsValues vs ≤ 4 * (stoksValues vs).length
  | [] => by simp [callsValues]
  | v :: vs => by
    have h1 := callsValue_le v
    have h2 := callsValues_le vs
    simp only [callsValues, stoksValues, List.length_append]
    omega
theorem callsFields_le : ∀ fs : List (Name × Value), callsFields fs ≤ 4 * (stoksFields fs).length
  | [] => by simp [callsFields]
  | (n, v) :: fs => by
    have h1 := callsValue_le v
    have h2 := callsFields_le fs
    simp only [callsFields, callsName, stoksFields, Name.stoks, List.length_append, List.length_cons, List.length_nil]
    omega
end

theorem callsArgs_le : ∀ as : List Argument, callsArgs as ≤ 4 * (stoksArgList as).length
  | [] => by simp [callsArgs]
  | a :: as => by
    have h1 := callsValue_le a.value
    have h2 := callsArgs_le as
    simp only [callsArgs, callsName, stoksArgList, Argument.stoks, Name.stoks, List.length_append, List.length_cons, List.length_nil]
    omega

theorem stoksArgList_le_args (as : List Argument) : (stoksArgList as).length ≤ (stoksArgs as).length := by
  unfold stoksArgs
  split
  · rename_i h
    have : as = [] := by simpa using h
    subst this; simp [stoksArgList]
  · simp only [List.length_cons, List.length_append, List.length_nil]; omega

theorem callsDirs_le : ∀ ds : List Directive, callsDirs ds ≤ 4 * (stoksDirs ds).length
  | [] => by simp [callsDirs]
  | d :: ds => by
    have h1 := callsArgs_le d.args
    have h2 := callsDirs_le ds
    have h3 := stoksArgList_le_args d.args
    simp only [callsDirs, callsName, stoksDirs, Directive.stoks, Name.stoks, List.length_append, List.length_cons, List.length_nil]
    omega

mutual
theorem callsSel_le : ∀ s : Selection, callsSel s ≤ 4 * s.stoks.length
  | .field none n args dirs none => by
    have h1 := callsArgs_le args; have h2 := callsDirs_le dirs; have h3 := stoksArgList_le_args args
    rw [stoks_field_none]
    simp only [callsSel, callsName, optSelStoks, Name.stoks, List.length_append, List.length_cons, List.length_nil]
    omega
  | .field none n args dirs (some ss) => by
    have h1 := callsArgs_le args; have h2 := callsDirs_le dirs; have h3 := stoksArgList_le_args args
    have h4 := callsSet_le ss
    rw [stoks_field_none]
    simp only [callsSel, callsName, optSelStoks, Name.stoks, List.length_append, List.length_cons, List.length_nil]
    omega
  | .field (some a) n args dirs none => by
    have h1 := callsArgs_le args; have h2 := callsDirs_le dirs; have h3 := stoksArgList_le_args args
    rw [stoks_field_some]
    simp only [callsSel, callsName, optSelStoks, Name.stoks, List.length_append, List.length_cons, List.length_nil]
    omega
  | .field (some a) n args dirs (some ss) => by
    have h1 := callsArgs_le args; have h2 := callsDirs_le dirs; have h3 := stoksArgList_le_args args
    have h4 := callsSet_le ss
    rw [stoks_field_some]
    simp only [callsSel, callsName, optSelStoks, Name.stoks, List.length_append, List.length_cons, List.length_nil]
    omega
  | .spread e n dirs => by
    have h2 := callsDirs_le dirs
    rw [stoks_spread]
    simp only [callsSel, callsName, Name.stoks, List.length_append, List.length_cons, List.length_nil]
    omega
  | .inline e none dirs ss => by
    have h2 := callsDirs_le dirs; have h4 := callsSet_le ss
    rw [stoks_inline_none]
    simp only [callsSel, List.length_append, List.length_cons]
    omega
  | .inline e (some n) dirs ss => by
    have h2 := callsDirs_le dirs; have h4 := callsSet_le ss
    rw [stoks_inline_some]
    simp only [callsSel, callsName, stoksTypeCondition, Name.stoks, List.length_append, List.length_cons, List.length_nil]
    omega
theorem callsSet_le : ∀ s : SelSet, callsSet s ≤ 4 * s.stoks.length
  | .mk sels o c => by
    have := callsSels_le sels
    rw [stoks_selSet]
    simp only [callsSet, List.length_append, List.length_cons, List.length_nil]
    omega
theorem callsSels_le : ∀ ss : List Selection, callsSels ss ≤ 4 * (stoksSels ss).length
  | [] => by simp [callsSels]
  | s :: ss => by
    have h1 := callsSel_le s
    have h2 := callsSels_le ss
    rw [stoksSels_cons]
    simp only [callsSels, List.length_append]
    omega
end

theorem varDefList_length_le : ∀ vs : List VarDef, vs.length ≤ (stoksVarDefList vs).length
  | [] => by simp
  | v :: vs => by
    have := varDefList_length_le vs
    simp only [stoksVarDefList, VarDef.stoks, Variable.stoks, List.length_append, List.length_cons]
    omega

theorem varDefs_length_le (vs : List VarDef) : vs.length ≤ (stoksVarDefs vs).length := by
  unfold stoksVarDefs
  split
  · rename_i h
    have : vs = [] := by simpa using h
    subst this; simp
  · have := varDefList_length_le vs
    simp only [List.length_cons, List.length_append, List.length_nil]; omega

/-- One ast.Inspect pass of `validate` over all definitions of a well-formed document calls the callback at
    most four times per token. -/
theorem docCalls_le : ∀ ds : List Definition, wfDefs ds = true → docCalls ds ≤ 4 * (stoksDefs ds).length
  | [], _ => by simp [docCalls]
  | .frag p n tc dirs s :: ds, h => by
    simp only [wfDefs, Bool.and_eq_true] at h
    have ih := docCalls_le ds h.2
    have h2 := callsDirs_le dirs; have h4 := callsSet_le s
    have e : stoksDefs (.frag p n tc dirs s :: ds) = (Definition.frag p n tc dirs s).stoks ++ stoksDefs ds := rfl
    rw [e, stoks_frag]
    simp only [docCalls, callsFragDef, callsName, stoksTypeCondition, Name.stoks, List.length_append, List.length_cons, List.length_nil]
    omega
  | .op none name vars dirs s :: ds, h => by
    simp only [wfDefs, wfDefinition, Bool.and_eq_true, Option.isNone_iff_eq_none, List.isEmpty_iff] at h
    obtain ⟨⟨⟨⟨rfl, rfl⟩, rfl⟩, _⟩, hds⟩ := h
    have ih := docCalls_le ds hds
    have h4 := callsSet_le s
    have e : stoksDefs (.op none none [] [] s :: ds) = (Definition.op none none [] [] s).stoks ++ stoksDefs ds := rfl
    have hpos : 1 ≤ s.stoks.length := by obtain ⟨sels, o, c⟩ := s; rw [stoks_selSet]; simp
    have hset : callsSet s + 2 ≤ 4 * s.stoks.length := by
      obtain ⟨sels, o, c⟩ := s
      have := callsSels_le sels
      rw [stoks_selSet]
      simp only [callsSet, List.length_append, List.length_cons, List.length_nil]
      omega
    rw [e, stoks_op_none]
    simp only [docCalls, callsOpDef, callsDirs, List.length_nil, List.length_append]
    omega
  | .op (some t) name vars dirs s :: ds, h => by
    simp only [wfDefs, Bool.and_eq_true] at h
    have ih := docCalls_le ds h.2
    have h2 := callsDirs_le dirs; have h4 := callsSet_le s; have h5 := varDefs_length_le vars
    have e : stoksDefs (.op (some t) name vars dirs s :: ds) = (Definition.op (some t) name vars dirs s).stoks ++ stoksDefs ds := rfl
    rw [e, stoks_op_some]
    cases name <;>
      (simp only [docCalls, callsOpDef, callsName, Name.stoks, List.length_append, List.length_cons, List.length_nil]; omega)


end ApiFu.C12
