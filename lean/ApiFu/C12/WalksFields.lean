/-
  C12 — step-counting model of the overlapping-fields check of validateFields (validate_fields.go after
  bb4db4d): for every selection set of the document, addFieldSelections, then
  validateFieldsInSetCanMerge / validateSameResponseShape with the two memos of that check.

  Representation. Go works on pointers (`*ast.SelectionSet` in `visited`, `*ast.Field` in the memos, the
  two maps of TypeInfo). The model works on a *table* of all selection sets of the document
  (`setTable`), keyed by the position of the opening brace; a field is identified by its `Position()`
  (C06: distinct nodes of a parsed document have distinct positions). What TypeInfo and the schema
  contribute is a pair of oracles, parameters of the model and of every theorem:
    `shape a b`  : what validateSameResponseShape finds for the two field definitions — an error, two
                   leaf types that agree, or two composite types (then it descends);
    `merge a b pa pb` : what validateFieldsInSetCanMerge finds after the shape check — an error, parent
                   types that need no merging (`skip`), or identical names/arguments (`recurse`).
  The recursion of the Go code is an explicit agenda of frames, processed in the same (depth-first)
  order; every counted site is a loop head with a `verifCount` line (hook patch C12/03):
  fields.set, fields.collect, fields.canMergePair, fields.sameShape, fields.sameShapePair.
  Go iterates `fieldsForName` in random order; the pairs of one call are enumerated here in list order —
  the number of pairs is the same, and on a run without error the totals do not depend on the order
  (a memo hit only prunes work that was or will be done elsewhere in the same check).

  CORE LEAN ONLY.
-/
import ApiFu.C12.Walks

namespace ApiFu.C12
open ApiFu.C06

/-- `fieldAndParent` plus what the check reads from the field node. -/
structure FP where
  field : Pos             -- `Field.Position()`: identifies the node
  key : String            -- alias, else name
  sub : Option Pos        -- the field's selection set (its opening position), if any
  parent : Pos            -- the selection set the field stands in
  deriving Repr, DecidableEq, Inhabited

/-- One selection as addFieldSelections sees it. -/
inductive Item where
  | fld (f : FP)
  | sub (s : Pos)         -- inline fragment: its selection set
  | spread (name : String)
  deriving Repr, DecidableEq, Inhabited

def fieldKey (al : Option Name) (n : Name) : String :=
  match al with
  | some a => a.name
  | none => n.name

def setOpening : SelSet → Pos
  | .mk _ o _ => o

def itemOf (parent : Pos) : Selection → Item
  | .field al n args dirs sel =>
    .fld { field := (Selection.field al n args dirs sel).position, key := fieldKey al n,
           sub := sel.map setOpening, parent := parent }
  | .spread _ n _ => .spread n.name
  | .inline _ _ _ s => .sub (setOpening s)

mutual
/-- Every selection set below (and including) a set, in `ast.Inspect` order, as table rows. -/
def rowsSet : SelSet → List (Pos × List Item)
  | .mk sels o _ => (o, itemsOf o sels) :: rowsSels sels
def rowsSels : List Selection → List (Pos × List Item)
  | [] => []
  | .field _ _ _ _ (some s) :: ss => rowsSet s ++ rowsSels ss
  | .field _ _ _ _ none :: ss => rowsSels ss
  | .spread _ _ _ :: ss => rowsSels ss
  | .inline _ _ _ s :: ss => rowsSet s ++ rowsSels ss
def itemsOf (parent : Pos) : List Selection → List Item
  | [] => []
  | s :: ss => itemOf parent s :: itemsOf parent ss
end

/-- All selection sets of a document, in the order the second `ast.Inspect` of validateFields meets them. -/
def setTable : List Definition → List (Pos × List Item)
  | [] => []
  | .frag _ _ _ _ s :: ds => rowsSet s ++ setTable ds
  | .op _ _ _ _ s :: ds => rowsSet s ++ setTable ds

def rowOf (T : List (Pos × List Item)) (p : Pos) : List Item :=
  match T.find? (fun r => r.1 == p) with
  | some r => r.2
  | none => []

/-- `fragmentDefinitions[name].SelectionSet`. -/
def fragTop (fs : List (String × SelSet × List Directive)) (name : String) : Option Pos :=
  (lookupFrag fs name).map (fun r => setOpening r.1)

/-! ### addFieldSelections -/

structure ColSt where
  frames : List (List Item)      -- the `for … range Selections` loops in progress, innermost first
  visited : List Pos
  fields : List FP               -- collected so far, in order
  steps : Nat                    -- site fields.collect
  err : Bool                     -- "undefined fragment"
  deriving Repr, Inhabited

/-- Enter a selection set unless it was visited. -/
def ColSt.enter (T : List (Pos × List Item)) (st : ColSt) (p : Pos) : ColSt :=
  if st.visited.contains p then st
  else { st with visited := p :: st.visited, frames := rowOf T p :: st.frames }

def colRun (T : List (Pos × List Item)) (ftop : String → Option Pos) : Nat → ColSt → Option ColSt
  | 0, _ => none
  | f + 1, st =>
    if st.err then some st
    else
      match st.frames with
      | [] => some st
      | [] :: rest => colRun T ftop f { st with frames := rest }
      | (it :: its) :: rest =>
        let st := { st with frames := its :: rest, steps := st.steps + 1 }
        match it with
        | .fld fp => colRun T ftop f { st with fields := st.fields ++ [fp] }
        | .sub p => colRun T ftop f (st.enter T p)
        | .spread n =>
          match ftop n with
          | some p => colRun T ftop f (st.enter T p)
          | none => some { st with err := true }

/-- Fuel for one addFieldSelections (WalksFieldsLemmas: `colRun_spec`). -/
def colFuel (T : List (Pos × List Item)) : Nat := ((T.map (fun r => r.2.length + 1)).sum + 1) * 2 + 2

/-- `addFieldSelections(set, selectionSet, …)` for an optional selection set, appending to what a first
    call collected (a fresh `visited` per call). Returns fields, steps, error. -/
def collect (T : List (Pos × List Item)) (ftop : String → Option Pos) (start : Option Pos)
    (sofar : List FP) : Option (List FP × Nat × Bool) :=
  match start with
  | none => some (sofar, 0, false)
  | some p =>
    match colRun T ftop (colFuel T) { frames := [rowOf T p], visited := [p], fields := sofar, steps := 0, err := false } with
    | some st => some (st.fields, st.steps, st.err)
    | none => none

/-- The pairs `i < j` of same-key fields. -/
def keyPairs : List FP → List (FP × FP)
  | [] => []
  | a :: l => ((l.filter (fun b => b.key == a.key)).map (fun b => (a, b))) ++ keyPairs l

/-! ### The pair check -/

inductive ShapeRes where
  | err | leaf | comp
  deriving Repr, DecidableEq, Inhabited

inductive MergeRes where
  | err | skip | recurse
  deriving Repr, DecidableEq, Inhabited

structure Oracles where
  shape : Pos → Pos → ShapeRes
  merge : Pos → Pos → Pos → Pos → MergeRes   -- fieldA fieldB parentA parentB

inductive Frame where
  | cm (pairs : List (FP × FP))      -- the pair loop of validateFieldsInSetCanMerge
  | cmAfter (a b : FP)               -- the rest of its body, after validateSameResponseShape returned
  | ssCall (a b : FP)                -- a call of validateSameResponseShape
  | ss (pairs : List (FP × FP))      -- its pair loop
  deriving Repr, Inhabited

structure MSt where
  agenda : List Frame
  memoCM : List (Pos × Pos)
  memoSS : List (Pos × Pos)
  err : Bool
  collect : Nat            -- site fields.collect
  canMergePair : Nat       -- site fields.canMergePair
  sameShape : Nat          -- site fields.sameShape
  sameShapePair : Nat      -- site fields.sameShapePair
  deriving Repr, Inhabited

/-- `visitFieldPair`: the unordered pair is in the set. -/
def memoHas (m : List (Pos × Pos)) (a b : Pos) : Bool := m.contains (a, b) || m.contains (b, a)

/-- The two addFieldSelections calls on the sub-selections of a pair of fields. -/
def collect2 (T : List (Pos × List Item)) (ftop : String → Option Pos) (a b : FP) : Option (List FP × Nat × Bool) :=
  match collect T ftop a.sub [] with
  | some (l1, n1, e1) =>
    if e1 then some (l1, n1, true)
    else
      match collect T ftop b.sub l1 with
      | some (l2, n2, e2) => some (l2, n1 + n2, e2)
      | none => none
  | none => none

/-- One step of the check. `none` = a collect ran out of fuel. -/
def mstep (T : List (Pos × List Item)) (ftop : String → Option Pos) (O : Oracles) (st : MSt) : Option MSt :=
  match st.agenda with
  | [] => some st
  | .cm [] :: rest => some { st with agenda := rest }
  | .cm ((a, b) :: ps) :: rest =>
    let st := { st with canMergePair := st.canMergePair + 1 }
    if memoHas st.memoCM a.field b.field then some { st with agenda := .cm ps :: rest }
    else some { st with memoCM := (a.field, b.field) :: st.memoCM, agenda := .ssCall a b :: .cmAfter a b :: .cm ps :: rest }
  | .ssCall a b :: rest =>
    let st := { st with sameShape := st.sameShape + 1, agenda := rest }
    if memoHas st.memoSS a.field b.field then some st
    else
      let st := { st with memoSS := (a.field, b.field) :: st.memoSS }
      match O.shape a.field b.field with
      | .err => some { st with err := true }
      | .leaf => some st
      | .comp =>
        match collect2 T ftop a b with
        | some (l, n, e) =>
          if e then some { st with collect := st.collect + n, err := true }
          else some { st with collect := st.collect + n, agenda := .ss (keyPairs l) :: st.agenda }
        | none => none
  | .ss [] :: rest => some { st with agenda := rest }
  | .ss ((a, b) :: ps) :: rest =>
    some { st with sameShapePair := st.sameShapePair + 1, agenda := .ssCall a b :: .ss ps :: rest }
  | .cmAfter a b :: rest =>
    let st := { st with agenda := rest }
    match O.merge a.field b.field a.parent b.parent with
    | .err => some { st with err := true }
    | .skip => some st
    | .recurse =>
      match collect2 T ftop a b with
      | some (l, n, e) =>
        if e then some { st with collect := st.collect + n, err := true }
        else some { st with collect := st.collect + n, agenda := .cm (keyPairs l) :: st.agenda }
      | none => none

def mrun (T : List (Pos × List Item)) (ftop : String → Option Pos) (O : Oracles) : Nat → MSt → Option MSt
  | 0, _ => none
  | f + 1, st =>
    if st.err then some st
    else
      match st.agenda with
      | [] => some st
      | _ =>
        match mstep T ftop O st with
        | some st' => mrun T ftop O f st'
        | none => none

/-- Counters of the whole rule. -/
structure FieldsTotals where
  sets : Nat
  collect : Nat
  canMergePair : Nat
  sameShape : Nat
  sameShapePair : Nat
  errors : Nat             -- selection sets whose check ended with an error
  deriving Repr, DecidableEq, Inhabited

/-- The check of one selection set (a fresh memo). -/
def checkSet (T : List (Pos × List Item)) (ftop : String → Option Pos) (O : Oracles) (fuel : Nat) (p : Pos) : Option MSt :=
  match collect T ftop (some p) [] with
  | some (l, n, e) =>
    let st : MSt := { agenda := [], memoCM := [], memoSS := [], err := e, collect := n, canMergePair := 0,
                      sameShape := 0, sameShapePair := 0 }
    if e then some st else mrun T ftop O fuel { st with agenda := [.cm (keyPairs l)] }
  | none => none

def checkAll (T : List (Pos × List Item)) (ftop : String → Option Pos) (O : Oracles) (fuel : Nat) :
    List (Pos × List Item) → Option FieldsTotals
  | [] => some { sets := 0, collect := 0, canMergePair := 0, sameShape := 0, sameShapePair := 0, errors := 0 }
  | r :: rs =>
    match checkSet T ftop O fuel r.1, checkAll T ftop O fuel rs with
    | some st, some t =>
      some { sets := t.sets + 1, collect := st.collect + t.collect, canMergePair := st.canMergePair + t.canMergePair,
             sameShape := st.sameShape + t.sameShape, sameShapePair := st.sameShapePair + t.sameShapePair,
             errors := t.errors + (if st.err then 1 else 0) }
    | _, _ => none

/-- The positions of all field nodes of the table. -/
def fldPos (T : List (Pos × List Item)) : List Pos :=
  (T.flatMap (·.2)).filterMap (fun it =>
    match it with
    | .fld f => some f.field
    | _ => none)

/-- Number of field items in the table. -/
def fieldCount (T : List (Pos × List Item)) : Nat := (fldPos T).length

/-- Fuel for the check of one selection set (WalksFieldsLemmas: `mrun_spec`). -/
def checkFuel (T : List (Pos × List Item)) : Nat :=
  let K := colFuel T
  let Q := (2 * K) * (2 * K)
  let P := fieldCount T
  3 * (K * K) + 2 + (5 * Q + 4) * (P * P) + 1

def fieldsCheck (O : Oracles) (d : Document) : Option FieldsTotals :=
  let T := setTable d.defs
  checkAll T (fragTop (fragDefs d.defs)) O (checkFuel T) T

end ApiFu.C12
