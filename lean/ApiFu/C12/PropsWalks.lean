/-
  C12 — property theorems for the validator's walks (models: Walks.lean, WalksFields.lean; counters tied
  to the Go code by the `verif` hook C12/03 on every run): each walk ends (the model's fuel suffices) and
  its counted loop heads are bounded by an explicit polynomial in the number `n` of tokens of the
  document — for every document (well-formed or not), and, for the overlapping-fields check, for every
  schema / TypeInfo (the oracles are universally quantified).

  Degrees proved: cycle search 2 (toVisit entries) and 3 (dependency looks); variable walk 2 (worklist
  entries) and 2·(size of one ast.Inspect pass) (callback calls); overlapping-fields check 5 (pair-loop
  heads) and 6 (selections looked at by addFieldSelections). These are worst-case bounds of simple
  counting arguments, not tight: measured growth on the harness families is between linear and cubic.
-/
import ApiFu.C12.WalksLemmas
import ApiFu.C12.WalksFieldsLemmas
import ApiFu.C12.WalksSubscription

namespace ApiFu.C12
open ApiFu.C06

/-- **cycle_search_poly** — the fragment cycle search of validateFragmentSpreads, for every document `d`
    with `n` tokens, with the `break` and without it, and for every order in which Go may iterate its maps
    (any dependency lists drawn from the model's, any list of at most as many start names as there are
    fragment definitions): it ends within the model's fuel, takes at most `n·(n+1)` entries from `toVisit`
    (site cycle.outer) and looks at at most `n·(n+1)·n` dependencies (site cycle.inner). -/
theorem cycle_search_poly (brk : Bool) (d : Document) (deps' : String → List String) (names : List String)
    (hsub : ∀ v, ∀ x ∈ deps' v, x ∈ depsOf (fragDefs d.defs) v)
    (hlen : ∀ v, (deps' v).length ≤ (depsOf (fragDefs d.defs) v).length)
    (hnames : names.length ≤ (fragDefs d.defs).length) :
    ∃ t, cycleAll brk deps' (cycleFuel (fragDefs d.defs)) names = some t ∧
      t.outer ≤ d.stoks.length * (d.stoks.length + 1) ∧
      t.inner ≤ d.stoks.length * ((d.stoks.length + 1) * d.stoks.length) := by
  obtain ⟨t, ht, ho, hi⟩ := cycleSearch_bound_any_order brk d deps' names hsub hlen hnames
  obtain ⟨h1, h2⟩ := counts_le_tokens d.defs
  have hS : (allSpreads (fragDefs d.defs)).length ≤ d.stoks.length :=
    Nat.le_trans (allSpreads_le_docSpreads d.defs) h1
  have hF : (fragDefs d.defs).length ≤ d.stoks.length := by
    have : (stoksDefs d.defs).length = d.stoks.length := rfl
    omega
  refine ⟨t, ht, Nat.le_trans ho (Nat.mul_le_mul hF (by omega)), Nat.le_trans hi ?_⟩
  exact Nat.mul_le_mul hF (Nat.mul_le_mul (by omega) hS)

/-- The model's own run (document order) is an instance. -/
theorem cycle_search_poly_model (brk : Bool) (d : Document) :
    ∃ t, cycleSearch brk d = some t ∧ t.outer ≤ d.stoks.length * (d.stoks.length + 1) ∧
      t.inner ≤ d.stoks.length * ((d.stoks.length + 1) * d.stoks.length) := by
  have hn : (dedup ((fragDefs d.defs).map (·.1))).length ≤ (fragDefs d.defs).length := by
    have := dedup_length_le ((fragDefs d.defs).map (·.1)); simpa using this
  exact cycle_search_poly brk d (depsOf (fragDefs d.defs)) _ (fun _ _ h => h) (fun _ => Nat.le_refl _) hn

/-- **variables_walk_poly** — the variable-usage walk of validateVariables, for every document `d` with
    `n` tokens: it ends within the model's fuel, takes at most `n·n` fragment names from the worklist (site
    vars.fragment: every operation validates every fragment it reaches once) and calls the ast.Inspect
    callback at most `C + n·n·C` times (site vars.node), where `C = docCalls d.defs` is the number of
    callback calls of one pass over all definitions (two per node visited, one per variable definition). -/
theorem variables_walk_poly (d : Document) :
    ∃ tot, varsWalk d = some tot ∧ tot.frags ≤ d.stoks.length * d.stoks.length ∧
      tot.nodes ≤ docCalls d.defs + d.stoks.length * (d.stoks.length * docCalls d.defs) := by
  obtain ⟨tot, ht, hf, hn⟩ := varsWalk_bound d
  obtain ⟨h1, h2⟩ := counts_le_tokens d.defs
  have hO : opCount d.defs ≤ d.stoks.length := by
    have : (stoksDefs d.defs).length = d.stoks.length := rfl
    omega
  have hS : spreadCountDefs d.defs ≤ d.stoks.length := h1
  refine ⟨tot, ht, Nat.le_trans hf (Nat.mul_le_mul hO hS), Nat.le_trans hn ?_⟩
  exact Nat.add_le_add_left (Nat.mul_le_mul hO (Nat.mul_le_mul_right _ hS)) _

/-- **variables_walk_poly_tokens** — for every well-formed document (every document the parser returns,
    `C06.parse_sound`) with `n` tokens: at most `n²` worklist entries and at most `4n + 4n³` callback calls. -/
theorem variables_walk_poly_tokens (d : Document) (hwf : wfDocument d = true) :
    ∃ tot, varsWalk d = some tot ∧ tot.frags ≤ d.stoks.length * d.stoks.length ∧
      tot.nodes ≤ 4 * d.stoks.length + d.stoks.length * (d.stoks.length * (4 * d.stoks.length)) := by
  obtain ⟨tot, ht, hf, hn⟩ := variables_walk_poly d
  simp only [wfDocument, Bool.and_eq_true] at hwf
  have hC : docCalls d.defs ≤ 4 * d.stoks.length := docCalls_le d.defs hwf.2
  refine ⟨tot, ht, hf, Nat.le_trans hn ?_⟩
  exact Nat.add_le_add hC (Nat.mul_le_mul_left _ (Nat.mul_le_mul_left _ hC))


/-- The polynomial bounding the work of the overlapping-fields check of one selection set. -/
def fieldsPoly (n : Nat) : Nat :=
  3 * ((2 * n + 4) * (2 * n + 4)) + 2 + (5 * ((2 * (2 * n + 4)) * (2 * (2 * n + 4))) + 4) * (n * n) + 1

theorem checkFuel_le (T : List (Pos × List Item)) (n : Nat) (h : tableW T ≤ n) : checkFuel T ≤ fieldsPoly n := by
  have hK : colFuel T ≤ 2 * n + 4 := by rw [colFuel_eq]; omega
  have hP : fieldCount T ≤ n := Nat.le_trans (fieldCount_le_tableW T) h
  unfold checkFuel fieldsPoly
  simp only
  have h1 := Nat.mul_le_mul hK hK
  have h2 : 2 * colFuel T * (2 * colFuel T) ≤ 2 * (2 * n + 4) * (2 * (2 * n + 4)) :=
    Nat.mul_le_mul (Nat.mul_le_mul_left 2 hK) (Nat.mul_le_mul_left 2 hK)
  have h3 := Nat.mul_le_mul hP hP
  have h4 : (5 * (2 * colFuel T * (2 * colFuel T)) + 4) * (fieldCount T * fieldCount T) ≤
      (5 * (2 * (2 * n + 4) * (2 * (2 * n + 4))) + 4) * (n * n) :=
    Nat.mul_le_mul (by omega) h3
  omega

/-- **merge_check_poly** — the overlapping-fields check of validateFields (addFieldSelections,
    validateFieldsInSetCanMerge, validateSameResponseShape with the two memos of bb4db4d), for every document
    `d` with `n` tokens and for *every* schema and TypeInfo (the oracles `O`): it ends within the model's
    fuel; it checks at most `n` selection sets (site fields.set); the three pair-loop heads
    (fields.canMergePair, fields.sameShape, fields.sameShapePair) are reached at most `n·fieldsPoly n`
    times — a polynomial of degree 5 — and addFieldSelections looks at at most
    `n·((2n+4) + 2·(2n+4)·fieldsPoly n)` selections (fields.collect) — degree 6. -/
theorem merge_check_poly (O : Oracles) (d : Document) :
    ∃ t, fieldsCheck O d = some t ∧ t.sets ≤ d.stoks.length ∧
      t.canMergePair + t.sameShape + t.sameShapePair ≤ d.stoks.length * fieldsPoly d.stoks.length ∧
      t.collect ≤ d.stoks.length *
        ((2 * d.stoks.length + 4) + 2 * (2 * d.stoks.length + 4) * fieldsPoly d.stoks.length) := by
  obtain ⟨t, ht, hs, hh, hc⟩ := fieldsCheck_bound O d
  have hW : tableW (setTable d.defs) ≤ d.stoks.length := setTable_le d.defs
  have hN : (setTable d.defs).length ≤ d.stoks.length := Nat.le_trans (length_le_tableW _) hW
  have hB := checkFuel_le (setTable d.defs) d.stoks.length hW
  have hK : colFuel (setTable d.defs) ≤ 2 * d.stoks.length + 4 := by rw [colFuel_eq]; omega
  refine ⟨t, ht, by omega, Nat.le_trans hh (Nat.mul_le_mul hN hB), Nat.le_trans hc ?_⟩
  refine Nat.mul_le_mul hN ?_
  have := Nat.mul_le_mul (Nat.mul_le_mul_left 2 hK) hB
  omega

/-! Non-vacuity: kernel evaluation of the three models on small documents. -/

/-- `{ ...F } fragment F on Q { x ...F }` -/
def loopDoc : Document :=
  { defs := [.op none none [] [] (.mk [.spread ⟨1, 3⟩ ⟨"F", ⟨1, 6⟩⟩ []] ⟨1, 1⟩ ⟨1, 8⟩),
             .frag ⟨2, 1⟩ ⟨"F", ⟨2, 10⟩⟩ ⟨"Q", ⟨2, 15⟩⟩ []
               (.mk [.field none ⟨"x", ⟨2, 19⟩⟩ [] [] none, .spread ⟨2, 21⟩ ⟨"F", ⟨2, 24⟩⟩ []] ⟨2, 17⟩ ⟨2, 26⟩)] }

example : cycleSearch true loopDoc = some { outer := 1, inner := 1, cycles := 1 } := by decide +kernel
example : varsWalk loopDoc = some { nodes := 22, frags := 1 } := by decide +kernel

/-- `{ x x }` with a leaf field `x`: one pair, compared once. -/
def twoFields : Document :=
  { defs := [.op none none [] [] (.mk [.field none ⟨"x", ⟨1, 3⟩⟩ [] [] none, .field none ⟨"x", ⟨1, 5⟩⟩ [] [] none] ⟨1, 1⟩ ⟨1, 7⟩)] }

example : fieldsCheck { shape := fun _ _ => .leaf, merge := fun _ _ _ _ => .recurse } twoFields =
    some { sets := 1, collect := 2, canMergePair := 1, sameShape := 1, sameShapePair := 0, errors := 0 } := by
  decide +kernel

/-- **subscription_rule_poly** — the "one root field" rule of validateOperations: the addFieldSelections
    calls it makes on the root selection sets of the subscription operations end within the model's fuel and
    look at at most `n·(2n+4)` selections altogether (site fields.collect; `n` tokens), for every document —
    fragment cycles included (the collection stops at a selection set it has already entered). -/
theorem subscription_rule_poly (d : Document) :
    ∃ n, subscriptionCollect d = some n ∧ n ≤ d.stoks.length * (2 * d.stoks.length + 4) := by
  obtain ⟨n, h, hn⟩ := subsCollect_bound (setTable d.defs) (fragTop (fragDefs d.defs)) d.defs
  have hW : tableW (setTable d.defs) ≤ d.stoks.length := setTable_le d.defs
  have hK : colFuel (setTable d.defs) ≤ 2 * d.stoks.length + 4 := by rw [colFuel_eq]; omega
  have hO : opCount d.defs ≤ d.stoks.length := by
    have := (counts_le_tokens d.defs).2
    exact Nat.le_trans (Nat.le_add_left _ _) this
  exact ⟨n, h, Nat.le_trans hn (Nat.mul_le_mul hO hK)⟩

/-- Non-vacuity: `subscription { ...A } fragment A on S { x ...A }` — a cycle through the root: the
    collection takes 3 steps and ends. -/
def subLoopDoc : Document :=
  { defs := [.op (some ⟨"subscription", ⟨1, 1⟩⟩) none [] []
               (.mk [.spread ⟨1, 16⟩ ⟨"A", ⟨1, 19⟩⟩ []] ⟨1, 14⟩ ⟨1, 21⟩),
             .frag ⟨2, 1⟩ ⟨"A", ⟨2, 10⟩⟩ ⟨"S", ⟨2, 15⟩⟩ []
               (.mk [.field none ⟨"x", ⟨2, 19⟩⟩ [] [] none, .spread ⟨2, 21⟩ ⟨"A", ⟨2, 24⟩⟩ []] ⟨2, 17⟩ ⟨2, 26⟩)] }

example : subscriptionCollect subLoopDoc = some 3 := by decide +kernel

end ApiFu.C12
