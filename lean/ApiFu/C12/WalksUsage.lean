/-
  C12 — the SIZE of every collection the variable rule builds (validate_variables.go 17-86), counted as
  collection operations along the walk modelled in Walks.lean (`varsLoop`):

    * `variableDefinitions[name] = def`                       one insert per variable definition,
    * `ret = append(ret, …)` in the definitions loop          at most two per variable definition,
    * `encounteredVariables[name] = struct{}{}`               one insert per Variable node visited,
    * `ret = append(ret, …)` at a Variable node               at most one per Variable node visited,
    * `unvalidatedFragmentSpreads[name] = true`               at most one insert per FragmentSpread visited,
    * `delete(unvalidated…, name)`, `validated…[name] = true` two per name taken from the worklist,
    * `ret = append(ret, "unused variable")`                  at most one per variable definition.

  The size of each collection at any moment is at most the number of operations on it, so `ops` bounds the
  sum of the sizes of all intermediate collections of one operation. `usageLoop` is `varsLoop` with this
  counter (`usageLoop_fst`: same walk). Every operation happens inside a callback call or a worklist step,
  which is what `usage_ops_le` says: `ops ≤ 3·|variable definitions| + callback calls + 2·worklist entries`.
  A rule that concatenates per-fragment usage lists once per spread PATH (seed C12-22) has no such bound.
  CORE LEAN ONLY.
-/
import ApiFu.C12.WalksLemmas

namespace ApiFu.C12
open ApiFu.C06

mutual
def opsValue : Value → Nat
  | .var _ => 2
  | .list vs _ _ => opsValues vs
  | .obj fs _ _ => opsFields fs
  | _ => 0
def opsValues : List Value → Nat
  | [] => 0
  | v :: vs => opsValue v + opsValues vs
def opsFields : List (Name × Value) → Nat
  | [] => 0
  | (_, v) :: fs => opsValue v + opsFields fs
end

def opsArgs : List Argument → Nat
  | [] => 0
  | a :: as => opsValue a.value + opsArgs as

def opsDirs : List Directive → Nat
  | [] => 0
  | d :: ds => opsArgs d.args + opsDirs ds

mutual
def opsSel : Selection → Nat
  | .field _ _ args dirs sel =>
    opsArgs args + opsDirs dirs +
      (match sel with
       | some s => opsSet s
       | none => 0)
  | .spread _ _ dirs => 1 + opsDirs dirs
  | .inline _ _ dirs s => opsDirs dirs + opsSet s
def opsSet : SelSet → Nat
  | .mk sels _ _ => opsSels sels
def opsSels : List Selection → Nat
  | [] => 0
  | s :: ss => opsSel s + opsSels ss
end

def opsFragDef (s : SelSet) (dirs : List Directive) : Nat := opsDirs dirs + opsSet s

/-- Default values are not inspected (`case *ast.VariableDefinition: return false`). -/
def opsOpDef (vars : List VarDef) (dirs : List Directive) (s : SelSet) : Nat :=
  4 * vars.length + opsDirs dirs + opsSet s

/-! Every collection operation of a pass happens at a node the callback is called for. -/

mutual
theorem opsValue_le : ∀ v : Value, opsValue v ≤ callsValue v
  | .var _ => by simp [opsValue, callsValue]
  | .list vs _ _ => by have := opsValues_le vs; simp only [opsValue, callsValue]; omega
  | .obj fs _ _ => by have := opsFields_le fs; simp only [opsValue, callsValue]; omega
  | .int _ _ => by simp [opsValue]
  | .float _ _ => by simp [opsValue]
  | .str _ _ => by simp [opsValue]
  | .bool _ _ => by simp [opsValue]
  | .null _ => by simp [opsValue]
  | .enum _ _ => by simp [opsValue]
theorem opsValues_le : ∀ vs : List Value, opsValues vs ≤ callsValues vs
  | [] => by simp [opsValues, callsValues]
  | v :: vs => by have := opsValue_le v; have := opsValues_le vs; simp only [opsValues, callsValues]; omega
theorem opsFields_le : ∀ fs : List (Name × Value), opsFields fs ≤ callsFields fs
  | [] => by simp [opsFields, callsFields]
  | (_, v) :: fs => by have := opsValue_le v; have := opsFields_le fs; simp only [opsFields, callsFields]; omega
end

theorem opsArgs_le : ∀ as : List Argument, opsArgs as ≤ callsArgs as
  | [] => by simp [opsArgs, callsArgs]
  | a :: as => by have := opsValue_le a.value; have := opsArgs_le as; simp only [opsArgs, callsArgs]; omega

theorem opsDirs_le : ∀ ds : List Directive, opsDirs ds ≤ callsDirs ds
  | [] => by simp [opsDirs, callsDirs]
  | d :: ds => by have := opsArgs_le d.args; have := opsDirs_le ds; simp only [opsDirs, callsDirs]; omega

mutual
theorem opsSel_le : ∀ s : Selection, opsSel s ≤ callsSel s
  | .field al _ args dirs (some s) => by
    have := opsArgs_le args; have := opsDirs_le dirs; have := opsSet_le s
    simp only [opsSel, callsSel]; omega
  | .field al _ args dirs none => by
    have := opsArgs_le args; have := opsDirs_le dirs
    simp only [opsSel, callsSel]; omega
  | .spread _ _ dirs => by have := opsDirs_le dirs; simp only [opsSel, callsSel, callsName]; omega
  | .inline _ tc dirs s => by
    have := opsDirs_le dirs; have := opsSet_le s
    simp only [opsSel, callsSel]; omega
theorem opsSet_le : ∀ s : SelSet, opsSet s ≤ callsSet s
  | .mk sels _ _ => by have := opsSels_le sels; simp only [opsSet, callsSet]; omega
theorem opsSels_le : ∀ ss : List Selection, opsSels ss ≤ callsSels ss
  | [] => by simp [opsSels, callsSels]
  | s :: ss => by have := opsSel_le s; have := opsSels_le ss; simp only [opsSels, callsSels]; omega
end

theorem opsFragDef_le (s : SelSet) (dirs : List Directive) : opsFragDef s dirs ≤ callsFragDef s dirs := by
  have := opsDirs_le dirs; have := opsSet_le s
  simp only [opsFragDef, callsFragDef]; omega

theorem opsOpDef_le (t : Option OpType) (name : Option Name) (vars : List VarDef) (dirs : List Directive) (s : SelSet) :
    opsOpDef vars dirs s ≤ 3 * vars.length + callsOpDef t name vars dirs s := by
  have := opsDirs_le dirs; have := opsSet_le s
  simp only [opsOpDef, callsOpDef]; omega

/-! ### The walk with the collection-operation counter -/

def usageLoop (fs : List (String × SelSet × List Directive)) : Nat → VarsSt → Nat → Option (VarsSt × Nat)
  | 0, _, _ => none
  | f + 1, st, ops =>
    match st.unvalidated with
    | [] => some (st, ops)
    | n :: rest =>
      let st := { st with unvalidated := rest, validated := n :: st.validated, frags := st.frags + 1 }
      match lookupFrag fs n with
      | some (s, dirs) =>
        usageLoop fs f (noteSpreads (spreadsSet s) { st with nodes := st.nodes + callsFragDef s dirs })
          (ops + 2 + opsFragDef s dirs)
      | none => usageLoop fs f st (ops + 2)

/-- `usageLoop` is `varsLoop` with one more counter. -/
theorem usageLoop_fst (fs : List (String × SelSet × List Directive)) :
    ∀ (f : Nat) (st : VarsSt) (ops : Nat), (usageLoop fs f st ops).map (·.1) = varsLoop fs f st
  | 0, _, _ => rfl
  | f + 1, st, ops => by
    unfold usageLoop varsLoop
    cases st.unvalidated with
    | nil => rfl
    | cons n rest =>
      simp only
      cases lookupFrag fs n with
      | none => exact usageLoop_fst fs f _ _
      | some p => exact usageLoop_fst fs f _ _

theorem noteSpreads_counts : ∀ (ns : List String) (st : VarsSt),
    (noteSpreads ns st).nodes = st.nodes ∧ (noteSpreads ns st).frags = st.frags
  | [], st => ⟨rfl, rfl⟩
  | n :: ns, st => by
    unfold noteSpreads
    split
    · exact noteSpreads_counts ns st
    · exact noteSpreads_counts ns _

/-- Every collection operation is paid for by a callback call or a worklist step. -/
theorem usageLoop_le (fs : List (String × SelSet × List Directive)) :
    ∀ (f : Nat) (st : VarsSt) (ops : Nat) (r : VarsSt × Nat), usageLoop fs f st ops = some r →
      r.2 + st.nodes + 2 * st.frags ≤ ops + r.1.nodes + 2 * r.1.frags
  | 0, _, _, _, h => by simp [usageLoop] at h
  | f + 1, st, ops, r, h => by
    unfold usageLoop at h
    cases hu : st.unvalidated with
    | nil =>
      rw [hu] at h
      simp only [Option.some.injEq] at h
      subst h
      simp
    | cons n rest =>
      rw [hu] at h
      simp only at h
      cases hl : lookupFrag fs n with
      | none =>
        rw [hl] at h
        have := usageLoop_le fs f _ _ r h
        simp only at this
        omega
      | some p =>
        obtain ⟨s, dirs⟩ := p
        rw [hl] at h
        have := usageLoop_le fs f _ _ r h
        have hc := noteSpreads_counts (spreadsSet s)
          { unvalidated := rest, validated := n :: st.validated, nodes := st.nodes + callsFragDef s dirs, frags := st.frags + 1 }
        have ho := opsFragDef_le s dirs
        simp only at this hc
        rw [hc.1, hc.2] at this
        omega

def usageOp (fs : List (String × SelSet × List Directive)) (fuel : Nat)
    (t : Option OpType) (name : Option Name) (vars : List VarDef) (dirs : List Directive) (s : SelSet) :
    Option (VarsSt × Nat) :=
  usageLoop fs fuel (noteSpreads (spreadsSet s)
    { unvalidated := [], validated := [], nodes := callsOpDef t name vars dirs s, frags := 0 })
    (opsOpDef vars dirs s)

theorem usageOp_fst (fs : List (String × SelSet × List Directive)) (fuel : Nat)
    (t : Option OpType) (name : Option Name) (vars : List VarDef) (dirs : List Directive) (s : SelSet) :
    (usageOp fs fuel t name vars dirs s).map (·.1) = varsOp fs fuel t name vars dirs s :=
  usageLoop_fst fs fuel _ _

theorem usageOp_le (fs : List (String × SelSet × List Directive)) (fuel : Nat)
    (t : Option OpType) (name : Option Name) (vars : List VarDef) (dirs : List Directive) (s : SelSet)
    (r : VarsSt × Nat) (h : usageOp fs fuel t name vars dirs s = some r) :
    r.2 ≤ 3 * vars.length + r.1.nodes + 2 * r.1.frags := by
  have := usageLoop_le fs fuel _ _ r h
  have hc := noteSpreads_counts (spreadsSet s)
    { unvalidated := [], validated := [], nodes := callsOpDef t name vars dirs s, frags := 0 }
  have ho := opsOpDef_le t name vars dirs s
  simp only at hc
  rw [hc.1, hc.2] at this
  omega

/-- All operations of a document: the totals of `varsAll` and the collection operations. -/
def usageAll (fs : List (String × SelSet × List Directive)) (fuel : Nat) : List Definition → Option (VarsTotals × Nat)
  | [] => some ({ nodes := 0, frags := 0 }, 0)
  | .frag _ _ _ _ _ :: ds => usageAll fs fuel ds
  | .op t name vars dirs s :: ds =>
    match usageOp fs fuel t name vars dirs s, usageAll fs fuel ds with
    | some r, some tot => some ({ nodes := r.1.nodes + tot.1.nodes, frags := r.1.frags + tot.1.frags }, r.2 + tot.2)
    | _, _ => none

def varDefCount : List Definition → Nat
  | [] => 0
  | .frag _ _ _ _ _ :: ds => varDefCount ds
  | .op _ _ vars _ _ :: ds => vars.length + varDefCount ds

theorem usageAll_fst (fs : List (String × SelSet × List Directive)) (fuel : Nat) :
    ∀ ds, (usageAll fs fuel ds).map (·.1) = varsAll fs fuel ds
  | [] => rfl
  | .frag _ _ _ _ _ :: ds => by simp only [usageAll, varsAll]; exact usageAll_fst fs fuel ds
  | .op t name vars dirs s :: ds => by
    have h1 := usageOp_fst fs fuel t name vars dirs s
    have h2 := usageAll_fst fs fuel ds
    simp only [usageAll, varsAll]
    cases ho : usageOp fs fuel t name vars dirs s with
    | none =>
      rw [ho] at h1
      simp only [Option.map_none] at h1
      rw [← h1]
      rfl
    | some r =>
      rw [ho] at h1
      simp only [Option.map_some] at h1
      rw [← h1]
      cases ha : usageAll fs fuel ds with
      | none =>
        rw [ha] at h2
        simp only [Option.map_none] at h2
        rw [← h2]
        rfl
      | some tot =>
        rw [ha] at h2
        simp only [Option.map_some] at h2
        rw [← h2]
        rfl

theorem usageAll_le (fs : List (String × SelSet × List Directive)) (fuel : Nat) :
    ∀ ds r, usageAll fs fuel ds = some r → r.2 ≤ 3 * varDefCount ds + r.1.nodes + 2 * r.1.frags
  | [], r, h => by
    simp only [usageAll, Option.some.injEq] at h
    subst h
    simp [varDefCount]
  | .frag _ _ _ _ _ :: ds, r, h => by
    simp only [usageAll] at h
    have := usageAll_le fs fuel ds r h
    simpa [varDefCount] using this
  | .op t name vars dirs s :: ds, r, h => by
    simp only [usageAll] at h
    cases ho : usageOp fs fuel t name vars dirs s with
    | none => rw [ho] at h; simp at h
    | some ro =>
      cases ha : usageAll fs fuel ds with
      | none => rw [ho, ha] at h; simp at h
      | some tot =>
        rw [ho, ha] at h
        simp only [Option.some.injEq] at h
        subst h
        have h1 := usageOp_le fs fuel t name vars dirs s ro ho
        have h2 := usageAll_le fs fuel ds tot ha
        simp only [varDefCount]
        omega

/-- The whole rule on a document. -/
def usageWalk (d : Document) : Option (VarsTotals × Nat) :=
  usageAll (fragDefs d.defs) (varsFuel d) d.defs

end ApiFu.C12
