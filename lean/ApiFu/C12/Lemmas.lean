/-
  C12 — lemmas about the cost-walk step model: the exact step count of the walk on the double-spread
  chain family (`walk_chain`, `costVisits_chainDoc`), the size and well-formedness of the family's
  documents, injectivity of the fragment names `F0, F1, …`.
  Core Lean + `Std.Data.String.ToNat` (for `Nat.repr_injective`); no Mathlib.
-/
import ApiFu.C12.Model
import ApiFu.C06.Spec
import ApiFu.C06.Complete
import Std.Data.String.ToNat

namespace ApiFu.C12
open ApiFu.C06

def p0 : Pos := ⟨0, 0⟩
def spreadOf (s : String) : Selection := .spread p0 ⟨s, p0⟩ []
/-- `{ ...s ...s }` -/
def dbl (s : String) : SelSet := .mk [spreadOf s, spreadOf s] p0 p0
/-- `{ x }` -/
def leafSet : SelSet := .mk [.field none ⟨"x", p0⟩ [] [] none] p0 p0

/-- Visits of the walk inside fragment `F(n-k)` of the chain: `T 0 = 1`, `T (k+1) = 2·(1 + T k)`. -/
def T : Nat → Nat
  | 0 => 1
  | k + 1 => 2 * (1 + T k)

theorem T_eq (k : Nat) : T k + 2 = 3 * 2 ^ k := by
  induction k with
  | zero => rfl
  | succ k ih => simp only [T, Nat.pow_succ]; omega

/-- The body of fragment `i` in a chain of `n` levels. -/
def body (nm : Nat → String) (n i : Nat) : SelSet := if i < n then dbl (nm (i + 1)) else leafSet

theorem walkSet_succ (frags : String → Option SelSet) (f : Nat) (active : List String) (sels : List Selection) (o c : Pos) (w : Walk) :
    walkSet frags (f + 1) active (.mk sels o c) w = if w.err then some w else walkSels frags f active sels w := rfl
theorem walkSels_nil (frags : String → Option SelSet) (f : Nat) (active : List String) (w : Walk) :
    walkSels frags (f + 1) active [] w = some w := rfl
theorem walkSels_cons (frags : String → Option SelSet) (f : Nat) (active : List String) (s : Selection) (ss : List Selection) (w : Walk) :
    walkSels frags (f + 1) active (s :: ss) w =
      match walkSel frags f active s w with
      | some w' => walkSels frags f active ss w'
      | none => none := rfl
theorem walkSel_leafField (frags : String → Option SelSet) (f : Nat) (active : List String) (al : Option Name) (n : Name)
    (as : List Argument) (ds : List Directive) (v : Nat) :
    walkSel frags (f + 1) active (.field al n as ds none) { visits := v, err := false } = some { visits := v + 1, err := false } := rfl
theorem walkSel_spread (frags : String → Option SelSet) (f : Nat) (active : List String) (e : Pos) (n : Name) (ds : List Directive) (w : Walk) :
    walkSel frags (f + 1) active (.spread e n ds) w =
      (let w := { w with visits := w.visits + 1 }
       if active.contains n.name then some { w with err := true }
       else
         match frags n.name with
         | some s => if w.err then some w else walkSet frags f (n.name :: active) s w
         | none => some { w with err := true }) := rfl

/-- The walk inside fragment `F i` of an `n`-level double-spread chain visits `T (n - i)` selections,
    for any lookup function that maps the chain's names to the chain's bodies. -/
theorem walk_chain (frags : String → Option SelSet) (nm : Nat → String) (hinj : ∀ a b, nm a = nm b → a = b) (n : Nat)
    (hf : ∀ i, i ≤ n → frags (nm i) = some (body nm n i)) :
    ∀ k i, i + k = n → ∀ fuel, 4 * k + 3 ≤ fuel → ∀ active : List String, (∀ a ∈ active, ∃ j, j ≤ i ∧ a = nm j) →
      ∀ v : Nat,
        walkSet frags fuel active (body nm n i) { visits := v, err := false } = some { visits := v + T k, err := false } := by
  intro k
  induction k with
  | zero =>
    intro i hi fuel hfuel active _ v
    have hin : ¬ i < n := by omega
    obtain ⟨f3, rfl⟩ : ∃ f3, fuel = f3 + 3 := ⟨fuel - 3, by omega⟩
    unfold body
    rw [if_neg hin]
    unfold leafSet
    simp only [walkSet_succ, walkSels_cons, walkSel_leafField, walkSels_nil, Bool.false_eq_true, if_false, T]
  | succ k ih =>
    intro i hi fuel hfuel active hact v
    have hin : i < n := by omega
    obtain ⟨f3, rfl⟩ : ∃ f3, fuel = f3 + 3 := ⟨fuel - 3, by omega⟩
    have hnot : active.contains (nm (i + 1)) = false := by
      rw [Bool.eq_false_iff]
      intro hc
      have hmem : nm (i + 1) ∈ active := by simpa using hc
      obtain ⟨j, hj, hjn⟩ := hact _ hmem
      have := hinj _ _ hjn
      omega
    have hact' : ∀ a ∈ nm (i + 1) :: active, ∃ j, j ≤ i + 1 ∧ a = nm j := by
      intro a ha
      rcases List.mem_cons.mp ha with rfl | ha
      · exact ⟨i + 1, Nat.le_refl _, rfl⟩
      · obtain ⟨j, hj, rfl⟩ := hact a ha
        exact ⟨j, by omega, rfl⟩
    have hfr := hf (i + 1) (by omega)
    -- one spread of fragment i+1, with fuel g+1 ≥ 3k+4
    have hsp : ∀ g, 4 * k + 3 ≤ g → ∀ v', walkSel frags (g + 1) active (spreadOf (nm (i + 1))) { visits := v', err := false } =
        some { visits := v' + 1 + T k, err := false } := by
      intro g hg v'
      unfold spreadOf
      rw [walkSel_spread]
      simp only [hnot, hfr, Bool.false_eq_true, if_false]
      exact ih (i + 1) (by omega) g hg (nm (i + 1) :: active) hact' (v' + 1)
    unfold body
    rw [if_pos hin]
    unfold dbl
    obtain ⟨f0, rfl⟩ : ∃ f0, f3 = f0 + 4 * k + 4 := ⟨f3 - (4 * k + 4), by omega⟩
    have e1 : f0 + 4 * k + 4 + 3 = (f0 + 4 * k + 6) + 1 := by omega
    have e2 : f0 + 4 * k + 6 = (f0 + 4 * k + 5) + 1 := by omega
    have e3 : f0 + 4 * k + 5 = (f0 + 4 * k + 4) + 1 := by omega
    have e4 : f0 + 4 * k + 4 = (f0 + 4 * k + 3) + 1 := by omega
    rw [e1, walkSet_succ]
    simp only [Bool.false_eq_true, if_false]
    rw [e2, walkSels_cons, e3, hsp (f0 + 4 * k + 4) (by omega)]
    simp only
    rw [walkSels_cons, e4, hsp (f0 + 4 * k + 3) (by omega)]
    simp only
    rw [walkSels_nil]
    simp only [T, Option.some.injEq, Walk.mk.injEq, and_true]
    omega

/-! ### The concrete family of documents -/

def fragDef (name : String) (s : SelSet) : Definition := .frag p0 ⟨name, p0⟩ ⟨"Query", p0⟩ [] s

/-- Fragments `F i … F (i+k)` of the chain: `F j { ...F(j+1) ...F(j+1) }` for `j < i+k`, `F (i+k) { x }`. -/
def chainFrags (nm : Nat → String) : Nat → Nat → List Definition
  | i, 0 => [fragDef (nm i) leafSet]
  | i, k + 1 => fragDef (nm i) (dbl (nm (i + 1))) :: chainFrags nm (i + 1) k

/-- `{ ...F0 } fragment F0 on Query { ...F1 ...F1 } … fragment Fn on Query { x }` -/
def chainDoc (nm : Nat → String) (n : Nat) : Document :=
  { defs := .op none none [] [] (.mk [spreadOf (nm 0)] p0 p0) :: chainFrags nm 0 n }

def lookStep (name : String) (acc : Option SelSet) (d : Definition) : Option SelSet :=
  match d with
  | .frag _ n _ _ s => if n.name == name then some s else acc
  | _ => acc

theorem fragSel_eq (defs : List Definition) (name : String) : fragSel defs name = defs.foldl (lookStep name) none := rfl

theorem lookup_chain (nm : Nat → String) (hinj : ∀ a b, nm a = nm b → a = b) :
    ∀ k i j acc,
      (j < i → (chainFrags nm i k).foldl (lookStep (nm j)) acc = acc) ∧
      (i ≤ j → j ≤ i + k → (chainFrags nm i k).foldl (lookStep (nm j)) acc = some (body nm (i + k) j)) := by
  intro k
  induction k with
  | zero =>
    intro i j acc
    constructor
    · intro hj
      have : (nm i == nm j) = false := by
        rw [beq_eq_false_iff_ne]; intro h; have := hinj _ _ h; omega
      simp [chainFrags, lookStep, fragDef, this]
    · intro h1 h2
      have : j = i := by omega
      subst this
      simp [chainFrags, lookStep, fragDef, body]
  | succ k ih =>
    intro i j acc
    constructor
    · intro hj
      have : (nm i == nm j) = false := by
        rw [beq_eq_false_iff_ne]; intro h; have := hinj _ _ h; omega
      simp only [chainFrags, List.foldl_cons, lookStep, fragDef, this]
      exact (ih (i + 1) j acc).1 (by omega)
    · intro h1 h2
      by_cases hji : j = i
      · subst hji
        simp only [chainFrags, List.foldl_cons, lookStep, fragDef, beq_self_eq_true, if_true]
        rw [(ih (j + 1) j _).1 (by omega)]
        simp [body]
      · have : (nm i == nm j) = false := by
          rw [beq_eq_false_iff_ne]; intro h; have := hinj _ _ h; omega
        simp only [chainFrags, List.foldl_cons, lookStep, fragDef, this]
        have := (ih (i + 1) j acc).2 (by omega) (by omega)
        rw [show i + 1 + k = i + (k + 1) by omega] at this
        exact this

theorem costVisits_chainDoc (nm : Nat → String) (hinj : ∀ a b, nm a = nm b → a = b) (n fuel : Nat) (hfuel : 4 * n + 7 ≤ fuel) :
    costVisits fuel (chainDoc nm n) = some { visits := 1 + T n, err := false } := by
  have hf : ∀ i, i ≤ n → fragSel (chainDoc nm n).defs (nm i) = some (body nm n i) := by
    intro i hi
    rw [fragSel_eq]
    simp only [chainDoc, List.foldl_cons, lookStep]
    have := (lookup_chain nm hinj n 0 i none).2 (by omega) (by omega)
    simpa using this
  obtain ⟨g, rfl⟩ : ∃ g, fuel = g + 4 := ⟨fuel - 4, by omega⟩
  have h0 := hf 0 (by omega)
  have hw := walk_chain (fragSel (chainDoc nm n).defs) nm hinj n hf n 0 (by omega) (g + 1) (by omega) [nm 0]
    (by intro a ha; exact ⟨0, Nat.le_refl _, by simpa using ha⟩) 1
  unfold costVisits
  have hs : soleOperation (chainDoc nm n).defs = some (.mk [spreadOf (nm 0)] p0 p0) := by
    have : ∀ k i, (chainFrags nm i k).filterMap opSel? = [] := by
      intro k
      induction k with
      | zero => intro i; rfl
      | succ k ih => intro i; simp only [chainFrags, List.filterMap_cons, fragDef, opSel?]; exact ih (i + 1)
    unfold soleOperation chainDoc
    simp only [List.filterMap_cons, opSel?]
    rw [this]
  rw [hs]
  simp only
  rw [show g + 4 = (g + 3) + 1 by omega, walkSet_succ]
  simp only [Bool.false_eq_true, if_false]
  rw [show g + 3 = (g + 2) + 1 by omega, walkSels_cons]
  unfold spreadOf
  rw [show g + 2 = (g + 1) + 1 by omega, walkSel_spread]
  simp only [List.contains_nil, Bool.false_eq_true, if_false, h0, Nat.zero_add]
  rw [hw]
  simp only
  rw [walkSels_nil]

/-- The fragment names used by the harness: `F0`, `F1`, … -/
def fname (i : Nat) : String := "F" ++ Nat.repr i

theorem fname_inj (a b : Nat) (h : fname a = fname b) : a = b := by
  unfold fname at h
  apply Nat.repr_injective
  have := congrArg String.toList h
  simp only [String.toList_append] at this
  exact String.toList_inj.mp (List.append_cancel_left this)


theorem fname_ne_on (i : Nat) : fname i ≠ "on" := by
  unfold fname
  intro h
  have := congrArg String.toList h
  simp [String.toList_append] at this

theorem stoks_len_chainFrags (nm : Nat → String) : ∀ k i, (stoksDefs (chainFrags nm i k)).length = 10 * k + 7 := by
  intro k
  induction k with
  | zero => intro i; rfl
  | succ k ih =>
    intro i
    have : stoksDefs (chainFrags nm i (k + 1)) = (fragDef (nm i) (dbl (nm (i + 1)))).stoks ++ stoksDefs (chainFrags nm (i + 1) k) := rfl
    rw [this, List.length_append, ih]
    have : (fragDef (nm i) (dbl (nm (i + 1)))).stoks.length = 10 := rfl
    omega

/-- The chain document has `10·n + 11` tokens. -/
theorem chainDoc_size (nm : Nat → String) (n : Nat) : (chainDoc nm n).stoks.length = 10 * n + 11 := by
  have : (chainDoc nm n).stoks = (Definition.op none none [] [] (.mk [spreadOf (nm 0)] p0 p0)).stoks ++ stoksDefs (chainFrags nm 0 n) := rfl
  rw [this, List.length_append, stoks_len_chainFrags]
  have : (Definition.op none none [] [] (.mk [spreadOf (nm 0)] p0 p0)).stoks.length = 4 := rfl
  omega

theorem wf_chainFrags (nm : Nat → String) (hon : ∀ i, nm i ≠ "on") : ∀ k i, wfDefs (chainFrags nm i k) = true := by
  intro k
  induction k with
  | zero =>
    intro i
    simp [chainFrags, wfDefs, wfDefinition, fragDef, wfDirs, leafSet, wfSelSet, wfSels, wfSelection, wfArgList, hon]
  | succ k ih =>
    intro i
    simp [chainFrags, wfDefs, wfDefinition, fragDef, wfDirs, dbl, spreadOf, wfSelSet, wfSels, wfSelection, hon, ih]

/-- The chain document is in the grammar. -/
theorem wf_chainDoc (nm : Nat → String) (hon : ∀ i, nm i ≠ "on") (n : Nat) : wfDocument (chainDoc nm n) = true := by
  simp [wfDocument, chainDoc, wfDefs, wfDefinition, wfSelSet, wfSels, wfSelection, spreadOf, wfDirs, hon, wf_chainFrags nm hon]

/-! ### Production depth: sibling lists contribute a maximum -/

theorem pdSels_append (a b : List Selection) : pdSels (a ++ b) = max (pdSels a) (pdSels b) := by
  induction a with
  | nil => simp [pdSels_nil]
  | cons s a ih => simp only [List.cons_append, pdSels_cons, ih]; omega

theorem pdValues_append (a b : List Value) : pdValues (a ++ b) = max (pdValues a) (pdValues b) := by
  induction a with
  | nil => simp [pdValues]
  | cons s a ih => simp only [List.cons_append, pdValues, ih]; omega

theorem pdArgList_append (a b : List Argument) : pdArgList (a ++ b) = max (pdArgList a) (pdArgList b) := by
  induction a with
  | nil => simp [pdArgList]
  | cons s a ih => simp only [List.cons_append, pdArgList, ih]; omega

theorem pdDirList_append (a b : List Directive) : pdDirList (a ++ b) = max (pdDirList a) (pdDirList b) := by
  induction a with
  | nil => simp [pdDirList]
  | cons s a ih => simp only [List.cons_append, pdDirList, ih]; omega

theorem pdVarDefList_append (a b : List VarDef) : pdVarDefList (a ++ b) = max (pdVarDefList a) (pdVarDefList b) := by
  induction a with
  | nil => simp [pdVarDefList]
  | cons s a ih => simp only [List.cons_append, pdVarDefList, ih]; omega

theorem pdDefs_append (a b : List Definition) : pdDefs (a ++ b) = max (pdDefs a) (pdDefs b) := by
  induction a with
  | nil => simp [pdDefs]
  | cons s a ih => simp only [List.cons_append, pdDefs, ih]; omega

theorem pdSels_le {k : Nat} : ∀ (sels : List Selection), (∀ s ∈ sels, pdSelection s ≤ k) → pdSels sels ≤ k
  | [], _ => by simp [pdSels_nil]
  | s :: ss, h => by
    rw [pdSels_cons]
    have h1 := h s (by simp)
    have h2 := pdSels_le ss (fun x hx => h x (by simp [hx]))
    omega

theorem pdDefs_le {k : Nat} : ∀ (ds : List Definition), (∀ d ∈ ds, pdDefinition d ≤ k) → pdDefs ds ≤ k
  | [], _ => by simp [pdDefs]
  | d :: ds, h => by
    simp only [pdDefs]
    have h1 := h d (by simp)
    have h2 := pdDefs_le ds (fun x hx => h x (by simp [hx]))
    omega


/-! ### The walk without fragment spreads (the provable part of the polynomial bound) -/

mutual
/-- Fields and fragment spreads in a selection (syntactic count, no fragment expansion). -/
def selCountSel : Selection → Nat
  | .field _ _ _ _ (some s) => 1 + selCountSet s
  | .field _ _ _ _ none => 1
  | .spread _ _ _ => 1
  | .inline _ _ _ s => selCountSet s
def selCountSet : SelSet → Nat
  | .mk sels _ _ => selCountSels sels
def selCountSels : List Selection → Nat
  | [] => 0
  | s :: ss => selCountSel s + selCountSels ss
end

mutual
/-- No fragment spread anywhere below. -/
def noSpreadSel : Selection → Bool
  | .field _ _ _ _ (some s) => noSpreadSet s
  | .field _ _ _ _ none => true
  | .spread _ _ _ => false
  | .inline _ _ _ s => noSpreadSet s
def noSpreadSet : SelSet → Bool
  | .mk sels _ _ => noSpreadSels sels
def noSpreadSels : List Selection → Bool
  | [] => true
  | s :: ss => noSpreadSel s && noSpreadSels ss
end

theorem walkSel_field (frags : String → Option SelSet) (f : Nat) (active : List String) (al : Option Name) (n : Name)
    (as : List Argument) (ds : List Directive) (sel : Option SelSet) (w : Walk) :
    walkSel frags (f + 1) active (.field al n as ds sel) w =
      (let w := { w with visits := w.visits + 1 }
       if w.err then some w
       else
         match sel with
         | some s => walkSet frags f active s w
         | none => some w) := rfl
theorem walkSel_inline (frags : String → Option SelSet) (f : Nat) (active : List String) (e : Pos) (tc : Option Name)
    (ds : List Directive) (s : SelSet) (w : Walk) :
    walkSel frags (f + 1) active (.inline e tc ds s) w = if w.err then some w else walkSet frags f active s w := rfl
theorem walkSet_zero (frags : String → Option SelSet) (active : List String) (s : SelSet) (w : Walk) :
    walkSet frags 0 active s w = none := by cases s; rfl
theorem walkSels_zero (frags : String → Option SelSet) (active : List String) (s : List Selection) (w : Walk) :
    walkSels frags 0 active s w = none := rfl
theorem walkSel_zero (frags : String → Option SelSet) (active : List String) (s : Selection) (w : Walk) :
    walkSel frags 0 active s w = none := by cases s <;> rfl

/-- Without fragment spreads the walk visits every selection exactly once (whenever its fuel suffices). -/
theorem walk_noSpread (frags : String → Option SelSet) (f : Nat) :
    (∀ active s v w', noSpreadSel s = true → walkSel frags f active s { visits := v, err := false } = some w' →
        w' = { visits := v + selCountSel s, err := false }) ∧
    (∀ active s v w', noSpreadSet s = true → walkSet frags f active s { visits := v, err := false } = some w' →
        w' = { visits := v + selCountSet s, err := false }) ∧
    (∀ active ss v w', noSpreadSels ss = true → walkSels frags f active ss { visits := v, err := false } = some w' →
        w' = { visits := v + selCountSels ss, err := false }) := by
  induction f with
  | zero =>
    refine ⟨?_, ?_, ?_⟩
    · intro active s v w' _ h; rw [walkSel_zero] at h; cases h
    · intro active s v w' _ h; rw [walkSet_zero] at h; cases h
    · intro active s v w' _ h; rw [walkSels_zero] at h; cases h
  | succ f ih =>
    obtain ⟨ihS, ihSet, ihSels⟩ := ih
    refine ⟨?_, ?_, ?_⟩
    · intro active s v w' hn h
      cases s with
      | field al n as ds sel =>
        rw [walkSel_field] at h
        cases sel with
        | none =>
          simp only [Bool.false_eq_true, if_false, Option.some.injEq] at h
          rw [← h]; rfl
        | some ss =>
          simp only [Bool.false_eq_true, if_false] at h
          have := ihSet active ss (v + 1) w' (by simpa [noSpreadSel] using hn) h
          rw [this]
          simp only [selCountSel, Walk.mk.injEq, and_true]
          omega
      | spread e n ds => simp [noSpreadSel] at hn
      | inline e tc ds ss =>
        rw [walkSel_inline] at h
        simp only [Bool.false_eq_true, if_false] at h
        have := ihSet active ss v w' (by simpa [noSpreadSel] using hn) h
        rw [this]; rfl
    · intro active s v w' hn h
      obtain ⟨sels, o, c⟩ := s
      rw [walkSet_succ] at h
      simp only [Bool.false_eq_true, if_false] at h
      exact ihSels active sels v w' (by simpa [noSpreadSet] using hn) h
    · intro active ss v w' hn h
      cases ss with
      | nil =>
        rw [walkSels_nil] at h
        simp only [Option.some.injEq] at h
        rw [← h]; rfl
      | cons s ss =>
        rw [walkSels_cons] at h
        simp only [noSpreadSels, Bool.and_eq_true] at hn
        cases h1 : walkSel frags f active s { visits := v, err := false } with
        | none => rw [h1] at h; cases h
        | some w1 =>
          rw [h1] at h
          have e1 := ihS active s v w1 hn.1 h1
          subst e1
          have e2 := ihSels active ss _ w' hn.2 h
          rw [e2]
          simp only [selCountSels, Walk.mk.injEq, and_true]
          omega

mutual
theorem selCountSel_le : ∀ s : Selection, selCountSel s ≤ s.stoks.length
  | .field none n as ds none => by
    rw [stoks_field_none]; simp [selCountSel, Name.stoks]
  | .field none n as ds (some ss) => by
    rw [stoks_field_none]
    have := selCountSet_le ss
    simp only [selCountSel, optSelStoks, List.length_append, Name.stoks, List.length_cons, List.length_nil]
    omega
  | .field (some a) n as ds none => by
    rw [stoks_field_some]; simp [selCountSel, Name.stoks]
  | .field (some a) n as ds (some ss) => by
    rw [stoks_field_some]
    have := selCountSet_le ss
    simp only [selCountSel, optSelStoks, List.length_append, Name.stoks, List.length_cons, List.length_nil]
    omega
  | .spread e n ds => by rw [stoks_spread]; simp [selCountSel]
  | .inline e none ds ss => by
    rw [stoks_inline_none]
    have := selCountSet_le ss
    simp only [selCountSel, List.length_cons, List.length_append]
    omega
  | .inline e (some n) ds ss => by
    rw [stoks_inline_some]
    have := selCountSet_le ss
    simp only [selCountSel, List.length_cons, List.length_append]
    omega
theorem selCountSet_le : ∀ s : SelSet, selCountSet s ≤ s.stoks.length
  | .mk sels o c => by
    rw [stoks_selSet]
    have := selCountSels_le sels
    simp only [selCountSet, List.length_cons, List.length_append]
    omega
theorem selCountSels_le : ∀ ss : List Selection, selCountSels ss ≤ (stoksSels ss).length
  | [] => by simp [selCountSels]
  | s :: ss => by
    rw [stoksSels_cons]
    have h1 := selCountSel_le s
    have h2 := selCountSels_le ss
    simp only [selCountSels, List.length_append]
    omega
end


theorem opSel_stoks_le {d : Definition} {s : SelSet} (h : opSel? d = some s) : s.stoks.length ≤ d.stoks.length := by
  cases d with
  | frag p n tc dirs sel => simp [opSel?] at h
  | op ot name vars dirs sel =>
    simp only [opSel?, Option.some.injEq] at h
    subst h
    cases ot with
    | none => rw [stoks_op_none]; exact Nat.le_refl _
    | some t =>
      rw [stoks_op_some]
      simp only [List.length_cons, List.length_append]
      omega

theorem stoks_mem_le {d : Definition} : ∀ {defs : List Definition}, d ∈ defs → d.stoks.length ≤ (stoksDefs defs).length
  | [], h => by cases h
  | x :: xs, h => by
    have e : stoksDefs (x :: xs) = x.stoks ++ stoksDefs xs := rfl
    rw [e, List.length_append]
    rcases List.mem_cons.mp h with rfl | h
    · omega
    · have := stoks_mem_le h
      omega

theorem soleOperation_mem {defs : List Definition} {s : SelSet} (h : soleOperation defs = some s) :
    ∃ d ∈ defs, opSel? d = some s := by
  unfold soleOperation at h
  have hm : s ∈ defs.filterMap opSel? := by
    cases hf : defs.filterMap opSel? with
    | nil => rw [hf] at h; cases h
    | cons a as =>
      rw [hf] at h
      cases as with
      | nil => simp only [Option.some.injEq] at h; subst h; simp
      | cons b bs => cases h
  obtain ⟨d, hd, hs⟩ := List.mem_filterMap.mp hm
  exact ⟨d, hd, hs⟩

end ApiFu.C12
