/-
  C12 — the collections of the variable rule are polynomially bounded (sizes, not only callback calls).
  Model: WalksUsage.lean (`usageWalk` = the walk of Walks.lean with a counter of collection operations).
-/
import ApiFu.C12.WalksUsage
import ApiFu.C12.PropsWalks

namespace ApiFu.C12
open ApiFu.C06

theorem varDefCount_le_docCalls : ∀ ds : List Definition, varDefCount ds ≤ docCalls ds
  | [] => by simp [varDefCount, docCalls]
  | .frag _ _ _ _ _ :: ds => by have := varDefCount_le_docCalls ds; simp only [varDefCount, docCalls]; omega
  | .op _ _ _ _ _ :: ds => by
    have := varDefCount_le_docCalls ds
    simp only [varDefCount, docCalls, callsOpDef]; omega

/-- **usage_collection_poly** — variable-usage collection across fragments, for every document `d` with
    `n` tokens: the walk with the collection counter is the walk of `variables_walk_poly` (same callback
    calls, same worklist entries), and the number of operations on — hence the total size of — all
    collections the rule builds (`variableDefinitions`, `encounteredVariables`, the two fragment-spread
    sets, the error list) is at most `3·(variable definitions) + callback calls + 2·worklist entries`
    `≤ 4·C + n·n·C + 2·n·n`, `C` the callback calls of one pass over all definitions. -/
theorem usage_collection_poly (d : Document) :
    ∃ tot ops, varsWalk d = some tot ∧ usageWalk d = some (tot, ops) ∧
      ops ≤ 3 * varDefCount d.defs + tot.nodes + 2 * tot.frags ∧
      ops ≤ 4 * docCalls d.defs + d.stoks.length * (d.stoks.length * docCalls d.defs) +
        2 * (d.stoks.length * d.stoks.length) := by
  obtain ⟨tot, ht, hf, hn⟩ := variables_walk_poly d
  have hfst := usageAll_fst (fragDefs d.defs) (varsFuel d) d.defs
  have hw : varsAll (fragDefs d.defs) (varsFuel d) d.defs = some tot := ht
  rw [hw] at hfst
  cases hu : usageAll (fragDefs d.defs) (varsFuel d) d.defs with
  | none => rw [hu] at hfst; simp at hfst
  | some r =>
    rw [hu] at hfst
    simp only [Option.map_some, Option.some.injEq] at hfst
    have hle := usageAll_le (fragDefs d.defs) (varsFuel d) d.defs r hu
    have hv := varDefCount_le_docCalls d.defs
    obtain ⟨rt, ro⟩ := r
    simp only at hfst hle
    subst hfst
    refine ⟨rt, ro, ht, hu, hle, ?_⟩
    omega

/-- **usage_collection_poly_tokens** — for a well-formed document with `n` tokens: at most
    `16n + 4n³ + 2n²` collection operations. -/
theorem usage_collection_poly_tokens (d : Document) (hwf : wfDocument d = true) :
    ∃ tot ops, usageWalk d = some (tot, ops) ∧
      ops ≤ 16 * d.stoks.length + d.stoks.length * (d.stoks.length * (4 * d.stoks.length)) +
        2 * (d.stoks.length * d.stoks.length) := by
  obtain ⟨tot, ops, _, hu, _, hb⟩ := usage_collection_poly d
  simp only [wfDocument, Bool.and_eq_true] at hwf
  have hC : docCalls d.defs ≤ 4 * d.stoks.length := docCalls_le d.defs hwf.2
  refine ⟨tot, ops, hu, Nat.le_trans hb ?_⟩
  have h1 : d.stoks.length * (d.stoks.length * docCalls d.defs) ≤
      d.stoks.length * (d.stoks.length * (4 * d.stoks.length)) :=
    Nat.mul_le_mul_left _ (Nat.mul_le_mul_left _ hC)
  omega

/-! ### Non-vacuity: a double-spread chain whose innermost fragment uses two variables -/

def up : Pos := ⟨0, 0⟩
def un (s : String) : Name := ⟨s, up⟩
def uSet (ss : List Selection) : SelSet := .mk ss up up
def uSpread (f : String) : Selection := .spread up (un f) []
/-- `f(x: $v, l: [$w, $v])` -/
def uLeaf : Selection :=
  .field none (un "f") [⟨un "x", .var ⟨up, un "v"⟩⟩, ⟨un "l", .list [.var ⟨up, un "w"⟩, .var ⟨up, un "v"⟩] up up⟩] [] none
/-- `query Q($v: Int, $w: Int) { ...F0 }  fragment F0 { ...F1 ...F1 }  fragment F1 { ...F2 ...F2 }  fragment F2 { f(…) }` -/
def uDoc : Document := ⟨[
  .op (some ⟨"query", up⟩) (some (un "Q")) [⟨⟨up, un "v"⟩, .named (un "Int"), none⟩, ⟨⟨up, un "w"⟩, .named (un "Int"), none⟩] []
    (uSet [uSpread "F0"]),
  .frag up (un "F0") (un "Query") [] (uSet [uSpread "F1", uSpread "F1"]),
  .frag up (un "F1") (un "Query") [] (uSet [uSpread "F2", uSpread "F2"]),
  .frag up (un "F2") (un "Query") [] (uSet [uLeaf])]⟩

/-- 57 tokens; 74 callback calls, 3 worklist entries, 25 collection operations: every fragment is
    walked once although F1 and F2 are each reached by two / four spread paths. -/
example : usageWalk uDoc = some ({ nodes := 74, frags := 3 }, 25) ∧ uDoc.stoks.length = 57 := by decide +kernel

end ApiFu.C12
