/-
  C12 — step-counting models of three walks of the validator, as written (graphql/validator):

  (a) the fragment cycle search of validateFragmentSpreads (validate_fragments.go: the `for name, def :=
      range fragmentsByName` loop with `toVisit` / `encountered` / `cycleFound`),
  (b) the variable-usage walk of validateVariables (validate_variables.go: `validate` = one ast.Inspect
      per operation and per fragment reached, driven by the `unvalidatedFragmentSpreads` worklist),
  (c) the overlapping-fields check of validateFields (validate_fields.go after bb4db4d):
      addFieldSelections, validateFieldsInSetCanMerge and validateSameResponseShape with the two memos
      — in WalksFields.lean.

  Every counted site is a loop head that carries a `verifCount(site)` line in the Go code (hook patch
  repo-patches/C12/03): the model's counters are compared with `validator.VerifCounters`.

  Go iterates maps in random order. The models take the *document order* where Go takes a map order; the
  counts of (b) do not depend on the order; the counts of (a) depend on it only for a fragment that lies
  on a cycle (the inner loop `break`s when it meets the start again) — the bound theorems of
  PropsWalks.lean therefore quantify over an arbitrary dependency order (`deps` is a parameter of
  `cycleFrom`), and the tie compares for equality where the count is order-independent.

  CORE LEAN ONLY.
-/
import ApiFu.C12.Model

namespace ApiFu.C12
open ApiFu.C06

/-! ### Fragment tables -/

/-- The fragment definitions of a document, in document order: (name, selection set, directives). -/
def fragDefs : List Definition → List (String × SelSet × List Directive)
  | [] => []
  | .frag _ n _ dirs s :: ds => (n.name, s, dirs) :: fragDefs ds
  | .op _ _ _ _ _ :: ds => fragDefs ds

/-- `fragmentsByName[name]` / `fragmentDefinitions[name]`: the last definition of that name. -/
def lookupFrag (fs : List (String × SelSet × List Directive)) (name : String) : Option (SelSet × List Directive) :=
  match fs.reverse.find? (fun p => p.1 == name) with
  | some p => some p.2
  | none => none

/-- Keep the first occurrence of every string (the keys of a Go map filled in this order). -/
def dedup : List String → List String
  | [] => []
  | x :: xs => x :: (dedup xs).filter (fun y => y != x)

mutual
/-- Names of the fragment spreads below a selection, in `ast.Inspect` order, with repetitions. -/
def spreadsSel : Selection → List String
  | .field _ _ _ _ (some s) => spreadsSet s
  | .field _ _ _ _ none => []
  | .spread _ n _ => [n.name]
  | .inline _ _ _ s => spreadsSet s
def spreadsSet : SelSet → List String
  | .mk sels _ _ => spreadsSels sels
def spreadsSels : List Selection → List String
  | [] => []
  | s :: ss => spreadsSel s ++ spreadsSels ss
end

/-! ### (a) The cycle search -/

/-- State of one search: the not yet processed tail of `toVisit`, `encountered`, `cycleFound`, and the two
    counters (site cycle.outer, site cycle.inner). -/
structure CycleSt where
  pending : List String
  encountered : List String
  found : Bool
  outer : Nat
  inner : Nat
  deriving Repr, DecidableEq, Inhabited

/-- The inner loop `for dep := range directFragmentDependencies[toVisit[i]]` over the dependencies in
    the given order; `break` when the start is met. With `brk = false` the loops run on after the start
    was met: that run visits every fragment reachable from the start once, whatever the order, and
    therefore does at least the work of every run with the `break` (used as the order-independent upper
    count for fragments that lie on a cycle). -/
def cycleInner (brk : Bool) (name : String) : List String → CycleSt → CycleSt
  | [], st => st
  | dep :: rest, st =>
    let st := { st with inner := st.inner + 1 }
    if st.encountered.contains dep then cycleInner brk name rest st
    else if dep == name then
      if brk then { st with found := true } else cycleInner brk name rest { st with found := true }
    else cycleInner brk name rest { st with pending := st.pending ++ [dep], encountered := dep :: st.encountered }

/-- The outer loop `for i := 0; i < len(toVisit) && !cycleFound; i++`. `none` = model fuel exhausted. -/
def cycleOuter (brk : Bool) (deps : String → List String) (name : String) : Nat → CycleSt → Option CycleSt
  | 0, _ => none
  | f + 1, st =>
    match st.pending with
    | [] => some st
    | v :: rest =>
      if brk && st.found then some st
      else cycleOuter brk deps name f (cycleInner brk name (deps v) { st with pending := rest, outer := st.outer + 1 })

/-- The search started from one fragment name. -/
def cycleFrom (brk : Bool) (deps : String → List String) (name : String) (fuel : Nat) : Option CycleSt :=
  cycleOuter brk deps name fuel { pending := [name], encountered := [], found := false, outer := 0, inner := 0 }

/-- `directFragmentDependencies[name]` in document order: the distinct spread names of the last
    definition of `name` (nothing for an undefined name). -/
def depsOf (fs : List (String × SelSet × List Directive)) (name : String) : List String :=
  match lookupFrag fs name with
  | some (s, _) => dedup (spreadsSet s)
  | none => []

/-- Totals over `for name := range fragmentsByName`. -/
structure CycleTotals where
  outer : Nat
  inner : Nat
  cycles : Nat          -- fragments reported as "fragment cycle detected"
  deriving Repr, DecidableEq, Inhabited

def cycleAll (brk : Bool) (deps : String → List String) (fuel : Nat) : List String → Option CycleTotals
  | [] => some { outer := 0, inner := 0, cycles := 0 }
  | n :: ns =>
    match cycleFrom brk deps n fuel, cycleAll brk deps fuel ns with
    | some st, some t =>
      some { outer := st.outer + t.outer, inner := st.inner + t.inner, cycles := t.cycles + (if st.found then 1 else 0) }
    | _, _ => none

/-- Fuel that always suffices (PropsWalks: `cycle_fuel_sufficient`): every spread name enters `toVisit` once. -/
def cycleFuel (fs : List (String × SelSet × List Directive)) : Nat :=
  ((fs.map (fun p => (spreadsSet p.2.1).length)).sum) + 2

def cycleSearch (brk : Bool) (d : Document) : Option CycleTotals :=
  let fs := fragDefs d.defs
  cycleAll brk (depsOf fs) (cycleFuel fs) (dedup (fs.map (·.1)))

/-! ### (b) The variable walk -/

/-! Calls of the `ast.Inspect` callback of `validate` (site vars.node): one call per visited node, one
    `f(nil)` after the children of every node the callback returned true for; the callback returns false
    exactly for a VariableDefinition. Nil children (no alias, no selection set, …) are not called. -/

def callsName : Nat := 2

mutual
def callsValue : Value → Nat
  | .var _ => 2 + callsName
  | .list vs _ _ => 2 + callsValues vs
  | .obj fs _ _ => 2 + callsFields fs
  | _ => 2
def callsValues : List Value → Nat
  | [] => 0
  | v :: vs => callsValue v + callsValues vs
def callsFields : List (Name × Value) → Nat
  | [] => 0
  | (_, v) :: fs => (2 + callsName + callsValue v) + callsFields fs
end

def callsArgs : List Argument → Nat
  | [] => 0
  | a :: as => (2 + callsName + callsValue a.value) + callsArgs as

def callsDirs : List Directive → Nat
  | [] => 0
  | d :: ds => (2 + callsName + callsArgs d.args) + callsDirs ds

mutual
def callsSel : Selection → Nat
  | .field al _ args dirs sel =>
    2 + (match al with
         | some _ => callsName
         | none => 0) + callsName + callsArgs args + callsDirs dirs +
      (match sel with
       | some s => callsSet s
       | none => 0)
  | .spread _ _ dirs => 2 + callsName + callsDirs dirs
  | .inline _ tc dirs s =>
    2 + (match tc with
         | some _ => 2 + callsName
         | none => 0) + callsDirs dirs + callsSet s
def callsSet : SelSet → Nat
  | .mk sels _ _ => 2 + callsSels sels
def callsSels : List Selection → Nat
  | [] => 0
  | s :: ss => callsSel s + callsSels ss
end

/-- `validate(def)` on a fragment definition (the type condition is not inspected). -/
def callsFragDef (s : SelSet) (dirs : List Directive) : Nat := 2 + callsName + callsDirs dirs + callsSet s

/-- `validate(def)` on an operation definition: one call per variable definition, no descent. -/
def callsOpDef (t : Option OpType) (name : Option Name) (vars : List VarDef) (dirs : List Directive) (s : SelSet) : Nat :=
  2 + (match t with
       | some _ => 2
       | none => 0) + (match name with
                       | some _ => callsName
                       | none => 0) + vars.length + callsDirs dirs + callsSet s

/-- State of the walk for one operation: the worklist `unvalidatedFragmentSpreads` (distinct, in
    insertion order), `validatedFragmentSpreads`, the counters (site vars.node, site vars.fragment). -/
structure VarsSt where
  unvalidated : List String
  validated : List String
  nodes : Nat
  frags : Nat
  deriving Repr, DecidableEq, Inhabited

/-- The `case *ast.FragmentSpread` of the callback, for the spreads met in one `validate`. -/
def noteSpreads : List String → VarsSt → VarsSt
  | [], st => st
  | n :: ns, st =>
    if st.validated.contains n || st.unvalidated.contains n then noteSpreads ns st
    else noteSpreads ns { st with unvalidated := st.unvalidated ++ [n] }

/-- `for len(unvalidatedFragmentSpreads) > 0 { for name := range … }`: names are taken one at a time. -/
def varsLoop (fs : List (String × SelSet × List Directive)) : Nat → VarsSt → Option VarsSt
  | 0, _ => none
  | f + 1, st =>
    match st.unvalidated with
    | [] => some st
    | n :: rest =>
      let st := { st with unvalidated := rest, validated := n :: st.validated, frags := st.frags + 1 }
      match lookupFrag fs n with
      | some (s, dirs) =>
        varsLoop fs f (noteSpreads (spreadsSet s) { st with nodes := st.nodes + callsFragDef s dirs })
      | none => varsLoop fs f st

/-- One operation. -/
def varsOp (fs : List (String × SelSet × List Directive)) (fuel : Nat)
    (t : Option OpType) (name : Option Name) (vars : List VarDef) (dirs : List Directive) (s : SelSet) : Option VarsSt :=
  varsLoop fs fuel (noteSpreads (spreadsSet s)
    { unvalidated := [], validated := [], nodes := callsOpDef t name vars dirs s, frags := 0 })

structure VarsTotals where
  nodes : Nat
  frags : Nat
  deriving Repr, DecidableEq, Inhabited

def varsAll (fs : List (String × SelSet × List Directive)) (fuel : Nat) : List Definition → Option VarsTotals
  | [] => some { nodes := 0, frags := 0 }
  | .frag _ _ _ _ _ :: ds => varsAll fs fuel ds
  | .op t name vars dirs s :: ds =>
    match varsOp fs fuel t name vars dirs s, varsAll fs fuel ds with
    | some st, some tot => some { nodes := st.nodes + tot.nodes, frags := st.frags + tot.frags }
    | _, _ => none

mutual
def spreadCountSel : Selection → Nat
  | .field _ _ _ _ (some s) => spreadCountSet s
  | .field _ _ _ _ none => 0
  | .spread _ _ _ => 1
  | .inline _ _ _ s => spreadCountSet s
def spreadCountSet : SelSet → Nat
  | .mk sels _ _ => spreadCountSels sels
def spreadCountSels : List Selection → Nat
  | [] => 0
  | s :: ss => spreadCountSel s + spreadCountSels ss
end

/-- Number of fragment spreads in the whole document. -/
def spreadCountDefs : List Definition → Nat
  | [] => 0
  | .frag _ _ _ _ s :: ds => spreadCountSet s + spreadCountDefs ds
  | .op _ _ _ _ s :: ds => spreadCountSet s + spreadCountDefs ds

/-- Fuel that always suffices: every spread name is taken from the worklist at most once. -/
def varsFuel (d : Document) : Nat := spreadCountDefs d.defs + 1

def varsWalk (d : Document) : Option VarsTotals :=
  varsAll (fragDefs d.defs) (varsFuel d) d.defs

end ApiFu.C12
