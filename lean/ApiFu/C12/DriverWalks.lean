/-
  C12 driver, walk models: request
    (walks <maxRec> (eof L C err…) tok…)
  reply
    (fields <sets> <collect> <canMergePair> <sameShape> <sameShapePair> <errors>) | none       for
    (fields <maxRec> (finfo (L C l|c)…) (sinfo (L C <TypeName>)…) (eof L C err…) tok…)
  and
    (walks (cycle <outer> <inner> <cycles> <outerMax> <innerMax>) (vars <nodes> <frags>)) | none
  (<outerMax>/<innerMax>: the run without the `break`, an order-independent upper count)
  (`none`: the parser model does not return a document, or a walk model ran out of fuel).
-/
import ApiFu.Common.Sexp
import ApiFu.C06.Driver
import ApiFu.C12.Walks
import ApiFu.C12.WalksFields
import ApiFu.C12.WalksSubscription

open ApiFu ApiFu.C06 ApiFu.C12

namespace ApiFu.C12.DriverWalks
open ApiFu.C06.Driver

def walksReply (d : Document) : String :=
  match cycleSearch true d, cycleSearch false d, varsWalk d with
  | some c, some cmax, some v =>
    toString (Sexp.node "walks"
      [Sexp.node "cycle" [Sexp.ofNat c.outer, Sexp.ofNat c.inner, Sexp.ofNat c.cycles, Sexp.ofNat cmax.outer, Sexp.ofNat cmax.inner],
       Sexp.node "vars" [Sexp.ofNat v.nodes, Sexp.ofNat v.frags]])
  | _, _, _ => "none"

/-- `(L C k)` rows: field position → leaf (`l`) / composite (`c`); `(L C T)` rows: selection set → type name. -/
def posRow? : Sexp → Option (Pos × String)
  | Sexp.list [l, c, Sexp.atom k] => do
    let l ← l.nat?
    let c ← c.nat?
    pure (⟨l, c⟩, k)
  | _ => none

def lookupPos (t : List (Pos × String)) (p : Pos) : Option String :=
  (t.find? (fun r => r.1 == p)).map (·.2)

/-- The oracles of the harness's schemas (object types only): leaf against leaf needs no descent, two
    composite fields are compared below; fields merge when their parent types are the same type. -/
def oraclesOf (finfo sinfo : List (Pos × String)) : Oracles :=
  { shape := fun a b =>
      match lookupPos finfo a, lookupPos finfo b with
      | some ka, some kb => if ka == "l" || kb == "l" then .leaf else .comp
      | _, _ => .err
    merge := fun _ _ pa pb =>
      match lookupPos sinfo pa, lookupPos sinfo pb with
      | some ta, some tb => if ta == tb then .recurse else .skip
      | _, _ => .err }

def fieldsReply (O : Oracles) (d : Document) : String :=
  -- site fields.collect is reached by the overlapping-fields check and by the subscription rule
  match fieldsCheck O d, subscriptionCollect d with
  | some t, some sub =>
    toString (Sexp.node "fields" [Sexp.ofNat t.sets, Sexp.ofNat (t.collect + sub), Sexp.ofNat t.canMergePair,
      Sexp.ofNat t.sameShape, Sexp.ofNat t.sameShapePair, Sexp.ofNat t.errors])
  | _, _ => "none"

def handle? (line : String) : Option String :=
  match Sexp.parse line with
  | some (Sexp.list (Sexp.atom "fields" :: m :: Sexp.list (Sexp.atom "finfo" :: fi) :: Sexp.list (Sexp.atom "sinfo" :: si) :: eof :: toks)) =>
    match m.nat?, fi.mapM posRow?, si.mapM posRow?, input? eof toks with
    | some maxRec, some finfo, some sinfo, some inp =>
      match ParseDocument maxRec inp with
      | .returned d _ => some (fieldsReply (oraclesOf finfo sinfo) d)
      | _ => some "none"
    | _, _, _, _ => some "bad-op"
  | some (Sexp.list (Sexp.atom "walks" :: m :: eof :: toks)) =>
    match m.nat?, input? eof toks with
    | some maxRec, some inp =>
      match ParseDocument maxRec inp with
      | .returned d _ => some (walksReply d)
      | _ => some "none"
    | _, _ => some "bad-op"
  | _ => none

end ApiFu.C12.DriverWalks
