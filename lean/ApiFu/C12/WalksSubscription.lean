/-
  C12 — (d) the subscription rule of validateOperations (validate_operations.go: "subscriptions may only
  have one root field"): one more `addFieldSelections` call on the root selection set of every operation
  whose type is `subscription` — the same collection as in the overlapping-fields check (`collect` of
  WalksFields.lean, a fresh `visited` per call), counted at the same site fields.collect.

  New file. CORE LEAN ONLY.
-/
import ApiFu.C12.WalksFieldsLemmas

namespace ApiFu.C12
open ApiFu.C06

/-- Steps (site fields.collect) of the subscription rule over the definitions. `none` = model fuel exhausted. -/
def subsCollect (T : List (Pos × List Item)) (ftop : String → Option Pos) : List Definition → Option Nat
  | [] => some 0
  | .op (some t) _ _ _ s :: ds =>
    if t.value == "subscription" then
      match collect T ftop (some (setOpening s)) [], subsCollect T ftop ds with
      | some r, some m => some (r.2.1 + m)
      | _, _ => none
    else subsCollect T ftop ds
  | .op none _ _ _ _ :: ds => subsCollect T ftop ds
  | .frag _ _ _ _ _ :: ds => subsCollect T ftop ds

def subscriptionCollect (d : Document) : Option Nat :=
  subsCollect (setTable d.defs) (fragTop (fragDefs d.defs)) d.defs

theorem subsCollect_bound (T : List (Pos × List Item)) (ftop : String → Option Pos) :
    ∀ ds : List Definition, ∃ n, subsCollect T ftop ds = some n ∧ n ≤ opCount ds * colFuel T
  | [] => ⟨0, rfl, Nat.zero_le _⟩
  | .frag _ _ _ _ _ :: ds => by
    obtain ⟨n, h, hn⟩ := subsCollect_bound T ftop ds
    exact ⟨n, by simp only [subsCollect, h], by simpa [opCount] using hn⟩
  | .op none _ _ _ _ :: ds => by
    obtain ⟨n, h, hn⟩ := subsCollect_bound T ftop ds
    refine ⟨n, by simp only [subsCollect, h], ?_⟩
    simp only [opCount]
    rw [Nat.add_mul]; omega
  | .op (some t) _ _ _ s :: ds => by
    obtain ⟨n, h, hn⟩ := subsCollect_bound T ftop ds
    simp only [subsCollect, opCount]
    rw [Nat.add_mul, Nat.one_mul]
    by_cases ht : (t.value == "subscription") = true
    · obtain ⟨l, k, e, hc, _, hk, _⟩ := collect_spec T ftop (some (setOpening s)) [] (by simp)
      refine ⟨k + n, by simp only [ht, if_true, hc, h], by omega⟩
    · refine ⟨n, by simp only [ht, h]; rfl, by omega⟩

end ApiFu.C12
