/-
  C12 — executable models.

  (1) The parser's recursion counter is part of the C06 parser model (`ApiFu.C06.Model`, imported):
      `enter`/`exit` at the points where parser.go has them; `Env.leak = true` is the code before the
      F-12a fix. The depth theorems of C12 are about that model.

  (2) The cost walk of `validator.ValidateCost` (graphql/validator/validate_cost.go:51-60,80-141) as a
      *step counter*: which fields and fragment spreads the walk visits, in which order it expands
      fragment definitions, when it stops descending. What is modelled:
        * the choice of the operation (`operationName == ""`: the only operation, none if there are several),
        * `fragmentsByName` (a later definition of the same name replaces an earlier one),
        * `ast.Inspect` order over selections; a field or spread counts one visit
          (= the `verif` hook counter `validator.VerifCostVisits`),
        * a fragment spread expands the fragment's definition *every time it is visited* unless the
          name is in the set of fragments being expanded (then "fragment cycle detected"); an unknown
          name is "undefined fragment",
        * after the first error nothing is descended into any more (`len(ret) > 0 → return false`), but
          sibling spreads are still expanded one level (the check comes after the `switch`).
      What is a hypothesis of the tie (checked by the harness before comparing): every field has a field
      definition and coercible arguments, and variable coercion succeeded (otherwise the walk reports a
      secondary error at the first field) — true for the generated valid documents.
      Costs, multipliers and contexts are not modelled (property C14).

  CORE LEAN ONLY.
-/
import ApiFu.C06.Model

namespace ApiFu.C12
open ApiFu.C06

/-- `fragmentsByName[name]`: the last fragment definition with that name. -/
def fragSel (defs : List Definition) (name : String) : Option SelSet :=
  defs.foldl (fun acc d =>
    match d with
    | .frag _ n _ _ s => if n.name == name then some s else acc
    | _ => acc) none

/-- The selection set of an operation definition. -/
def opSel? : Definition → Option SelSet
  | .op _ _ _ _ s => some s
  | _ => none

/-- The operation `ValidateCost("", …)` walks: the only one; `none` when there are none or several. -/
def soleOperation (defs : List Definition) : Option SelSet :=
  match defs.filterMap opSel? with
  | [s] => some s
  | _ => none

/-- State of the walk: visits so far, and whether an error has been reported (`len(ret) > 0`). -/
structure Walk where
  visits : Nat
  err : Bool
  deriving Repr, DecidableEq, Inhabited

mutual
/-- One selection: the `ast.Inspect` callback on it and, unless stopped, its children.
    `active` = the `fragments` set; `none` = model fuel exhausted. -/
def walkSel (frags : String → Option SelSet) : Nat → List String → Selection → Walk → Option Walk
  | 0, _, _, _ => none
  | f + 1, active, .field _ _ _ _ sel, w =>
    let w := { w with visits := w.visits + 1 }
    if w.err then some w
    else
      match sel with
      | some s => walkSet frags f active s w
      | none => some w
  | f + 1, active, .spread _ n _, w =>
    let w := { w with visits := w.visits + 1 }
    if active.contains n.name then some { w with err := true }
    else
      match frags n.name with
      | some s =>
        -- visitNode(def): the callback on the definition itself, then (unless stopped) its selection set
        if w.err then some w else walkSet frags f (n.name :: active) s w
      | none => some { w with err := true }
  | f + 1, active, .inline _ _ _ s, w =>
    if w.err then some w else walkSet frags f active s w
/-- A selection set: the callback on the set, then its selections in order. -/
def walkSet (frags : String → Option SelSet) : Nat → List String → SelSet → Walk → Option Walk
  | 0, _, _, _ => none
  | f + 1, active, .mk sels _ _, w => if w.err then some w else walkSels frags f active sels w
def walkSels (frags : String → Option SelSet) : Nat → List String → List Selection → Walk → Option Walk
  | 0, _, _, _ => none
  | _ + 1, _, [], w => some w
  | f + 1, active, s :: ss, w =>
    match walkSel frags f active s w with
    | some w' => walkSels frags f active ss w'
    | none => none
end

/-- Visits of the cost walk over a document (`none`: no sole operation, or fuel exhausted). -/
def costVisits (fuel : Nat) (d : Document) : Option Walk :=
  match soleOperation d.defs with
  | some s => walkSet (fragSel d.defs) fuel [] s { visits := 0, err := false }
  | none => none

end ApiFu.C12
