/-
  C12 — step-counting models of the per-value and per-node validator rules that had no Lean model:

  (c) literal coercion, `validateCoercion` (graphql/validator/validate_values.go 29-101), called by
      `validateValues` once per outermost value that has an expected type: a step is one invocation of
      `validateCoercion` or one iteration of one of its loops (`for … range fromList.Values`,
      `for … range from.Fields`, `for name, field := range to.Fields`). Map lookups (`fieldsByName`,
      `to.Fields[name]`) are part of the iteration that makes them. The early exits are modelled as
      written (`if err := … ; err != nil { return err }` in the item loop and in the field loop).
      Scalar / enum literal coercion (`to.LiteralCoercion`, `to.CoerceLiteral`: code of the schema) is one
      step whose verdict is an oracle `leafErr`, universally quantified in the theorems.
  (b) the argument rule and the directive rule, per node (validate_arguments.go 33-58,
      validate_directives.go 38-66): loops over the node's arguments, over the definition's arguments,
      over the node's directives and, per directive, over the definition's locations.
  (a') the size of every collection the variable rule builds for one operation
      (validate_variables.go 17-86: `variableDefinitions`, `encounteredVariables`,
      `unvalidatedFragmentSpreads`, `validatedFragmentSpreads`, and the error list): counted as insert /
      append operations, each of which happens inside one callback call or one worklist step of the walk
      modelled in Walks.lean (`varsOp`).

  Schema side: input-object types are a table `Env.inputs` (id ↦ field definitions, a Go map: at most one
  definition per name is found); a type is a tree of List / NonNull wrappers over a named type.
  CORE LEAN ONLY.
-/
import ApiFu.C12.Walks

namespace ApiFu.C12
open ApiFu.C06

/-! ### Types and the input-object table -/

inductive Ty where
  | scalar
  | enum
  | obj (id : Nat)
  | other                 -- object / interface / union: not an input type
  | list (t : Ty)
  | nonNull (t : Ty)
  deriving Repr, DecidableEq, Inhabited

/-- Number of List / NonNull wrappers. -/
def Ty.wrap : Ty → Nat
  | .list t => t.wrap + 1
  | .nonNull t => t.wrap + 1
  | _ => 0

def Ty.isNonNull : Ty → Bool
  | .nonNull _ => true
  | _ => false

structure FieldDef where
  name : String
  type : Ty
  hasDefault : Bool
  deriving Repr, Inhabited

structure Env where
  inputs : List (List FieldDef)
  /-- verdict of `to.LiteralCoercion(from) == nil` / `to.CoerceLiteral(from)` / "not coercible at all" -/
  leafErr : Value → Ty → Bool

def Env.fields (E : Env) (id : Nat) : List FieldDef := E.inputs.getD id []

def maxOf {α : Type} (f : α → Nat) : List α → Nat
  | [] => 0
  | x :: xs => max (f x) (maxOf f xs)

theorem le_maxOf {α : Type} (f : α → Nat) : ∀ {xs : List α} {x : α}, x ∈ xs → f x ≤ maxOf f xs
  | y :: ys, x, h => by
    simp only [List.mem_cons] at h
    simp only [maxOf]
    rcases h with h | h
    · subst h; omega
    · have := le_maxOf f h; omega

/-- Largest number of fields of an input-object type. -/
def Env.width (E : Env) : Nat := maxOf List.length E.inputs

/-- Deepest List / NonNull wrapping of a field of an input-object type. -/
def Env.depth (E : Env) : Nat := maxOf (maxOf fun fd => fd.type.wrap) E.inputs

theorem Env.fields_length_le (E : Env) (id : Nat) : (E.fields id).length ≤ E.width := by
  unfold Env.fields Env.width
  by_cases h : id < E.inputs.length
  · have hm : E.inputs.getD id [] ∈ E.inputs := by
      rw [List.getD_eq_getElem?_getD, List.getElem?_eq_getElem h]; simp
    exact le_maxOf List.length hm
  · rw [List.getD_eq_getElem?_getD, List.getElem?_eq_none (by omega)]; simp

theorem Env.fields_wrap_le (E : Env) (id : Nat) : ∀ fd ∈ E.fields id, fd.type.wrap ≤ E.depth := by
  intro fd hfd
  unfold Env.fields at hfd
  unfold Env.depth
  by_cases h : id < E.inputs.length
  · have hm : E.inputs.getD id [] ∈ E.inputs := by
      rw [List.getD_eq_getElem?_getD, List.getElem?_eq_getElem h]; simp
    have h1 := le_maxOf (fun fd : FieldDef => fd.type.wrap) hfd
    have h2 := le_maxOf (maxOf fun fd : FieldDef => fd.type.wrap) hm
    omega
  · rw [List.getD_eq_getElem?_getD, List.getElem?_eq_none (by omega)] at hfd; simp at hfd

/-! ### (c) `validateCoercion` -/

/-- Result of following `case *schema.NonNullType` (and, for a literal that is not a list,
    `case *schema.ListType` with `allowItemToListCoercion`): the invocations it took, the type at which the
    chain stops, and whether it stopped at a list type it may not enter. -/
structure Peel where
  steps : Nat
  ty : Ty
  stuck : Bool

def peel (isList : Bool) : Ty → Bool → Peel
  | .nonNull t, allow => let r := peel isList t allow; { r with steps := r.steps + 1 }
  | .list t, allow =>
    if isList then ⟨0, .list t, false⟩
    else if allow then let r := peel isList t true; { r with steps := r.steps + 1 }
    else ⟨0, .list t, true⟩
  | t, _ => ⟨0, t, false⟩

theorem peel_le (b : Bool) : ∀ (t : Ty) (a : Bool), (peel b t a).steps + (peel b t a).ty.wrap ≤ t.wrap
  | .nonNull t, a => by have := peel_le b t a; simp only [peel, Ty.wrap]; omega
  | .list t, a => by
    simp only [peel]
    split
    · simp [Ty.wrap]
    · split
      · have := peel_le b t true; simp only [Ty.wrap]; omega
      · simp [Ty.wrap]
  | .scalar, _ => by simp [peel, Ty.wrap]
  | .enum, _ => by simp [peel, Ty.wrap]
  | .obj _, _ => by simp [peel, Ty.wrap]
  | .other, _ => by simp [peel, Ty.wrap]

/-- Result of the `for _, field := range from.Fields` loop. -/
structure FieldsRes where
  steps : Nat
  aborted : Bool          -- left through `return err`
  err : Bool              -- an error was appended to `ret`
  seen : List String      -- keys of `fieldsByName`

def missing (fds : List FieldDef) (seen : List String) : Bool :=
  fds.any fun fd => fd.type.isNonNull && !fd.hasDefault && !seen.contains fd.name

mutual
/-- `validateCoercion(from, to, allowItemToListCoercion)`: (steps, `len(result) > 0`). -/
def coerce (E : Env) : Value → Ty → Bool → Nat × Bool
  | .var _, _, _ => (1, false)
  | .null _, t, _ => (1, t.isNonNull)
  | .list vs o c, t, allow =>
    let p := peel true t allow
    match p.ty with
    | .list e => let r := coerceItems E vs e; (1 + p.steps + r.1, r.2)
    | ty => (1 + p.steps, p.stuck || E.leafErr (.list vs o c) ty)
  | .obj fs o c, t, allow =>
    let p := peel false t allow
    match p.ty, p.stuck with
    | .obj id, false =>
      let r := coerceFields E fs (E.fields id) []
      if r.aborted then (1 + p.steps + r.steps, true)
      else (1 + p.steps + r.steps + (E.fields id).length, r.err || missing (E.fields id) r.seen)
    | ty, st => (1 + p.steps, st || E.leafErr (.obj fs o c) ty)
  | .int s q, t, allow => let p := peel false t allow; (1 + p.steps, p.stuck || E.leafErr (.int s q) p.ty)
  | .float s q, t, allow => let p := peel false t allow; (1 + p.steps, p.stuck || E.leafErr (.float s q) p.ty)
  | .str s q, t, allow => let p := peel false t allow; (1 + p.steps, p.stuck || E.leafErr (.str s q) p.ty)
  | .bool b q, t, allow => let p := peel false t allow; (1 + p.steps, p.stuck || E.leafErr (.bool b q) p.ty)
  | .enum s q, t, allow => let p := peel false t allow; (1 + p.steps, p.stuck || E.leafErr (.enum s q) p.ty)
/-- `for _, value := range fromList.Values { if err := validateCoercion(value, to.Type, false); err != nil { return err } }` -/
def coerceItems (E : Env) : List Value → Ty → Nat × Bool
  | [], _ => (0, false)
  | v :: vs, e =>
    let r := coerce E v e false
    if r.2 then (1 + r.1, true)
    else let k := coerceItems E vs e; (1 + r.1 + k.1, k.2)
/-- `for _, field := range from.Fields { … }` -/
def coerceFields (E : Env) : List (Name × Value) → List FieldDef → List String → FieldsRes
  | [], _, seen => ⟨0, false, false, seen⟩
  | (n, v) :: fs, fds, seen =>
    let dup := seen.contains n.name
    match fds.find? (fun fd => fd.name == n.name) with
    | some fd =>
      let r := coerce E v fd.type true
      if r.2 then ⟨1 + r.1, true, true, n.name :: seen⟩
      else
        let k := coerceFields E fs fds (n.name :: seen)
        ⟨1 + r.1 + k.steps, k.aborted, dup || k.err, k.seen⟩
    | none =>
      let k := coerceFields E fs fds (n.name :: seen)
      ⟨1 + k.steps, k.aborted, true, k.seen⟩
end

/-! Sizes of a literal: nodes, an object field counting as one node plus its value. -/
mutual
def vsize : Value → Nat
  | .list vs _ _ => 1 + vsizes vs
  | .obj fs _ _ => 1 + fsizes fs
  | _ => 1
def vsizes : List Value → Nat
  | [] => 0
  | v :: vs => vsize v + vsizes vs
def fsizes : List (Name × Value) → Nat
  | [] => 0
  | (_, v) :: fs => (1 + vsize v) + fsizes fs
end

/-- The per-node factor of the coercion bound: wrapper depth of the expected type (or of the deepest
    input-object field type), plus the widest input object, plus 2. -/
def coerceFactor (E : Env) (t : Ty) : Nat := max t.wrap E.depth + E.width + 2

theorem coerceFactor_mono (E : Env) {t t' : Ty} (h : t'.wrap ≤ t.wrap) : coerceFactor E t' ≤ coerceFactor E t := by
  unfold coerceFactor; omega

theorem coerceFactor_field (E : Env) {t t' : Ty} (h : t'.wrap ≤ E.depth) : coerceFactor E t' ≤ coerceFactor E t := by
  unfold coerceFactor; omega

theorem leaf_le (E : Env) (b : Bool) (t : Ty) (a : Bool) : 1 + (peel b t a).steps + 1 ≤ 1 * coerceFactor E t := by
  have := peel_le b t a
  unfold coerceFactor; omega

theorem vsize_pos : ∀ v : Value, 1 ≤ vsize v := by
  intro v; cases v <;> simp [vsize] <;> omega

mutual
/-- One spare step per value: it pays the loop iteration of the enclosing item / field loop. -/
theorem coerce_le (E : Env) : ∀ (v : Value) (t : Ty) (a : Bool), (coerce E v t a).1 + 1 ≤ vsize v * coerceFactor E t
  | .var _, t, _ => by simp only [coerce, vsize]; unfold coerceFactor; omega
  | .null _, t, _ => by simp only [coerce, vsize]; unfold coerceFactor; omega
  | .int _ _, t, a => by simp only [coerce, vsize]; exact leaf_le E false t a
  | .float _ _, t, a => by simp only [coerce, vsize]; exact leaf_le E false t a
  | .str _ _, t, a => by simp only [coerce, vsize]; exact leaf_le E false t a
  | .bool _ _, t, a => by simp only [coerce, vsize]; exact leaf_le E false t a
  | .enum _ _, t, a => by simp only [coerce, vsize]; exact leaf_le E false t a
  | .list vs o c, t, a => by
    have hp := peel_le true t a
    have hl := leaf_le E true t a
    simp only [coerce, vsize, Nat.add_mul]
    split
    · rename_i e he
      have ih := coerceItems_le E vs e
      rw [he] at hp
      simp only [Ty.wrap] at hp
      have hm : vsizes vs * coerceFactor E e ≤ vsizes vs * coerceFactor E t :=
        Nat.mul_le_mul_left _ (coerceFactor_mono E (by omega))
      simp only []
      omega
    · simp only []
      have : 0 ≤ vsizes vs * coerceFactor E t := Nat.zero_le _
      omega
  | .obj fs o c, t, a => by
    have hp := peel_le false t a
    have hl := leaf_le E false t a
    simp only [coerce, vsize, Nat.add_mul]
    split
    · rename_i id hty hst
      have ih := coerceFields_le E fs (E.fields id) [] (E.fields_wrap_le id)
      have hw := E.fields_length_le id
      have hm : fsizes fs * (E.depth + E.width + 2) ≤ fsizes fs * coerceFactor E t :=
        Nat.mul_le_mul_left _ (by unfold coerceFactor; omega)
      have hF : 1 + (peel false t a).steps + E.width + 1 ≤ 1 * coerceFactor E t := by
        unfold coerceFactor; omega
      split <;> simp only [] <;> omega
    · simp only []
      have : 0 ≤ fsizes fs * coerceFactor E t := Nat.zero_le _
      omega
theorem coerceItems_le (E : Env) : ∀ (vs : List Value) (e : Ty), (coerceItems E vs e).1 ≤ vsizes vs * coerceFactor E e
  | [], e => by simp [coerceItems, vsizes]
  | v :: vs, e => by
    have h1 := coerce_le E v e false
    have h2 := coerceItems_le E vs e
    simp only [coerceItems, vsizes, Nat.add_mul]
    split <;> simp only [] <;> omega
theorem coerceFields_le (E : Env) : ∀ (fs : List (Name × Value)) (fds : List FieldDef) (seen : List String),
    (∀ fd ∈ fds, fd.type.wrap ≤ E.depth) →
    (coerceFields E fs fds seen).steps ≤ fsizes fs * (E.depth + E.width + 2)
  | [], _, _, _ => by simp [coerceFields, fsizes]
  | (n, v) :: fs, fds, seen, hw => by
    have h2 := coerceFields_le E fs fds (n.name :: seen) hw
    simp only [coerceFields, fsizes, Nat.add_mul]
    split
    · rename_i fd hfd
      have hmem := List.mem_of_find?_eq_some hfd
      have h1 := coerce_le E v fd.type true
      have hf : coerceFactor E fd.type = E.depth + E.width + 2 := by
        have := hw fd hmem
        unfold coerceFactor; omega
      rw [hf] at h1
      split <;> simp only [] <;> omega
    · simp only []
      have : 0 ≤ vsize v * (E.depth + E.width + 2) := Nat.zero_le _
      omega
end

/-! ### Per-document sums of per-node work

  `validateArguments`, `validateDirectives` and `validateValues` are each one `ast.Inspect` pass over the
  document (the callback calls of such a pass are `docCalls`, Walks.lean) doing, at some nodes, work that
  is not constant: the loops modelled below. `sweep` adds a per-node cost over all nodes of a document in
  `ast.Inspect` order: `cArgs` at every field and directive (position, arguments), `cDirs` at every node
  that carries directives, `cVal` at every outermost value (argument values, default values). -/

structure NodeCost where
  cArgs : Pos → List Argument → Nat
  cDirs : List Directive → Nat
  cVal : Value → Nat
  cVar : VarDef → Nat := fun _ => 0

def sweepArgs (c : NodeCost) : List Argument → Nat
  | [] => 0
  | a :: as => c.cVal a.value + sweepArgs c as

def sweepDirs (c : NodeCost) : List Directive → Nat
  | [] => 0
  | d :: ds => (c.cArgs d.atPos d.args + sweepArgs c d.args) + sweepDirs c ds

mutual
def sweepSel (c : NodeCost) : Selection → Nat
  | .field al n args dirs sel =>
    c.cArgs (Selection.field al n args dirs sel).position args + c.cDirs dirs + sweepArgs c args + sweepDirs c dirs +
      (match sel with
       | some s => sweepSet c s
       | none => 0)
  | .spread _ _ dirs => c.cDirs dirs + sweepDirs c dirs
  | .inline _ _ dirs s => c.cDirs dirs + sweepDirs c dirs + sweepSet c s
def sweepSet (c : NodeCost) : SelSet → Nat
  | .mk sels _ _ => sweepSels c sels
def sweepSels (c : NodeCost) : List Selection → Nat
  | [] => 0
  | s :: ss => sweepSel c s + sweepSels c ss
end

def sweepVarDefs (c : NodeCost) : List VarDef → Nat
  | [] => 0
  | v :: vs => (c.cVar v + (match v.default with
                            | some d => c.cVal d
                            | none => 0)) + sweepVarDefs c vs

def sweepDefs (c : NodeCost) : List Definition → Nat
  | [] => 0
  | .op _ _ vars dirs s :: ds => (c.cDirs dirs + sweepDirs c dirs + sweepVarDefs c vars + sweepSet c s) + sweepDefs c ds
  | .frag _ _ _ dirs s :: ds => (c.cDirs dirs + sweepDirs c dirs + sweepSet c s) + sweepDefs c ds

def sweep (c : NodeCost) (d : Document) : Nat := sweepDefs c d.defs

/-- Pointwise domination with a factor carries over to the sums. -/
structure Dominated (K : Nat) (c w : NodeCost) : Prop where
  args : ∀ p as, c.cArgs p as ≤ K * w.cArgs p as
  dirs : ∀ ds, c.cDirs ds ≤ K * w.cDirs ds
  val : ∀ v, c.cVal v ≤ K * w.cVal v
  var : ∀ v, c.cVar v ≤ K * w.cVar v

theorem sweepArgs_le {K : Nat} {c w : NodeCost} (h : Dominated K c w) :
    ∀ as, sweepArgs c as ≤ K * sweepArgs w as
  | [] => by simp [sweepArgs]
  | a :: as => by
    have := h.val a.value
    have := sweepArgs_le h as
    simp only [sweepArgs, Nat.mul_add]; omega

theorem sweepDirs_le {K : Nat} {c w : NodeCost} (h : Dominated K c w) :
    ∀ ds, sweepDirs c ds ≤ K * sweepDirs w ds
  | [] => by simp [sweepDirs]
  | d :: ds => by
    have := h.args d.atPos d.args
    have := sweepArgs_le h d.args
    have := sweepDirs_le h ds
    simp only [sweepDirs, Nat.mul_add]; omega

mutual
theorem sweepSel_le {K : Nat} {c w : NodeCost} (h : Dominated K c w) :
    ∀ s, sweepSel c s ≤ K * sweepSel w s
  | .field al n args dirs (some s) => by
    have := h.args (Selection.field al n args dirs (some s)).position args
    have := h.dirs dirs
    have := sweepArgs_le h args
    have := sweepDirs_le h dirs
    have := sweepSet_le h s
    simp only [sweepSel, Nat.mul_add]; omega
  | .field al n args dirs none => by
    have := h.args (Selection.field al n args dirs none).position args
    have := h.dirs dirs
    have := sweepArgs_le h args
    have := sweepDirs_le h dirs
    simp only [sweepSel, Nat.mul_add]; omega
  | .spread _ _ dirs => by
    have := h.dirs dirs
    have := sweepDirs_le h dirs
    simp only [sweepSel, Nat.mul_add]; omega
  | .inline _ _ dirs s => by
    have := h.dirs dirs
    have := sweepDirs_le h dirs
    have := sweepSet_le h s
    simp only [sweepSel, Nat.mul_add]; omega
theorem sweepSet_le {K : Nat} {c w : NodeCost} (h : Dominated K c w) :
    ∀ s, sweepSet c s ≤ K * sweepSet w s
  | .mk sels _ _ => by simp only [sweepSet]; exact sweepSels_le h sels
theorem sweepSels_le {K : Nat} {c w : NodeCost} (h : Dominated K c w) :
    ∀ ss, sweepSels c ss ≤ K * sweepSels w ss
  | [] => by simp [sweepSels]
  | s :: ss => by
    have := sweepSel_le h s
    have := sweepSels_le h ss
    simp only [sweepSels, Nat.mul_add]; omega
end

theorem sweepVarDefs_le {K : Nat} {c w : NodeCost} (h : Dominated K c w) :
    ∀ vs, sweepVarDefs c vs ≤ K * sweepVarDefs w vs
  | [] => by simp [sweepVarDefs]
  | v :: vs => by
    have ih := sweepVarDefs_le h vs
    have hv := h.var v
    simp only [sweepVarDefs, Nat.mul_add]
    cases hd : v.default with
    | none => simp only []; omega
    | some d => have := h.val d; simp only []; omega

theorem sweepDefs_le {K : Nat} {c w : NodeCost} (h : Dominated K c w) :
    ∀ ds, sweepDefs c ds ≤ K * sweepDefs w ds
  | [] => by simp [sweepDefs]
  | .op _ _ vars dirs s :: ds => by
    have := h.dirs dirs
    have := sweepDirs_le h dirs
    have := sweepVarDefs_le h vars
    have := sweepSet_le h s
    have := sweepDefs_le h ds
    simp only [sweepDefs, Nat.mul_add]; omega
  | .frag _ _ _ dirs s :: ds => by
    have := h.dirs dirs
    have := sweepDirs_le h dirs
    have := sweepSet_le h s
    have := sweepDefs_le h ds
    simp only [sweepDefs, Nat.mul_add]; omega

/-- Nodes of a type expression of the document (`[[Int!]]!` has 5). -/
def typeNodes : TypeExpr → Nat
  | .named _ => 1
  | .list t _ _ => 1 + typeNodes t
  | .nonNull t => 1 + typeNodes t

/-- The size of a document for these rules: one per field / directive and per argument of it, one per
    directive of every node, the nodes of every outermost value. -/
def sizeCost : NodeCost :=
  { cArgs := fun _ as => 1 + as.length, cDirs := fun ds => ds.length, cVal := vsize,
    cVar := fun v => 1 + typeNodes v.type }

def ruleSize (d : Document) : Nat := sweep sizeCost d

/-! ### (b) The argument rule and the directive rule, per node -/

/-- validate_arguments.go 33-58 at one field or directive: `for _, argument := range arguments` then
    `for name, def := range argumentDefinitions`; `argDefs p` = `len(argumentDefinitions)` at that node
    (TypeInfo / schema: an oracle). -/
def argumentCost (argDefs : Pos → Nat) : NodeCost :=
  { cArgs := fun p as => as.length + argDefs p, cDirs := fun _ => 0, cVal := fun _ => 0 }

/-- validate_directives.go 38-66 at one node: `for _, directive := range directives`, and per directive
    `for _, allowed := range def.Locations` (`locs name` = `len(def.Locations)`, 0 when undefined). -/
def directiveCost (locs : String → Nat) : NodeCost :=
  { cArgs := fun _ _ => 0, cDirs := fun ds => (ds.map fun d => 1 + locs d.name.name).sum, cVal := fun _ => 0 }

/-- validate_values.go 10-25: at every outermost value `validateCoercion(node, expected, true)` when
    TypeInfo has an expected type (an oracle `expected`), one step otherwise. -/
def valueCost (E : Env) (expected : Value → Option Ty) : NodeCost :=
  { cArgs := fun _ _ => 0, cDirs := fun _ => 0,
    cVal := fun v => match expected v with
                     | some t => (coerce E v t true).1
                     | none => 1 }

/-! ### (d) TypeInfo maintenance (type_info.go 65-196)

  One `ast.Inspect` pass; the work that is not constant per callback call: at a list literal the loop over
  its items (80-90), at an object literal the `for { list, ok := … }` unwrapping of the expected type —
  `unwrap v` iterations, the wrapper depth of that value's expected type, an oracle — and the loop over
  its fields (91-119), at a field / directive the loop over its arguments (120-158), at a variable
  definition `schemaType` recursing over the type expression (44-61, 183-190). `tiVal` descends into every
  value (TypeInfo types nested values too). -/

mutual
def tiVal (unwrap : Value → Nat) : Value → Nat
  | .list vs o c => 1 + tiVals unwrap vs
  | .obj fs o c => 1 + unwrap (.obj fs o c) + tiFields unwrap fs
  | _ => 1
def tiVals (unwrap : Value → Nat) : List Value → Nat
  | [] => 0
  | v :: vs => (1 + tiVal unwrap v) + tiVals unwrap vs
def tiFields (unwrap : Value → Nat) : List (Name × Value) → Nat
  | [] => 0
  | (_, v) :: fs => (1 + tiVal unwrap v) + tiFields unwrap fs
end

def typeInfoCost (unwrap : Value → Nat) : NodeCost :=
  { cArgs := fun _ as => 1 + as.length, cDirs := fun _ => 0, cVal := tiVal unwrap,
    cVar := fun v => 1 + typeNodes v.type }

mutual
theorem tiVal_le (unwrap : Value → Nat) (T : Nat) (h : ∀ v, unwrap v ≤ T) :
    ∀ v, tiVal unwrap v + 1 ≤ (T + 2) * vsize v
  | .list vs o c => by
    have := tiVals_le unwrap T h vs
    simp only [tiVal, vsize, Nat.mul_add]; omega
  | .obj fs o c => by
    have := tiFields_le unwrap T h fs
    have := h (.obj fs o c)
    simp only [tiVal, vsize, Nat.mul_add]; omega
  | .var _ => by simp only [tiVal, vsize]; omega
  | .null _ => by simp only [tiVal, vsize]; omega
  | .int _ _ => by simp only [tiVal, vsize]; omega
  | .float _ _ => by simp only [tiVal, vsize]; omega
  | .str _ _ => by simp only [tiVal, vsize]; omega
  | .bool _ _ => by simp only [tiVal, vsize]; omega
  | .enum _ _ => by simp only [tiVal, vsize]; omega
theorem tiVals_le (unwrap : Value → Nat) (T : Nat) (h : ∀ v, unwrap v ≤ T) :
    ∀ vs, tiVals unwrap vs ≤ (T + 2) * vsizes vs
  | [] => by simp [tiVals, vsizes]
  | v :: vs => by
    have := tiVal_le unwrap T h v
    have := tiVals_le unwrap T h vs
    simp only [tiVals, vsizes, Nat.mul_add]; omega
theorem tiFields_le (unwrap : Value → Nat) (T : Nat) (h : ∀ v, unwrap v ≤ T) :
    ∀ fs, tiFields unwrap fs ≤ (T + 2) * fsizes fs
  | [] => by simp [tiFields, fsizes]
  | (n, v) :: fs => by
    have := tiVal_le unwrap T h v
    have := tiFields_le unwrap T h fs
    simp only [tiFields, fsizes, Nat.mul_add]; omega
end

theorem sum_dirs_le (locs : String → Nat) (L : Nat) (h : ∀ n, locs n ≤ L) :
    ∀ ds : List Directive, (ds.map fun d => 1 + locs d.name.name).sum ≤ (L + 1) * ds.length
  | [] => by simp
  | d :: ds => by
    have := h d.name.name
    have := sum_dirs_le locs L h ds
    simp only [List.map_cons, List.sum_cons, List.length_cons, Nat.mul_add]; omega

end ApiFu.C12
