/-
  C12 — property theorems.

  (1) Parser: the depth limit is about depth only — over the C06 parser model (fixed code).
  (2) Cost walk: the step model of `ValidateCost`'s walk as written is exponential on a family of
      linearly growing documents (the machine-checked statement of finding F-12c).
-/
import ApiFu.C12.Lemmas
import ApiFu.C06.Props

namespace ApiFu.C12
open ApiFu.C06

/-- **rec_balanced** (C06.rec_balanced, restated for this property) — every production of the parser
    returns with `p.recursion` at its entry value on every return path: the counter that
    "maximum recursion depth exceeded" tests is the height of the production call stack, it does not
    accumulate over siblings. True of the code after the F-12a fix only (`C06.rec_leaks_before_fix`). -/
theorem rec_balanced (f : Nat) :
    Balanced (parseSelection f) ∧ Balanced (parseField f) ∧ Balanced (parseSelectionSet f) ∧
    (∀ c, Balanced (parseValue f c)) ∧ Balanced (parseType f) ∧ Balanced (parseOptionalArguments f) ∧
    Balanced (parseOptionalDirectives f) ∧ Balanced (parseOptionalVariableDefinitions f) ∧
    Balanced (parseDefinition f) ∧ Balanced (parseDocument f) := by
  have h := C06.rec_balanced f
  exact ⟨h.2.2.2.2.2.2.2.2.2.2.2.2.2.1, h.2.2.2.2.2.2.2.2.2.2.2.2.2.2.1, h.2.2.2.2.2.2.2.2.2.2.2.2.1,
    h.2.2.2.2.2.2.1, h.2.2.2.2.2.1, h.2.2.2.2.2.2.2.2.1, h.2.2.2.2.2.2.2.2.2.1, h.2.2.2.2.2.2.2.2.2.2.2.1,
    h.2.2.2.2.2.2.2.2.2.2.2.2.2.2.2.2.2.2.1, h.2.2.2.2.2.2.2.2.2.2.2.2.2.2.2.2.2.2.2⟩

/-- **cost_walk_steps_chain** — on the document
    `{ ...F0 } fragment F0 on Query { ...F1 ...F1 } … fragment F(n-1) on Query { ...Fn ...Fn } fragment Fn on Query { x }`
    the cost walk (as written: a fragment definition is expanded at every spread that reaches it)
    visits exactly `3·2ⁿ − 1` fields and spreads, without reporting an error, for every sufficient fuel. -/
theorem cost_walk_steps_chain (n fuel : Nat) (hfuel : 4 * n + 7 ≤ fuel) :
    costVisits fuel (chainDoc fname n) = some { visits := 3 * 2 ^ n - 1, err := false } := by
  rw [costVisits_chainDoc fname fname_inj n fuel hfuel]
  have := T_eq n
  congr 2
  omega

/-- **cost_walk_lower** — F-12c, machine-checked: there is a family of well-formed documents `dₙ` of
    linear size (`10·n + 11` tokens) on which the cost walk visits at least `2ⁿ` nodes. The work of
    `ValidateCost` is therefore not bounded by any polynomial in the length of the document.
    (The harness checks on every run that the `verif` hook counter of the real walk equals this
    model's count on `dₙ` for the sizes it can afford, and on random fragment graphs.) -/
theorem cost_walk_lower (n : Nat) :
    ∃ d : Document, wfDocument d = true ∧ d.stoks.length = 10 * n + 11 ∧
      ∀ fuel, 4 * n + 7 ≤ fuel → ∃ w, costVisits fuel d = some w ∧ w.err = false ∧ 2 ^ n ≤ w.visits := by
  refine ⟨chainDoc fname n, wf_chainDoc fname fname_ne_on n, chainDoc_size fname n, ?_⟩
  intro fuel hfuel
  refine ⟨_, cost_walk_steps_chain n fuel hfuel, rfl, ?_⟩
  have : 0 < 2 ^ n := Nat.two_pow_pos n
  simp only
  omega

/-- Non-vacuity / sample: `n = 3` — 41 tokens, 23 visits. -/
example : costVisits 100 (chainDoc fname 3) = some { visits := 23, err := false } := by decide +kernel

/-
  The full-strength statement for the cost walk — what the property demands — is

      theorem cost_walk_poly : ∃ c k, ∀ (d : Document) (fuel : Nat) (w : Walk),
          wfDocument d = true → costVisits fuel d = some w → w.visits ≤ c * d.stoks.length ^ k

  It is FALSE of the walk as written (finding F-12c) and therefore not in the build: `cost_walk_lower`
  above is its machine-checked negation witness (≥ 2ⁿ visits on 10·n + 11 tokens, for every n; the
  `example` is the instance n = 3, the harness replays n = 16 on the real code on every run).
  What is proved is the bound under the extra hypothesis the proof forced — no fragment spread is
  expanded:
-/

/-- **cost_walk_poly_partial** — if the operation the cost walk runs on contains no fragment spread, the
    walk reports no error and visits every field exactly once: `visits = selCount ≤ tokens` (linear).
    Hypothesis forced by F-12c: `noSpreadSet` — with spreads the count is the size of the
    fragment-expanded tree, exponential in general (`cost_walk_lower`). -/
theorem cost_walk_poly_partial (d : Document) (fuel : Nat) (w : Walk) (s : SelSet)
    (hs : soleOperation d.defs = some s) (hn : noSpreadSet s = true) (h : costVisits fuel d = some w) :
    w.err = false ∧ w.visits = selCountSet s ∧ w.visits ≤ d.stoks.length := by
  unfold costVisits at h
  rw [hs] at h
  have := (walk_noSpread (fragSel d.defs) fuel).2.1 [] s 0 w hn h
  subst this
  refine ⟨rfl, by simp, ?_⟩
  obtain ⟨x, hx, hsel⟩ := soleOperation_mem hs
  have h1 := selCountSet_le s
  have h2 := opSel_stoks_le hsel
  have h3 : x.stoks.length ≤ d.stoks.length := stoks_mem_le hx
  simp only [Nat.zero_add]
  omega

/-- `{ f … f }` with `w + 1` fields. -/
def flatDocOf (w : Nat) : Document :=
  { defs := [.op none none [] [] (.mk (List.replicate (w + 1) (.field none ⟨"f", p0⟩ [] [] none)) p0 p0)] }

/-- Non-vacuity of `cost_walk_poly_partial`: `{ f f f }` — 3 visits. -/
example : costVisits 20 (flatDocOf 2) = some { visits := 3, err := false } := by decide +kernel

/-! ### The depth limit is about depth only -/

/-- **depth_error_iff** — for a document of the grammar (the tokens render a well-formed tree `d`, no
    scanner errors) `ParseDocument` reports "maximum recursion depth exceeded" — and then nothing else,
    as an ordinary recovered error — exactly when the *production depth* `pdDocument d` exceeds
    `maxRecursion`; otherwise it returns `d`. `pdDocument` is defined on the tree alone, as a maximum
    over siblings at every level (`pd_breadth_free` below): it depends on nesting only. -/
theorem depth_error_iff (maxRec : Nat) (inp : Input) (d : Document)
    (hclean : scannerErrs inp = []) (hr : Renders inp.toks d.stoks = true) (hwf : wfDocument d = true) :
    ((∃ p, ParseDocument maxRec inp = .recovered [{ msg := depthMsg, pos := p }]) ↔ maxRec < pdDocument d) ∧
    (ParseDocument maxRec inp = .returned d [] ↔ pdDocument d ≤ maxRec) := by
  rcases parse_rendering maxRec inp d hclean hr hwf with ⟨hd, h⟩ | ⟨hd, p, h⟩
  · refine ⟨⟨fun ⟨p, hp⟩ => ?_, fun h' => by omega⟩, ⟨fun _ => hd, fun _ => h⟩⟩
    rw [h] at hp; simp at hp
  · refine ⟨⟨fun _ => hd, fun _ => ⟨p, h⟩⟩, ⟨fun h' => ?_, fun h' => by omega⟩⟩
    rw [h] at h'; simp at h'

/-- **deep_is_error** — nesting beyond the limit is refused with an ordinary error value: the outcome
    of `ParseDocument` is never the model's out-of-fuel (for *every* input, grammatical or not), and for
    a too deeply nested document of the grammar it is the single recovered depth error. A Go panic other
    than `panic(*Error)` has no counterpart in the model because the parser contains no other panic
    site; stack exhaustion is excluded by `rec_balanced`: the Go call stack is at most `maxRecursion`
    production frames high. -/
theorem deep_is_error (maxRec : Nat) (inp : Input) :
    ParseDocument maxRec inp ≠ .outOfFuel ∧
    ∀ d, scannerErrs inp = [] → Renders inp.toks d.stoks = true → wfDocument d = true → maxRec < pdDocument d →
      ∃ p, ParseDocument maxRec inp = .recovered [{ msg := depthMsg, pos := p }] :=
  ⟨(parse_fuel_sufficient maxRec inp false).1,
   fun d hc hr hwf hd => ((depth_error_iff maxRec inp d hc hr hwf).1).mpr hd⟩

/-- **pd_breadth_free** — the production depth of every kind of sibling list is the maximum over its
    members: concatenating siblings (selections, list items, arguments, directives, variable definitions,
    definitions) never adds depth. -/
theorem pd_breadth_free :
    (∀ a b : List Selection, pdSels (a ++ b) = max (pdSels a) (pdSels b)) ∧
    (∀ a b : List Value, pdValues (a ++ b) = max (pdValues a) (pdValues b)) ∧
    (∀ a b : List Argument, pdArgList (a ++ b) = max (pdArgList a) (pdArgList b)) ∧
    (∀ a b : List Directive, pdDirList (a ++ b) = max (pdDirList a) (pdDirList b)) ∧
    (∀ a b : List VarDef, pdVarDefList (a ++ b) = max (pdVarDefList a) (pdVarDefList b)) ∧
    (∀ a b : List Definition, pdDefs (a ++ b) = max (pdDefs a) (pdDefs b)) :=
  ⟨pdSels_append, pdValues_append, pdArgList_append, pdDirList_append, pdVarDefList_append, pdDefs_append⟩

/-- **flat_never_limited** — breadth is never limited by the depth limit. For every bound `k`: a
    document all of whose definitions have production depth ≤ `k` — however many definitions it has,
    and however many selections each selection set in it has — is returned whenever `k + 1 ≤ maxRecursion`.
    (Instance: the flat document `{ f f … f }` of any width has production depth 8.) -/
theorem flat_never_limited (maxRec k : Nat) (inp : Input) (d : Document)
    (hclean : scannerErrs inp = []) (hr : Renders inp.toks d.stoks = true) (hwf : wfDocument d = true)
    (hk : ∀ x ∈ d.defs, pdDefinition x ≤ k) (hlim : k + 1 ≤ maxRec) :
    ParseDocument maxRec inp = .returned d [] := by
  apply C06.parse_print maxRec inp d hclean hr hwf
  have := pdDefs_le d.defs hk
  simp only [pdDocument]
  omega

/-- The flat selection set of `w + 1` fields `f`. -/
def flatDoc (w : Nat) : Document := flatDocOf w

/-- Its production depth is 8 for every width (Go: parseDocument → parseDefinition →
    parseOperationDefinition → parseOptionalSelectionSet → parseSelectionSet → parseSelection →
    parseField → parseName). -/
theorem pd_flatDoc (w : Nat) : pdDocument (flatDoc w) = 8 := by
  have h : pdSels (List.replicate (w + 1) (Selection.field none ⟨"f", p0⟩ [] [] none)) = 3 := by
    induction w with
    | zero => rfl
    | succ w ih =>
      rw [List.replicate_succ, pdSels_cons, ih]
      rfl
  simp only [pdDocument, flatDoc, flatDocOf, pdDefs, pdDefinition, pdSelSet_mk, h]
  rfl

/-- Before the F-12a fix the same family was refused at width ≈ `maxRecursion`: on `{ f f f }` with
    `maxRecursion = 8` (exactly the depth the document needs) the fixed parser returns the document,
    the parser with the leak reports the depth error at the second field. -/
def threeFields : Input :=
  { toks := [{ kind := .punct, value := "{", pos := ⟨1, 1⟩ }, { kind := .name, value := "f", pos := ⟨1, 3⟩ },
             { kind := .name, value := "f", pos := ⟨1, 5⟩ }, { kind := .name, value := "f", pos := ⟨1, 7⟩ },
             { kind := .punct, value := "}", pos := ⟨1, 9⟩ }], eofPos := ⟨1, 10⟩ }

example : (ParseDocument 8 threeFields false).accepted = true := by decide +kernel
example : (ParseDocument 8 threeFields true).recoveredErrs = some [{ msg := depthMsg, pos := ⟨1, 5⟩ }] := by
  decide +kernel

end ApiFu.C12
