/-
  C12 — property theorems.

  (1) Parser: the depth limit is about depth only — over the C06 parser model (fixed code).
  (2) Cost walk: the step model of `ValidateCost`'s walk as written is exponential on a family of
      linearly growing documents (the machine-checked statement of finding F-12c).
-/
import ApiFu.C12.Lemmas
import ApiFu.C06.Props

namespace ApiFu.C12
open ApiFu.C06

/-- **rec_balanced** (C06.rec_balanced, restated for this property) — every production of the parser
    returns with `p.recursion` at its entry value on every return path: the counter that
    "maximum recursion depth exceeded" tests is the height of the production call stack, it does not
    accumulate over siblings. True of the code after the F-12a fix only (`C06.rec_leaks_before_fix`). -/
theorem rec_balanced (f : Nat) :
    Balanced (parseSelection f) ∧ Balanced (parseField f) ∧ Balanced (parseSelectionSet f) ∧
    (∀ c, Balanced (parseValue f c)) ∧ Balanced (parseType f) ∧ Balanced (parseOptionalArguments f) ∧
    Balanced (parseOptionalDirectives f) ∧ Balanced (parseOptionalVariableDefinitions f) ∧
    Balanced (parseDefinition f) ∧ Balanced (parseDocument f) := by
  have h := C06.rec_balanced f
  exact ⟨h.2.2.2.2.2.2.2.2.2.2.2.2.2.1, h.2.2.2.2.2.2.2.2.2.2.2.2.2.2.1, h.2.2.2.2.2.2.2.2.2.2.2.2.1,
    h.2.2.2.2.2.2.1, h.2.2.2.2.2.1, h.2.2.2.2.2.2.2.2.1, h.2.2.2.2.2.2.2.2.2.1, h.2.2.2.2.2.2.2.2.2.2.2.1,
    h.2.2.2.2.2.2.2.2.2.2.2.2.2.2.2.2.2.2.1, h.2.2.2.2.2.2.2.2.2.2.2.2.2.2.2.2.2.2.2⟩

/-- **cost_walk_steps_chain** — on the document
    `{ ...F0 } fragment F0 on Query { ...F1 ...F1 } … fragment F(n-1) on Query { ...Fn ...Fn } fragment Fn on Query { x }`
    the cost walk (as written: a fragment definition is expanded at every spread that reaches it)
    visits exactly `3·2ⁿ − 1` fields and spreads, without reporting an error, for every sufficient fuel. -/
theorem cost_walk_steps_chain (n fuel : Nat) (hfuel : 4 * n + 7 ≤ fuel) :
    costVisits fuel (chainDoc fname n) = some { visits := 3 * 2 ^ n - 1, err := false } := by
  rw [costVisits_chainDoc fname fname_inj n fuel hfuel]
  have := T_eq n
  congr 2
  omega

/-- **cost_walk_lower** — F-12c, machine-checked: there is a family of well-formed documents `dₙ` of
    linear size (`10·n + 11` tokens) on which the cost walk visits at least `2ⁿ` nodes. The work of
    `ValidateCost` is therefore not bounded by any polynomial in the length of the document.
    (The harness checks on every run that the `verif` hook counter of the real walk equals this
    model's count on `dₙ` for the sizes it can afford, and on random fragment graphs.) -/
theorem cost_walk_lower (n : Nat) :
    ∃ d : Document, wfDocument d = true ∧ d.stoks.length = 10 * n + 11 ∧
      ∀ fuel, 4 * n + 7 ≤ fuel → ∃ w, costVisits fuel d = some w ∧ w.err = false ∧ 2 ^ n ≤ w.visits := by
  refine ⟨chainDoc fname n, wf_chainDoc fname fname_ne_on n, chainDoc_size fname n, ?_⟩
  intro fuel hfuel
  refine ⟨_, cost_walk_steps_chain n fuel hfuel, rfl, ?_⟩
  have : 0 < 2 ^ n := Nat.two_pow_pos n
  simp only
  omega

/-- Non-vacuity / sample: `n = 3` — 41 tokens, 23 visits. -/
example : costVisits 100 (chainDoc fname 3) = some { visits := 23, err := false } := by decide +kernel

end ApiFu.C12
