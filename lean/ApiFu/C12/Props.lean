import ApiFu.C12.Model
namespace ApiFu.C12
end ApiFu.C12
