/-
  C12 — `|doc|` of PropsRules.lean in tokens: for a well-formed document (every document the parser
  returns, `C06.parse_sound`) `ruleSize d ≤ number of tokens`. With it the bounds of PropsRules.lean read
  `steps(rule, doc, schema) ≤ (schema factor) · tokens(doc)`.
-/
import ApiFu.C12.PropsRules
import ApiFu.C12.WalksLemmas

namespace ApiFu.C12
open ApiFu.C06

@[simp] theorem sizeCost_cArgs (p : Pos) (as : List Argument) : sizeCost.cArgs p as = 1 + as.length := rfl
@[simp] theorem sizeCost_cDirs (ds : List Directive) : sizeCost.cDirs ds = ds.length := rfl
@[simp] theorem sizeCost_cVal (v : Value) : sizeCost.cVal v = vsize v := rfl
@[simp] theorem sizeCost_cVar (v : VarDef) : sizeCost.cVar v = 1 + typeNodes v.type := rfl

mutual
theorem vsize_le_stoks : ∀ v : Value, vsize v ≤ v.stoks.length
  | .var v => by simp [vsize, Value.stoks, Variable.stoks, Name.stoks]
  | .int _ _ => by simp [vsize, Value.stoks]
  | .float _ _ => by simp [vsize, Value.stoks]
  | .str _ _ => by simp [vsize, Value.stoks]
  | .bool _ _ => by simp [vsize, Value.stoks]
  | .null _ => by simp [vsize, Value.stoks]
  | .enum _ _ => by simp [vsize, Value.stoks]
  | .list vs o c => by
    have := vsizes_le_stoks vs
    simp only [vsize, Value.stoks, List.length_cons, List.length_append, List.length_nil]
    omega
  | .obj fs o c => by
    have := fsizes_le_stoks fs
    simp only [vsize, Value.stoks, List.length_cons, List.length_append, List.length_nil]
    omega
theorem vsizes_le_stoks : ∀ vs : List Value, vsizes vs ≤ (stoksValues vs).length
  | [] => by simp [vsizes]
  | v :: vs => by
    have h1 := vsize_le_stoks v
    have h2 := vsizes_le_stoks vs
    simp only [vsizes, stoksValues, List.length_append]
    omega
theorem fsizes_le_stoks : ∀ fs : List (Name × Value), fsizes fs ≤ (stoksFields fs).length
  | [] => by simp [fsizes]
  | (n, v) :: fs => by
    have h1 := vsize_le_stoks v
    have h2 := fsizes_le_stoks fs
    simp only [fsizes, stoksFields, Name.stoks, List.length_append, List.length_cons, List.length_nil]
    omega
end

theorem sizeArgs_le : ∀ as : List Argument, sweepArgs sizeCost as + as.length ≤ (stoksArgList as).length
  | [] => by simp [sweepArgs]
  | a :: as => by
    have h1 := vsize_le_stoks a.value
    have h2 := sizeArgs_le as
    simp only [sweepArgs, sizeCost_cArgs, sizeCost_cDirs, sizeCost_cVal, sizeCost_cVar, stoksArgList, Argument.stoks, Name.stoks, List.length_append, List.length_cons, List.length_nil] at h2 ⊢
    omega

theorem sizeDirs_le : ∀ ds : List Directive, sweepDirs sizeCost ds + ds.length ≤ (stoksDirs ds).length
  | [] => by simp [sweepDirs]
  | d :: ds => by
    have h1 := sizeArgs_le d.args
    have h2 := sizeDirs_le ds
    have h3 := stoksArgList_le_args d.args
    simp only [sweepDirs, sizeCost_cArgs, sizeCost_cDirs, sizeCost_cVal, sizeCost_cVar, stoksDirs, Directive.stoks, Name.stoks, List.length_append, List.length_cons, List.length_nil] at h1 h2 ⊢
    omega

mutual
theorem sizeSel_le : ∀ s : Selection, sweepSel sizeCost s ≤ s.stoks.length
  | .field none n args dirs none => by
    have h1 := sizeArgs_le args; have h2 := sizeDirs_le dirs; have h3 := stoksArgList_le_args args
    rw [stoks_field_none]
    simp only [sweepSel, sizeCost_cArgs, sizeCost_cDirs, sizeCost_cVal, sizeCost_cVar, optSelStoks, Name.stoks, List.length_append, List.length_cons, List.length_nil] at h1 h2 ⊢
    omega
  | .field none n args dirs (some ss) => by
    have h1 := sizeArgs_le args; have h2 := sizeDirs_le dirs; have h3 := stoksArgList_le_args args
    have h4 := sizeSet_le ss
    rw [stoks_field_none]
    simp only [sweepSel, sizeCost_cArgs, sizeCost_cDirs, sizeCost_cVal, sizeCost_cVar, optSelStoks, Name.stoks, List.length_append, List.length_cons, List.length_nil] at h1 h2 ⊢
    omega
  | .field (some a) n args dirs none => by
    have h1 := sizeArgs_le args; have h2 := sizeDirs_le dirs; have h3 := stoksArgList_le_args args
    rw [stoks_field_some]
    simp only [sweepSel, sizeCost_cArgs, sizeCost_cDirs, sizeCost_cVal, sizeCost_cVar, optSelStoks, Name.stoks, List.length_append, List.length_cons, List.length_nil] at h1 h2 ⊢
    omega
  | .field (some a) n args dirs (some ss) => by
    have h1 := sizeArgs_le args; have h2 := sizeDirs_le dirs; have h3 := stoksArgList_le_args args
    have h4 := sizeSet_le ss
    rw [stoks_field_some]
    simp only [sweepSel, sizeCost_cArgs, sizeCost_cDirs, sizeCost_cVal, sizeCost_cVar, optSelStoks, Name.stoks, List.length_append, List.length_cons, List.length_nil] at h1 h2 ⊢
    omega
  | .spread e n dirs => by
    have h2 := sizeDirs_le dirs
    rw [stoks_spread]
    simp only [sweepSel, sizeCost_cArgs, sizeCost_cDirs, sizeCost_cVal, sizeCost_cVar, Name.stoks, List.length_append, List.length_cons, List.length_nil] at h2 ⊢
    omega
  | .inline e none dirs ss => by
    have h2 := sizeDirs_le dirs; have h4 := sizeSet_le ss
    rw [stoks_inline_none]
    simp only [sweepSel, sizeCost_cArgs, sizeCost_cDirs, sizeCost_cVal, sizeCost_cVar, List.length_append, List.length_cons] at h2 ⊢
    omega
  | .inline e (some n) dirs ss => by
    have h2 := sizeDirs_le dirs; have h4 := sizeSet_le ss
    rw [stoks_inline_some]
    simp only [sweepSel, sizeCost_cArgs, sizeCost_cDirs, sizeCost_cVal, sizeCost_cVar, stoksTypeCondition, Name.stoks, List.length_append, List.length_cons, List.length_nil] at h2 ⊢
    omega
theorem sizeSet_le : ∀ s : SelSet, sweepSet sizeCost s ≤ s.stoks.length
  | .mk sels o c => by
    have := sizeSels_le sels
    rw [stoks_selSet]
    simp only [sweepSet, List.length_append, List.length_cons, List.length_nil]
    omega
theorem sizeSels_le : ∀ ss : List Selection, sweepSels sizeCost ss ≤ (stoksSels ss).length
  | [] => by simp [sweepSels]
  | s :: ss => by
    have h1 := sizeSel_le s
    have h2 := sizeSels_le ss
    rw [stoksSels_cons]
    simp only [sweepSels, List.length_append]
    omega
end

theorem typeNodes_le : ∀ t : TypeExpr, typeNodes t ≤ t.stoks.length
  | .named n => by simp [typeNodes, TypeExpr.stoks, Name.stoks]
  | .list t o c => by
    have := typeNodes_le t
    simp only [typeNodes, TypeExpr.stoks, List.length_append, List.length_cons, List.length_nil]; omega
  | .nonNull t => by
    have := typeNodes_le t
    simp only [typeNodes, TypeExpr.stoks, List.length_append, List.length_cons, List.length_nil]; omega

theorem sizeVarDefList_le : ∀ vs : List VarDef, sweepVarDefs sizeCost vs ≤ (stoksVarDefList vs).length
  | [] => by simp [sweepVarDefs]
  | v :: vs => by
    have h1 := sizeVarDefList_le vs
    have h2 := typeNodes_le v.type
    simp only [sweepVarDefs, sizeCost_cArgs, sizeCost_cDirs, sizeCost_cVal, sizeCost_cVar, stoksVarDefList, VarDef.stoks, Variable.stoks, Name.stoks, List.length_append, List.length_cons, List.length_nil] at h1 ⊢
    cases hd : v.default with
    | none => simp only [List.length_nil]; omega
    | some d =>
      have := vsize_le_stoks d
      simp only [List.length_cons]; omega

theorem sizeVarDefs_le (vs : List VarDef) : sweepVarDefs sizeCost vs ≤ (stoksVarDefs vs).length := by
  unfold stoksVarDefs
  split
  · rename_i h
    have : vs = [] := by simpa using h
    subst this; simp [sweepVarDefs]
  · have := sizeVarDefList_le vs
    simp only [List.length_cons, List.length_append, List.length_nil]; omega

theorem sizeDefs_le : ∀ ds : List Definition, wfDefs ds = true → sweepDefs sizeCost ds ≤ (stoksDefs ds).length
  | [], _ => by simp [sweepDefs]
  | .frag p n tc dirs s :: ds, h => by
    simp only [wfDefs, Bool.and_eq_true] at h
    have ih := sizeDefs_le ds h.2
    have h2 := sizeDirs_le dirs; have h4 := sizeSet_le s
    have e : stoksDefs (.frag p n tc dirs s :: ds) = (Definition.frag p n tc dirs s).stoks ++ stoksDefs ds := rfl
    rw [e, stoks_frag]
    simp only [sweepDefs, sizeCost_cArgs, sizeCost_cDirs, sizeCost_cVal, sizeCost_cVar, stoksTypeCondition, Name.stoks, List.length_append, List.length_cons, List.length_nil] at h2 ⊢
    omega
  | .op none name vars dirs s :: ds, h => by
    simp only [wfDefs, wfDefinition, Bool.and_eq_true, Option.isNone_iff_eq_none, List.isEmpty_iff] at h
    obtain ⟨⟨⟨⟨rfl, rfl⟩, rfl⟩, _⟩, hds⟩ := h
    have ih := sizeDefs_le ds hds
    have h4 := sizeSet_le s
    have e : stoksDefs (.op none none [] [] s :: ds) = (Definition.op none none [] [] s).stoks ++ stoksDefs ds := rfl
    rw [e, stoks_op_none]
    simp only [sweepDefs, sizeCost_cArgs, sizeCost_cDirs, sizeCost_cVal, sizeCost_cVar, sweepDirs, sweepVarDefs, List.length_nil, List.length_append]
    omega
  | .op (some t) name vars dirs s :: ds, h => by
    simp only [wfDefs, Bool.and_eq_true] at h
    have ih := sizeDefs_le ds h.2
    have h2 := sizeDirs_le dirs; have h4 := sizeSet_le s; have h5 := sizeVarDefs_le vars
    have e : stoksDefs (.op (some t) name vars dirs s :: ds) = (Definition.op (some t) name vars dirs s).stoks ++ stoksDefs ds := rfl
    rw [e, stoks_op_some]
    simp only [sweepDefs, sizeCost_cArgs, sizeCost_cDirs, sizeCost_cVal, sizeCost_cVar, List.length_append, List.length_cons] at h2 h5 ⊢
    omega

/-- **ruleSize_le_tokens** — for a well-formed document the size used by the rule bounds of
    PropsRules.lean is at most the number of tokens of the document. -/
theorem ruleSize_le_tokens (d : Document) (hwf : wfDocument d = true) : ruleSize d ≤ d.stoks.length := by
  simp only [wfDocument, Bool.and_eq_true] at hwf
  exact sizeDefs_le d.defs hwf.2

/-- **value_rule_poly_tokens** — the value rule on a well-formed document of `n` tokens takes at most
    `(max T depth + width + 2) · n` steps. -/
theorem value_rule_poly_tokens (E : Env) (expected : Value → Option Ty) (T : Nat)
    (hT : ∀ v t, expected v = some t → t.wrap ≤ T) (d : Document) (hwf : wfDocument d = true) :
    sweep (valueCost E expected) d ≤ (max T E.depth + E.width + 2) * d.stoks.length :=
  Nat.le_trans (value_rule_poly E expected T hT d) (Nat.mul_le_mul_left _ (ruleSize_le_tokens d hwf))

end ApiFu.C12
