/-
  C12 model driver. One request per line, one reply per line (S-expressions).

    (doc <maxRec> <leak:0|1> (eof L C err…) tok…)
        → (ret <pdDocument> <walk> (err…)) | (rec (err…)) | oof
      <walk> := (visits <n> <err:true|false>) | none          -- cost walk of the sole operation
    tok / err as in the C06 driver.

  The parser is the C06 model; the reply carries the outcome, the production depth of the returned
  document (Spec `pdDocument`) and the step count of the cost-walk model.
-/
import ApiFu.Common.Sexp
import ApiFu.Common.Loop
import ApiFu.C06.Driver
import ApiFu.C12.Model
import ApiFu.C12.DriverWalks

open ApiFu ApiFu.C06 ApiFu.C12

namespace ApiFu.C12.Driver
open ApiFu.C06.Driver

def walkS : Option Walk → Sexp
  | some w => Sexp.node "visits" [Sexp.ofNat w.visits, Sexp.ofBool w.err]
  | none => Sexp.atom "none"

def handle (line : String) : String :=
  match Sexp.parse line with
  | some (Sexp.list (Sexp.atom "doc" :: m :: Sexp.atom leak :: eof :: toks)) =>
    match m.nat?, input? eof toks with
    | some maxRec, some inp =>
      match ParseDocument maxRec inp (leak == "1") with
      | .returned d es =>
        let fuel := (inp.toks.length + 2) * (inp.toks.length + 2) + 16
        toString (Sexp.node "ret" [Sexp.ofNat (pdDocument d), walkS (costVisits fuel d), errsS es])
      | .recovered es => toString (Sexp.node "rec" [errsS es])
      | .outOfFuel => "oof"
    | _, _ => "bad-op"
  | _ => "bad-op"

end ApiFu.C12.Driver

/-- Requests `(walks …)` and `(fields …)` go to the walk models (DriverWalks.lean), everything else to `Driver.handle`. -/
def dispatch (line : String) : String :=
  if line.startsWith "(walks " || line.startsWith "(fields " then (ApiFu.C12.DriverWalks.handle? line).getD "bad-op"
  else ApiFu.C12.Driver.handle line

def main : IO Unit := ApiFu.lineLoopPure dispatch
