/-
  C12 — polynomial bounds for the value rule (literal coercion), the argument rule and the directive
  rule: `steps(rule, doc, schema) ≤ p(|doc|, |schema|)` for ALL documents and all schemas, by induction
  over the document. Models: WalksRules.lean (written from validate_values.go, validate_arguments.go,
  validate_directives.go). `|doc|` is `ruleSize d` (one per field / directive and per argument, one per
  directive of a node, the nodes of every outermost value); `|schema|` enters as the widest input object
  `E.width`, the deepest List / NonNull wrapping `E.depth` / `T`, the largest number of argument
  definitions `A` and of directive locations `L`.
  The cost walk stays exponential (Props.lean `cost_walk_lower`, F-12c) — nothing here changes that.
-/
import ApiFu.C12.WalksRules

namespace ApiFu.C12
open ApiFu.C06

/-- **value_coercion_poly** — `validateCoercion(v, t, allow)` on any literal `v` and any expected type
    `t`, for every input-object table and every verdict of the scalar / enum coercion functions: the
    number of invocations plus loop iterations is at most (nodes of the literal) × (wrapper depth of the
    type, or of the deepest input-object field, + widest input object + 2): input size × type depth. -/
theorem value_coercion_poly (E : Env) (v : Value) (t : Ty) (allow : Bool) :
    (coerce E v t allow).1 ≤ vsize v * (max t.wrap E.depth + E.width + 2) := by
  have := coerce_le E v t allow
  unfold coerceFactor at this
  omega

/-- **value_rule_poly** — the value rule over a whole document: for every document, every schema and
    every TypeInfo (`expected`: which values have an expected type, of wrapper depth ≤ T): the steps of all
    `validateCoercion` calls together are at most `(max T depth + width + 2) · |doc|`. -/
theorem value_rule_poly (E : Env) (expected : Value → Option Ty) (T : Nat)
    (hT : ∀ v t, expected v = some t → t.wrap ≤ T) (d : Document) :
    sweep (valueCost E expected) d ≤ (max T E.depth + E.width + 2) * ruleSize d := by
  refine sweepDefs_le ⟨fun _ _ => Nat.zero_le _, fun _ => Nat.zero_le _, fun v => ?_, fun _ => Nat.zero_le _⟩ d.defs
  simp only [valueCost, sizeCost]
  have hv := vsize_pos v
  cases he : expected v with
  | none =>
    simp only []
    calc 1 ≤ 2 * 1 := by omega
      _ ≤ (max T E.depth + E.width + 2) * vsize v := Nat.mul_le_mul (by omega) hv
  | some t =>
    simp only []
    have h1 := value_coercion_poly E v t true
    have h2 := hT v t he
    calc (coerce E v t true).1 ≤ vsize v * (max t.wrap E.depth + E.width + 2) := h1
      _ ≤ vsize v * (max T E.depth + E.width + 2) := Nat.mul_le_mul_left _ (by omega)
      _ = (max T E.depth + E.width + 2) * vsize v := Nat.mul_comm _ _

/-- **argument_rule_poly** — the argument rule over a whole document: when no field or directive has more
    than `A` argument definitions, the iterations of its two loops are at most `(A + 1) · |doc|`. -/
theorem argument_rule_poly (argDefs : Pos → Nat) (A : Nat) (hA : ∀ p, argDefs p ≤ A) (d : Document) :
    sweep (argumentCost argDefs) d ≤ (A + 1) * ruleSize d := by
  refine sweepDefs_le ⟨fun p as => ?_, fun _ => Nat.zero_le _, fun _ => Nat.zero_le _, fun _ => Nat.zero_le _⟩ d.defs
  simp only [argumentCost, sizeCost]
  have := hA p
  have h : as.length ≤ (A + 1) * as.length := Nat.le_mul_of_pos_left _ (by omega)
  simp only [Nat.mul_add, Nat.mul_one]
  omega

/-- **directive_rule_poly** — the directive rule over a whole document: when no directive definition
    lists more than `L` locations, the iterations of its loops are at most `(L + 1) · |doc|`. -/
theorem directive_rule_poly (locs : String → Nat) (L : Nat) (hL : ∀ n, locs n ≤ L) (d : Document) :
    sweep (directiveCost locs) d ≤ (L + 1) * ruleSize d := by
  refine sweepDefs_le ⟨fun _ _ => Nat.zero_le _, fun ds => ?_, fun _ => Nat.zero_le _, fun _ => Nat.zero_le _⟩ d.defs
  simp only [directiveCost, sizeCost]
  exact sum_dirs_le locs L hL ds

/-- **typeinfo_poly** — TypeInfo maintenance (`NewTypeInfo`) over a whole document: when no value's
    expected type is wrapped more than `T` deep, the iterations of its loops (items, fields, arguments,
    list unwrapping, type expressions of variable definitions) are at most `(T + 2) · |doc|`. -/
theorem typeinfo_poly (unwrap : Value → Nat) (T : Nat) (hT : ∀ v, unwrap v ≤ T) (d : Document) :
    sweep (typeInfoCost unwrap) d ≤ (T + 2) * ruleSize d := by
  refine sweepDefs_le ⟨fun p as => ?_, fun _ => Nat.zero_le _, fun v => ?_, fun v => ?_⟩ d.defs
  · simp only [typeInfoCost, sizeCost]
    exact Nat.le_mul_of_pos_left _ (by omega)
  · simp only [typeInfoCost, sizeCost]
    have := tiVal_le unwrap T hT v
    omega
  · simp only [typeInfoCost, sizeCost]
    exact Nat.le_mul_of_pos_left _ (by omega)

/-! ### Non-vacuity: the models count something -/

def rp0 : Pos := ⟨0, 0⟩
def rnm (s : String) : Name := ⟨s, rp0⟩

/-- input object 0: `{ a: [[Int!]!], b: In0, c: Int! }` -/
def ruleEnv : Env :=
  { inputs := [[⟨"a", .list (.nonNull (.list (.nonNull .scalar))), false⟩, ⟨"b", .obj 0, false⟩,
                ⟨"c", .nonNull .scalar, false⟩]],
    leafErr := fun _ _ => false }

/-- `{b: {b: {a: [[1, 2], [3]], c: 4}, c: 5}, c: 6}` against `In0!`: a deep input literal, coercible. -/
def ruleLit : Value :=
  .obj [(rnm "b", .obj [(rnm "b", .obj [(rnm "a", .list [.list [.int "1" rp0, .int "2" rp0] rp0 rp0, .list [.int "3" rp0] rp0 rp0] rp0 rp0),
                                     (rnm "c", .int "4" rp0)] rp0 rp0),
                       (rnm "c", .int "5" rp0)] rp0 rp0),
        (rnm "c", .int "6" rp0)] rp0 rp0

/-- 41 steps for 18 nodes; the bound of `value_coercion_poly` is 18 · (4 + 3 + 2) = 162. -/
example : coerce ruleEnv ruleLit (.nonNull (.obj 0)) true = (41, false) ∧ vsize ruleLit = 18 ∧
    ruleEnv.depth = 4 ∧ ruleEnv.width = 3 := by decide

/-- The item `3` stands where `[Int!]!` is expected inside a list literal: no item-to-list coercion
    there (`allowItemToListCoercion = false`), the walk stops at the first error. -/
example : (coerce ruleEnv (.list [.int "3" rp0] rp0 rp0) (.list (.list .scalar)) true).2 = true := by decide

example : (coerce ruleEnv (.int "3" rp0) (.list (.list .scalar)) true) = (3, false) := by decide

end ApiFu.C12
