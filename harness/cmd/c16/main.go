// Harness for C16 — time-based connections honour every filter and issue sufficient range queries.
//
// Real side: a TimeBasedConnection field served through apifu.API.ServeGraphQL (httptest) over a
// recording EdgeGetter (sync / promise / mixed delivery; ties at equal timestamps broken by id, by
// reverse id, or by a seeded shuffle), and pagination.TimeBasedRangeQueries called directly.
// Model side: lean/ApiFu/C16 (driver c16model). Model-free oracle: TimeRef (ref.go).
//
// The run happens in a child process: a panic on a promise goroutine (apifu.Go) cannot be recovered
// and kills the process; the parent then reports the case the child had announced last as a crash.
package main

import (
	"bufio"
	"encoding/json"
	"fmt"
	"os"
	"os/exec"
	"strings"
	"time"

	"verifharness/hx"
)

func ip(v int) *int      { return &v }
func i64(v int64) *int64 { return &v }

var base = time.Date(2020, 1, 1, 0, 0, 0, 0, time.UTC).UnixNano()

// multisets of size k over n timestamps (non-decreasing index sequences)
func multisets(n, k int) [][]int {
	var out [][]int
	var rec func(start int, cur []int)
	rec = func(start int, cur []int) {
		if len(cur) == k {
			out = append(out, append([]int{}, cur...))
			return
		}
		for i := start; i < n; i++ {
			rec(i, append(cur, i))
		}
	}
	rec(0, nil)
	return out
}

func main() {
	run := hx.Init("C16")
	if os.Getenv("C16_CHILD") == "" && run.Replay == "" {
		superviseChild(run)
		return
	}
	h := &harness{run: run, w: newWorld()}
	if f := os.NewFile(3, "announce"); f != nil && os.Getenv("C16_CHILD") != "" {
		h.announce = func(c Case) {
			if c.Async != "sync" {
				b, _ := json.Marshal(c)
				f.Write(append(b, '\n'))
			}
		}
	}
	if run.ModelPath != "" {
		m, err := hx.StartModel(run.ModelPath)
		if err != nil {
			fmt.Fprintln(os.Stderr, "cannot start model:", err)
			os.Exit(2)
		}
		h.model = m
		defer m.Close()
	}
	run.SetRule("served: every multiset of ≤3 (thorough ≤4) edges over the timestamps {t, t+1ns, t+1s(, t+2s)} with unique ids in seeded order × atOrAfterTime,beforeTime ∈ {absent} ∪ 4 instants × after,before ∈ {absent} ∪ cursors(D) ∪ 4 foreign cursors (an edge's instant with another id, before everything, an instant no edge carries — inside and outside the window) × first|last ∈ 0..|D|+1, getter tie-break ∈ {id, reverse-id, seeded}, delivery ∈ {sync, promise, mixed} and empty-range representation ∈ {empty slice, typed nil, untyped nil} seeded; walks for every page size × time window; the same over ≤2 edges on instants at both ends of the int64 nanosecond range; getter replies as fresh slices or (1 in 4) as windows of its own long-lived []any store, followed by a request for everything on that store; TimeBasedRangeQueries directly over cursors × windows × limits; far-away time bounds (years 1, 1000, 2500, 9999: outside the int64 nanosecond range) × cursors × counts; random larger data sets. explicit nulls for every subset of the absent arguments (literal and variable); one connection field resolved 2–3 times in one request (list of parents / aliases with a custom argument), each resolution with its own data set; codec tie for TimeBasedCursor (boundary values, hand-built and corrupted msgpack). distinct = distinct canonical case; non-trivial = the data set has a repeated timestamp and TimeRef's page is a non-empty proper part of it (served), the walk needs more than one page, a cursor is given (queries), a codec operation, at least two resolutions have edges (multi)")

	if run.Replay != "" {
		var c Case
		if err := hx.LoadReplayCase(run.Replay, &c); err != nil {
			fmt.Fprintln(os.Stderr, err)
			os.Exit(2)
		}
		h.verbose = true
		reEmit(&c)
		f := h.eval(c)
		fk := h.classify(c, f)
		fmt.Printf("replay: kind=%q oracle=%q finding=%q what=%q\n", f.Kind, f.Mode, fk, f.What)
		if !f.ok() {
			run.Violate(f.Kind, f.What, fk, f.Kind == "correspondence", c)
		}
		run.Finish(h.model)
		return
	}
	for _, f := range run.CorpusFiles() {
		var c Case
		if hx.LoadReplayCase(f, &c) == nil && c.Kind != "" {
			reEmit(&c)
			h.check(c)
			run.Count("corpus")
		}
	}

	R := run.Rand
	// ---- codec round trips
	for _, e := range []TEdge{{0, ""}, {1, "a"}, {-1, "ü"}, {base, "id"}, {base + 1, strings.Repeat("x", 40)}, {1<<62 - 1, "z"}, {-(1 << 62), "\x00"}, {255, "a b"}, {65536, "\"q\""}} {
		h.check(Case{Kind: "codec", Codec: &TEdge{e.T, e.Id}})
	}

	// ---- codec tie: the Lean codec model against SerializeCursor/DeserializeCursor of TimeBasedCursor (codec.go)
	tieStart := run.Elapsed()
	h.genCodecTie()
	run.Note("codec tie: %d cases in %.1f s", run.Distribution("kind:codectie"), (run.Elapsed() - tieStart).Seconds())

	// ---- the time universe
	times := []int64{base + 1e9, base + 1e9 + 1, base + 2e9}
	maxEdges := 3
	if run.Thorough() {
		times = append(times, base+3e9)
		maxEdges = 4
	}
	lo, hi := times[0]-1e9, times[len(times)-1]+1e9
	// bounds: before everything / on the timestamps / after everything
	atOrAfters := []*int64{nil, i64(times[0]), i64(times[1]), i64(times[2])}
	beforeTs := []*int64{nil, i64(times[1]), i64(times[2]), i64(hi)}
	if run.Thorough() {
		atOrAfters = append(atOrAfters, i64(hi))
		beforeTs = append(beforeTs, i64(lo))
	}
	idPool := []string{"a", "b", "c", "d", "e"}
	ties := tieNames
	asyncs := asyncNames

	// ---- pagination.TimeBasedRangeQueries directly, exhaustive over the universe
	var qcurs []*TEdge
	qcurs = append(qcurs, nil)
	for _, t := range append([]int64{lo}, append(append([]int64{}, times...), hi)...) {
		qcurs = append(qcurs, &TEdge{t, "m"})
	}
	for _, a := range qcurs {
		for _, b := range qcurs {
			for _, t1 := range atOrAfters {
				for _, t2 := range beforeTs {
					for _, lim := range []int{-3, -1, 1, 2} {
						h.check(Case{Kind: "queries", Q: &QCase{After: a, Before: b, AtOrAfter: t1, BeforeT: t2, Limit: lim}})
					}
				}
			}
		}
	}

	replyAs := func(r *hx.Rand) string {
		if r.Chance(1, 4) {
			return "store-window"
		}
		return ""
	}
	// ---- served, exhaustive over data sets × arguments
	exhaust := func(times []int64, maxEdges int, atOrAfters, beforeTs []*int64, lo int64) {
		for k := 0; k <= maxEdges; k++ {
			for _, ms := range multisets(len(times), k) {
				idp := append([]string{}, idPool...)
				hx.Shuffle(R, idp)
				var D []TEdge
				for i, ti := range ms {
					D = append(D, TEdge{times[ti], idp[i]})
				}
				hx.Shuffle(R, D)
				var curs []*CurArg
				curs = append(curs, nil)
				for _, e := range D {
					curs = append(curs, &CurArg{Kind: "emitted", T: e.T, Id: e.Id, S: emit(e)})
				}
				// foreign cursors: an edge's instant with a smaller / larger id, before everything, and an
				// instant that no edge of any data set carries (a stale or client-made cursor): its
				// exact-timestamp query is answered with an empty range
				for _, e := range []TEdge{{times[0], ""}, {times[1], "zz"}, {lo, "m"}, {times[1] + 5e8, "g"}} {
					curs = append(curs, &CurArg{Kind: "emitted", T: e.T, Id: e.Id, S: emit(e)})
				}
				for _, t1 := range atOrAfters {
					for _, t2 := range beforeTs {
						for _, a := range curs {
							for _, b := range curs {
								for n := 0; n <= k+1; n++ {
									for _, fwd := range []bool{true, false} {
										r := TReq{After: a, Before: b, AtOrAfter: t1, BeforeT: t2, SelPI: R.Chance(3, 4), SelTC: R.Chance(1, 4), Vars: R.Chance(1, 3), NullMask: nullMask(R)}
										if fwd {
											r.First = ip(n)
										} else {
											r.Last = ip(n)
										}
										tie := hx.Pick(R, ties)
										if R.Bool() {
											tie = "id"
										}
										h.add(Case{Kind: "served", D: D, Tie: tie, Async: hx.Pick(R, asyncs), Empty: hx.Pick(R, emptyNames), ReplyAs: replyAs(R), Seed: R.Uint64() >> 1, Req: &r})
									}
								}
							}
						}
						// walks for every page size under this time window
						for n := 1; n <= k+1; n++ {
							for _, fwd := range []bool{true, false} {
								tie := hx.Pick(R, ties)
								if R.Bool() {
									tie = "id"
								}
								h.check(Case{Kind: "walk", D: D, Tie: tie, Async: hx.Pick(R, asyncs), Empty: hx.Pick(R, emptyNames), ReplyAs: replyAs(R), Seed: R.Uint64() >> 1, Walk: &TWalk{Forward: fwd, N: n, AtOrAfter: t1, BeforeT: t2}})
							}
						}
					}
				}
			}
		}
	}
	exhaust(times, maxEdges, atOrAfters, beforeTs, lo)
	// the same over instants at both ends of the int64 nanosecond range (years 1677 and 2262: more
	// than 2^63 ns apart, so a difference of two cursor times does not fit an int64) around a
	// present-day one
	farLo, farHi := int64(-1<<63)+1e12, int64(1<<63-1)-1e12
	exhaust([]int64{farLo, base + 1e9, farHi}, 2, []*int64{nil, i64(base)}, []*int64{nil, i64(base + 2e9)}, farLo-1e9)
	run.SetExhaustive(true)

	// ---- count errors and arbitrary cursor strings (the struct-typed cursor must never crash)
	D3 := []TEdge{{times[0], "a"}, {times[0], "b"}, {times[2], "c"}}
	raws := []string{" ", "x", "!!!!", "AA", "wA", "kQE", "gaFhAQ", "ks8AAAAAO5rKAaFh", "ktMAAAAAO5rKAaFh", "ktMAAAAAO5rKAQ", "ktMAAAAAO5rKAcA", "k9MAAAAAO5rKAaFhAQ", "gqROYW5vAaJJZKFh", "gqROYW5vy0AJIftURC0YoklkoWE", "gaROYW5vAQ", emit(D3[0]) + "A", emit(D3[0])[:6], strings.ToUpper(emit(D3[0]))}
	for i := 0; i < 10; i++ {
		b := make([]byte, R.Range(1, 16))
		for j := range b {
			b[j] = "ABCDEFGHIJKLMNOPQRSTUVWXYZabcdefghijklmnopqrstuvwxyz0123456789-_"[R.Intn(64)]
		}
		raws = append(raws, string(b))
	}
	for _, s := range raws {
		for k := 0; k < 2; k++ {
			r := TReq{SelPI: true, Vars: R.Bool()}
			if k == 0 {
				r.First, r.After = ip(2), &CurArg{Kind: "raw", S: s}
			} else {
				r.Last, r.Before = ip(2), &CurArg{Kind: "raw", S: s}
			}
			h.add(Case{Kind: "served", D: D3, Tie: "id", Async: hx.Pick(R, asyncs), Empty: hx.Pick(R, emptyNames), ReplyAs: replyAs(R), Seed: R.Uint64() >> 1, Req: &r})
		}
	}
	for _, fl := range [][2]*int{{nil, nil}, {ip(-1), nil}, {nil, ip(-2)}, {ip(1), ip(1)}, {ip(0), ip(0)}} {
		r := TReq{First: fl[0], Last: fl[1], SelPI: true, AtOrAfter: i64(times[0])}
		h.add(Case{Kind: "served", D: D3, Tie: "id", Async: hx.Pick(R, asyncs), Empty: hx.Pick(R, emptyNames), ReplyAs: replyAs(R), Seed: R.Uint64() >> 1, Req: &r})
	}

	// ---- explicit nulls: every subset of the absent arguments spelled `null` (literal and variable),
	// with a count in either direction, alone and with a cursor and a time bound present
	for mask := 0; mask < 64; mask++ {
		for _, vars := range []bool{false, true} {
			for _, fwd := range []bool{true, false} {
				for _, n := range []int{0, 2} {
					for k := 0; k < 2; k++ {
						r := TReq{SelPI: true, SelTC: R.Chance(1, 4), Vars: vars, NullMask: mask}
						if fwd {
							r.First = ip(n)
						} else {
							r.Last = ip(n)
						}
						if k == 1 {
							e := D3[R.Intn(len(D3))]
							c := &CurArg{Kind: "emitted", T: e.T, Id: e.Id, S: emit(e)}
							if R.Bool() {
								r.After = c
							} else {
								r.Before = c
							}
							if R.Bool() {
								r.AtOrAfter = i64(times[0])
							} else {
								r.BeforeT = i64(times[len(times)-1])
							}
						}
						h.add(Case{Kind: "served", D: D3, Tie: "id", Async: hx.Pick(R, asyncs), Empty: hx.Pick(R, emptyNames), ReplyAs: replyAs(R), Seed: R.Uint64() >> 1, Req: &r})
					}
				}
			}
		}
	}

	// ---- one connection field resolved several times in one request (multi.go)
	h.genMulti(times)

	// ---- far-away time bounds (outside the int64 nanosecond range): a lower bound in the year 1000
	// and an upper bound in 9999 constrain nothing, the other way round they exclude everything
	farTexts := []string{"", "1000-01-01T00:00:00Z", "9999-12-31T23:59:59Z", "0001-01-01T00:00:00Z", "2500-06-01T12:00:00+05:00"}
	for _, D := range [][]TEdge{D3, {{times[0], "a"}}, {{int64(-1<<63) + 1e12, "p"}, {times[1], "q"}, {int64(1<<63-1) - 1e12, "r"}}} {
		var curs []*CurArg
		curs = append(curs, nil, &CurArg{Kind: "emitted", T: D[0].T, Id: D[0].Id, S: emit(D[0])})
		for _, t1 := range farTexts {
			for _, t2 := range farTexts {
				if t1 == "" && t2 == "" {
					continue
				}
				bounds := func(r *TReq) {
					if t1 != "" {
						r.AtOrAfterText, r.AtOrAfter = t1, farBound(t1)
					} else if R.Bool() {
						r.AtOrAfter = i64(times[0])
					}
					if t2 != "" {
						r.BeforeText, r.BeforeT = t2, farBound(t2)
					} else if R.Bool() {
						r.BeforeT = i64(times[2])
					}
				}
				for _, cur := range curs {
					for n := 0; n <= len(D)+1; n++ {
						for _, fwd := range []bool{true, false} {
							r := TReq{SelPI: true, SelTC: R.Chance(1, 4), Vars: R.Bool()}
							bounds(&r)
							if fwd {
								r.First, r.After = ip(n), cur
							} else {
								r.Last, r.Before = ip(n), cur
							}
							h.add(Case{Kind: "served", D: D, Tie: "id", Async: hx.Pick(R, asyncs), Empty: hx.Pick(R, emptyNames), ReplyAs: replyAs(R), Seed: R.Uint64() >> 1, Req: &r})
						}
					}
				}
				var wr TReq
				bounds(&wr)
				h.check(Case{Kind: "walk", D: D, Tie: "id", Async: hx.Pick(R, asyncs), Seed: R.Uint64() >> 1, Walk: &TWalk{Forward: R.Bool(), N: 1, AtOrAfter: wr.AtOrAfter, BeforeT: wr.BeforeT, AtOrAfterText: wr.AtOrAfterText, BeforeText: wr.BeforeText}})
			}
		}
	}

	// ---- random larger data sets: many edges per timestamp, requests and walks
	for i := 0; i < run.Scale(1500, 30000); i++ {
		r := R.Fork()
		nT := r.Range(1, 5)
		ts := make([]int64, nT)
		for j := range ts {
			switch r.Intn(4) {
			case 3:
				ts[j] = hx.Pick(r, []int64{int64(-1<<63) + 1e12, -8e18, base, 8e18, int64(1<<63-1) - 1e12}) + int64(r.Range(-2, 2))
			case 0:
				ts[j] = base + int64(r.Range(0, 4))
			case 1:
				ts[j] = base + int64(r.Range(0, 4))*1e9
			default:
				ts[j] = base + int64(r.Range(-3, 3))*1e9 + int64(r.Range(-2, 2))
			}
		}
		n := r.Range(0, run.Scale(10, 40))
		var D []TEdge
		for j := 0; j < n; j++ {
			id := fmt.Sprintf("%c%d", 'a'+byte(r.Intn(3)), j)
			if r.Chance(1, 8) {
				id = strings.Repeat("a", j%4) + fmt.Sprint(j)
			}
			D = append(D, TEdge{hx.Pick(r, ts), id})
		}
		hx.Shuffle(r, D)
		pickT := func() *int64 {
			if r.Chance(1, 2) {
				return nil
			}
			return i64(hx.Pick(r, ts) + int64(r.Range(-1, 1)))
		}
		tie := hx.Pick(r, ties)
		if r.Chance(2, 3) {
			tie = "id"
		}
		async := hx.Pick(r, asyncs)
		if r.Chance(1, 4) {
			h.check(Case{Kind: "walk", D: D, Tie: tie, Async: async, Empty: hx.Pick(r, emptyNames), ReplyAs: replyAs(r), Seed: r.Uint64() >> 1, Walk: &TWalk{Forward: r.Bool(), N: r.Range(1, n/2+1), AtOrAfter: pickT(), BeforeT: pickT()}})
			continue
		}
		pickCur := func() *CurArg {
			switch r.Intn(4) {
			case 0:
				return nil
			case 1:
				e := TEdge{hx.Pick(r, ts) + int64(r.Range(-1, 1)), hx.Pick(r, []string{"", "a", "b1", "zz"})}
				return &CurArg{Kind: "emitted", T: e.T, Id: e.Id, S: emit(e)}
			default:
				if len(D) == 0 {
					return nil
				}
				e := hx.Pick(r, D)
				return &CurArg{Kind: "emitted", T: e.T, Id: e.Id, S: emit(e)}
			}
		}
		rq := TReq{After: pickCur(), Before: pickCur(), AtOrAfter: pickT(), BeforeT: pickT(), SelPI: r.Chance(3, 4), SelTC: r.Chance(1, 4), Vars: r.Bool(), NullMask: nullMask(r)}
		if r.Bool() {
			rq.First = ip(r.Range(0, n+1))
		} else {
			rq.Last = ip(r.Range(0, n+1))
		}
		c := Case{Kind: "served", D: D, Tie: tie, Async: async, Empty: hx.Pick(r, emptyNames), ReplyAs: replyAs(r), Seed: r.Uint64() >> 1, Req: &rq}
		h.add(c)
		if i < 3 {
			run.Sample(c)
		}
	}
	h.flush()
	run.Note("timestamps %v (offsets from 2020-01-01T00:00:00Z in ns), data sets of ≤ %d edges", func() []int64 {
		var o []int64
		for _, t := range times {
			o = append(o, t-base)
		}
		return o
	}(), maxEdges)
	run.Finish(h.model)
}

// reEmit recomputes the cursor string of "emitted" arguments of a loaded case from (T, Id), so that
// hand-written corpus files need not carry base64.
func reEmit(c *Case) {
	if c.Req == nil {
		return
	}
	for _, a := range []*CurArg{c.Req.After, c.Req.Before} {
		if a != nil && a.Kind == "emitted" {
			a.S = emit(TEdge{a.T, a.Id})
		}
	}
}

// superviseChild re-executes the harness as a child process and turns its death into a crash
// violation carrying the last case it announced.
func superviseChild(run *hx.Run) {
	cmd := exec.Command(os.Args[0], os.Args[1:]...)
	cmd.Env = append(os.Environ(), "C16_CHILD=1")
	pr, pw, err := os.Pipe()
	if err != nil {
		fmt.Fprintln(os.Stderr, err)
		os.Exit(2)
	}
	cmd.ExtraFiles = []*os.File{pw}
	cmd.Stdout = os.Stdout
	var tail tailBuf
	cmd.Stderr = &tail
	if err := cmd.Start(); err != nil {
		fmt.Fprintln(os.Stderr, err)
		os.Exit(2)
	}
	pw.Close()
	last := ""
	sc := bufio.NewScanner(pr)
	sc.Buffer(make([]byte, 1<<20), 1<<24)
	for sc.Scan() {
		last = sc.Text()
	}
	err = cmd.Wait()
	if err == nil {
		return
	}
	var c Case
	json.Unmarshal([]byte(last), &c)
	msg := tail.String()
	if i := strings.Index(msg, "panic:"); i >= 0 {
		msg = msg[i:]
	}
	if len(msg) > 600 {
		msg = msg[:600]
	}
	run.Oblige("oracle: no crash", "oracle", 1, false, msg)
	run.Violate("crash", "the server process died while serving a request through a promise: "+msg, "", last == "", c)
	run.Finish(nil)
}

type tailBuf struct{ b []byte }

func (t *tailBuf) Write(p []byte) (int, error) {
	t.b = append(t.b, p...)
	if len(t.b) > 1<<16 {
		t.b = t.b[len(t.b)-1<<15:]
	}
	os.Stderr.Write(p)
	return len(p), nil
}

func (t *tailBuf) String() string { return string(t.b) }
